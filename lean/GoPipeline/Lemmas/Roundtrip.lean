/-
  C09 — the normal form is a fixpoint: lemmas about `Model/Roundtrip.lean` (what re-reading the
  marshalled JSON yields) composed with the parse model and the marshalling model.

  Architecture.
  * Part 0: association lists / Go map stores: a strictly key-sorted list is a fixpoint of `umapOf`,
    two strictly key-sorted lists with the same lookups are equal (`sortedK_ext`, generic), `rereadJKVs`
    as a map over the entries.
  * Part 1: untyped content: `reread_noUMap`, `config_roundtrip`.
  * Part 2: the struct level. `reread_inline` describes the re-read image of `inlineFriendly outline rem`
    by its lookups; `fieldOf_afKey` reads a field of an alias-free descriptor as a lookup;
    `rem_roundtrip` / `rem_roundtrip_af` show that the inline remainder comes back.
  * Part 3: components (plugins, env, signature, matrix, cache).
  * Part 4: `norm_idempotent`.
  * Part 5: command step.  Part 6: steps (induction on the fuel).  Part 7: pipeline.
-/
import GoPipeline.Model.Roundtrip
import GoPipeline.Lemmas.Unmarshal
import GoPipeline.Lemmas.Parse13
import GoPipeline.Lemmas.PluginSource
import GoPipeline.Lemmas.PluginSourceIdem
set_option linter.unusedSimpArgs false
set_option linter.unusedVariables false
namespace GoPipeline.Roundtrip
open GoPipeline GoPipeline.Pipe GoPipeline.Parse GoPipeline.Marshal GoPipeline.Unm

/-! ## Part 0: association lists and Go map stores

  `Lemmas/Parse03.lean` and `Lemmas/Parse13.lean` cannot be imported together (both declare
  `GoPipeline.Parse.mSteps_cons`, `fieldOf_cons`, …); this file imports `Parse13` and restates the few
  generic association-list facts of `Parse03` it needs (same statements, same proofs). -/

theorem lookup_cons_if {β : Type} (k f : String) (v : β) (r : List (String × β)) :
    ((k, v) :: r).lookup f = if f = k then some v else r.lookup f := by
  rw [List.lookup_cons]
  by_cases h : f = k
  · simp [h]
  · have : (f == k) = false := by simpa using h
    simp [h, this]

theorem lookup_none_of_not_mem {β : Type} {k : String} : {l : List (String × β)} →
    k ∉ l.map (·.1) → l.lookup k = none
  | [], _ => rfl
  | (k0, v0) :: r, h => by
    simp only [List.map_cons, List.mem_cons, not_or] at h
    rw [lookup_cons_if, if_neg h.1]
    exact lookup_none_of_not_mem h.2

theorem lookup_filter_key {β : Type} (p : String → Bool) (k : String) : (l : List (String × β)) →
    (l.filter (fun e => p e.1)).lookup k = if p k then l.lookup k else none
  | [] => by simp
  | (k0, v0) :: r => by
    have ih := lookup_filter_key p k r
    rw [List.filter_cons]
    by_cases hp : p k0 = true
    · rw [if_pos hp, lookup_cons_if, lookup_cons_if, ih]
      by_cases e : k = k0
      · simp [e, hp]
      · simp [e]
    · rw [if_neg hp, lookup_cons_if, ih]
      by_cases e : k = k0
      · subst e; simp [hp]
      · simp [e]

theorem lookup_umapInsert {α : Type} (k : String) (v : α) (k' : String) (m : List (String × α)) :
    (Parse.umapInsert k v m).lookup k' = if k' = k then some v else m.lookup k' := by
  induction m with
  | nil => simp [Parse.umapInsert, lookup_cons_if]
  | cons p r ih =>
    obtain ⟨k0, v0⟩ := p
    unfold Parse.umapInsert
    split
    · rename_i h
      have h : k = k0 := by simpa using h
      subst h
      by_cases h : k' = k <;> simp [lookup_cons_if, h]
    · rename_i hne
      have hne : k ≠ k0 := by simpa using hne
      split
      · simp [lookup_cons_if]
      · simp only [lookup_cons_if, ih]
        by_cases h : k' = k
        · subst h; simp [hne]
        · simp [h]

theorem mem_umapInsert {α : Type} {k : String} {v : α} {p : String × α} : {m : List (String × α)} →
    p ∈ Parse.umapInsert k v m → p = (k, v) ∨ p ∈ m
  | [], h => by simpa [Parse.umapInsert] using h
  | (k0, v0) :: r, h => by
    unfold Parse.umapInsert at h
    split at h
    · rcases List.mem_cons.1 h with h | h
      · exact .inl h
      · exact .inr (List.mem_cons_of_mem _ h)
    · split at h
      · rcases List.mem_cons.1 h with h | h
        · exact .inl h
        · exact .inr h
      · rcases List.mem_cons.1 h with h | h
        · exact .inr (h ▸ List.mem_cons_self)
        · rcases mem_umapInsert h with h | h
          · exact .inl h
          · exact .inr (List.mem_cons_of_mem _ h)

/-- Sorted by key, strictly. -/
def SortedK {α : Type} (l : List (String × α)) : Prop := l.Pairwise (fun p q => p.1 < q.1)

theorem str_lt_of_not {a b : String} (h1 : a ≠ b) (h2 : ¬ a < b) : b < a := by
  rcases Classical.em (b < a) with h | h
  · exact h
  · exact absurd (String.le_antisymm (String.not_lt.1 h) (String.not_lt.1 h2)) h1

theorem sortedK_umapInsert {α : Type} (k : String) (v : α) : (m : List (String × α)) → SortedK m →
    SortedK (Parse.umapInsert k v m)
  | [], _ => by simp [Parse.umapInsert, SortedK]
  | (k0, v0) :: r, h => by
    unfold SortedK at h ⊢
    rw [List.pairwise_cons] at h
    unfold Parse.umapInsert
    split
    · rename_i e
      have e : k = k0 := by simpa using e
      subst e
      exact List.pairwise_cons.2 ⟨h.1, h.2⟩
    · rename_i hne
      have hne : k ≠ k0 := by simpa using hne
      split
      · rename_i hlt
        refine List.pairwise_cons.2 ⟨fun q hq => ?_, List.pairwise_cons.2 h⟩
        rcases List.mem_cons.1 hq with rfl | hq
        · exact hlt
        · exact String.lt_trans hlt (h.1 q hq)
      · rename_i hlt
        refine List.pairwise_cons.2 ⟨fun q hq => ?_, sortedK_umapInsert k v r h.2⟩
        rcases mem_umapInsert hq with rfl | hq
        · exact str_lt_of_not hne hlt
        · exact h.1 q hq

theorem sortedK_foldl {α : Type} : (l acc : List (String × α)) → SortedK acc →
    SortedK (l.foldl (fun acc p => Parse.umapInsert p.1 p.2 acc) acc)
  | [], _, h => h
  | p :: r, acc, h => by
    rw [List.foldl_cons]
    exact sortedK_foldl r _ (sortedK_umapInsert _ _ _ h)

theorem sortedK_umapOf {α : Type} (l : List (String × α)) : SortedK (Parse.umapOf l) :=
  sortedK_foldl l [] List.Pairwise.nil

theorem nodup_keys_of_sortedK {α : Type} {l : List (String × α)} (hs : SortedK l) : (l.map (·.1)).Nodup := by
  unfold SortedK at hs
  rw [List.Nodup, List.pairwise_map]
  exact hs.imp (fun {a b} h e => by rw [e] at h; exact String.lt_irrefl _ h)

theorem lookup_foldl_not_mem {α : Type} {k : String} : (l acc : List (String × α)) → k ∉ l.map (·.1) →
    (l.foldl (fun acc p => Parse.umapInsert p.1 p.2 acc) acc).lookup k = acc.lookup k
  | [], _, _ => rfl
  | (k0, v0) :: r, acc, h => by
    simp only [List.map_cons, List.mem_cons, not_or] at h
    rw [List.foldl_cons, lookup_foldl_not_mem r _ h.2, lookup_umapInsert, if_neg h.1]

theorem lookup_foldl_nodup {α : Type} {k : String} : (l acc : List (String × α)) → (l.map (·.1)).Nodup →
    (l.foldl (fun acc p => Parse.umapInsert p.1 p.2 acc) acc).lookup k =
      match l.lookup k with
      | some v => some v
      | none => acc.lookup k
  | [], _, _ => rfl
  | (k0, v0) :: r, acc, h => by
    simp only [List.map_cons, List.nodup_cons] at h
    rw [List.foldl_cons, lookup_foldl_nodup r _ h.2, lookup_cons_if, lookup_umapInsert]
    by_cases e : k = k0
    · subst e
      rw [lookup_none_of_not_mem h.1]
      simp
    · simp [e]

theorem lookup_umapOf_nodup {α : Type} {l : List (String × α)} (h : (l.map (·.1)).Nodup) (k : String) :
    (Parse.umapOf l).lookup k = l.lookup k := by
  unfold Parse.umapOf
  rw [lookup_foldl_nodup l [] h]
  cases l.lookup k <;> rfl

theorem marshal_umapInsert_eq (k : String) (v : Val) (m : List (String × Val)) :
    Marshal.umapInsert k v m = Parse.umapInsert k v m := by
  induction m with
  | nil => rfl
  | cons p r ih =>
    obtain ⟨k0, v0⟩ := p
    simp only [Marshal.umapInsert, Parse.umapInsert, ih]

theorem marshal_umapOf_eq (l : List (String × Val)) : Marshal.umapOf l = Parse.umapOf l := by
  unfold Marshal.umapOf Parse.umapOf
  congr 1
  funext acc p
  exact marshal_umapInsert_eq _ _ _

theorem lookup_remainder (m : Entries) (fs : List Field) (k : String) :
    (remainder m fs).lookup k = if k ∈ outlineKeys m fs then none else m.lookup k := by
  unfold remainder
  rw [lookup_filter_key (fun k => !(outlineKeys m fs).contains k)]
  by_cases h : k ∈ outlineKeys m fs <;> simp [h]

theorem map_ok_iff {ε α β : Type} {f : α → β} {x : Except ε α} {b : β} :
    x.map f = .ok b ↔ ∃ a, x = .ok a ∧ b = f a := by
  cases x with
  | error e => simp [Except.map]
  | ok a =>
    simp only [Except.map, Except.ok.injEq, exists_eq_left']
    exact ⟨fun h => h.symm, fun h => h.symm⟩

/-! ### Sorted lists -/

theorem sortedK_lookup {α : Type} {l : List (String × α)} (hs : SortedK l) {k : String} {v : α} :
    (k, v) ∈ l ↔ l.lookup k = some v := by
  induction l with
  | nil => simp
  | cons p r ih =>
    obtain ⟨k0, v0⟩ := p
    unfold SortedK at hs
    rw [List.pairwise_cons] at hs
    rw [lookup_cons_if, List.mem_cons]
    by_cases e : k = k0
    · subst e
      simp only [if_true, Option.some.injEq, Prod.mk.injEq, true_and]
      constructor
      · rintro (h | h)
        · exact h.symm
        · exact absurd (hs.1 _ h) (String.lt_irrefl _)
      · intro h; exact .inl h.symm
    · simp only [e, if_false, Prod.mk.injEq, false_and, false_or]
      exact ih hs.2

theorem sortedK_nodup {α : Type} {l : List (String × α)} (hs : SortedK l) : l.Nodup := by
  unfold SortedK at hs
  exact hs.imp (fun {a b} h e => by subst e; exact String.lt_irrefl _ h)

/-- Strictly key-sorted lists with equal lookups are equal. -/
theorem sortedK_ext {α : Type} {l₁ l₂ : List (String × α)} (h₁ : SortedK l₁) (h₂ : SortedK l₂)
    (h : ∀ f, l₁.lookup f = l₂.lookup f) : l₁ = l₂ := by
  have hp : l₁.Perm l₂ := by
    rw [List.perm_ext_iff_of_nodup (sortedK_nodup h₁) (sortedK_nodup h₂)]
    rintro ⟨k, v⟩
    rw [sortedK_lookup h₁, sortedK_lookup h₂, h]
  exact List.Perm.eq_of_pairwise (fun a b _ _ hab hba => absurd hba (String.lt_asymm hab)) h₁ h₂ hp

theorem sortedK_sublist {α : Type} {l₁ l₂ : List (String × α)} (h : l₁.Sublist l₂) (hs : SortedK l₂) :
    SortedK l₁ := List.Pairwise.sublist h hs

theorem sortedK_singleton {α : Type} (p : String × α) : SortedK [p] := by
  simp [SortedK]

/-- Storing a key larger than every stored key appends. -/
theorem umapInsert_append {α : Type} (k : String) (v : α) : (acc : List (String × α)) →
    (∀ p ∈ acc, p.1 < k) → Parse.umapInsert k v acc = acc ++ [(k, v)]
  | [], _ => rfl
  | (k0, v0) :: r, h => by
    have h0 : k0 < k := h (k0, v0) List.mem_cons_self
    have hne : (k == k0) = false := by
      simp only [beq_eq_false_iff_ne, ne_eq]
      intro e; subst e; exact String.lt_irrefl _ h0
    have hnlt : ¬ k < k0 := fun hlt => String.lt_asymm hlt h0
    unfold Parse.umapInsert
    simp only [hne, Bool.false_eq_true, if_false, hnlt, List.cons_append]
    rw [umapInsert_append k v r (fun p hp => h p (List.mem_cons_of_mem _ hp))]

theorem foldl_sorted {α : Type} : (l acc : List (String × α)) → SortedK (acc ++ l) →
    l.foldl (fun acc p => Parse.umapInsert p.1 p.2 acc) acc = acc ++ l
  | [], acc, _ => by simp
  | (k, v) :: r, acc, h => by
    rw [List.foldl_cons]
    have hlt : ∀ p ∈ acc, p.1 < k := by
      intro p hp
      unfold SortedK at h
      rw [List.pairwise_append] at h
      exact h.2.2 p hp (k, v) List.mem_cons_self
    rw [umapInsert_append k v acc hlt, foldl_sorted r (acc ++ [(k, v)]) (by simpa using h)]
    simp

/-- A strictly key-sorted list is a fixpoint of the map store. -/
theorem umapOf_sorted {α : Type} {l : List (String × α)} (h : SortedK l) : Parse.umapOf l = l := by
  unfold Parse.umapOf
  rw [foldl_sorted l [] (by simpa using h)]
  rfl

theorem umapOf_umapOf {α : Type} (l : List (String × α)) : Parse.umapOf (Parse.umapOf l) = Parse.umapOf l :=
  umapOf_sorted (sortedK_umapOf l)

theorem mem_foldl_umapInsert {α : Type} {q : String × α} : (l acc : List (String × α)) →
    q ∈ l.foldl (fun acc p => Parse.umapInsert p.1 p.2 acc) acc → q ∈ l ∨ q ∈ acc
  | [], _, h => .inr h
  | p :: r, acc, h => by
    rw [List.foldl_cons] at h
    rcases mem_foldl_umapInsert r _ h with h | h
    · exact .inl (List.mem_cons_of_mem _ h)
    · rcases mem_umapInsert h with h | h
      · exact .inl (h ▸ List.mem_cons_self)
      · exact .inr h

theorem mem_umapOf {α : Type} {q : String × α} {l : List (String × α)} (h : q ∈ Parse.umapOf l) : q ∈ l := by
  rcases mem_foldl_umapInsert l [] h with h | h
  · exact h
  · cases h

theorem lookup_none_iff {α : Type} {l : List (String × α)} {k : String} :
    l.lookup k = none ↔ k ∉ l.map (·.1) := by
  constructor
  · intro h hm
    obtain ⟨v, hv⟩ := mem_keys_lookup_some hm
    rw [h] at hv; cases hv
  · exact lookup_none_of_not_mem

theorem lookup_map_val {α β : Type} (g : α → β) (k : String) : (l : List (String × α)) →
    (l.map fun p => (p.1, g p.2)).lookup k = (l.lookup k).map g
  | [] => rfl
  | (k0, v0) :: r => by
    rw [List.map_cons, lookup_cons_if, lookup_cons_if, lookup_map_val g k r]
    by_cases e : k = k0 <;> simp [e]

theorem mem_of_lookup {β : Type} {k : String} {v : β} : {l : List (String × β)} → l.lookup k = some v → (k, v) ∈ l
  | [], h => by simp at h
  | (k0, v0) :: r, h => by
    rw [lookup_cons_if] at h
    by_cases e : k = k0
    · subst e
      simp only [if_true, Option.some.injEq] at h
      subst h
      exact List.mem_cons_self
    · rw [if_neg e] at h
      exact List.mem_cons_of_mem _ (mem_of_lookup h)

/-! ### `rereadJ` on entry lists -/

theorem rereadJKVs_eq_map : (l : List (String × Val)) → rereadJKVs l = l.map fun p => (p.1, rereadJ p.2)
  | [] => rfl
  | (k, v) :: r => by rw [rereadJKVs, rereadJKVs_eq_map r]; rfl

theorem rereadJList_eq_map : (l : List Val) → rereadJList l = l.map rereadJ
  | [] => rfl
  | v :: r => by rw [rereadJList, rereadJList_eq_map r]; rfl

theorem lookup_rereadJKVs (l : List (String × Val)) (k : String) :
    (rereadJKVs l).lookup k = (l.lookup k).map rereadJ := by
  rw [rereadJKVs_eq_map, lookup_map_val]

theorem keys_rereadJKVs (l : List (String × Val)) : (rereadJKVs l).map (·.1) = l.map (·.1) := by
  rw [rereadJKVs_eq_map, List.map_map]; rfl

theorem sortedK_rereadJKVs {l : List (String × Val)} (h : SortedK l) : SortedK (rereadJKVs l) := by
  rw [rereadJKVs_eq_map]
  unfold SortedK at h ⊢
  rw [List.pairwise_map]
  exact h

theorem noUMapKVs_iff : (l : List (String × Val)) → (NoUMapKVs l ↔ ∀ p ∈ l, NoUMap p.2)
  | [] => by simp [NoUMapKVs]
  | (k, v) :: r => by
    rw [NoUMapKVs, noUMapKVs_iff r]
    simp

theorem noUMapList_iff : (l : List Val) → (NoUMapList l ↔ ∀ p ∈ l, NoUMap p)
  | [] => by simp [NoUMapList]
  | v :: r => by
    rw [NoUMapList, noUMapList_iff r]
    simp

/-! ## Part 1: untyped content -/

mutual
  theorem reread_noUMap : (v : Val) → NoUMap v → rereadJ v = v
    | .null, _ | .bool _, _ | .int _, _ | .float _, _ | .time _, _ | .str _, _ => by simp [rereadJ]
    | .seq xs, h => by
      rw [rereadJ, reread_noUMapList xs (by simpa [NoUMap] using h)]
    | .omap kvs, h => by
      rw [rereadJ, reread_noUMapKVs kvs (by simpa [NoUMap] using h)]
    | .umap _, h => by simp [NoUMap] at h
  theorem reread_noUMapList : (xs : List Val) → NoUMapList xs → rereadJList xs = xs
    | [], _ => rfl
    | x :: r, h => by
      rw [NoUMapList] at h
      rw [rereadJList, reread_noUMap x h.1, reread_noUMapList r h.2]
  theorem reread_noUMapKVs : (kvs : List (String × Val)) → NoUMapKVs kvs → rereadJKVs kvs = kvs
    | [], _ => rfl
    | (k, v) :: r, h => by
      rw [NoUMapKVs] at h
      rw [rereadJKVs, reread_noUMap v h.1, reread_noUMapKVs r h.2]
end

theorem rereadJKVs_of_forall {l : List (String × Val)} (h : ∀ p ∈ l, NoUMap p.2) : rereadJKVs l = l :=
  reread_noUMapKVs l ((noUMapKVs_iff l).2 h)

theorem toMapRecKVs_eq_map : (l : List (String × Val)) → toMapRecKVs l = l.map fun p => (p.1, toMapRec p.2)
  | [] => rfl
  | (k, v) :: r => by rw [toMapRecKVs, toMapRecKVs_eq_map r]; rfl

/-- Entries that are `ToMapRecursive` images stable under re-reading: the entry list is rebuilt. -/
theorem toMapRecKVs_reread : (l : List (String × Val)) → (∀ p ∈ l, toMapRec (rereadJ p.2) = p.2) →
    toMapRecKVs (rereadJKVs l) = l
  | [], _ => rfl
  | (k, v) :: r, h => by
    rw [rereadJKVs, toMapRecKVs, h (k, v) List.mem_cons_self,
      toMapRecKVs_reread r (fun p hp => h p (List.mem_cons_of_mem _ hp))]

mutual
  theorem config_roundtrip : (v : Val) → NoUMap v → toMapRec (rereadJ (toMapRec v)) = toMapRec v
    | .null, _ | .bool _, _ | .int _, _ | .float _, _ | .time _, _ | .str _, _ => by simp [toMapRec, rereadJ]
    | .seq xs, h => by
      rw [toMapRec, rereadJ, toMapRec, config_roundtripList xs (by simpa [NoUMap] using h)]
    | .omap kvs, h => by
      have hk := config_roundtripKVs kvs (by simpa [NoUMap] using h)
      rw [toMapRec, rereadJ, toMapRec]
      have hm : ∀ p ∈ Parse.umapOf (toMapRecKVs kvs), toMapRec (rereadJ p.2) = p.2 :=
        fun p hp => hk p (mem_umapOf hp)
      rw [toMapRecKVs_reread _ hm, umapOf_umapOf]
    | .umap _, h => by simp [NoUMap] at h
  theorem config_roundtripList : (xs : List Val) → NoUMapList xs →
      toMapRecList (rereadJList (toMapRecList xs)) = toMapRecList xs
    | [], _ => rfl
    | x :: r, h => by
      rw [NoUMapList] at h
      rw [toMapRecList, rereadJList, toMapRecList, config_roundtrip x h.1, config_roundtripList r h.2]
  theorem config_roundtripKVs : (kvs : List (String × Val)) → NoUMapKVs kvs →
      ∀ p ∈ toMapRecKVs kvs, toMapRec (rereadJ p.2) = p.2
    | [], _ => by simp [toMapRecKVs]
    | (k, v) :: r, h => by
      rw [NoUMapKVs] at h
      intro p hp
      rw [toMapRecKVs] at hp
      rcases List.mem_cons.1 hp with rfl | hp
      · exact config_roundtrip v h.1
      · exact config_roundtripKVs r h.2 p hp
end

/-! ## Part 2: the struct level -/

theorem lookup_reread_of_noUMap {l : List (String × Val)} (h : ∀ p ∈ l, NoUMap p.2) (k : String) :
    (l.lookup k).map rereadJ = l.lookup k := by
  cases hl : l.lookup k with
  | none => rfl
  | some v =>
    have := h (k, v) (mem_of_lookup hl)
    simp [reread_noUMap v this]

theorem noUMap_of_lookup {l : List (String × Val)} (h : NoUMapKVs l) {k : String} {v : Val}
    (hl : l.lookup k = some v) : NoUMap v :=
  (noUMapKVs_iff l).1 h (k, v) (mem_of_lookup hl)

/-- The re-read image of `inlineFriendlyMarshalJSON`, by lookups: outline entries win, every other key
    reads the inline entry. -/
theorem reread_inline (outline : List (String × Val)) (rem : UMap Val)
    (hout : (outline.map (·.1)).Nodup) (hrem : SortedK (rem.getD [])) (hnu : ∀ p ∈ rem.getD [], NoUMap p.2) :
    ∃ U, rereadJ (inlineFriendly outline rem) = .omap U ∧ SortedK U ∧
      ∀ k, U.lookup k = match outline.lookup k with
        | some v => some (rereadJ v)
        | none => (rem.getD []).lookup k := by
  refine ⟨_, rfl, ?_, ?_⟩
  · rw [marshal_umapOf_eq]
    exact sortedK_rereadJKVs (sortedK_umapOf _)
  · intro k
    rw [lookup_rereadJKVs, marshal_umapOf_eq]
    unfold Parse.umapOf
    rw [List.foldl_append, lookup_foldl_nodup _ _ hout]
    cases ho : outline.lookup k with
    | some v => rfl
    | none =>
      have hk : k ∉ outline.map (·.1) := lookup_none_iff.1 ho
      have hn' : ((List.filter (fun p => !(outline.map (·.1)).contains p.1) (rem.getD [])).map (·.1)).Nodup :=
        (nodup_keys_of_sortedK hrem).sublist (List.filter_sublist.map _)
      have hp : (!(outline.map (·.1)).contains k) = true := by simpa using hk
      have hl := lookup_filter_key (fun k => !(outline.map (·.1)).contains k) k (rem.getD [])
      rw [if_pos hp] at hl
      simp only []
      rw [lookup_foldl_nodup _ [] hn', hl]
      cases hr : (rem.getD []).lookup k with
      | none => rfl
      | some v =>
        have := hnu (k, v) (mem_of_lookup hr)
        simp [reread_noUMap v this]

/-! ### Reading a field of a descriptor as a lookup -/

theorem fieldOf_taken_none' {m : Entries} {n : String} : {fs : List Field} → n ∉ fs.map Field.name →
    fieldOf (taken m fs) n = none
  | [], _ => rfl
  | f :: r, h => by
    simp only [List.map_cons, List.mem_cons, not_or] at h
    rw [fieldOf_taken_skip m f r n (fun e => h.1 e.symm)]
    exact fieldOf_taken_none' h.2

/-- The yaml key of the field called `n`, provided that field is ordinary, has no alias and no later
    field has the same name. -/
def afKey : List Field → String → Option String
  | [], _ => none
  | f :: r, n =>
    if f.name = n then
      (if f.role = .normal ∧ f.aliases = [""] ∧ n ∉ r.map Field.name then some f.key else none)
    else afKey r n

theorem fieldOf_afKey {m : Entries} {n k : String} : {fs : List Field} → afKey fs n = some k →
    fieldOf (taken m fs) n = m.lookup k
  | [], h => by simp [afKey] at h
  | f :: r, h => by
    unfold afKey at h
    by_cases hn : f.name = n
    · rw [if_pos hn] at h
      split at h
      · rename_i hc
        injection h with h
        rw [fieldOf_taken_hit m f r n hn hc.1 hc.2.1 (fieldOf_taken_none' hc.2.2), h]
      · cases h
    · rw [if_neg hn] at h
      rw [fieldOf_taken_skip m f r n hn]
      exact fieldOf_afKey h

/-! ### The inline remainder -/

theorem remMap_getD (rest : Entries) : (remMap rest).getD [] = Parse.umapOf rest := by
  unfold remMap
  cases rest with
  | nil => rfl
  | cons p r => rfl

/-- What the parser guarantees about an inline remainder. -/
structure RemOK (fs : List Field) (rem : UMap Val) : Prop where
  sorted : SortedK (rem.getD [])
  noUMap : ∀ p ∈ rem.getD [], NoUMap p.2
  prim : ∀ f ∈ fs, f.role = .normal → (rem.getD []).lookup f.key = none

theorem mem_keys_umapOf {α : Type} {l : List (String × α)} {k : String} (h : k ∈ (Parse.umapOf l).map (·.1)) :
    k ∈ l.map (·.1) := by
  obtain ⟨p, hp, rfl⟩ := List.mem_map.1 h
  exact List.mem_map_of_mem (mem_umapOf hp)

theorem remOK_remMap (m : Entries) (fs : List Field) (hm : NoUMapKVs m) : RemOK fs (remMap (remainder m fs)) := by
  refine ⟨?_, ?_, ?_⟩
  · rw [remMap_getD]; exact sortedK_umapOf _
  · rw [remMap_getD]
    intro p hp
    have : p ∈ remainder m fs := mem_umapOf hp
    unfold remainder at this
    exact (noUMapKVs_iff m).1 hm p (List.mem_filter.1 this).1
  · intro f hf hr
    rw [remMap_getD, lookup_none_iff]
    intro hk
    have hk := (mem_keys_remainder fs m f.key).1 (mem_keys_umapOf hk)
    obtain ⟨v, hv⟩ := mem_keys_lookup_some hk.1
    exact hk.2 (mem_outlineKeys.2 ⟨f, hf, hr, v, by simp [fieldTake, hv]⟩)

theorem normList_remMap (l : Entries) (rem : UMap Val) (hs : SortedK l) (h : l = rem.getD []) :
    normList (remMap l) = normList rem := by
  subst h
  cases rem with
  | none => rfl
  | some r =>
    cases r with
    | nil => rfl
    | cons a t =>
      have : remMap (a :: t) = some (a :: t) := by
        unfold remMap
        simp only [List.isEmpty_cons, Bool.false_eq_true, if_false]
        rw [umapOf_sorted (by simpa using hs)]
      simp only [Option.getD_some, this]

/-- The inline remainder comes back: the re-parse's remainder has the lookups of the original one. -/
theorem rem_roundtrip (fs : List Field) (U : Entries) (rem : UMap Val) (hU : SortedK U)
    (hrem : SortedK (rem.getD []))
    (h : ∀ k, (if k ∈ outlineKeys U fs then none else U.lookup k) = (rem.getD []).lookup k) :
    normList (remMap (remainder U fs)) = normList rem := by
  have hs : SortedK (remainder U fs) := sortedK_sublist List.filter_sublist hU
  apply normList_remMap _ _ hs
  apply sortedK_ext hs hrem
  intro k
  rw [lookup_remainder, h]

def normalKeys (fs : List Field) : List String := (fs.filter (fun f => f.role == .normal)).map Field.key

theorem mem_outlineKeys_af {fs : List Field} (haf : aliasFree fs) (m : Entries) (k : String) :
    k ∈ outlineKeys m fs ↔ k ∈ normalKeys fs ∧ m.lookup k ≠ none := by
  rw [mem_outlineKeys]
  unfold normalKeys
  rw [List.mem_map]
  constructor
  · rintro ⟨f, hf, hr, v, ht⟩
    rw [fieldTake_aliasFree (haf f hf)] at ht
    cases hl : m.lookup f.key with
    | none => simp [hl] at ht
    | some w =>
      simp only [hl, Option.map_some, Option.some.injEq, Prod.mk.injEq] at ht
      refine ⟨⟨f, List.mem_filter.2 ⟨hf, by simp [hr]⟩, ht.1⟩, ?_⟩
      rw [← ht.1, hl]; simp
  · rintro ⟨⟨f, hf, hfk⟩, hne⟩
    rw [List.mem_filter] at hf
    cases hl : m.lookup k with
    | none => exact absurd hl hne
    | some v =>
      refine ⟨f, hf.1, by simpa using hf.2, v, ?_⟩
      rw [fieldTake_aliasFree (haf f hf.1), hfk, hl]
      rfl

theorem mem_normalKeys {fs : List Field} {k : String} (h : k ∈ normalKeys fs) :
    ∃ f ∈ fs, f.role = .normal ∧ f.key = k := by
  unfold normalKeys at h
  obtain ⟨f, hf, rfl⟩ := List.mem_map.1 h
  rw [List.mem_filter] at hf
  exact ⟨f, hf.1, by simpa using hf.2, rfl⟩

/-- Alias-free descriptors: the remainder comes back whenever the marshaller's outline keys are keys
    of ordinary fields. -/
theorem rem_roundtrip_af (fs : List Field) (haf : aliasFree fs) (outline : List (String × Val)) (rem : UMap Val)
    (hsub : ∀ k ∈ outline.map (·.1), k ∈ normalKeys fs) (hR : RemOK fs rem)
    (U : Entries) (hU : SortedK U)
    (hl : ∀ k, U.lookup k = match outline.lookup k with
        | some v => some (rereadJ v)
        | none => (rem.getD []).lookup k) :
    normList (remMap (remainder U fs)) = normList rem := by
  apply rem_roundtrip fs U rem hU hR.sorted
  intro k
  by_cases hk : k ∈ outlineKeys U fs
  · rw [if_pos hk]
    obtain ⟨f, hf, hr, rfl⟩ := mem_normalKeys ((mem_outlineKeys_af haf U k).1 hk).1
    exact (hR.prim f hf hr).symm
  · rw [if_neg hk, hl]
    cases ho : outline.lookup k with
    | none => rfl
    | some v =>
      exfalso
      apply hk
      rw [mem_outlineKeys_af haf]
      refine ⟨hsub k (lookup_some_mem_keys ho), ?_⟩
      rw [hl, ho]; simp

/-! ## Part 3: components -/

theorem strOf_str (s : String) : strOf (.str s) = .ok s := rfl

theorem strsElems_strs : (l : List String) → strsElems (l.map Val.str) = .ok l
  | [] => rfl
  | s :: r => by
    rw [List.map_cons, strsElems, strOf_str]
    simp only [strsElems_strs r, Except.map]

theorem strsOf_strsV (l : List String) : strsOf (strsV l) = .ok (some l) := by
  simp only [strsV, strsOf, strsElems_strs, Except.map]

theorem strsOf_optStrsV (f : Option (List String)) : strsOf (optStrsV f) = .ok f := by
  cases f with
  | none => rfl
  | some l => exact strsOf_strsV l

theorem noUMap_strsV (l : List String) : NoUMap (strsV l) := by
  simp only [strsV, NoUMap]
  rw [noUMapList_iff]
  intro p hp
  obtain ⟨s, _, rfl⟩ := List.mem_map.1 hp
  simp [NoUMap]

theorem reread_strsV (l : List String) : rereadJ (strsV l) = strsV l := reread_noUMap _ (noUMap_strsV l)

theorem reread_optStrsV (f : Option (List String)) : rereadJ (optStrsV f) = optStrsV f := by
  cases f with
  | none => rfl
  | some l => exact reread_strsV l

theorem reread_strKVs (e : List (String × String)) :
    rereadJKVs (e.map fun (k, v) => (k, Val.str v)) = e.map fun (k, v) => (k, Val.str v) := by
  apply rereadJKVs_of_forall
  intro p hp
  obtain ⟨q, _, rfl⟩ := List.mem_map.1 hp
  simp [NoUMap]

theorem ssElems_strs : (e : List (String × String)) → ssElems (e.map fun (k, v) => (k, Val.str v)) = .ok e
  | [] => rfl
  | (k, v) :: r => by
    rw [List.map_cons, ssElems, strOf_str]
    simp only [ssElems_strs r, Except.map]

theorem pipeline_env_roundtrip (e : List (String × String)) :
    parseEnvOrdered (rereadJ (.omap (e.map fun (k, v) => (k, .str v)))) = .ok (some e) := by
  rw [rereadJ, reread_strKVs]
  simp only [parseEnvOrdered, ssElems_strs, Except.map]

theorem parseEnvMap_sorted {v : Val} {e : List (String × String)} (h : parseEnvMap v = .ok (some e)) : SortedK e := by
  cases v <;> try (solve | simp [parseEnvMap] at h)
  case omap kvs =>
    simp only [parseEnvMap, map_ok_iff, Option.some.injEq] at h
    obtain ⟨l, _, rfl⟩ := h
    exact sortedK_umapOf l

theorem env_roundtrip_sorted (e : List (String × String)) (hs : SortedK e) :
    parseEnvMap (rereadJ (envV (some e))) = .ok (some e) := by
  simp only [envV]
  rw [rereadJ, reread_strKVs]
  simp only [parseEnvMap, ssElems_strs, Except.map, umapOf_sorted hs]

theorem env_roundtrip (v : Val) (e : List (String × String)) (h : parseEnvMap v = .ok (some e)) (hne : e ≠ []) :
    parseEnvMap (rereadJ (envV (some e))) = .ok (some e) :=
  env_roundtrip_sorted e (parseEnvMap_sorted h)

theorem signature_roundtrip (s : Signature) : parseSignature (rereadJ (mSignature s)) = .ok (some s) := by
  have hr : rereadJ (mSignature s) = .omap [("algorithm", .str s.algorithm),
      ("signed_fields", optStrsV s.signedFields), ("value", .str s.value)] := by
    simp [mSignature, rereadJ, rereadJKVs, reread_optStrsV]
  rw [hr]
  simp only [parseSignature]
  rw [fieldOf_afKey (k := "algorithm") (by decide), fieldOf_afKey (k := "signed_fields") (by decide),
    fieldOf_afKey (k := "value") (by decide)]
  simp [List.lookup, strOf_str, strsOf_optStrsV]

/-! ### Plugins -/

/-- A plugin config in the image of the parser. -/
def CfgOK (c : Val) : Prop := ∃ v, NoUMap v ∧ c = toMapRec v

theorem cfgOK_reread {c : Val} (h : CfgOK c) : toMapRec (rereadJ c) = c := by
  obtain ⟨v, hv, rfl⟩ := h
  exact config_roundtrip v hv

def PluginOK (p : Option Plugin) : Prop := ∃ q, p = some q ∧ CfgOK q.config

theorem pluginsOfMap_ok (kvs : List (String × Val)) (h : NoUMapKVs kvs) : ∀ p ∈ pluginsOfMap kvs, PluginOK p := by
  intro p hp
  unfold pluginsOfMap at hp
  obtain ⟨⟨k, v⟩, hkv, rfl⟩ := List.mem_map.1 hp
  exact ⟨_, rfl, v, (noUMapKVs_iff kvs).1 h _ hkv, rfl⟩

theorem pluginsElems_ok : (xs : List Val) → (l : List (Option Plugin)) → NoUMapList xs → pluginsElems xs = .ok l →
    ∀ p ∈ l, PluginOK p
  | [], l, _, h => by
    simp only [pluginsElems, Except.ok.injEq] at h
    subst h; simp
  | x :: r, l, hx, h => by
    rw [NoUMapList] at hx
    cases x <;> try (solve | simp [pluginsElems] at h)
    case str s =>
      simp only [pluginsElems, map_ok_iff] at h
      obtain ⟨l', hr, rfl⟩ := h
      intro p hp
      rcases List.mem_cons.1 hp with hp | hp
      · exact ⟨_, hp, .null, by simp [NoUMap], rfl⟩
      · exact pluginsElems_ok r l' hx.2 hr p hp
    case omap kvs =>
      simp only [pluginsElems, map_ok_iff] at h
      obtain ⟨l', hr, rfl⟩ := h
      intro p hp
      rcases List.mem_append.1 hp with hp | hp
      · exact pluginsOfMap_ok kvs (by simpa [NoUMap] using hx.1) p hp
      · exact pluginsElems_ok r l' hx.2 hr p hp

theorem parsePlugins_ok {v : Val} {l : List (Option Plugin)} (hv : NoUMap v) (h : parsePlugins v = .ok (some l)) :
    l ≠ [] ∧ ∀ p ∈ l, PluginOK p := by
  cases v <;> try (solve | simp [parsePlugins] at h)
  case seq xs =>
    simp only [parsePlugins, map_ok_iff] at h
    obtain ⟨l', hr, h⟩ := h
    split at h
    · cases h
    · rename_i hne
      simp only [Option.some.injEq] at h
      subst h
      exact ⟨by simpa using hne, pluginsElems_ok xs _ (by simpa [NoUMap] using hv) hr⟩
  case omap kvs =>
    simp only [parsePlugins, Except.ok.injEq] at h
    split at h
    · cases h
    · rename_i hne
      simp only [Option.some.injEq] at h
      subst h
      refine ⟨?_, pluginsOfMap_ok kvs (by simpa [NoUMap] using hv)⟩
      cases kvs with
      | nil => simp at hne
      | cons a t => simp [pluginsOfMap]

theorem plugin_elem_aux (s : String) (c c' : Val) (h : toMapRec (rereadJ c) = c') (r : List Val) :
    pluginsElems (rereadJ (.umap [(s, c)]) :: r) =
      (pluginsElems r).map (some { source := s, config := c' } :: ·) := by
  subst h
  simp only [rereadJ, rereadJKVs, pluginsElems, pluginsOfMap, List.map_cons, List.map_nil]
  rfl

theorem mPlugin_shape (q : Plugin) (hq : CfgOK q.config) :
    ∃ c, mPlugin q = .umap [(fullSource q.source, c)] ∧
      normPlugin q = { source := fullSource q.source, config := c } ∧ toMapRec (rereadJ c) = c := by
  obtain ⟨src, cfg⟩ := q
  have hc := cfgOK_reread hq
  cases cfg with
  | umap kvs =>
    cases kvs with
    | nil => exact ⟨_, rfl, rfl, rfl⟩
    | cons a t => exact ⟨_, rfl, rfl, hc⟩
  | seq xs =>
    cases xs with
    | nil => exact ⟨_, rfl, rfl, rfl⟩
    | cons a t => exact ⟨_, rfl, rfl, hc⟩
  | _ => exact ⟨_, rfl, rfl, hc⟩

def mPluginOpt : Option Plugin → Val
  | none => .null
  | some p => mPlugin p

theorem mPlugins_eq (l : List (Option Plugin)) : mPlugins l = .seq (l.map mPluginOpt) := by
  unfold mPlugins
  congr 1

theorem plugins_elems_roundtrip : (l : List (Option Plugin)) → (∀ p ∈ l, PluginOK p) →
    pluginsElems (rereadJList (l.map mPluginOpt)) = .ok (l.map fun p => p.map normPlugin)
  | [], _ => rfl
  | p :: r, h => by
    obtain ⟨q, rfl, hq⟩ := h p List.mem_cons_self
    obtain ⟨c, hm, hn, hc⟩ := mPlugin_shape q hq
    rw [List.map_cons, rereadJList, mPluginOpt, hm, plugin_elem_aux _ c c hc,
      plugins_elems_roundtrip r (fun p hp => h p (List.mem_cons_of_mem _ hp))]
    simp only [Except.map, List.map_cons, Option.map_some, hn]

theorem plugins_roundtrip_ok (l : List (Option Plugin)) (hne : l ≠ []) (h : ∀ p ∈ l, PluginOK p) :
    parsePlugins (rereadJ (mPlugins l)) = .ok (some (l.map fun p => p.map normPlugin)) := by
  rw [mPlugins_eq, rereadJ]
  simp only [parsePlugins, plugins_elems_roundtrip l h, Except.map]
  cases l with
  | nil => exact absurd rfl hne
  | cons a t => simp

theorem plugins_roundtrip (v : Val) (l : List (Option Plugin)) (hv : NoUMap v)
    (h : parsePlugins v = .ok (some l)) :
    parsePlugins (rereadJ (mPlugins l)) = .ok (some (l.map fun p => p.map normPlugin)) := by
  obtain ⟨hne, hok⟩ := parsePlugins_ok hv h
  exact plugins_roundtrip_ok l hne hok

/-! ### Matrix -/

theorem RemOK.prim' {fs : List Field} {rem : UMap Val} (h : RemOK fs rem) {k : String} (hk : k ∈ normalKeys fs) :
    (rem.getD []).lookup k = none := by
  obtain ⟨f, hf, hr, rfl⟩ := mem_normalKeys hk
  exact h.prim f hf hr

theorem remOK_none (fs : List Field) : RemOK fs none := ⟨List.Pairwise.nil, by simp, by simp⟩

theorem normList_of_getD_nil {α : Type} {x : Option (List α)} (h : x.getD [] = []) : normList x = none := by
  cases x with
  | none => rfl
  | some l => simp only [Option.getD_some] at h; subst h; rfl

theorem normList_map_of_getD_nil {α β : Type} {x : Option (List α)} (g : α → β)
    (h : x.getD [] = []) : normList (x.map fun l => l.map g) = none := by
  cases x with
  | none => rfl
  | some l => simp only [Option.getD_some] at h; subst h; rfl

theorem setupElems_strs : (kvs : List (String × Option (List String))) →
    setupElems (kvs.map fun (k, v) => (k, optStrsV v)) = .ok kvs
  | [] => rfl
  | (k, v) :: r => by
    rw [List.map_cons, setupElems, strsOf_optStrsV]
    simp only [setupElems_strs r, Except.map]

theorem reread_setupKVs (kvs : List (String × Option (List String))) :
    rereadJKVs (kvs.map fun (k, v) => (k, optStrsV v)) = kvs.map fun (k, v) => (k, optStrsV v) := by
  apply rereadJKVs_of_forall
  intro p hp
  obtain ⟨q, _, rfl⟩ := List.mem_map.1 hp
  obtain ⟨k, v⟩ := q
  cases v with
  | none => simp [optStrsV, NoUMap]
  | some l => exact noUMap_strsV l

theorem setup_roundtrip (s : UMap (Option (List String))) (hs : ∀ kvs, s = some kvs → SortedK kvs) :
    parseSetup (rereadJ (mSetup s)) = .ok s := by
  cases s with
  | none => rfl
  | some kvs =>
    simp only [mSetup]
    split
    · rename_i x xs
      rw [reread_strsV]
      simp only [strsV, parseSetup, strsOfSeq, strsElems_strs, Except.map]
    · rw [rereadJ, reread_setupKVs]
      simp only [parseSetup, setupElems_strs, Except.map, umapOf_sorted (hs kvs rfl)]

theorem withElems_strs : (kvs : List (String × String)) →
    withElems (kvs.map fun (k, v) => (k, Val.str v)) = .ok kvs
  | [] => rfl
  | (k, v) :: r => by
    rw [List.map_cons, withElems]
    simp only [withScalar, withElems_strs r, Except.map]

theorem with_roundtrip (w : UMap String) (hs : ∀ kvs, w = some kvs → SortedK kvs) :
    parseWith (rereadJ (mWith w)) = .ok w := by
  unfold mWith
  split
  · rfl
  · rfl
  · rename_i kvs _
    rw [rereadJ, reread_strKVs]
    simp only [parseWith, withElems_strs, Except.map, umapOf_sorted (hs kvs rfl)]

/-- An adjustment in the image of the parser. -/
structure AdjOK (a : Adjustment) : Prop where
  withSorted : ∀ kvs, a.with_ = some kvs → SortedK kvs
  skip : NoUMap a.skip
  rem : RemOK Gen.struct_MatrixAdjustment a.rem

theorem emptyish_null {v : Val} (h1 : emptyishSkip v = false) (h2 : isEmptyAny v = true) : v = .null := by
  cases v <;> simp_all [emptyishSkip]

theorem aliasFree_adj : aliasFree Gen.struct_MatrixAdjustment := by
  intro f hf
  simp only [Gen.struct_MatrixAdjustment, List.mem_cons, List.not_mem_nil, or_false] at hf
  rcases hf with rfl | rfl | rfl <;> rfl

theorem aliasFree_matrix : aliasFree Gen.struct_Matrix := by
  intro f hf
  simp only [Gen.struct_Matrix, List.mem_cons, List.not_mem_nil, or_false] at hf
  rcases hf with rfl | rfl | rfl <;> rfl

theorem aliasFree_cache : aliasFree Gen.struct_Cache := by
  intro f hf
  simp only [Gen.struct_Cache, List.mem_cons, List.not_mem_nil, or_false] at hf
  rcases hf with rfl | rfl | rfl | rfl | rfl <;> rfl

theorem aliasFree_pipeline : aliasFree Gen.struct_Pipeline := by
  intro f hf
  simp only [Gen.struct_Pipeline, List.mem_cons, List.not_mem_nil, or_false] at hf
  rcases hf with rfl | rfl | rfl <;> rfl

theorem adjustment_roundtrip (a : Adjustment) (hok : AdjOK a) (hst : StableAdjustment a) :
    ∃ U a', rereadJ (mAdjustment a) = .omap U ∧ parseAdjustment U = .ok a' ∧
      normAdjustment a' = normAdjustment a := by
  have hw := with_roundtrip a.with_ hok.withSorted
  unfold mAdjustment
  by_cases he : isEmptyAny a.skip = true
  · have hnull := emptyish_null hst.1 he
    simp only [he, if_true, List.append_nil]
    obtain ⟨U, hU, hsU, hl⟩ := reread_inline [("with", mWith a.with_)] a.rem (by simp) hok.rem.sorted hok.rem.noUMap
    have hrem := rem_roundtrip_af _ aliasFree_adj _ a.rem (by simp only [List.map_cons, List.map_nil, List.cons_append, List.nil_append]; decide) hok.rem U hsU hl
    refine ⟨U, { with_ := a.with_, skip := a.skip, rem := remMap (remainder U Gen.struct_MatrixAdjustment) }, hU, ?_, ?_⟩
    · simp only [parseAdjustment]
      rw [fieldOf_afKey (k := "with") (by decide), fieldOf_afKey (k := "skip") (by decide), hl "with", hl "skip"]
      have : (a.rem.getD []).lookup "skip" = none := hok.rem.prim' (by decide)
      simp [List.lookup, hw, this, hnull]
    · simp only [normAdjustment, hrem]
  · have he' : isEmptyAny a.skip = false := by simpa using he
    simp only [he', Bool.false_eq_true, if_false]
    obtain ⟨U, hU, hsU, hl⟩ := reread_inline ([("with", mWith a.with_)] ++ [("skip", a.skip)]) a.rem (by simp)
      hok.rem.sorted hok.rem.noUMap
    have hrem := rem_roundtrip_af _ aliasFree_adj _ a.rem (by simp only [List.map_cons, List.map_nil, List.cons_append, List.nil_append]; decide) hok.rem U hsU hl
    refine ⟨U, { with_ := a.with_, skip := a.skip, rem := remMap (remainder U Gen.struct_MatrixAdjustment) }, hU, ?_, ?_⟩
    · simp only [parseAdjustment]
      rw [fieldOf_afKey (k := "with") (by decide), fieldOf_afKey (k := "skip") (by decide), hl "with", hl "skip"]
      simp [List.lookup, hw, reread_noUMap _ hok.skip]
    · simp only [normAdjustment, hrem]

def mAdjOpt : Option Adjustment → Val
  | none => .null
  | some a => mAdjustment a

theorem adjustments_roundtrip : (l : List (Option Adjustment)) →
    (∀ a, some a ∈ l → AdjOK a ∧ StableAdjustment a) →
    ∃ l', adjustmentsElems (rereadJList (l.map mAdjOpt)) = .ok l' ∧
      l'.map (fun a => a.map normAdjustment) = l.map (fun a => a.map normAdjustment)
  | [], _ => ⟨[], rfl, rfl⟩
  | none :: r, h => by
    obtain ⟨l', h1, h2⟩ := adjustments_roundtrip r (fun a ha => h a (List.mem_cons_of_mem _ ha))
    refine ⟨none :: l', ?_, by simp [h2]⟩
    simp only [List.map_cons, rereadJList, mAdjOpt, rereadJ, adjustmentsElems, h1, Except.map]
  | some a :: r, h => by
    obtain ⟨l', h1, h2⟩ := adjustments_roundtrip r (fun a ha => h a (List.mem_cons_of_mem _ ha))
    obtain ⟨U, a', hU, hp, hn⟩ := adjustment_roundtrip a (h a List.mem_cons_self).1 (h a List.mem_cons_self).2
    refine ⟨some a' :: l', ?_, by simp [h2, hn]⟩
    rw [List.map_cons, rereadJList, mAdjOpt, hU, adjustmentsElems, hp, h1]
    rfl

/-- A matrix in the image of the parser. -/
structure MatrixOK (m : Matrix) : Prop where
  setupSorted : ∀ kvs, m.setup = some kvs → SortedK kvs
  adjs : ∀ l, m.adjustments = some l → ∀ a, some a ∈ l → AdjOK a
  rem : RemOK Gen.struct_Matrix m.rem

theorem isSimple_inv {m : Matrix} (h : isSimple m = true) :
    ∃ x xs, m.setup = some [("", some (x :: xs))] ∧ m.adjustments.getD [] = [] ∧ m.rem.getD [] = [] := by
  unfold isSimple at h
  simp only [Bool.and_eq_true] at h
  obtain ⟨⟨h1, h2⟩, h3⟩ := h
  split at h1
  · rename_i x xs hs
    refine ⟨x, xs, hs, by simpa using h2, ?_⟩
    cases hr : m.rem with
    | none => rfl
    | some l =>
      rw [hr] at h3
      simpa [lenUMap] using h3
  · cases h1

theorem mMatrix_eq (m : Matrix) : mMatrix m =
    if isSimple m then mSetup m.setup
    else inlineFriendly ([("setup", mSetup m.setup)] ++
      (if (m.adjustments.getD []).isEmpty then []
       else [("adjustments", .seq ((m.adjustments.getD []).map mAdjOpt))])) m.rem := rfl

theorem matrix_roundtrip_ok (m : Matrix) (hok : MatrixOK m) (hst : StableMatrix m) :
    ∃ m', parseMatrix (rereadJ (mMatrix m)) = .ok (some m') ∧ normMatrix m' = normMatrix m := by
  rw [mMatrix_eq]
  by_cases hsimp : isSimple m = true
  · obtain ⟨x, xs, hs, ha, hr⟩ := isSimple_inv hsimp
    rw [if_pos hsimp, hs]
    refine ⟨{ setup := some [("", some (x :: xs))], adjustments := none, rem := none }, ?_, ?_⟩
    · simp only [mSetup]
      rw [reread_strsV]
      simp only [strsV, parseMatrix, strsOfSeq, strsElems_strs, Except.map]
    · simp only [normMatrix, hs, normList_of_getD_nil hr,
        normList_map_of_getD_nil (fun a => Option.map normAdjustment a) ha]
      rfl
  · rw [if_neg hsimp]
    have hsetup := setup_roundtrip m.setup hok.setupSorted
    by_cases hadj : (m.adjustments.getD []).isEmpty = true
    · simp only [hadj, if_true, List.append_nil]
      obtain ⟨U, hU, hsU, hl⟩ := reread_inline [("setup", mSetup m.setup)] m.rem (by simp) hok.rem.sorted hok.rem.noUMap
      have hrem := rem_roundtrip_af _ aliasFree_matrix _ m.rem (by simp only [List.map_cons, List.map_nil, List.cons_append, List.nil_append]; decide) hok.rem U hsU hl
      have hnone : (m.rem.getD []).lookup "adjustments" = none := hok.rem.prim' (by decide)
      refine ⟨{ setup := m.setup, adjustments := none, rem := remMap (remainder U Gen.struct_Matrix) }, ?_, ?_⟩
      · rw [hU]
        simp only [parseMatrix]
        rw [fieldOf_afKey (k := "setup") (by decide), fieldOf_afKey (k := "adjustments") (by decide),
          hl "setup", hl "adjustments"]
        simp [List.lookup, hsetup, hnone]
      · have hA := normList_map_of_getD_nil (x := m.adjustments) (fun a => Option.map normAdjustment a)
          (by simpa using hadj)
        simp only [normMatrix, hrem, hA]
        rfl
    · have hadj' : (m.adjustments.getD []).isEmpty = false := by simpa using hadj
      simp only [hadj', Bool.false_eq_true, if_false]
      obtain ⟨adjs, hadjs⟩ : ∃ adjs, m.adjustments = some adjs := by
        cases hx : m.adjustments with
        | none => rw [hx] at hadj'; simp at hadj'
        | some l => exact ⟨l, rfl⟩
      obtain ⟨l', hl1, hl2⟩ := adjustments_roundtrip adjs
        (fun a ha => ⟨hok.adjs adjs hadjs a ha, hst.1 adjs hadjs a ha⟩)
      rw [hadjs, Option.getD_some]
      obtain ⟨U, hU, hsU, hl⟩ := reread_inline ([("setup", mSetup m.setup)] ++ [("adjustments", .seq (adjs.map mAdjOpt))])
        m.rem (by simp) hok.rem.sorted hok.rem.noUMap
      have hrem := rem_roundtrip_af _ aliasFree_matrix _ m.rem (by simp only [List.map_cons, List.map_nil, List.cons_append, List.nil_append]; decide) hok.rem U hsU hl
      refine ⟨{ setup := m.setup, adjustments := some l', rem := remMap (remainder U Gen.struct_Matrix) }, ?_, ?_⟩
      · rw [hU]
        simp only [parseMatrix]
        rw [fieldOf_afKey (k := "setup") (by decide), fieldOf_afKey (k := "adjustments") (by decide),
          hl "setup", hl "adjustments"]
        simp [List.lookup, hsetup, rereadJ, parseAdjustments, hl1, Except.map]
      · simp only [normMatrix, hrem, hadjs, Option.map_some, hl2]

/-! ### What the parser guarantees (inversions) -/

theorem fieldOf_taken_lookup {m : Entries} {fs : List Field} {n : String} {v : Val}
    (h : fieldOf (taken m fs) n = some v) : ∃ k, m.lookup k = some v := by
  unfold fieldOf at h
  cases hf : (taken m fs).find? (fun x => x.1 == n) with
  | none => simp [hf] at h
  | some x =>
    obtain ⟨a, k, w⟩ := x
    simp only [hf, Option.map_some, Option.some.injEq] at h
    subst h
    exact ⟨k, taken_value fs m a k w (List.mem_of_find?_eq_some hf)⟩

theorem fieldOf_taken_noUMap {m : Entries} {fs : List Field} {n : String} {v : Val} (hm : NoUMapKVs m)
    (h : fieldOf (taken m fs) n = some v) : NoUMap v := by
  obtain ⟨k, hk⟩ := fieldOf_taken_lookup h
  exact noUMap_of_lookup hm hk

theorem parseSetup_sorted {v : Val} {kvs : List (String × Option (List String))}
    (h : parseSetup v = .ok (some kvs)) : SortedK kvs := by
  cases v <;> try (solve | simp [parseSetup] at h)
  case seq xs =>
    simp only [parseSetup, map_ok_iff, Option.some.injEq] at h
    obtain ⟨l, _, rfl⟩ := h
    exact sortedK_singleton _
  case omap m =>
    simp only [parseSetup, map_ok_iff, Option.some.injEq] at h
    obtain ⟨l, _, rfl⟩ := h
    exact sortedK_umapOf l

theorem parseWith_sorted {v : Val} {kvs : List (String × String)}
    (h : parseWith v = .ok (some kvs)) : SortedK kvs := by
  cases v
  case null => simp [parseWith] at h
  case omap m =>
    simp only [parseWith, map_ok_iff, Option.some.injEq] at h
    obtain ⟨l, _, rfl⟩ := h
    exact sortedK_umapOf l
  all_goals
    simp only [parseWith] at h
    split at h
    · simp only [Except.ok.injEq, Option.some.injEq] at h
      subst h
      exact sortedK_singleton _
    · cases h

theorem parseAdjustment_ok {m : Entries} {a : Adjustment} (hm : NoUMapKVs m) (h : parseAdjustment m = .ok a) :
    AdjOK a := by
  simp only [parseAdjustment] at h
  split at h
  · cases h
  · rename_i w hw
    simp only [Except.ok.injEq] at h
    subst h
    refine ⟨?_, ?_, remOK_remMap m _ hm⟩
    · intro kvs hk
      simp only at hk
      subst hk
      split at hw
      · cases hw
      · exact parseWith_sorted hw
    · simp only
      cases hf : fieldOf (taken m Gen.struct_MatrixAdjustment) "Skip" with
      | none => simp [NoUMap]
      | some v => exact fieldOf_taken_noUMap hm hf

theorem adjustmentsElems_ok : (xs : List Val) → (l : List (Option Adjustment)) → NoUMapList xs →
    adjustmentsElems xs = .ok l → ∀ a, some a ∈ l → AdjOK a
  | [], l, _, h => by
    simp only [adjustmentsElems, Except.ok.injEq] at h
    subst h; simp
  | x :: r, l, hx, h => by
    rw [NoUMapList] at hx
    cases x <;> try (solve | simp [adjustmentsElems] at h)
    case null =>
      simp only [adjustmentsElems, map_ok_iff] at h
      obtain ⟨l', hr, rfl⟩ := h
      intro a ha
      rcases List.mem_cons.1 ha with ha | ha
      · cases ha
      · exact adjustmentsElems_ok r l' hx.2 hr a ha
    case omap m =>
      simp only [adjustmentsElems] at h
      split at h
      · cases h
      · rename_i a0 ha0
        simp only [map_ok_iff] at h
        obtain ⟨l', hr, rfl⟩ := h
        intro a ha
        rcases List.mem_cons.1 ha with ha | ha
        · injection ha with ha
          subst ha
          exact parseAdjustment_ok (by simpa [NoUMap] using hx.1) ha0
        · exact adjustmentsElems_ok r l' hx.2 hr a ha

theorem parseMatrix_ok {v : Val} {m : Matrix} (hv : NoUMap v) (h : parseMatrix v = .ok (some m)) : MatrixOK m := by
  cases v <;> try (solve | simp [parseMatrix] at h)
  case seq xs =>
    simp only [parseMatrix, map_ok_iff, Option.some.injEq] at h
    obtain ⟨l, _, rfl⟩ := h
    refine ⟨?_, ?_, remOK_none _⟩
    · intro kvs hk
      simp only [Option.some.injEq] at hk
      subst hk
      exact sortedK_singleton _
    · intro l hl; cases hl
  case omap mm =>
    have hmm : NoUMapKVs mm := by simpa [NoUMap] using hv
    simp only [parseMatrix] at h
    split at h
    · cases h
    · rename_i setup hsetup
      split at h
      · cases h
      · rename_i adjs hadjs
        simp only [Except.ok.injEq, Option.some.injEq] at h
        subst h
        refine ⟨?_, ?_, remOK_remMap mm _ hmm⟩
        · intro kvs hk
          simp only at hk
          subst hk
          split at hsetup
          · cases hsetup
          · exact parseSetup_sorted hsetup
        · intro l hl a ha
          simp only at hl
          subst hl
          split at hadjs
          · cases hadjs
          · rename_i v hf
            have hvv := fieldOf_taken_noUMap hmm hf
            cases v <;> try (solve | simp [parseAdjustments] at hadjs)
            case seq xs =>
              simp only [parseAdjustments, map_ok_iff, Option.some.injEq] at hadjs
              obtain ⟨l', hl', rfl⟩ := hadjs
              exact adjustmentsElems_ok xs _ (by simpa [NoUMap] using hvv) hl' a ha

theorem matrix_roundtrip (v : Val) (m : Matrix) (hv : NoUMap v) (h : parseMatrix v = .ok (some m))
    (hs : StableMatrix m) :
    ∃ m', parseMatrix (rereadJ (mMatrix m)) = .ok (some m') ∧ normMatrix m' = normMatrix m :=
  matrix_roundtrip_ok m (parseMatrix_ok hv h) hs

/-! ### Cache -/

theorem parseCache_ok {v : Val} {c : Cache} (hv : NoUMap v) (h : parseCache v = .ok (some c)) :
    RemOK Gen.struct_Cache c.rem := by
  cases v <;> try (solve | simp [parseCache] at h)
  case bool b =>
    simp only [parseCache, Except.ok.injEq, Option.some.injEq] at h
    subst h; exact remOK_none _
  case str s =>
    simp only [parseCache, Except.ok.injEq, Option.some.injEq] at h
    subst h; exact remOK_none _
  case seq xs =>
    simp only [parseCache, map_ok_iff, Option.some.injEq] at h
    obtain ⟨l, _, rfl⟩ := h
    exact remOK_none _
  case omap m =>
    simp only [parseCache] at h
    split at h
    · simp only [Except.ok.injEq, Option.some.injEq] at h
      subst h
      exact remOK_remMap m _ (by simpa [NoUMap] using hv)
    · cases h

theorem cache_roundtrip_ok (c : Cache) (hR : RemOK Gen.struct_Cache c.rem) :
    ∃ c', parseCache (rereadJ (mCache c)) = .ok (some c') ∧ normCache c' = normCache c := by
  unfold mCache
  split
  · -- nothing but `disabled: true`: written as `false`, which reads back as a disabled cache
    rename_i hc
    simp only [Bool.and_eq_true, beq_iff_eq, List.isEmpty_iff] at hc
    obtain ⟨⟨⟨⟨hd, h1⟩, h2⟩, h3⟩, h4⟩ := hc
    refine ⟨{ disabled := true, name := "", paths := none, size := "", rem := none }, rfl, ?_⟩
    obtain ⟨d, n, p, s, r⟩ := c
    simp only at hd h1 h3 h2 h4
    subst hd h1 h3
    simp only [normCache, normList_of_getD_nil h2, normList_of_getD_nil h4]
    rfl
  · -- an object; `disabled: true` (if set) is written next to the other settings and is claimed by
    -- the struct field on re-parse (it is a key of an ordinary field, so it cannot be in `rem`)
    have hdis : (c.rem.getD []).lookup "disabled" = none := hR.prim' (by decide)
    have hname : (c.rem.getD []).lookup "name" = none := hR.prim' (by decide)
    have hpaths : (c.rem.getD []).lookup "paths" = none := hR.prim' (by decide)
    have hsize : (c.rem.getD []).lookup "size" = none := hR.prim' (by decide)
    obtain ⟨U, hU, hsU, hl⟩ := reread_inline
      ((if c.disabled then [("disabled", .bool true)] else []) ++
        (if c.name == "" then [] else [("name", .str c.name)]) ++
        (if (c.paths.getD []).isEmpty then [] else [("paths", strsV (c.paths.getD []))]) ++
        (if c.size == "" then [] else [("size", .str c.size)])) c.rem
      (by by_cases h0 : c.disabled = true <;> by_cases h1 : c.name = "" <;>
            by_cases h2 : (c.paths.getD []).isEmpty = true <;>
            by_cases h3 : c.size = "" <;> simp [h0, h1, h2, h3])
      hR.sorted hR.noUMap
    have hrem := rem_roundtrip_af _ aliasFree_cache _ c.rem
      (by by_cases h0 : c.disabled = true <;> by_cases h1 : c.name = "" <;>
            by_cases h2 : (c.paths.getD []).isEmpty = true <;>
            by_cases h3 : c.size = "" <;> simp [h0, h1, h2, h3] <;> decide) hR U hsU hl
    refine ⟨{ disabled := c.disabled, name := c.name, paths := if (c.paths.getD []).isEmpty then none else c.paths,
              size := c.size, rem := remMap (remainder U Gen.struct_Cache) }, ?_, ?_⟩
    · rw [hU]
      simp only [parseCache]
      rw [fieldOf_afKey (k := "disabled") (by decide), fieldOf_afKey (k := "name") (by decide),
        fieldOf_afKey (k := "paths") (by decide), fieldOf_afKey (k := "size") (by decide),
        hl "disabled", hl "name", hl "paths", hl "size"]
      by_cases h0 : c.disabled = true <;> by_cases h1 : c.name = "" <;>
        by_cases h2 : (c.paths.getD []).isEmpty = true <;>
        by_cases h3 : c.size = "" <;>
        simp [h0, h1, h2, h3, List.lookup, hdis, hname, hpaths, hsize, boolOf, strOf_str, strsOf_strsV, reread_strsV,
          rereadJ, show strsOf Val.null = .ok none from rfl] <;>
        (cases hp : c.paths <;> simp_all)
    · simp only [normCache, hrem]
      by_cases h2 : (c.paths.getD []).isEmpty = true
      · simp only [h2, if_true]
        rw [normList_of_getD_nil (x := c.paths) (by simpa using h2)]
        rfl
      · simp [h2]

theorem cache_roundtrip (v : Val) (c : Cache) (hv : NoUMap v) (h : parseCache v = .ok (some c))
    (_hs : StableUMap c.rem) :
    ∃ c', parseCache (rereadJ (mCache c)) = .ok (some c') ∧ normCache c' = normCache c :=
  cache_roundtrip_ok c (parseCache_ok hv h)

/-! ## Part 4: normalisation is idempotent

  `normPlugin` rewrites the source to `fullSource`, which is idempotent for every string
  (`Marshal.fullSource_idem`, Lemmas/PluginSourceIdem.lean) since finding F17 was fixed in the code
  (commit 3ced888: `FullSource` concatenates instead of calling `path.Join`). Before the fix the theorems
  that compare normal forms needed a side condition on every plugin source, e.g.
  `"x/y#a/../.." ↦ "github.com" ↦ "github.com/buildkite-plugins/github.com-buildkite-plugin"`. -/

theorem normList_idem {α : Type} (x : Option (List α)) : normList (normList x) = normList x := by
  cases x with
  | none => rfl
  | some l => cases l <;> rfl

theorem normList_map_idem {α : Type} (g : α → α) (x : Option (List α)) (hg : ∀ a ∈ x.getD [], g (g a) = g a) :
    normList ((normList (x.map fun l => l.map g)).map fun l => l.map g) = normList (x.map fun l => l.map g) := by
  cases x with
  | none => rfl
  | some l =>
    cases l with
    | nil => rfl
    | cons a t =>
      simp only [Option.map_some, List.map_cons, normList, List.map_map]
      simp only [Option.getD_some] at hg
      rw [hg a List.mem_cons_self]
      have : List.map (g ∘ g) t = List.map g t := by
        apply List.map_congr_left
        intro b hb
        exact hg b (List.mem_cons_of_mem _ hb)
      rw [this]

theorem normPlugin_idem (p : Plugin) : normPlugin (normPlugin p) = normPlugin p := by
  obtain ⟨src, cfg⟩ := p
  simp only [normPlugin, fullSource_idem src]
  congr 1
  cases cfg with
  | umap kvs => cases kvs <;> rfl
  | seq xs => cases xs <;> rfl
  | _ => rfl

theorem normAdjustment_idem (a : Adjustment) : normAdjustment (normAdjustment a) = normAdjustment a := by
  simp only [normAdjustment, normList_idem]

theorem normMatrix_idem (m : Matrix) : normMatrix (normMatrix m) = normMatrix m := by
  simp only [normMatrix, normList_idem]
  congr 1
  · exact normList_map_idem (fun (x : String × Option (List String)) => (x.1, normList x.2)) m.setup
      (fun a _ => by simp only [normList_idem])
  · exact normList_map_idem (fun a => Option.map normAdjustment a) m.adjustments
      (fun a _ => by cases a <;> simp [normAdjustment_idem])

theorem normCache_idem (c : Cache) : normCache (normCache c) = normCache c := by
  simp only [normCache, normList_idem]

theorem normCommand_idem (c : CommandStep) : normCommand (normCommand c) = normCommand c := by
  simp only [normCommand, normList_idem]
  congr 1
  · apply normList_map_idem (fun p => Option.map normPlugin p) c.plugins
    intro a _
    cases a with
    | none => rfl
    | some p =>
      simp only [Option.map_some]
      rw [normPlugin_idem p]
  · cases c.signature <;> simp [normList_idem]
  · cases c.matrix <;> simp [normMatrix_idem]
  · cases c.cache <;> simp [normCache_idem]

mutual
  theorem normStep_idem : (s : Step) → normStep (normStep s) = normStep s
    | .command c => by
      rw [normStep, normStep, normCommand_idem c]
    | .wait s c => by rw [normStep, normStep, normList_idem]
    | .input s c => by rw [normStep, normStep, normList_idem]
    | .trigger c => by rw [normStep, normStep, normList_idem]
    | .group k g none r => by
      simp only [normStep, normSteps, normList_idem]
    | .group k g (some l) r => by
      simp only [normStep, normList_idem, normSteps_idem l]
    | .unknown v => by rw [normStep, normStep]
  theorem normSteps_idem : (l : List Step) → normSteps (normSteps l) = normSteps l
    | [] => rfl
    | s :: r => by
      rw [normSteps, normSteps, normStep_idem s, normSteps_idem r]
end

theorem norm_idempotent (p : Pipeline) : normPipeline (normPipeline p) = normPipeline p := by
  obtain ⟨steps, env, rem⟩ := p
  cases steps with
  | none => simp only [normPipeline, normList_idem, normSteps]
  | some l =>
    simp only [normPipeline, normList_idem, normSteps_idem l]

/-! ## Part 5: the command step -/

local notation "outerD" => Gen.struct_CommandStep_UnmarshalOrdered_local0
local notation "csD" => Gen.struct_CommandStep

/-- An `omitempty` outline entry. -/
def optE (b : Bool) (k : String) (v : Val) : List (String × Val) := if b then [] else [(k, v)]

/-- A pointer-typed outline entry. -/
def optO {α : Type} (o : Option α) (k : String) (f : α → Val) : List (String × Val) :=
  match o with
  | none => []
  | some a => [(k, f a)]

theorem keys_optE (b : Bool) (k : String) (v : Val) : ((optE b k v).map (·.1)).Sublist [k] := by
  unfold optE; split <;> simp

theorem keys_optO {α : Type} (o : Option α) (k : String) (f : α → Val) : ((optO o k f).map (·.1)).Sublist [k] := by
  unfold optO; split <;> simp

theorem lookup_optE (b : Bool) (k : String) (v : Val) (k' : String) :
    (optE b k v).lookup k' = if b = true then none else if k' = k then some v else none := by
  unfold optE
  by_cases hb : b = true
  · simp [hb]
  · simp [hb, lookup_cons_if]

theorem lookup_optO {α : Type} (o : Option α) (k : String) (f : α → Val) (k' : String) :
    (optO o k f).lookup k' = if k' = k then o.map f else none := by
  unfold optO
  cases o with
  | none => simp
  | some a => simp [lookup_cons_if]

def cmdOutline (c : CommandStep) : List (String × Val) :=
  optE (c.key == "") "key" (.str c.key) ++ optE (c.label == "") "label" (.str c.label) ++
  [("command", .str c.command)] ++
  optE (c.plugins.getD []).isEmpty "plugins" (mPlugins (c.plugins.getD [])) ++
  optE (lenUMap c.env == 0) "env" (envV c.env) ++
  optO c.signature "signature" mSignature ++ optO c.matrix "matrix" mMatrix ++ optO c.cache "cache" mCache

theorem mCommand_eq (c : CommandStep) : mCommand c = inlineFriendly (cmdOutline c) c.rem := by
  obtain ⟨key, label, command, plugins, env, sig, matrix, cache, rem⟩ := c
  cases sig <;> cases matrix <;> cases cache <;> rfl

def cmdOutlineKeys : List String := ["key", "label", "command", "plugins", "env", "signature", "matrix", "cache"]

theorem cmdOutline_keys (c : CommandStep) : ((cmdOutline c).map (·.1)).Sublist cmdOutlineKeys := by
  unfold cmdOutline
  simp only [List.map_append]
  exact (((((((keys_optE _ _ _).append (keys_optE _ _ _)).append (List.Sublist.refl _)).append
    (keys_optE _ _ _)).append (keys_optE _ _ _)).append (keys_optO _ _ _)).append (keys_optO _ _ _)).append
    (keys_optO _ _ _)

theorem cmdOutline_nodup (c : CommandStep) : ((cmdOutline c).map (·.1)).Nodup :=
  List.Nodup.sublist (cmdOutline_keys c) (by decide)

theorem cmdOutline_lookup_other (c : CommandStep) {k : String} (hk : k ∉ cmdOutlineKeys) :
    (cmdOutline c).lookup k = none :=
  lookup_none_of_not_mem (fun h => hk ((cmdOutline_keys c).subset h))

theorem cmdOutline_lookups (c : CommandStep) :
    (cmdOutline c).lookup "key" = (if (c.key == "") = true then none else some (.str c.key)) ∧
    (cmdOutline c).lookup "label" = (if (c.label == "") = true then none else some (.str c.label)) ∧
    (cmdOutline c).lookup "command" = some (.str c.command) ∧
    (cmdOutline c).lookup "plugins" =
      (if (c.plugins.getD []).isEmpty = true then none else some (mPlugins (c.plugins.getD []))) ∧
    (cmdOutline c).lookup "env" = (if (lenUMap c.env == 0) = true then none else some (envV c.env)) ∧
    (cmdOutline c).lookup "signature" = c.signature.map mSignature ∧
    (cmdOutline c).lookup "matrix" = c.matrix.map mMatrix ∧
    (cmdOutline c).lookup "cache" = c.cache.map mCache := by
  unfold cmdOutline
  simp only [List.lookup_append, lookup_optE, lookup_optO, lookup_cons_if, List.lookup_nil]
  refine ⟨?_, ?_, ?_, ?_, ?_, ?_, ?_, ?_⟩ <;> simp <;> split <;> simp

/-! ### What `parseCommand` guarantees -/

theorem lookup_remainder_prim {m : Entries} {fs : List Field} {f : Field} (hf : f ∈ fs) (hr : f.role = .normal) :
    (remainder m fs).lookup f.key = none := by
  rw [lookup_remainder]
  split
  · rfl
  · rename_i hnot
    cases hl : m.lookup f.key with
    | none => rfl
    | some v => exact absurd (mem_outlineKeys.2 ⟨f, hf, hr, v, by simp [fieldTake, hl]⟩) hnot

theorem noUMapKVs_remainder {m : Entries} (fs : List Field) (hm : NoUMapKVs m) : NoUMapKVs (remainder m fs) := by
  rw [noUMapKVs_iff] at hm ⊢
  intro p hp
  unfold remainder at hp
  exact hm p (List.mem_filter.1 hp).1

theorem optField_inv {α : Type} {t : List (String × String × Val)} {n : String} {d : α}
    {f : Val → Except Hard α} {x : α} (h : optField t n d f = .ok x) :
    (fieldOf t n = none ∧ x = d) ∨ ∃ v, fieldOf t n = some v ∧ f v = .ok x := by
  unfold optField at h
  split at h
  · rename_i hn
    injection h with h
    exact .inl ⟨hn, h.symm⟩
  · rename_i v hv
    exact .inr ⟨v, hv, h⟩

/-- A command step in the image of the parser. -/
structure CommandOK (c : CommandStep) : Prop where
  plugins : ∀ l, c.plugins = some l → l ≠ [] ∧ ∀ p ∈ l, PluginOK p
  env : ∀ e, c.env = some e → SortedK e
  matrix : ∀ mm, c.matrix = some mm → MatrixOK mm
  cache : ∀ k, c.cache = some k → RemOK Gen.struct_Cache k.rem
  rem : RemOK csD c.rem
  noCommands : (c.rem.getD []).lookup "commands" = none

theorem parseCommand_inv {m : Entries} {c : CommandStep} (hm : NoUMapKVs m) (h : parseCommand m = .ok c) :
    CommandOK c := by
  have hrest : NoUMapKVs (remainder m outerD) := noUMapKVs_remainder _ hm
  unfold parseCommand at h
  simp only at h
  split at h
  · cases h
  · rename_i cmds hc
    split at h
    · rename_i key label cmd plugins env sig matrix cache hk hl hcm hp he hs hmx hca
      simp only [Except.ok.injEq] at h
      subst h
      refine ⟨?_, ?_, ?_, ?_, remOK_remMap _ _ hrest, ?_⟩
      · intro l hl
        simp only at hl
        subst hl
        rcases optField_inv hp with ⟨_, hx⟩ | ⟨v, hf, hv⟩
        · cases hx
        · exact parsePlugins_ok (fieldOf_taken_noUMap hrest hf) hv
      · intro e he'
        simp only at he'
        subst he'
        rcases optField_inv he with ⟨_, hx⟩ | ⟨v, hf, hv⟩
        · cases hx
        · exact parseEnvMap_sorted hv
      · intro mm hmm
        simp only at hmm
        subst hmm
        rcases optField_inv hmx with ⟨_, hx⟩ | ⟨v, hf, hv⟩
        · cases hx
        · exact parseMatrix_ok (fieldOf_taken_noUMap hrest hf) hv
      · intro k hk'
        simp only at hk'
        subst hk'
        rcases optField_inv hca with ⟨_, hx⟩ | ⟨v, hf, hv⟩
        · cases hx
        · exact parseCache_ok (fieldOf_taken_noUMap hrest hf) hv
      · simp only
        rw [remMap_getD, lookup_none_iff]
        intro hmem
        have h1 := ((mem_keys_remainder csD _ "commands").1 (mem_keys_umapOf hmem)).1
        have h2 : (remainder m outerD).lookup "commands" = none :=
          lookup_remainder_prim (f := .mk "Commands" "commands" ["command"] .normal (.slice .string))
            (by simp [Gen.struct_CommandStep_UnmarshalOrdered_local0]) rfl
        exact lookup_none_iff.1 h2 h1
    · cases h

/-! ### Fields with aliases -/

theorem fieldOf_head {m : Entries} {f : Field} {r : List Field} {n : String}
    (hr : f.role = .normal) (hn : f.name = n) (hnot : n ∉ r.map Field.name) :
    fieldOf (taken m (f :: r)) n = (fieldTake m f).map (·.2) := by
  cases ht : fieldTake m f with
  | none => rw [taken_cons_none hr ht, fieldOf_taken_none' hnot]; rfl
  | some p =>
    obtain ⟨k, v⟩ := p
    rw [taken_cons_some hr ht, Parse.fieldOf_cons]
    simp [hn]

theorem fieldOf_commands (m : Entries) :
    fieldOf (taken m outerD) "Commands" =
      match m.lookup "commands" with
      | some v => some v
      | none => m.lookup "command" := by
  unfold Gen.struct_CommandStep_UnmarshalOrdered_local0
  rw [fieldOf_head (n := "Commands") rfl rfl (by simp [Field.name])]
  simp only [fieldTake, firstAlias, Field.key, Field.aliases]
  cases m.lookup "commands" <;> cases m.lookup "command" <;> simp

theorem fieldOf_cs_key (r : Entries) :
    fieldOf (taken r csD) "Key" =
      match r.lookup "key" with
      | some v => some v
      | none => match r.lookup "id" with
        | some v => some v
        | none => r.lookup "identifier" := by
  unfold Gen.struct_CommandStep
  rw [fieldOf_head (n := "Key") rfl rfl (by simp [Field.name])]
  simp only [fieldTake, firstAlias, Field.key, Field.aliases]
  cases r.lookup "key" <;> cases r.lookup "id" <;> cases r.lookup "identifier" <;> simp

theorem fieldOf_cs_label (r : Entries) :
    fieldOf (taken r csD) "Label" =
      match r.lookup "label" with
      | some v => some v
      | none => r.lookup "name" := by
  unfold Gen.struct_CommandStep
  rw [fieldOf_taken_skip _ _ _ _ (by decide), fieldOf_head (n := "Label") rfl rfl (by simp [Field.name])]
  simp only [fieldTake, firstAlias, Field.key, Field.aliases]
  cases r.lookup "label" <;> cases r.lookup "name" <;> simp

theorem prim_mem_outlineKeys {m : Entries} {fs : List Field} {k : String} {v : Val}
    (hk : k ∈ normalKeys fs) (hl : m.lookup k = some v) : k ∈ outlineKeys m fs := by
  obtain ⟨f, hf, hr, rfl⟩ := mem_normalKeys hk
  exact mem_outlineKeys.2 ⟨f, hf, hr, v, by simp [fieldTake, hl]⟩

/-- The remainder comes back, descriptors with aliases included: an alias key that the re-parse
    consumes must not be a remainder key. -/
theorem rem_roundtrip_gen (fs : List Field) (outline : List (String × Val)) (g : Val → Val) (rem : UMap Val)
    (hsub : ∀ k ∈ outline.map (·.1), k ∈ normalKeys fs) (hR : RemOK fs rem)
    (R : Entries) (hsR : SortedK R)
    (hl : ∀ k, R.lookup k = match outline.lookup k with
        | some v => some (g v)
        | none => (rem.getD []).lookup k)
    (halias : ∀ k ∈ outlineKeys R fs, k ∉ normalKeys fs → (rem.getD []).lookup k = none) :
    normList (remMap (remainder R fs)) = normList rem := by
  apply rem_roundtrip fs R rem hsR hR.sorted
  intro k
  by_cases hk : k ∈ outlineKeys R fs
  · rw [if_pos hk]
    by_cases hn : k ∈ normalKeys fs
    · exact (hR.prim' hn).symm
    · exact (halias k hk hn).symm
  · rw [if_neg hk, hl]
    cases ho : outline.lookup k with
    | none => rfl
    | some v =>
      exfalso
      apply hk
      exact prim_mem_outlineKeys (hsub k (lookup_some_mem_keys ho)) (v := g v) (by rw [hl, ho])

theorem outlineKeys_cs_alias {R : Entries} {k : String} (h : k ∈ outlineKeys R csD) (hn : k ∉ normalKeys csD) :
    ((k = "id" ∨ k = "identifier") ∧ R.lookup "key" = none) ∨ (k = "name" ∧ R.lookup "label" = none) := by
  obtain ⟨f, hf, hr, v, ht⟩ := mem_outlineKeys.1 h
  have hk := (fieldTake_some ht).1
  simp only [Gen.struct_CommandStep, List.mem_cons, List.not_mem_nil, or_false] at hf
  rcases hf with rfl | rfl | rfl | rfl | rfl | rfl | rfl | rfl | rfl <;>
    simp [Field.key, Field.aliases] at hk
  · rcases hk with rfl | rfl | rfl
    · exact absurd (by decide) hn
    · refine .inl ⟨.inl rfl, ?_⟩
      cases hp : R.lookup "key" with
      | none => rfl
      | some w => simp [fieldTake, Field.key, hp] at ht
    · refine .inl ⟨.inr rfl, ?_⟩
      cases hp : R.lookup "key" with
      | none => rfl
      | some w => simp [fieldTake, Field.key, hp] at ht
  · rcases hk with rfl | rfl
    · exact absurd (by decide) hn
    · refine .inr ⟨rfl, ?_⟩
      cases hp : R.lookup "label" with
      | none => rfl
      | some w => simp [fieldTake, Field.key, hp] at ht
  all_goals first | (simp [Field.role] at hr; done) | (subst hk; exact absurd (by decide) hn)


theorem cmdOutlineKeys_normal : ∀ k ∈ cmdOutlineKeys, k ∈ normalKeys csD := by decide

theorem map_map_idem {α : Type} (g : α → α) (l : List α) (h : ∀ a ∈ l, g (g a) = g a) :
    (l.map g).map g = l.map g := by
  rw [List.map_map]
  apply List.map_congr_left
  intro a ha
  exact h a ha

theorem command_roundtrip_ok (c : CommandStep) (hok : CommandOK c) (hs : StableCommand c) :
    ∃ kvs c', rereadJ (mCommand c) = .omap kvs ∧ parseCommand kvs = .ok c' ∧ normCommand c' = normCommand c ∧
      kvs.lookup "command" = some (.str c.command) ∧
      ∀ k, k ∉ cmdOutlineKeys → kvs.lookup k = (c.rem.getD []).lookup k := by
  obtain ⟨hst_alias, _, hst_mx, _, _⟩ := hs
  rw [mCommand_eq]
  obtain ⟨U, hU, hsU, hl⟩ := reread_inline (cmdOutline c) c.rem (cmdOutline_nodup c) hok.rem.sorted hok.rem.noUMap
  obtain ⟨ok, ol, oc, op, oe, os, om, oca⟩ := cmdOutline_lookups c
  have hUcommands : U.lookup "commands" = none := by
    rw [hl, cmdOutline_lookup_other c (by decide)]; exact hok.noCommands
  have hUcommand : U.lookup "command" = some (.str c.command) := by rw [hl, oc]; rfl
  have hcmds : optField (taken U outerD) "Commands" none strsOf = .ok (some [c.command]) := by
    unfold optField; rw [fieldOf_commands, hUcommands, hUcommand]; rfl
  have hOK : outlineKeys U outerD = ["command"] := by
    simp [outlineKeys, taken, fieldTake, firstAlias, Gen.struct_CommandStep_UnmarshalOrdered_local0, Field.role,
      Field.key, Field.aliases, Field.name, hUcommands, hUcommand]
  have hR : ∀ k, (remainder U outerD).lookup k = if k = "command" then none else U.lookup k := by
    intro k; rw [lookup_remainder, hOK]; simp
  have hsR : SortedK (remainder U outerD) := sortedK_sublist List.filter_sublist hsU
  obtain ⟨R, hRdef⟩ : ∃ R, remainder U outerD = R := ⟨_, rfl⟩
  rw [hRdef] at hR hsR
  have hRU : ∀ k, k ≠ "command" → R.lookup k = match (cmdOutline c).lookup k with
      | some v => some (rereadJ v)
      | none => (c.rem.getD []).lookup k := by
    intro k hne; rw [hR, if_neg hne]; exact hl k
  -- key, label, command
  have hkey : optField (taken R csD) "Key" "" strOf = .ok c.key := by
    unfold optField
    rw [fieldOf_cs_key, hRU "key" (by decide), hRU "id" (by decide), hRU "identifier" (by decide), ok,
      cmdOutline_lookup_other c (k := "id") (by decide), cmdOutline_lookup_other c (k := "identifier") (by decide)]
    by_cases hk : c.key = ""
    · have := hst_alias.2 hk
      simp [hk, this.1, this.2, hok.rem.prim' (k := "key") (by decide)]
    · simp [hk, rereadJ, strOf_str]
  have hlabel : optField (taken R csD) "Label" "" strOf = .ok c.label := by
    unfold optField
    rw [fieldOf_cs_label, hRU "label" (by decide), hRU "name" (by decide), ol,
      cmdOutline_lookup_other c (k := "name") (by decide)]
    by_cases hk : c.label = ""
    · have := hst_alias.1 hk
      simp [hk, this, hok.rem.prim' (k := "label") (by decide)]
    · simp [hk, rereadJ, strOf_str]
  have hcommand : optField (taken R csD) "Command" "" strOf = .ok "" := by
    unfold optField
    rw [fieldOf_afKey (k := "command") (by decide), hR "command", if_pos rfl]
  -- plugins
  have hplug : ∃ pl', optField (taken R csD) "Plugins" none parsePlugins = .ok pl' ∧
      normList (pl'.map fun l => l.map fun p => p.map normPlugin) =
        normList (c.plugins.map fun l => l.map fun p => p.map normPlugin) := by
    unfold optField
    rw [fieldOf_afKey (k := "plugins") (by decide), hRU "plugins" (by decide), op]
    cases hp : c.plugins with
    | none =>
      refine ⟨none, ?_, rfl⟩
      simp [hok.rem.prim' (k := "plugins") (by decide)]
    | some l =>
      obtain ⟨hne, hall⟩ := hok.plugins l hp
      have hne' : l.isEmpty = false := by simpa using hne
      refine ⟨some (l.map fun p => p.map normPlugin), ?_, ?_⟩
      · simp only [Option.getD_some, hne', Bool.false_eq_true, if_false]
        exact plugins_roundtrip_ok l hne hall
      · simp only [Option.map_some]
        rw [map_map_idem]
        intro a _
        cases a with
        | none => rfl
        | some p =>
          simp only [Option.map_some]
          rw [normPlugin_idem p]
  -- env
  have henv : ∃ env', optField (taken R csD) "Env" none parseEnvMap = .ok env' ∧ normList env' = normList c.env := by
    unfold optField
    rw [fieldOf_afKey (k := "env") (by decide), hRU "env" (by decide), oe]
    have hnone := hok.rem.prim' (k := "env") (by decide)
    cases he : c.env with
    | none => exact ⟨none, by simp [lenUMap, hnone], rfl⟩
    | some e =>
      cases e with
      | nil => exact ⟨none, by simp [lenUMap, hnone], rfl⟩
      | cons a t =>
        refine ⟨some (a :: t), ?_, rfl⟩
        simp only [lenUMap, List.length_cons, Nat.add_eq_zero_iff, Nat.succ_ne_self, and_false, beq_iff_eq,
          if_false]
        exact env_roundtrip_sorted (a :: t) (hok.env _ he)
  -- signature
  have hsig : optField (taken R csD) "Signature" none parseSignature = .ok c.signature := by
    unfold optField
    rw [fieldOf_afKey (k := "signature") (by decide), hRU "signature" (by decide), os]
    cases c.signature with
    | none => simp [hok.rem.prim' (k := "signature") (by decide)]
    | some s => simp only [Option.map_some]; exact signature_roundtrip s
  -- matrix
  have hmx : ∃ mx', optField (taken R csD) "Matrix" none parseMatrix = .ok mx' ∧
      mx'.map normMatrix = c.matrix.map normMatrix := by
    unfold optField
    rw [fieldOf_afKey (k := "matrix") (by decide), hRU "matrix" (by decide), om]
    cases hm : c.matrix with
    | none => exact ⟨none, by simp [hok.rem.prim' (k := "matrix") (by decide)], rfl⟩
    | some mm =>
      obtain ⟨m', h1, h2⟩ := matrix_roundtrip_ok mm (hok.matrix mm hm) (hst_mx mm hm)
      exact ⟨some m', by simp only [Option.map_some]; exact h1, by simp [h2]⟩
  -- cache
  have hca : ∃ ca', optField (taken R csD) "Cache" none parseCache = .ok ca' ∧
      ca'.map normCache = c.cache.map normCache := by
    unfold optField
    rw [fieldOf_afKey (k := "cache") (by decide), hRU "cache" (by decide), oca]
    cases hm : c.cache with
    | none => exact ⟨none, by simp [hok.rem.prim' (k := "cache") (by decide)], rfl⟩
    | some k =>
      obtain ⟨k', h1, h2⟩ := cache_roundtrip_ok k (hok.cache k hm)
      exact ⟨some k', by simp only [Option.map_some]; exact h1, by simp [h2]⟩
  -- remainder
  have hrem : normList (remMap (remainder R csD)) = normList c.rem := by
    apply rem_roundtrip_gen csD ((cmdOutline c).filter fun p => p.1 != "command") rereadJ c.rem ?_ hok.rem R hsR
    · intro k
      rw [lookup_filter_key (fun k => k != "command")]
      by_cases hk : k = "command"
      · subst hk
        simp [hR, hok.rem.prim' (k := "command") (by decide)]
      · have : (k != "command") = true := by simpa using hk
        rw [if_pos this]
        exact hRU k hk
    · intro k hk hn
      rcases outlineKeys_cs_alias hk hn with ⟨hk', hnone⟩ | ⟨rfl, hnone⟩
      · rw [hRU "key" (by decide), ok] at hnone
        have hk0 : c.key = "" := by
          by_cases h0 : c.key = ""
          · exact h0
          · simp [h0] at hnone
        rcases hk' with rfl | rfl
        · exact (hst_alias.2 hk0).1
        · exact (hst_alias.2 hk0).2
      · rw [hRU "label" (by decide), ol] at hnone
        have hk0 : c.label = "" := by
          by_cases h0 : c.label = ""
          · exact h0
          · simp [h0] at hnone
        exact hst_alias.1 hk0
    · intro k hk
      obtain ⟨p, hp, rfl⟩ := List.mem_map.1 hk
      exact cmdOutlineKeys_normal _ ((cmdOutline_keys c).subset (List.mem_map_of_mem (List.mem_filter.1 hp).1))
  obtain ⟨pl', hpl1, hpl2⟩ := hplug
  obtain ⟨env', henv1, henv2⟩ := henv
  obtain ⟨mx', hmx1, hmx2⟩ := hmx
  obtain ⟨ca', hca1, hca2⟩ := hca
  refine ⟨U, { key := c.key, label := c.label, command := c.command, plugins := pl', env := env',
               signature := c.signature, matrix := mx', cache := ca', rem := remMap (remainder R csD) }, hU, ?_, ?_⟩
  · unfold parseCommand
    simp only [hcmds, hRdef, hkey, hlabel, hcommand, hpl1, henv1, hsig, hmx1, hca1]
    rfl
  · refine ⟨?_, hUcommand, fun k hk => ?_⟩
    · simp only [normCommand, hpl2, henv2, hmx2, hca2, hrem]
    · rw [hl, cmdOutline_lookup_other c hk]

theorem command_roundtrip (m : Unm.Entries) (c : CommandStep) (hm : NoUMapKVs m) (hk : (m.map (·.1)).Nodup)
    (h : parseCommand m = .ok c) (hs : StableCommand c) :
    ∃ kvs c', rereadJ (mCommand c) = .omap kvs ∧ parseCommand kvs = .ok c' ∧ normCommand c' = normCommand c :=
  let ⟨kvs, c', h1, h2, h3, _⟩ := command_roundtrip_ok c (parseCommand_inv hm h) hs
  ⟨kvs, c', h1, h2, h3⟩

local notation "grpD" => Gen.struct_GroupStep

/-! ## Part 6: steps -/

/-! ### Keys that pass through the remainder -/

theorem nodup_keys_remainder {m : Entries} (fs : List Field) (hm : (m.map (·.1)).Nodup) :
    ((remainder m fs).map (·.1)).Nodup := by
  rw [keys_remainder]
  exact hm.sublist List.filter_sublist

theorem lookup_remainder_of_not_claim {m : Entries} {fs : List Field} {k : String} (h : k ∉ claimKeys fs) :
    (remainder m fs).lookup k = m.lookup k := by
  rw [lookup_remainder, if_neg (fun hk => h ((outlineKeys_sublist m fs).subset hk))]

theorem lookup_remMap_remainder {m : Entries} {fs : List Field} {k : String} (hn : (m.map (·.1)).Nodup)
    (hk : k ∉ claimKeys fs) : ((remMap (remainder m fs)).getD []).lookup k = m.lookup k := by
  rw [remMap_getD, lookup_umapOf_nodup (nodup_keys_remainder fs hn), lookup_remainder_of_not_claim hk]

theorem parseCommand_rem {m : Entries} {c : CommandStep} (h : parseCommand m = .ok c) :
    c.rem = remMap (remainder (remainder m outerD) csD) := by
  unfold parseCommand at h
  simp only at h
  split at h
  · cases h
  · split at h
    · simp only [Except.ok.injEq] at h
      subst h
      rfl
    · cases h

theorem command_rem_lookup {m : Entries} {c : CommandStep} (h : parseCommand m = .ok c) (hn : (m.map (·.1)).Nodup)
    {k : String} (h1 : k ∉ claimKeys outerD) (h2 : k ∉ claimKeys csD) :
    (c.rem.getD []).lookup k = m.lookup k := by
  rw [parseCommand_rem h, lookup_remMap_remainder (nodup_keys_remainder _ hn) h2, lookup_remainder_of_not_claim h1]

/-! ### Kind selection -/

open StepKind in
theorem selOf_eq_of {m U : Entries} (htype : U.lookup "type" = m.lookup "type")
    (hkeys : m.lookup "type" = none → ∀ k ∈ kindKeys, (U.lookup k).isSome = (m.lookup k).isSome) :
    selOf U = selOf m := by
  unfold selOf
  rw [htype]
  cases ht : m.lookup "type" with
  | none =>
    simp only
    rw [C15_extra_keys_irrelevant _ (fun k => (m.lookup k).isSome) .absent (hkeys ht)]
  | some v => cases v <;> rfl

open StepKind in
theorem infer_group_has {has : String → Bool}
    (h : select Gen.typeTable Gen.inferTable has .absent = .known .group) : has "group" = true := by
  rw [C15_inference_rule] at h
  simp only [specInfer] at h
  cases h1 : has "group" with
  | true => rfl
  | false =>
    exfalso
    revert h
    cases has "command" <;> cases has "commands" <;> cases has "plugins" <;> cases has "wait" <;>
      cases has "waiter" <;> cases has "block" <;> cases has "input" <;> cases has "manual" <;>
      cases has "trigger" <;> simp [h1]

open StepKind in
theorem selOf_command_of {m U : Entries} (htype : U.lookup "type" = m.lookup "type")
    (hc : (U.lookup "command").isSome = true) (hsel : selOf m = .ok (.known .command)) :
    selOf U = .ok (.known .command) := by
  unfold selOf at hsel ⊢
  rw [htype]
  cases ht : m.lookup "type" with
  | none =>
    simp only
    rw [C15_inference_rule]
    simp [specInfer, hc]
  | some v =>
    rw [ht] at hsel
    cases v <;> first | exact hsel | (simp at hsel)

theorem selOf_umapOf {m : Entries} (hn : (m.map (·.1)).Nodup) : selOf (Parse.umapOf m) = selOf m :=
  selOf_eq_of (lookup_umapOf_nodup hn _) (fun _ k _ => by rw [lookup_umapOf_nodup hn])

/-! ### Group step fields -/

theorem fieldOf_grp_key (r : Entries) :
    fieldOf (taken r grpD) "Key" =
      match r.lookup "key" with
      | some v => some v
      | none => match r.lookup "id" with
        | some v => some v
        | none => r.lookup "identifier" := by
  unfold Gen.struct_GroupStep
  rw [fieldOf_head (n := "Key") rfl rfl (by simp [Field.name])]
  simp only [fieldTake, firstAlias, Field.key, Field.aliases]
  cases r.lookup "key" <;> cases r.lookup "id" <;> cases r.lookup "identifier" <;> simp

theorem fieldOf_grp_group (r : Entries) (v : Val) (h : r.lookup "group" = some v) :
    fieldOf (taken r grpD) "Group" = some v := by
  unfold Gen.struct_GroupStep
  rw [fieldOf_taken_skip _ _ _ _ (by decide), fieldOf_head (n := "Group") rfl rfl (by simp [Field.name])]
  simp [fieldTake, Field.key, h]

theorem outlineKeys_grp_alias {R : Entries} {k : String} (h : k ∈ outlineKeys R grpD) (hn : k ∉ normalKeys grpD) :
    ((k = "id" ∨ k = "identifier") ∧ R.lookup "key" = none) ∨ R.lookup "group" = none := by
  obtain ⟨f, hf, hr, v, ht⟩ := mem_outlineKeys.1 h
  have hk := (fieldTake_some ht).1
  simp only [Gen.struct_GroupStep, List.mem_cons, List.not_mem_nil, or_false] at hf
  rcases hf with rfl | rfl | rfl | rfl <;>
    simp [Field.key, Field.aliases] at hk
  · rcases hk with rfl | rfl | rfl
    · exact absurd (by decide) hn
    · refine .inl ⟨.inl rfl, ?_⟩
      cases hp : R.lookup "key" with
      | none => rfl
      | some w => simp [fieldTake, Field.key, hp] at ht
    · refine .inl ⟨.inr rfl, ?_⟩
      cases hp : R.lookup "key" with
      | none => rfl
      | some w => simp [fieldTake, Field.key, hp] at ht
  · rcases hk with rfl | rfl | rfl
    · exact absurd (by decide) hn
    · refine .inr ?_
      cases hp : R.lookup "group" with
      | none => rfl
      | some w => simp [fieldTake, Field.key, hp] at ht
    · refine .inr ?_
      cases hp : R.lookup "group" with
      | none => rfl
      | some w => simp [fieldTake, Field.key, hp] at ht
  all_goals first | (simp [Field.role] at hr; done) | (subst hk; exact absurd (by decide) hn)

/-! ### Nested values -/

theorem keysNodupKVs_iff : (l : List (String × Val)) → (KeysNodupKVs l ↔ ∀ p ∈ l, KeysNodup p.2)
  | [] => by simp [KeysNodupKVs]
  | (k, v) :: r => by
    rw [KeysNodupKVs, keysNodupKVs_iff r]
    simp

theorem keysNodupList_iff : (l : List Val) → (KeysNodupList l ↔ ∀ p ∈ l, KeysNodup p)
  | [] => by simp [KeysNodupList]
  | v :: r => by
    rw [KeysNodupList, keysNodupList_iff r]
    simp

theorem keysNodup_of_lookup {l : List (String × Val)} (h : KeysNodupKVs l) {k : String} {v : Val}
    (hl : l.lookup k = some v) : KeysNodup v :=
  (keysNodupKVs_iff l).1 h (k, v) (mem_of_lookup hl)

/-- The statement of `step_roundtrip` at one fuel level (the induction hypothesis). -/
def StepRT (f : Nat) : Prop :=
  ∀ (x : Val) (s : Step) (w : List Warn), NoUMap x → KeysNodup x → parseStep f x = .ok (s, w) → StableStep s →
    ∃ j s' w', mStep s = .ok j ∧ parseStep f (rereadJ j) = .ok (s', w') ∧ normStep s' = normStep s ∧ w' = w

theorem steps_roundtrip_of (f : Nat) (ih : StepRT f) : (xs : List Val) → (ss : List Step) → (ws : List Warn) →
    NoUMapList xs → KeysNodupList xs → parseSteps f xs = .ok (ss, ws) → StableSteps ss →
    ∃ js ss', mSteps ss = .ok js ∧ parseSteps f (rereadJList js) = .ok (ss', ws) ∧ normSteps ss' = normSteps ss
  | [], ss, ws, _, _, h, _ => by
    rw [parseSteps.eq_1] at h
    simp only [Except.ok.injEq, Prod.mk.injEq] at h
    obtain ⟨rfl, rfl⟩ := h
    exact ⟨[], [], rfl, by rw [rereadJList, parseSteps.eq_1], rfl⟩
  | v :: r, ss, ws, hx, hd, h, hs => by
    obtain ⟨s, w, ss', ws', hs1, hss, rfl, rfl⟩ := parseSteps_cons_ok h
    rw [NoUMapList] at hx
    rw [KeysNodupList] at hd
    rw [StableSteps] at hs
    obtain ⟨j, s1, w1, hj, hp, hn, rfl⟩ := ih v s w hx.1 hd.1 hs1 hs.1
    obtain ⟨js, ss1, hjs, hps, hns⟩ := steps_roundtrip_of f ih r ss' ws' hx.2 hd.2 hss hs.2
    refine ⟨j :: js, s1 :: ss1, ?_, ?_, ?_⟩
    · rw [mSteps_cons, hj, hjs]
    · rw [rereadJList, parseSteps.eq_2, hp, hps]
    · rw [normSteps, normSteps, hn, hns]

/-- The outline of a marshalled group step. -/
def grpOutline (k : String) (g : Option String) (js : List Val) : List (String × Val) :=
  optE (k == "") "key" (.str k) ++
    [("group", match g with | none => Val.null | some s => .str s), ("steps", .seq js)]

theorem mStep_group_eq (k : String) (g : Option String) (l : List Step) (r : UMap Val) (js : List Val)
    (h : mSteps l = .ok js) :
    mStep (.group k g (some l) r) = .ok (inlineFriendly (grpOutline k g js) r) := by
  rw [mStep_group_some, h]
  rfl

def grpOutlineKeys : List String := ["key", "group", "steps"]

theorem grpOutline_keys (k : String) (g : Option String) (js : List Val) :
    ((grpOutline k g js).map (·.1)).Sublist grpOutlineKeys := by
  unfold grpOutline
  simp only [List.map_append]
  exact (keys_optE _ _ _).append (List.Sublist.refl _)

theorem grpOutline_lookups (k : String) (g : Option String) (js : List Val) :
    (grpOutline k g js).lookup "key" = (if (k == "") = true then none else some (.str k)) ∧
    (grpOutline k g js).lookup "group" = some (match g with | none => Val.null | some s => .str s) ∧
    (grpOutline k g js).lookup "steps" = some (.seq js) := by
  unfold grpOutline
  simp only [List.lookup_append, lookup_optE, lookup_cons_if, List.lookup_nil]
  refine ⟨?_, ?_, ?_⟩ <;> simp <;> split <;> simp

theorem group_roundtrip (f : Nat) (ih : StepRT f) (m : Entries) (hm : NoUMapKVs m) (hkk : KeysNodupKVs m)
    (g : Step) (hg : parseGroup f m = .ok g) (hs : StableStep g) :
    ∃ j U g' k grp ss, g = .group k grp (some ss) (remMap (remainder m grpD)) ∧
      mStep g = .ok j ∧ rereadJ j = .omap U ∧ parseGroup f U = .ok g' ∧ normStep g' = normStep g ∧
      (U.lookup "group").isSome = true ∧
      ∀ k', k' ∉ grpOutlineKeys → U.lookup k' = ((remMap (remainder m grpD)).getD []).lookup k' := by
  obtain ⟨k, grp, ss, rfl, hsteps⟩ := parseGroup_ok hg
  have hR : RemOK grpD (remMap (remainder m grpD)) := remOK_remMap m grpD hm
  generalize remMap (remainder m grpD) = rem at hR hs
  simp only [StableStep] at hs
  obtain ⟨hss, _, _, hkey⟩ := hs
  -- the nested steps
  have hsub : ∃ js ss', mSteps ss = .ok js ∧ parseSteps f (rereadJList js) = .ok (ss', []) ∧
      normSteps ss' = normSteps ss := by
    rcases hsteps with ⟨_, rfl⟩ | ⟨xs, hl, hps⟩
    · exact ⟨[], [], rfl, by rw [rereadJList, parseSteps.eq_1], rfl⟩
    · have h1 : NoUMap (.seq xs) := noUMap_of_lookup hm hl
      have h2 : KeysNodup (.seq xs) := keysNodup_of_lookup hkk hl
      exact steps_roundtrip_of f ih xs ss [] (by simpa [NoUMap] using h1) (by simpa [KeysNodup] using h2) hps hss
  obtain ⟨js, ss', hjs, hps, hns⟩ := hsub
  have hnd : ((grpOutline k grp js).map (·.1)).Nodup := List.Nodup.sublist (grpOutline_keys k grp js) (by decide)
  obtain ⟨U, hU, hsU, hl⟩ := reread_inline (grpOutline k grp js) rem hnd hR.sorted hR.noUMap
  obtain ⟨ok, og, os⟩ := grpOutline_lookups k grp js
  have hUg : U.lookup "group" = some (match grp with | none => Val.null | some s => .str s) := by
    rw [hl, og]
    cases grp <;> rfl
  have hUs : U.lookup "steps" = some (.seq (rereadJList js)) := by
    rw [hl, os]; rfl
  have hkeyF : optField (taken U grpD) "Key" "" strOf = .ok k := by
    unfold optField
    rw [fieldOf_grp_key, hl "key", hl "id", hl "identifier", ok,
      lookup_none_of_not_mem (fun h => absurd ((grpOutline_keys k grp js).subset h) (by decide)),
      lookup_none_of_not_mem (fun h => absurd ((grpOutline_keys k grp js).subset h) (by decide))]
    by_cases hk : k = ""
    · have := hkey hk
      simp [hk, this.1, this.2, hR.prim' (k := "key") (by decide)]
    · simp [hk, rereadJ, strOf_str]
  have hrem : normList (remMap (remainder U grpD)) = normList rem := by
    apply rem_roundtrip_gen grpD (grpOutline k grp js) rereadJ rem ?_ hR U hsU hl
    · intro k' hk' hn
      rcases outlineKeys_grp_alias hk' hn with ⟨hk2, hnone⟩ | hnone
      · rw [hl "key", ok] at hnone
        have hk0 : k = "" := by
          by_cases h0 : k = ""
          · exact h0
          · simp [h0] at hnone
        rcases hk2 with rfl | rfl
        · exact (hkey hk0).1
        · exact (hkey hk0).2
      · rw [hUg] at hnone; cases hnone
    · intro k' hk'
      have : ∀ k ∈ grpOutlineKeys, k ∈ normalKeys grpD := by decide
      exact this _ ((grpOutline_keys k grp js).subset hk')
  refine ⟨_, U, .group k grp (some ss') (remMap (remainder U grpD)), k, grp, ss, rfl,
    mStep_group_eq k grp ss rem js hjs, hU, ?_, ?_, by rw [hUg]; rfl, fun k' hk' => ?_⟩
  · rw [parseGroup.eq_1]
    simp only [hkeyF, fieldOf_group_steps, hUs, hps, fieldOf_grp_group U _ hUg]
    cases grp <;> simp [strOf_str, Except.map]
  · simp only [normStep, hns, hrem]
  · rw [hl, lookup_none_of_not_mem (fun h => hk' ((grpOutline_keys k grp js).subset h))]

/-- A step that marshals to the very entry it was parsed from re-parses to itself. -/
theorem verbatim_roundtrip {f : Nat} {x : Val} {s : Step} {w : List Warn} (hx : NoUMap x)
    (h : parseStep f x = .ok (s, w)) (hm : mStep s = .ok x) :
    ∃ j s' w', mStep s = .ok j ∧ parseStep f (rereadJ j) = .ok (s', w') ∧ normStep s' = normStep s ∧ w' = w :=
  ⟨x, s, w, hm, by rw [reread_noUMap x hx]; exact h, rfl, rfl⟩

theorem selectScalar_ne_empty {t : String} (h : StepKind.selectScalar Gen.scalarTable t ≠ .unknownType) : t ≠ "" := by
  intro ht; subst ht
  exact h (by decide)

/-- Contents steps (`wait`, `input`, `trigger` written as mappings). -/
theorem contents_reparse (m : Entries) (hm : NoUMapKVs m) (hn : (m.map (·.1)).Nodup) :
    rereadJ (.umap (Parse.umapOf m)) = .omap (Parse.umapOf m) ∧ selOf (Parse.umapOf m) = selOf m ∧
      Parse.umapOf (Parse.umapOf m) = Parse.umapOf m := by
  refine ⟨?_, selOf_umapOf hn, umapOf_umapOf m⟩
  rw [rereadJ, rereadJKVs_of_forall]
  intro p hp
  exact (noUMapKVs_iff m).1 hm p (mem_umapOf hp)

theorem lenUMap_umapOf_ne {m : Entries} (hne : m ≠ []) : (lenUMap (some (Parse.umapOf m)) == 0) = false := by
  have := umapOf_ne_nil hne
  cases hu : Parse.umapOf m with
  | nil => exact absurd hu this
  | cons a b => simp [lenUMap]

theorem selOf_ne_nil {m : Entries} {k : StepKind.Kind} (h : selOf m = .ok (.known k)) : m ≠ [] := by
  intro hm; subst hm
  rw [selOf_nil] at h; cases h

open StepKind in
theorem selOf_group_of {m U : Entries} (hn : (m.map (·.1)).Nodup) (hsel : selOf m = .ok (.known .group))
    (hUg : (U.lookup "group").isSome = true)
    (hUo : ∀ k', k' ∉ grpOutlineKeys → U.lookup k' = ((remMap (remainder m grpD)).getD []).lookup k') :
    selOf U = .ok (.known .group) := by
  have hpass : ∀ k, k ∉ grpOutlineKeys → k ∉ claimKeys grpD → U.lookup k = m.lookup k := by
    intro k h1 h2
    rw [hUo k h1, lookup_remMap_remainder hn h2]
  rw [← hsel]
  apply selOf_eq_of (hpass "type" (by decide) (by decide))
  intro ht k hk
  have hmg : (m.lookup "group").isSome = true := by
    unfold selOf at hsel
    rw [ht] at hsel
    simp only [Except.ok.injEq] at hsel
    exact infer_group_has hsel
  simp only [kindKeys, List.mem_cons, List.not_mem_nil, or_false] at hk
  rcases hk with rfl | rfl | rfl | rfl | rfl | rfl | rfl | rfl | rfl | rfl
  all_goals first | (rw [hUg, hmg]) | (rw [hpass _ (by decide) (by decide)])

theorem step_roundtrip_all : ∀ f, StepRT f
  | 0 => by
    intro x s w _ _ h
    rw [parseStep.eq_1] at h; cases h
  | f + 1 => by
    have ih := step_roundtrip_all f
    intro x s w hx hd h hs
    cases x with
    | str t =>
      have h0 := h
      rw [parseStep.eq_2] at h
      split at h
      · rename_i hsel
        simp only [Except.ok.injEq, Prod.mk.injEq] at h; obtain ⟨rfl, rfl⟩ := h
        apply verbatim_roundtrip hx h0
        have hne : (t != "") = true := by
          simpa using selectScalar_ne_empty (by rw [hsel]; simp)
        rw [mStep_wait, if_pos hne]
      · rename_i hsel
        simp only [Except.ok.injEq, Prod.mk.injEq] at h; obtain ⟨rfl, rfl⟩ := h
        apply verbatim_roundtrip hx h0
        have hne : (t != "") = true := by
          simpa using selectScalar_ne_empty (by rw [hsel]; simp)
        rw [mStep_input, if_pos hne]
      · simp only [Except.ok.injEq, Prod.mk.injEq] at h; obtain ⟨rfl, rfl⟩ := h
        exact verbatim_roundtrip hx h0 (mStep_unknown _)
    | omap m =>
      have h0 := h
      have hm : NoUMapKVs m := by simpa [NoUMap] using hx
      have hn : (m.map (·.1)).Nodup := by rw [KeysNodup] at hd; exact hd.1
      have hkk : KeysNodupKVs m := by rw [KeysNodup] at hd; exact hd.2
      rw [parseStep.eq_3] at h
      split at h
      · cases h
      · rename_i sel hsel
        split at h
        · cases h
        · simp only [Except.ok.injEq, Prod.mk.injEq] at h; obtain ⟨rfl, rfl⟩ := h
          exact verbatim_roundtrip hx h0 (mStep_unknown _)
        · simp only [Except.ok.injEq, Prod.mk.injEq] at h; obtain ⟨rfl, rfl⟩ := h
          exact verbatim_roundtrip hx h0 (mStep_unknown _)
        · split at h
          · rename_i c hc
            simp only [Except.ok.injEq, Prod.mk.injEq] at h; obtain ⟨rfl, rfl⟩ := h
            rw [StableStep] at hs
            obtain ⟨U, c', hU, hp, hnc, hUc, hUo⟩ := command_roundtrip_ok c (parseCommand_inv hm hc) hs
            have hselU : selOf U = .ok (.known .command) := by
              apply selOf_command_of _ (by rw [hUc]; rfl) hsel
              rw [hUo "type" (by decide), command_rem_lookup hc hn (by decide) (by decide)]
            refine ⟨mCommand c, .command c', [], mStep_command c, ?_, ?_, rfl⟩
            · rw [hU, parseStep.eq_3, hselU]
              simp only [hp]
            · rw [normStep, normStep, hnc]
          · simp only [Except.ok.injEq, Prod.mk.injEq] at h; obtain ⟨rfl, rfl⟩ := h
            exact verbatim_roundtrip hx h0 (mStep_unknown _)
        · simp only [Except.ok.injEq, Prod.mk.injEq] at h; obtain ⟨rfl, rfl⟩ := h
          obtain ⟨h1, h2, h3⟩ := contents_reparse m hm hn
          refine ⟨.umap (Parse.umapOf m), .wait "" (some (Parse.umapOf m)), [], ?_, ?_, rfl, rfl⟩
          · rw [mStep_wait, lenUMap_umapOf_ne (selOf_ne_nil hsel)]; rfl
          · rw [h1, parseStep.eq_3, h2, hsel]
            simp only [h3]
        · simp only [Except.ok.injEq, Prod.mk.injEq] at h; obtain ⟨rfl, rfl⟩ := h
          obtain ⟨h1, h2, h3⟩ := contents_reparse m hm hn
          refine ⟨.umap (Parse.umapOf m), .input "" (some (Parse.umapOf m)), [], ?_, ?_, rfl, rfl⟩
          · rw [mStep_input, lenUMap_umapOf_ne (selOf_ne_nil hsel)]; rfl
          · rw [h1, parseStep.eq_3, h2, hsel]
            simp only [h3]
        · simp only [Except.ok.injEq, Prod.mk.injEq] at h; obtain ⟨rfl, rfl⟩ := h
          obtain ⟨h1, h2, h3⟩ := contents_reparse m hm hn
          refine ⟨.umap (Parse.umapOf m), .trigger (some (Parse.umapOf m)), [], ?_, ?_, rfl, rfl⟩
          · rw [mStep_trigger]; rfl
          · rw [h1, parseStep.eq_3, h2, hsel]
            simp only [h3]
        · split at h
          · rename_i g hg
            simp only [Except.ok.injEq, Prod.mk.injEq] at h; obtain ⟨rfl, rfl⟩ := h
            obtain ⟨j, U, g', k, grp, ss, hgeq, hj, hU, hpg, hng, hUg, hUo⟩ :=
              group_roundtrip f ih m hm hkk g hg hs
            have hselU : selOf U = .ok (.known .group) := selOf_group_of hn hsel hUg hUo
            refine ⟨j, g', [], hj, ?_, hng, rfl⟩
            rw [hU, parseStep.eq_3, hselU]
            simp only [hpg]
          · simp only [Except.ok.injEq, Prod.mk.injEq] at h; obtain ⟨rfl, rfl⟩ := h
            exact verbatim_roundtrip hx h0 (mStep_unknown _)
        · simp only [Except.ok.injEq, Prod.mk.injEq] at h; obtain ⟨rfl, rfl⟩ := h
          exact verbatim_roundtrip hx h0 (mStep_unknown _)
    | null | bool _ | int _ | float _ | time _ | seq _ | umap _ =>
      rw [parseStep.eq_4 _ _ (by intro s h; cases h) (by intro m h; cases h)] at h; cases h

theorem step_roundtrip (f : Nat) (x : Val) (s : Step) (w : List Warn) (hx : NoUMap x) (hd : KeysNodup x)
    (h : parseStep f x = .ok (s, w)) (hs : StableStep s) :
    ∃ j s' w', mStep s = .ok j ∧ parseStep f (rereadJ j) = .ok (s', w') ∧ normStep s' = normStep s ∧ w' = w :=
  step_roundtrip_all f x s w hx hd h hs

local notation "pipeD" => Gen.struct_Pipeline

/-! ## Part 7: the pipeline -/

theorem parsePipeline_inv {v : Val} {p : Pipeline} {ws : List Warn} (hv : NoUMap v) (hd : KeysNodup v)
    (h : parsePipeline v = .ok (p, ws)) :
    ∃ xs l ws', p.steps = some l ∧ NoUMapList xs ∧ KeysNodupList xs ∧
      parseSteps stepFuel xs = .ok (l, ws') ∧ RemOK pipeD p.rem := by
  unfold parsePipeline at h
  simp only [fieldOf_pipeline_steps] at h
  split at h
  · rename_i m
    have hm : NoUMapKVs m := by simpa [NoUMap] using hv
    have hkk : KeysNodupKVs m := by rw [KeysNodup] at hd; exact hd.2
    have hR := remOK_remMap m pipeD hm
    split at h
    · cases h
    · rename_i steps ws1 hst
      split at h
      · cases h
      · rename_i env _
        split at hst
        · rename_i hl
          simp only [Except.ok.injEq, Prod.mk.injEq] at hst
          obtain ⟨rfl, rfl⟩ := hst
          simp only [Except.ok.injEq, Prod.mk.injEq] at h
          obtain ⟨rfl, _⟩ := h
          exact ⟨[], [], [], rfl, trivial, trivial, parseSteps.eq_1 _, hR⟩
        · rename_i hl
          simp only [Except.ok.injEq, Prod.mk.injEq] at hst
          obtain ⟨rfl, rfl⟩ := hst
          simp only [Except.ok.injEq, Prod.mk.injEq] at h
          obtain ⟨rfl, _⟩ := h
          exact ⟨[], [], [], rfl, trivial, trivial, parseSteps.eq_1 _, hR⟩
        · rename_i xs hl
          have h1 : NoUMap (.seq xs) := noUMap_of_lookup hm hl
          have h2 : KeysNodup (.seq xs) := keysNodup_of_lookup hkk hl
          cases hps : parseSteps stepFuel xs with
          | error e => rw [hps] at hst; cases hst
          | ok r =>
            obtain ⟨l, ws'⟩ := r
            rw [hps] at hst
            simp only [Except.map, Except.ok.injEq, Prod.mk.injEq] at hst
            obtain ⟨rfl, rfl⟩ := hst
            simp only [Except.ok.injEq, Prod.mk.injEq] at h
            obtain ⟨rfl, _⟩ := h
            exact ⟨xs, l, ws', rfl, by simpa [NoUMap] using h1, by simpa [KeysNodup] using h2, hps, hR⟩
        · cases hst
  · rename_i xs
    split at h
    · cases h
    · rename_i ss ws1 hps
      simp only [Except.ok.injEq, Prod.mk.injEq] at h
      obtain ⟨rfl, _⟩ := h
      exact ⟨xs, ss, ws1, rfl, by simpa [NoUMap] using hv, by simpa [KeysNodup] using hd, hps, remOK_none _⟩
  · cases h

def envOV (kvs : List (String × String)) : Val := .omap (kvs.map fun (k, v) => (k, .str v))

def pipeOutline (js : List Val) (env : Option (List (String × String))) : List (String × Val) :=
  [("steps", .seq js)] ++ optO env "env" envOV

theorem mPipeline_eq (p : Pipeline) (l : List Step) (js : List Val) (hl : p.steps = some l) (h : mSteps l = .ok js) :
    mPipeline p = .ok (inlineFriendly (pipeOutline js p.env) p.rem) := by
  obtain ⟨steps, env, rem⟩ := p
  simp only at hl
  subst hl
  unfold mPipeline
  simp only [h, Except.map]
  cases env <;> rfl

theorem pipeOutline_keys (js : List Val) (env : Option (List (String × String))) :
    ((pipeOutline js env).map (·.1)).Sublist ["steps", "env"] := by
  unfold pipeOutline
  simp only [List.map_append]
  exact (List.Sublist.refl _).append (keys_optO _ _ _)

theorem json_fixpoint (v : Val) (p : Pipeline) (ws : List Warn) (hv : NoUMap v) (hd : KeysNodup v)
    (h : parsePipeline v = .ok (p, ws)) (hs : StablePipeline p) :
    ∃ j p' ws', mPipeline p = .ok j ∧ parsePipeline (rereadJ j) = .ok (p', ws') ∧ normPipeline p' = normPipeline p := by
  obtain ⟨xs, l, ws1, hl, hx1, hx2, hps, hR⟩ := parsePipeline_inv hv hd h
  obtain ⟨js, ss', hjs, hps', hns⟩ := steps_roundtrip_of stepFuel (step_roundtrip_all stepFuel) xs l ws1 hx1 hx2 hps
    (hs.1 l hl)
  have hnd : ((pipeOutline js p.env).map (·.1)).Nodup := List.Nodup.sublist (pipeOutline_keys js p.env) (by decide)
  obtain ⟨U, hU, hsU, hlk⟩ := reread_inline (pipeOutline js p.env) p.rem hnd hR.sorted hR.noUMap
  have hUs : U.lookup "steps" = some (.seq (rereadJList js)) := by
    rw [hlk]; simp [pipeOutline, List.lookup_append, lookup_cons_if, rereadJ]
  have hUe : U.lookup "env" = p.env.map fun e => rereadJ (envOV e) := by
    rw [hlk]
    simp only [pipeOutline, List.lookup_append, lookup_cons_if, lookup_optO, List.lookup_nil]
    cases p.env with
    | none => simp [hR.prim' (k := "env") (by decide)]
    | some e => simp
  have henv : optField (taken U pipeD) "Env" none parseEnvOrdered = .ok p.env := by
    unfold optField
    rw [fieldOf_afKey (k := "env") (by decide), hUe]
    cases p.env with
    | none => rfl
    | some e => exact pipeline_env_roundtrip e
  have hrem := rem_roundtrip_af pipeD aliasFree_pipeline _ p.rem
    (by
      intro k hk
      have : ∀ k ∈ ["steps", "env"], k ∈ normalKeys pipeD := by decide
      exact this k ((pipeOutline_keys js p.env).subset hk)) hR U hsU hlk
  refine ⟨_, { steps := some ss', env := p.env, rem := remMap (remainder U pipeD) }, ws1,
    mPipeline_eq p l js hl hjs, ?_, ?_⟩
  · rw [hU]
    unfold parsePipeline
    simp only [fieldOf_pipeline_steps, hUs, hps', Except.map, henv]
  · simp only [normPipeline, hns, hrem, hl]

end GoPipeline.Roundtrip
