/-
  C07 — soundness of the recursion error: `decode` answers `.error .recursion` only if some node reachable
  (in the value graph of `Model/YamlGraph.lean`) from the node it was called on is already on the decoding
  path (`seen`) or lies on a cycle.
-/
import GoPipeline.Model.YamlGraph
import GoPipeline.Lemmas.Yaml
namespace GoPipeline.Yaml

theorem map_eq_error {α β : Type} {g : α → β} {x : Except Err α} {e : Err} (h : x.map g = .error e) :
    x = .error e := by
  cases x <;> simp_all [Except.map]

/-- What the recursion error of a call on `i` exhibits. -/
def Witness (s : Store) (seen : List Nat) (i : Nat) : Prop :=
  ∃ j, Reach s i j ∧ (j ∈ seen ∨ OnCycle s j)

/-- From a child's witness (w.r.t. the extended path) to the parent's. -/
theorem Witness.lift {s : Store} {seen : List Nat} {i c : Nat} (he : Edge s i c)
    (h : Witness s (i :: seen) c) : Witness s seen i := by
  obtain ⟨j, hr, hj⟩ := h
  rcases hj with hj | hj
  · rcases List.mem_cons.mp hj with rfl | hj
    · exact ⟨j, .refl j, .inr ⟨c, he, hr⟩⟩
    · exact ⟨j, .step i c j he hr, .inl hj⟩
  · exact ⟨j, .step i c j he hr, .inr hj⟩

theorem recursion_witness (s : Store) : ∀ f,
    (∀ seen i, decode s f seen (some i) = .error .recursion → Witness s seen i) ∧
    (∀ seen cs, decodeList s f seen cs = .error .recursion → ∃ c ∈ cs, Witness s seen c) ∧
    (∀ seen ps acc, decodePairs s f seen ps acc = .error .recursion → ∃ kv ∈ ps, Witness s seen kv.2) := by
  intro f
  induction f with
  | zero =>
    refine ⟨?_, ?_, ?_⟩
    · intro seen i h; simp [decode] at h
    · intro seen cs h; simp [decodeList] at h
    · intro seen ps acc h; simp [decodePairs] at h
  | succ f ih =>
    obtain ⟨ih1, ih2, ih3⟩ := ih
    refine ⟨?_, ?_, ?_⟩
    · intro seen i h
      by_cases hi : i ∈ seen
      · exact ⟨i, .refl i, .inl hi⟩
      rw [decode] at h
      simp only [List.contains_iff_mem, hi, if_false] at h
      cases hn : s[i]? with
      | none => rw [hn] at h; simp at h
      | some n =>
        rw [hn] at h
        simp only [] at h
        cases hk : n.kind <;> rw [hk] at h <;> simp only [] at h
        case scalar => split at h <;> simp at h
        case sequence =>
          obtain ⟨c, hc, hw⟩ := ih2 _ _ (map_eq_error h)
          exact Witness.lift (.seq i c n hn hk hc) hw
        case mapping =>
          split at h
          · next e he =>
            cases h
            exact absurd he (rangeMap_no_recursion s (bound s) i)
          · next ps hps =>
            obtain ⟨⟨k, v⟩, hkv, hw⟩ := ih3 _ _ _ (map_eq_error h)
            exact Witness.lift (.map i v n ps k hn hk hps hkv) hw
        case alias =>
          cases ht : n.aliasTo with
          | none =>
            rw [ht] at h
            cases f <;> simp [decode] at h
          | some t =>
            rw [ht] at h
            exact Witness.lift (.alias i t n hn hk ht) (ih1 _ _ h)
        case document =>
          split at h
          · simp at h
          · next c hc => exact Witness.lift (.doc i c n hn hk hc) (ih1 _ _ h)
          · simp at h
        case other => simp at h
    · intro seen cs h
      cases cs with
      | nil => simp [decodeList] at h
      | cons c rest =>
        simp only [decodeList] at h
        split at h
        · next e he =>
          cases h
          exact ⟨c, List.mem_cons_self, ih1 _ _ he⟩
        · obtain ⟨c', hc', hw⟩ := ih2 _ _ (map_eq_error h)
          exact ⟨c', List.mem_cons_of_mem _ hc', hw⟩
    · intro seen ps acc h
      cases ps with
      | nil => simp [decodePairs] at h
      | cons p rest =>
        obtain ⟨k, v⟩ := p
        simp only [decodePairs] at h
        split at h
        · next e he =>
          cases h
          exact ⟨(k, v), List.mem_cons_self, ih1 _ _ he⟩
        · obtain ⟨kv, hkv, hw⟩ := ih3 _ _ _ h
          exact ⟨kv, List.mem_cons_of_mem _ hkv, hw⟩

theorem recursion_error_names_an_ancestor (s : Store) (f : Nat) (seen : List Nat) (i : Nat)
    (h : decode s f seen (some i) = .error .recursion) : ∃ j, Reach s i j ∧ (j ∈ seen ∨ OnCycle s j) :=
  (recursion_witness s f).1 seen i h

theorem recursion_only_on_cycles (s : Store) (root : Nat) (h : decodeYAML s root = .error .recursion) :
    ∃ j, Reach s root j ∧ OnCycle s j := by
  obtain ⟨j, hr, hj⟩ := recursion_error_names_an_ancestor s (bound s) [] root h
  rcases hj with hj | hj
  · cases hj
  · exact ⟨j, hr, hj⟩

end GoPipeline.Yaml
