/-
  C10 — helper lemmas for the env-block model (`Model/EnvBlock.lean`).

  Architecture: `lookup_assocSet` / `get_set` characterise the caller environment as a finite map
  keyed by normalised names; `entryStep_ok` / `entryStep_error` invert one callback invocation;
  `step_get_of_ne` / `step_get_prefer` are the two frame facts about one step (a different
  normalised name is untouched; with runtime precedence a present name is untouched).  Everything
  about `specFold`, `specEnvs` and `blockLoop` is then an induction over the block, generalised over
  the environment (and over `done` / `dead` for the in-place walk).
-/
import GoPipeline.Model.EnvBlock
namespace GoPipeline.EnvBlock

variable {E : Type}

/-! ## Decidable equality (for the closed non-vacuity example in `Props/C10.lean`) -/

instance : DecidableEq Env := fun a b =>
  match a, b with
  | ⟨x⟩, ⟨y⟩ => if h : x = y then isTrue (by rw [h]) else isFalse (fun h' => h (by cases h'; rfl))

instance {ε α : Type} [DecidableEq ε] [DecidableEq α] : DecidableEq (Except ε α) := fun a b =>
  match a, b with
  | .ok x, .ok y => if h : x = y then isTrue (by rw [h]) else isFalse (fun h' => h (by cases h'; rfl))
  | .error x, .error y =>
    if h : x = y then isTrue (by rw [h]) else isFalse (fun h' => h (by cases h'; rfl))
  | .ok _, .error _ => isFalse (fun h => by cases h)
  | .error _, .ok _ => isFalse (fun h => by cases h)

/-! ## The caller environment as a map keyed by normalised names -/

theorem lookup_assocSet (a v b : String) (l : List (String × String)) :
    (assocSet a v l).lookup b = if b = a then some v else l.lookup b := by
  induction l with
  | nil =>
    by_cases h : b = a
    · simp [assocSet, h]
    · have h' : (b == a) = false := by simpa using h
      simp [assocSet, List.lookup_cons, h, h']
  | cons p r ih =>
    obtain ⟨k', v'⟩ := p
    by_cases hk : k' = a
    · subst hk
      by_cases h : b = k'
      · simp [assocSet, h]
      · have h' : (b == k') = false := by simpa using h
        simp [assocSet, List.lookup_cons, h, h']
    · have hk' : (k' == a) = false := by simpa using hk
      by_cases h : b = a
      · subst h
        have h' : (b == k') = false := by simpa using fun e => hk e.symm
        simp [assocSet, List.lookup_cons, hk', h', ih]
      · by_cases h2 : b = k'
        · subst h2
          simp [assocSet, hk', hk]
        · have h2' : (b == k') = false := by simpa using h2
          simp [assocSet, List.lookup_cons, hk', h2', ih, h]

theorem get_set (norm : String → String) (env : Env) (k v n : String) :
    (env.set norm k v).get norm n = if norm n = norm k then some v else env.get norm n := by
  simp [Env.get, Env.set, lookup_assocSet]

theorem get_congr (norm : String → String) (env : Env) {a b : String} (h : norm a = norm b) :
    env.get norm a = env.get norm b := by simp [Env.get, h]

/-! ## One callback invocation -/

theorem entryStep_ok {expand : Expand E} {norm : String → String} {prefer : Bool} {env env' : Env}
    {k v k' v' : String} (h : entryStep expand norm prefer env k v = .ok (k', v', env')) :
    expand (env.get norm) k = .ok k' ∧ expand (env.get norm) v = .ok v' ∧
      env' = if (prefer && (env.get norm k').isSome) = true then env else env.set norm k' v' := by
  unfold entryStep at h
  cases h1 : expand (env.get norm) k with
  | error e => simp [h1] at h
  | ok a =>
    cases h2 : expand (env.get norm) v with
    | error e => simp [h1, h2] at h
    | ok c =>
      simp only [h1, h2, Except.ok.injEq, Prod.mk.injEq] at h
      obtain ⟨rfl, rfl, rfl⟩ := h
      exact ⟨rfl, rfl, rfl⟩

theorem entryStep_error {expand : Expand E} {norm : String → String} {prefer : Bool} {env : Env}
    {k v : String} {e : E} (h : entryStep expand norm prefer env k v = .error e) :
    expand (env.get norm) k = .error e ∨ expand (env.get norm) v = .error e := by
  unfold entryStep at h
  cases h1 : expand (env.get norm) k with
  | error e' =>
    simp only [h1, Except.error.injEq] at h
    exact Or.inl (by rw [h])
  | ok a =>
    cases h2 : expand (env.get norm) v with
    | error e' =>
      simp only [h1, h2, Except.error.injEq] at h
      exact Or.inr (by rw [h])
    | ok c => simp [h1, h2] at h

/-- A step leaves every other (normalised) name alone. -/
theorem step_get_of_ne {expand : Expand E} {norm : String → String} {prefer : Bool} {env env' : Env}
    {k v k' v' : String} (h : entryStep expand norm prefer env k v = .ok (k', v', env'))
    {name : String} (hn : norm k' ≠ norm name) : env'.get norm name = env.get norm name := by
  obtain ⟨_, _, he⟩ := entryStep_ok h
  subst he
  split
  · rfl
  · rw [get_set, if_neg (fun e => hn e.symm)]

/-- A step without runtime precedence defines its name. -/
theorem step_get_self {expand : Expand E} {norm : String → String} {env env' : Env}
    {k v k' v' : String} (h : entryStep expand norm false env k v = .ok (k', v', env')) :
    env'.get norm k' = some v' := by
  obtain ⟨_, _, he⟩ := entryStep_ok h
  subst he
  simp [get_set]

/-- A step with runtime precedence: the name keeps the caller's value if present, else is defined. -/
theorem step_get_self_prefer {expand : Expand E} {norm : String → String} {env env' : Env}
    {k v k' v' : String} (h : entryStep expand norm true env k v = .ok (k', v', env')) :
    env'.get norm k' = if (env.get norm k').isSome then env.get norm k' else some v' := by
  obtain ⟨_, _, he⟩ := entryStep_ok h
  subst he
  by_cases hp : (env.get norm k').isSome = true
  · simp [hp]
  · simp [hp, get_set]

/-- A step with runtime precedence leaves every present name alone. -/
theorem step_get_prefer {expand : Expand E} {norm : String → String} {env env' : Env}
    {k v k' v' : String} (h : entryStep expand norm true env k v = .ok (k', v', env'))
    {name : String} (hp : (env.get norm name).isSome) : env'.get norm name = env.get norm name := by
  obtain ⟨_, _, he⟩ := entryStep_ok h
  subst he
  by_cases hk : (env.get norm k').isSome = true
  · simp [hk]
  · by_cases hn : norm name = norm k'
    · rw [get_congr norm env hn] at hp
      exact absurd hp hk
    · simp [hk, get_set, hn]

/-! ## Inversion of `specFold` -/

theorem specFold_cons_ok {expand : Expand E} {norm : String → String} {prefer : Bool} {env envF : Env}
    {k v : String} {rest out : List (String × String)}
    (h : specFold expand norm prefer env ((k, v) :: rest) = .ok (out, envF)) :
    ∃ k' v' env' out', entryStep expand norm prefer env k v = .ok (k', v', env') ∧
      specFold expand norm prefer env' rest = .ok (out', envF) ∧ out = (k', v') :: out' := by
  unfold specFold at h
  cases hs : entryStep expand norm prefer env k v with
  | error e => simp [hs] at h
  | ok r =>
    obtain ⟨k', v', env'⟩ := r
    cases hr : specFold expand norm prefer env' rest with
    | error e => simp [hs, hr] at h
    | ok q =>
      obtain ⟨out', envF'⟩ := q
      simp only [hs, hr, Except.ok.injEq, Prod.mk.injEq] at h
      obtain ⟨rfl, rfl⟩ := h
      exact ⟨k', v', env', out', rfl, hr, rfl⟩

theorem specFold_nil_ok {expand : Expand E} {norm : String → String} {prefer : Bool} {env envF : Env}
    {out : List (String × String)} (h : specFold expand norm prefer env [] = .ok (out, envF)) :
    out = [] ∧ envF = env := by
  simp only [specFold, Except.ok.injEq, Prod.mk.injEq] at h
  exact ⟨h.1.symm, h.2.symm⟩

theorem specFold_length (expand : Expand E) (norm : String → String) (prefer : Bool) (env envF : Env)
    (b out : List (String × String)) (h : specFold expand norm prefer env b = .ok (out, envF)) :
    out.length = b.length := by
  induction b generalizing env out with
  | nil => simp [(specFold_nil_ok h).1]
  | cons p rest ih =>
    obtain ⟨k, v⟩ := p
    obtain ⟨k', v', env', out', _, hr, rfl⟩ := specFold_cons_ok h
    simp [ih env' out' hr]

/-! ## The in-place walk is the specification (collision-free blocks) -/

theorem noCollide_cons {k k' : String} {ks ks' : List String} (h : NoCollide (k :: ks) (k' :: ks')) :
    NoCollide ks ks' ∧ (k' = k ∨ k' ∉ ks) ∧ k' ∉ ks' := by
  obtain ⟨hnd, hi⟩ := h
  rw [List.nodup_cons] at hnd
  refine ⟨⟨hnd.2, ?_⟩, ?_, hnd.1⟩
  · intro i h1 h2
    have := hi (i + 1) (by simpa using h1) (by simpa using h2)
    simp only [List.getElem_cons_succ, List.mem_cons, not_or] at this
    rcases this with e | ⟨_, e⟩
    · exact Or.inl e
    · exact Or.inr e
  · have := hi 0 (by simp) (by simp)
    simp only [List.getElem_cons_zero, List.mem_cons, not_or] at this
    rcases this with e | ⟨_, e⟩
    · exact Or.inl e
    · exact Or.inr e

theorem dropKey_of_not_mem {k : String} {l : List (String × String)} (h : k ∉ l.map (·.1)) :
    dropKey k l = l := by
  unfold dropKey
  rw [List.filter_eq_self]
  intro p hp
  have : p.1 ≠ k := fun e => h (e ▸ List.mem_map_of_mem hp)
  simpa using this

theorem block_is_spec_gen (expand : Expand E) (norm : String → String) (prefer : Bool) :
    ∀ (b done : List (String × String)) (dead : List String) (env envF : Env)
      (out : List (String × String)),
      specFold expand norm prefer env b = .ok (out, envF) →
      NoCollide (b.map (·.1)) (out.map (·.1)) →
      (∀ d ∈ dead, d ∉ b.map (·.1)) →
      (∀ x ∈ out.map (·.1), x ∉ done.map (·.1)) →
      blockLoop expand norm prefer done dead env b = .ok (done ++ out, envF) := by
  intro b
  induction b with
  | nil =>
    intro done dead env envF out h _ _ _
    obtain ⟨rfl, rfl⟩ := specFold_nil_ok h
    simp [blockLoop]
  | cons p rest ih =>
    intro done dead env envF out h hc hdead hdone
    obtain ⟨k, v⟩ := p
    obtain ⟨k', v', env', out', hs, hr, rfl⟩ := specFold_cons_ok h
    simp only [List.map_cons] at hc hdead hdone
    obtain ⟨hc', hk, hk'⟩ := noCollide_cons hc
    have hdk : dead.contains k = false := by
      cases hd : dead.contains k with
      | false => rfl
      | true =>
        exact absurd (List.mem_cons_self) (hdead k (by simpa using hd))
    have hk'done : k' ∉ done.map (·.1) := hdone k' List.mem_cons_self
    have hdone' : ∀ x ∈ out'.map (·.1), x ∉ (done ++ [(k', v')]).map (·.1) := by
      intro x hx hx'
      simp only [List.map_append, List.map_cons, List.map_nil, List.mem_append, List.mem_singleton]
        at hx'
      rcases hx' with hx' | rfl
      · exact hdone x (List.mem_cons_of_mem _ hx) hx'
      · exact hk' hx
    have hdead' : ∀ d ∈ dead, d ∉ rest.map (·.1) :=
      fun d hd hm => hdead d hd (List.mem_cons_of_mem _ hm)
    by_cases hkk : k' = k
    · subst hkk
      simp only [blockLoop, hdk, hs, beq_self_eq_true, if_true, Bool.false_eq_true, if_false]
      rw [ih (done ++ [(k', v')]) dead env' envF out' hr hc' hdead' hdone']
      simp
    · have hkk' : (k' == k) = false := by simpa using hkk
      have hkrest : k' ∉ rest.map (·.1) := by
        rcases hk with e | e
        · exact absurd e hkk
        · exact e
      simp only [blockLoop, hdk, hs, hkk', Bool.false_eq_true, if_false]
      rw [dropKey_of_not_mem hk'done]
      rw [ih (done ++ [(k', v')]) (k' :: dead) env' envF out' hr hc' ?_ hdone']
      · simp
      · intro d hd
        rcases List.mem_cons.1 hd with rfl | hd
        · exact hkrest
        · exact hdead' d hd

theorem block_is_spec (expand : Expand E) (norm : String → String) (prefer : Bool) (env envF : Env)
    (b out : List (String × String))
    (h : specFold expand norm prefer env b = .ok (out, envF))
    (hc : NoCollide (b.map (·.1)) (out.map (·.1))) :
    blockLoop expand norm prefer [] [] env b = .ok (out, envF) := by
  have := block_is_spec_gen expand norm prefer b [] [] env envF out h hc (by simp) (by simp)
  simpa using this

/-! ## Errors -/

theorem block_error_gen (expand : Expand E) (norm : String → String) (prefer : Bool) (e : E) :
    ∀ (b done : List (String × String)) (dead : List String) (env : Env),
      blockLoop expand norm prefer done dead env b = .error e →
      ∃ kv ∈ b, ∃ env' : Env,
        (expand (env'.get norm) kv.1 = .error e ∨ expand (env'.get norm) kv.2 = .error e) := by
  intro b
  induction b with
  | nil => intro done dead env h; simp [blockLoop] at h
  | cons p rest ih =>
    intro done dead env h
    obtain ⟨k, v⟩ := p
    cases hd : dead.contains k with
    | true =>
      simp only [blockLoop, hd, if_true] at h
      obtain ⟨kv, hm, w⟩ := ih _ _ _ h
      exact ⟨kv, List.mem_cons_of_mem _ hm, w⟩
    | false =>
      cases hs : entryStep expand norm prefer env k v with
      | error e' =>
        simp only [blockLoop, hd, hs, Bool.false_eq_true, if_false, Except.error.injEq] at h
        subst h
        exact ⟨(k, v), List.mem_cons_self, env, entryStep_error hs⟩
      | ok r =>
        obtain ⟨k', v', env'⟩ := r
        simp only [blockLoop, hd, hs, Bool.false_eq_true, if_false] at h
        split at h
        · obtain ⟨kv, hm, w⟩ := ih _ _ _ h
          exact ⟨kv, List.mem_cons_of_mem _ hm, w⟩
        · obtain ⟨kv, hm, w⟩ := ih _ _ _ h
          exact ⟨kv, List.mem_cons_of_mem _ hm, w⟩

theorem block_error (expand : Expand E) (norm : String → String) (prefer : Bool) (env : Env)
    (b : List (String × String)) (e : E)
    (h : blockLoop expand norm prefer [] [] env b = .error e) :
    ∃ kv ∈ b, ∃ env' : Env,
      (expand (env'.get norm) kv.1 = .error e ∨ expand (env'.get norm) kv.2 = .error e) :=
  block_error_gen expand norm prefer e b [] [] env h

/-! ## Runtime precedence -/

theorem precedence_during (expand : Expand E) (norm : String → String) (env : Env)
    (b : List (String × String)) (name : String) (hp : (env.get norm name).isSome) :
    ∀ env' ∈ specEnvs expand norm true env b, env'.get norm name = env.get norm name := by
  induction b generalizing env with
  | nil => intro env' h; simp [specEnvs] at h
  | cons p rest ih =>
    obtain ⟨k, v⟩ := p
    intro env' h
    unfold specEnvs at h
    rcases List.mem_cons.1 h with rfl | h
    · rfl
    · cases hs : entryStep expand norm true env k v with
      | error e => simp [hs] at h
      | ok r =>
        obtain ⟨k', v', env1⟩ := r
        simp only [hs] at h
        have h1 := step_get_prefer hs hp
        rw [ih env1 (by rw [h1]; exact hp) env' h, h1]

theorem precedence_after (expand : Expand E) (norm : String → String) (env envF : Env)
    (b out : List (String × String)) (h : specFold expand norm true env b = .ok (out, envF))
    (name : String) (hp : (env.get norm name).isSome) :
    envF.get norm name = env.get norm name := by
  induction b generalizing env out with
  | nil => rw [(specFold_nil_ok h).2]
  | cons p rest ih =>
    obtain ⟨k, v⟩ := p
    obtain ⟨k', v', env', out', hs, hr, rfl⟩ := specFold_cons_ok h
    have h1 := step_get_prefer hs hp
    rw [ih env' out' hr (by rw [h1]; exact hp), h1]

theorem precedence_walk_gen (expand : Expand E) (norm : String → String) (name : String) :
    ∀ (b done : List (String × String)) (dead : List String) (env envF : Env)
      (out : List (String × String)),
      blockLoop expand norm true done dead env b = .ok (out, envF) →
      (env.get norm name).isSome → envF.get norm name = env.get norm name := by
  intro b
  induction b with
  | nil =>
    intro done dead env envF out h _
    simp only [blockLoop, Except.ok.injEq, Prod.mk.injEq] at h
    rw [h.2]
  | cons p rest ih =>
    intro done dead env envF out h hp
    obtain ⟨k, v⟩ := p
    cases hd : dead.contains k with
    | true =>
      simp only [blockLoop, hd, if_true] at h
      exact ih _ _ _ _ _ h hp
    | false =>
      cases hs : entryStep expand norm true env k v with
      | error e' => simp only [blockLoop, hd, hs, Bool.false_eq_true, if_false, reduceCtorEq] at h
      | ok r =>
        obtain ⟨k', v', env'⟩ := r
        simp only [blockLoop, hd, hs, Bool.false_eq_true, if_false] at h
        have h1 := step_get_prefer hs hp
        have hp' : (env'.get norm name).isSome := by rw [h1]; exact hp
        split at h
        · rw [ih _ _ _ _ _ h hp', h1]
        · rw [ih _ _ _ _ _ h hp', h1]

theorem precedence_walk (expand : Expand E) (norm : String → String) (env envF : Env)
    (b out : List (String × String)) (h : blockLoop expand norm true [] [] env b = .ok (out, envF))
    (name : String) (hp : (env.get norm name).isSome) :
    envF.get norm name = env.get norm name :=
  precedence_walk_gen expand norm name b [] [] env envF out h hp

/-! ## Export to the caller -/

theorem untouched_names (expand : Expand E) (norm : String → String) (prefer : Bool) (env envF : Env)
    (b out : List (String × String)) (h : specFold expand norm prefer env b = .ok (out, envF))
    (name : String) (hn : ∀ p ∈ out, norm p.1 ≠ norm name) :
    envF.get norm name = env.get norm name := by
  induction b generalizing env out with
  | nil => rw [(specFold_nil_ok h).2]
  | cons p rest ih =>
    obtain ⟨k, v⟩ := p
    obtain ⟨k', v', env', out', hs, hr, rfl⟩ := specFold_cons_ok h
    rw [ih env' out' hr (fun p hp => hn p (List.mem_cons_of_mem _ hp)),
      step_get_of_ne hs (hn (k', v') List.mem_cons_self)]

theorem writeback (expand : Expand E) (norm : String → String) (env envF : Env)
    (b out : List (String × String)) (h : specFold expand norm false env b = .ok (out, envF))
    (hd : (out.map (fun p => norm p.1)).Nodup) :
    ∀ p ∈ out, envF.get norm p.1 = some p.2 := by
  induction b generalizing env out with
  | nil => intro p hp; simp [(specFold_nil_ok h).1] at hp
  | cons q rest ih =>
    obtain ⟨k, v⟩ := q
    obtain ⟨k', v', env', out', hs, hr, rfl⟩ := specFold_cons_ok h
    simp only [List.map_cons, List.nodup_cons, List.mem_map, not_exists, not_and] at hd
    intro p hp
    rcases List.mem_cons.1 hp with rfl | hp
    · rw [untouched_names expand norm false env' envF rest out' hr _ (fun q hq => hd.1 q hq)]
      exact step_get_self hs
    · exact ih env' out' hr hd.2 p hp

theorem writeback_prefer (expand : Expand E) (norm : String → String) (env envF : Env)
    (b out : List (String × String)) (h : specFold expand norm true env b = .ok (out, envF))
    (hd : (out.map (fun p => norm p.1)).Nodup) :
    ∀ p ∈ out, envF.get norm p.1 =
      (if (env.get norm p.1).isSome then env.get norm p.1 else some p.2) := by
  induction b generalizing env out with
  | nil => intro p hp; simp [(specFold_nil_ok h).1] at hp
  | cons q rest ih =>
    obtain ⟨k, v⟩ := q
    obtain ⟨k', v', env', out', hs, hr, rfl⟩ := specFold_cons_ok h
    simp only [List.map_cons, List.nodup_cons, List.mem_map, not_exists, not_and] at hd
    intro p hp
    rcases List.mem_cons.1 hp with rfl | hp
    · rw [untouched_names expand norm true env' envF rest out' hr _ (fun q hq => hd.1 q hq)]
      exact step_get_self_prefer hs
    · rw [ih env' out' hr hd.2 p hp, step_get_of_ne hs (fun e => hd.1 p hp e.symm)]

end GoPipeline.EnvBlock
