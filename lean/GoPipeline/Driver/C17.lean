import GoPipeline.Model.PluginSource
import GoPipeline.Driver.Util
namespace GoPipeline.DriverC17
open GoPipeline GoPipeline.PluginSrc

def step (_ : Unit) (line : List Char) : Unit × String :=
  let (op, rest) := splitOp line
  match op, parseArgs rest with
  | "fullsource", some [.str s] =>
    match fullSource s.toList with
    | some r => ((), escapeStr (Val.enc (.str (String.ofList r))))
    | none =>
      match fullSourceQ s.toList with
      | some r => ((), escapeStr (Val.enc (.str (String.ofList r))))
      | none => ((), "outside-model")
  | _, _ => ((), "bad-op")

end GoPipeline.DriverC17
