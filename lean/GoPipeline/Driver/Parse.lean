import GoPipeline.Model.Parse
import GoPipeline.Model.Marshal
import GoPipeline.Driver.Util
namespace GoPipeline.DriverParse
open GoPipeline GoPipeline.Pipe GoPipeline.Parse GoPipeline.Marshal

def warnName : Warn → String
  | .noSteps => "noSteps" | .unknownType => "unknownType" | .inferFail => "inferFail" | .fellBack => "fellBack"

def isIntLit (s : String) : Bool :=
  let cs := s.toList
  let ds := match cs with | '-' :: r => r | r => r
  !ds.isEmpty && ds.all Char.isDigit

-- What re-decoding the JSON text yields: Go maps in sorted order as ordered objects, integral
-- floats as integers, timestamps as strings.
mutual
  partial def jsonView : Val → Val
    | .float lit =>
      match lit.splitOn "|" with
      | _ :: j :: _ => if isIntLit j then (match j.toInt? with | some i => .int i | none => .float lit) else .float lit
      | _ => .float lit
    | .time lit => .str lit
    | .seq xs => .seq (xs.map jsonView)
    | .omap kvs => .omap (kvs.map fun (k, v) => (k, jsonView v))
    | .umap kvs => .omap (kvs.map fun (k, v) => (k, jsonView v))
    | v => v
end

def step (_ : Unit) (line : List Char) : Unit × String :=
  let (op, rest) := splitOp line
  match op, parseArgs rest with
  | "parse", some [v] =>
    match parsePipeline v with
    | .error _ => ((), "hard")
    | .ok (p, ws) => ((), escapeStr ("ok " ++ Val.enc p.dump ++ " " ++ Val.enc (.seq (ws.map fun w => .str (warnName w)))))
  | "marshalj", some [p] =>
    match mPipeline (rPipeline p) with
    | .error _ => ((), "err")
    | .ok v => ((), escapeStr ("ok " ++ Val.enc (jsonView v)))
  | "normalform", some [v] =>
    match parsePipeline v with
    | .error _ => ((), "hard")
    | .ok (p, _) =>
      match mPipeline p with
      | .error _ => ((), "err")
      | .ok v => ((), escapeStr ("ok " ++ Val.enc (jsonView v)))
  | _, _ => ((), "bad-op")

end GoPipeline.DriverParse
