import GoPipeline.Model.Parse
import GoPipeline.Model.Marshal
import GoPipeline.Model.MarshalY
import GoPipeline.Driver.Util
namespace GoPipeline.DriverParse
open GoPipeline GoPipeline.Pipe GoPipeline.Parse GoPipeline.Marshal

def warnName : Warn → String
  | .noSteps => "noSteps" | .unknownType => "unknownType" | .inferFail => "inferFail" | .fellBack => "fellBack"

def isIntLit (s : String) : Bool :=
  let cs := s.toList
  let ds := match cs with | '-' :: r => r | r => r
  !ds.isEmpty && ds.all Char.isDigit

-- What re-decoding the JSON text yields: Go maps in sorted order as ordered objects, integral
-- floats as integers, timestamps as strings.
mutual
  partial def jsonView : Val → Val
    | .float lit =>
      match lit.splitOn "|" with
      | _ :: j :: _ => if isIntLit j then (match j.toInt? with | some i => .int i | none => .float lit) else .float lit
      | _ => .float lit
    | .time lit => .str lit
    | .seq xs => .seq (xs.map jsonView)
    | .omap kvs => .omap (kvs.map fun (k, v) => (k, jsonView v))
    | .umap kvs => .omap (kvs.map fun (k, v) => (k, jsonView v))
    | v => v
end

-- What re-decoding the YAML text yields, with every mapping level sorted by key (the harness sorts the
-- re-decoded real output the same way: key order at struct levels is not compared here, C08 covers order):
-- integral floats come back as integers (yaml.v3 writes 5.0 as `5`); timestamps stay timestamps.
mutual
  partial def yamlViewSorted : Val → Val
    | .float lit =>
      match lit.splitOn "|" with
      | g :: _ => if isIntLit g then (match g.toInt? with | some i => .int i | none => .float lit) else .float lit
      | _ => .float lit
    | .seq xs => .seq (xs.map yamlViewSorted)
    | .omap kvs => .omap (Marshal.umapOf (kvs.map fun (k, v) => (k, yamlViewSorted v)))
    | .umap kvs => .omap (Marshal.umapOf (kvs.map fun (k, v) => (k, yamlViewSorted v)))
    | v => v
end

def step (_ : Unit) (line : List Char) : Unit × String :=
  let (op, rest) := splitOp line
  match op, parseArgs rest with
  | "parse", some [v] =>
    match parsePipeline v with
    | .error _ => ((), "hard")
    | .ok (p, ws) => ((), escapeStr ("ok " ++ Val.enc p.dump ++ " " ++ Val.enc (.seq (ws.map fun w => .str (warnName w)))))
  | "marshalj", some [p] =>
    match mPipeline (rPipeline p) with
    | .error _ => ((), "err")
    | .ok v => ((), escapeStr ("ok " ++ Val.enc (jsonView v)))
  | "normalform", some [v] =>
    match parsePipeline v with
    | .error _ => ((), "hard")
    | .ok (p, _) =>
      match mPipeline p with
      | .error _ => ((), "err")
      | .ok v => ((), escapeStr ("ok " ++ Val.enc (jsonView v)))
  | "normalformy", some [v] =>
    match parsePipeline v with
    | .error _ => ((), "hard")
    | .ok (p, _) =>
      match MarshalY.yPipeline p with
      | .error _ => ((), "err")
      | .ok v => ((), escapeStr ("ok " ++ Val.enc (yamlViewSorted v)))
  | _, _ => ((), "bad-op")

end GoPipeline.DriverParse
