import GoPipeline.Model.Jwk
import GoPipeline.Gen.Jwk
import GoPipeline.Driver.Util
namespace GoPipeline.DriverC18
open GoPipeline GoPipeline.Jwk

def descOf : Val → KeyDesc
  | .seq [.bool sok, alg, .str kty] =>
    let a := match alg with
      | .seq [.bool isSig, .str name] => some (isSig, name)
      | _ => none
    { structOk := sok, alg := a, kty := kty }
  | _ => { structOk := false, alg := none, kty := "" }

def kidOf : Val → Option String
  | .str s => some s
  | _ => none

def step (_ : Unit) (line : List Char) : Unit × String :=
  let (op, rest) := splitOp line
  match op, parseArgs rest with
  | "validate", some [d] =>
    match validate Gen.jwkValidSigningAlgorithms Gen.jwkValidKeyTypes Gen.jwkValidAlgsForKeyType (descOf d) with
    | .ok () => ((), "ok")
    | .error e => ((), "err:" ++ e.sentinel)
  | "load", some [.seq keys, .str keyID] =>
    let ks := keys.map fun
      | .seq [kid, d] => (kidOf kid, descOf d)
      | _ => (none, descOf .null)
    match load Gen.jwkValidSigningAlgorithms Gen.jwkValidKeyTypes Gen.jwkValidAlgsForKeyType ks keyID with
    | .ok i => ((), "ok:" ++ toString i)
    | .error (.pick .noSigningKeyID) => ((), "err:ErrNoSigningKeyID")
    | .error (.pick .notFound) => ((), "err:ErrCouldNotFindKeyByID")
    | .error (.invalid e) => ((), "err:invalid:" ++ e.sentinel)
  | _, _ => ((), "bad-op")

end GoPipeline.DriverC18
