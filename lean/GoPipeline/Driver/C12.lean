import GoPipeline.Model.MatrixToken
import GoPipeline.Driver.Util
namespace GoPipeline.DriverC12
open GoPipeline GoPipeline.MatrixTok

def ssPairs : Val → List (String × String)
  | .omap kvs => kvs.filterMap fun | (k, .str v) => some (k, v) | _ => none
  | .umap kvs => kvs.filterMap fun | (k, .str v) => some (k, v) | _ => none
  | _ => []

def step (_ : Unit) (line : List Char) : Unit × String :=
  let (op, rest) := splitOp line
  match op, parseArgs rest with
  | "transform", some [perm, .str s] =>
    match transform (replOf (ssPairs perm)) s.toList with
    | .ok out => ((), escapeStr (Val.enc (.seq [.str (String.ofList out)])))
    | .error unk => ((), escapeStr (Val.enc (.seq [.str "unknown", .seq (unk.map fun u => .str (String.ofList u))])))
  | _, _ => ((), "bad-op")

end GoPipeline.DriverC12
