import GoPipeline.Model.Yaml
import GoPipeline.Driver.Util
namespace GoPipeline.DriverC07
open GoPipeline GoPipeline.Yaml

def kindOf : Val → Kind
  | .str "scalar" => .scalar | .str "sequence" => .sequence | .str "mapping" => .mapping
  | .str "alias" => .alias | .str "document" => .document
  | _ => .other

def natsOf : Val → List Nat
  | .seq l => l.filterMap fun | .int i => some i.toNat | _ => none
  | _ => []

def nodeOf : Val → NodeRec
  | .seq [k, .bool m, dec, key, content, al] =>
    { kind := kindOf k, isMerge := m,
      decoded := (match dec with | .seq [v] => some v | _ => none),
      keyStr := (match key with | .str s => some s | _ => none),
      content := natsOf content,
      aliasTo := (match al with | .int i => some i.toNat | _ => none) }
  | _ => default

def errName : Err → String
  | .recursion => "recursion" | .other => "other" | .fuel => "fuel"

def step (_ : Unit) (line : List Char) : Unit × String :=
  let (op, rest) := splitOp line
  match op, parseArgs rest with
  | "decode", some [.seq nodes, .int root] =>
    let s : Store := nodes.map nodeOf
    match decodeYAML s root.toNat with
    | .ok v => ((), escapeStr ("ok " ++ Val.enc v))
    | .error e => ((), "err:" ++ errName e)
  | "rangemap", some [.seq nodes, .int i] =>
    let s : Store := nodes.map nodeOf
    match rangeMap s (bound s) i.toNat with
    | .ok ps => ((), escapeStr ("ok " ++ Val.enc (.seq (ps.map fun (k, v) => .seq [.str k, .int v]))))
    | .error e => ((), "err:" ++ errName e)
  | _, _ => ((), "bad-op")

end GoPipeline.DriverC07
