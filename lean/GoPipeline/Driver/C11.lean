import GoPipeline.Model.MatrixValidate
import GoPipeline.Driver.Util
namespace GoPipeline.DriverC11
open GoPipeline GoPipeline.MatrixV

def strList : Val → Option (List String)
  | .null => none
  | .seq xs => some (xs.filterMap fun | .str s => some s | _ => none)
  | _ => some []

def ssPairs : Val → List (String × String)
  | .omap kvs => kvs.filterMap fun | (k, .str v) => some (k, v) | _ => none
  | .umap kvs => kvs.filterMap fun | (k, .str v) => some (k, v) | _ => none
  | _ => []

def skipOf : Val → SkipVal
  | .null => .absent
  | .bool b => .bool b
  | _ => .other

def adjOf : Val → Option Adj
  | .omap kvs => some { with_ := ssPairs ((kvs.lookup "with").getD .null), skip := skipOf ((kvs.lookup "skip").getD .null) }
  | _ => none

def matrixOf : Val → Option Matrix
  | .omap kvs =>
    let setup := match kvs.lookup "setup" with
      | some (.omap ds) => ds.map fun (k, v) => (k, strList v)
      | some (.umap ds) => ds.map fun (k, v) => (k, strList v)
      | _ => []
    let adjs := match kvs.lookup "adjustments" with
      | some (.seq as) => as.map adjOf
      | _ => []
    some { setup := setup, adjustments := adjs }
  | _ => none

def errName : Err → String
  | .nilMatrix => "nilMatrix" | .permLen => "permLen" | .permUnknownDim => "permUnknownDim"
  | .adjLen => "adjLen" | .adjUnknownDim => "adjUnknownDim" | .skipped => "skipped" | .noMatch => "noMatch"

def step (m : Option Matrix) (line : List Char) : Option Matrix × String :=
  let (op, rest) := splitOp line
  match op, parseArgs rest with
  | "matrix", some [v] => (matrixOf v, "ok")
  | "validate", some [mv, p] =>
    match validate (matrixOf mv) (ssPairs p) with
    | .ok () => (m, "accept")
    | .error _ => (m, "reject")
  | "validatekind", some [p] =>
    match validate m (ssPairs p) with
    | .ok () => (m, "accept")
    | .error e => (m, "reject:" ++ errName e)
  | _, _ => (m, "bad-op")

end GoPipeline.DriverC11
