import GoPipeline.Model.Signing
import GoPipeline.Driver.Util
namespace GoPipeline.DriverSig
open GoPipeline GoPipeline.Pipe GoPipeline.Signing

/-- The recording scheme: a signature is (key id, message); valid iff same key and same message. -/
def recScheme : SigScheme where
  Key := Nat
  Pub := Nat
  Sig := Nat × List Char
  pubOf := id
  sign := fun k m => (k, m)
  verify := fun p m' s => p == s.1 && m' == s.2
  correct := by intro k m; simp
  a1 := by intro k m m' h; simp at h; exact h
  a2 := by
    intro k p m m' hne
    simp only [id] at hne
    simp [hne]

def ssPairs : Val → List (String × String)
  | .omap kvs => kvs.filterMap fun | (k, .str v) => some (k, v) | _ => none
  | .umap kvs => kvs.filterMap fun | (k, .str v) => some (k, v) | _ => none
  | _ => []

def strsOf : Val → List String
  | .seq l => l.filterMap fun | .str s => some s | _ => none
  | _ => []

def commandOf : Val → CommandStep
  | .seq [.str "command", c] => rCommand c
  | c => rCommand c

def render (s : Nat × List Char) : String := toString s.1 ++ ":" ++ String.ofList s.2

def step (_ : Unit) (line : List Char) : Unit × String :=
  let (op, rest) := splitOp line
  match op, parseArgs rest with
  | "payload", some [.str alg, stepV, .str repo, penv] =>
    let c := commandOf stepV
    let values := signValues c repo (ssPairs penv)
    ((), escapeStr (Val.enc (.seq [.str (String.ofList (payload alg values)), .seq ((sortStrs (values.map (·.1))).map .str)])))
  | "verify", some [.str alg, fields, .str signedPayload, .int sk, .int vk, stepV, .str repo, env] =>
    let r : Record recScheme := { algorithm := alg, signedFields := strsOf fields, value := (sk.toNat, signedPayload.toList) }
    match verify recScheme r (vk.toNat : Nat) (commandOf stepV) repo (ssPairs env) with
    | .ok () => ((), "ok")
    | .error _ => ((), "err")
  | "signsteps", some [.seq steps, .str repo, penv] =>
    let l := steps.map rStep
    match signSteps recScheme render (1 : Nat) "ALG" repo (ssPairs penv) l with
    | .error _ => ((), "err")
    | .ok l' =>
      let sigs := (commandsOfList l').map fun c =>
        match c.signature with
        | some s => Val.seq ((s.signedFields.getD []).map .str)
        | none => .null
      let same := Val.enc (.seq (Step.dumpList (eraseSigs l'))) == Val.enc (.seq (Step.dumpList (eraseSigs l)))
      ((), escapeStr ("ok " ++ Val.enc (.seq sigs) ++ " " ++ boolStr same))
  | _, _ => ((), "bad-op")

end GoPipeline.DriverSig
