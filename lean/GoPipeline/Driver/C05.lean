import GoPipeline.Model.OMap
import GoPipeline.Driver.Util
namespace GoPipeline.DriverC05
open GoPipeline GoPipeline.OMap

structure St where
  cur : Option (CMap Val) := none
  saved : List (Nat × Option (CMap Val)) := []
  marks : List (Option (CMap Val) × List (Nat × Option (CMap Val))) := []

def getCur (s : St) : CMap Val := s.cur.getD zeroMap

def obsLen (c : Option (CMap Val)) : Nat := match c with | none => 0 | some c => len c
def obsZero (c : Option (CMap Val)) : Bool := match c with | none => true | some c => isZero c
def obsRange (c : Option (CMap Val)) : List (String × Val) := match c with | none => [] | some c => range c
def obsGet (c : Option (CMap Val)) (k : String) : Option Val := match c with | none => none | some c => get c k
def obsContains (c : Option (CMap Val)) (k : String) : Bool := match c with | none => false | some c => contains c k

def strOf : Val → String
  | .str s => s
  | _ => ""

def natOf : Val → Nat
  | .int i => i.toNat
  | _ => 0

/-- The rename table of an `rr` request: key ↦ `l2;<newkey><newval>` or the string `ERR`;
    keys not in the table map to themselves. -/
def tableFn (tbl : List (String × Val)) (k : String) (v : Val) : Except Unit (String × Val) :=
  match tbl.lookup k with
  | some (.seq [.str k', v']) => .ok (k', v')
  | some (.str _) => .error ()
  | _ => .ok (k, v)

def step (s : St) (line : List Char) : St × String :=
  let (op, rest) := splitOp line
  match op, parseArgs rest with
  | "new", some [] => ({ s with cur := some newMap }, "ok")
  | "zero", some [] => ({ s with cur := some zeroMap }, "ok")
  | "nil", some [] => ({ s with cur := none }, "ok")
  | "set", some [.str k, v] => ({ s with cur := some (set (getCur s) k v) }, "ok")
  | "replace", some [.str o, .str n, v] => ({ s with cur := some (replace (getCur s) o n v) }, "ok")
  | "delete", some [.str k] =>
    match s.cur with
    | none => (s, "ok")
    | some c => ({ s with cur := some (delete c k) }, "ok")
  | "obs", some [.seq keys, .seq slots] =>
    let c := s.cur
    let gets := keys.map fun k => match obsGet c (strOf k) with | none => Val.null | some v => .seq [v]
    let cons := keys.map fun k => Val.bool (obsContains c (strOf k))
    let eqs := slots.map fun n =>
      match s.saved.lookup (natOf n) with
      | some other => Val.seq [.bool (equal Val.beq' c other), .bool (equal Val.beq' other c)]
      | none => Val.null
    let rng := obsRange c
    (s, escapeStr (Val.enc (.seq [.int (obsLen c), .bool (obsZero c), .omap rng, .umap (umapOfPairs rng),
                                   .seq gets, .seq cons, .seq eqs])))
  | "save", some [.int n] => ({ s with saved := (n.toNat, s.cur) :: s.saved }, "ok")
  | "rr", some [.omap tbl] =>
    match s.cur with
    | none => (s, "ok")
    | some c =>
      match rangeReplace (tableFn tbl) c with
      | .ok c' => ({ s with cur := some c' }, "ok")
      | .error _ => (s, "err")
  | "rrpartial", some [.omap tbl] =>
    -- like rr, but on error the map keeps the renames made before the failing entry
    match s.cur with
    | none => (s, "ok")
    | some c =>
      match rangeReplace (tableFn tbl) c with
      | .ok c' => ({ s with cur := some c' }, "ok")
      | .error _ => (s, "err")
  | "mark", some [] => ({ s with marks := (s.cur, s.saved) :: s.marks }, "ok")
  | "reset", some [] =>
    match s.marks with
    | (c, sv) :: r => ({ s with cur := c, saved := sv, marks := r }, "ok")
    | [] => (s, "bad-reset")
  | _, _ => (s, "bad-op")

end GoPipeline.DriverC05
