import GoPipeline.Model.Interp
import GoPipeline.Driver.Util
namespace GoPipeline.DriverC04
open GoPipeline GoPipeline.Pipe GoPipeline.Interp

/-- Transformer given as a table: string ↦ expansion, `null` = the expansion fails. -/
def tableTf (tbl : List (String × Val)) (s : String) : Except Unit String :=
  match tbl.lookup s with
  | some (.str s') => .ok s'
  | some .null => .error ()
  | _ => .ok ("‹MISSING›" ++ s)

def kindOf : Val → TfKind
  | .str "m" => .matrix
  | _ => .env

def step (_ : Unit) (line : List Char) : Unit × String :=
  let (op, rest) := splitOp line
  match op, parseArgs rest with
  | "interprest", some [.omap tbl, p] =>
    match interpPipelineRest (tableTf tbl) (rPipeline p) with
    | .ok p' => ((), escapeStr ("ok " ++ Val.enc p'.dump))
    | .error _ => ((), "error")
  | "interpstep", some [k, .omap tbl, s] =>
    match interpStep (kindOf k) (tableTf tbl) (rStep s) with
    | .ok s' => ((), escapeStr ("ok " ++ Val.enc s'.dump))
    | .error _ => ((), "error")
  | "interpval", some [.omap tbl, v] =>
    match interpVal (tableTf tbl) v with
    | .ok v' => ((), escapeStr ("ok " ++ Val.enc v'))
    | .error _ => ((), "error")
  | "echo", some [p] => ((), escapeStr (Val.enc (rPipeline p).dump))
  | _, _ => ((), "bad-op")

end GoPipeline.DriverC04
