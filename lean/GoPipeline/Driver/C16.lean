import GoPipeline.Model.Unmarshal
import GoPipeline.Driver.Util
namespace GoPipeline.DriverC16
open GoPipeline GoPipeline.Unm

instance : Inhabited GoTy := ⟨.any⟩
instance : Inhabited Field := ⟨.mk "" "" [] .skip .any⟩

def strsOf (vs : List Val) : List String := vs.filterMap fun | .str s => some s | _ => none

mutual
  partial def tyOf : Val → GoTy
    | .str "string" => .string | .str "int" => .int | .str "float" => .float | .str "bool" => .bool
    | .str "any" => .any
    | .seq [.str "slice", e] => .slice (tyOf e)
    | .seq [.str "map", e] => .map (tyOf e)
    | .seq [.str "omap", e] => .omap (tyOf e)
    | .seq [.str "ptr", e] => .ptr (tyOf e)
    | .seq [.str "struct", .seq fs] => .struct (fs.map fieldOf)
    | .seq [.str "named", .str n] => .named n
    | _ => .named "?"
  partial def fieldOf : Val → Field
    | .seq [.str name, .str key, .seq aliases, .str role, ty] =>
      .mk name key (strsOf aliases) (if role == "skip" then .skip else if role == "inline" then .inline else .normal) (tyOf ty)
    | _ => .mk "?" "?" [] .skip .any
end

-- Read a dumped Go value of the given type.
mutual
  partial def valOf : GoTy → Val → GoVal
    | .string, .str s => .string s
    | .int, .int i => .int i
    | .float, .float l => .float l
    | .bool, .bool b => .bool b
    | .any, v => .any v
    | .slice _, .null => .slice none
    | .slice e, .seq xs => .slice (some (xs.map (valOf e)))
    | .map _, .null => .map none
    | .map e, .umap kvs => .map (some (kvs.map fun (k, v) => (k, valOf e v)))
    | .omap _, .null => .omap none
    | .omap e, .omap kvs => .omap (some (kvs.map fun (k, v) => (k, valOf e v)))
    | .ptr _, .null => .ptr none
    | .ptr t, v => .ptr (some (valOf t v))
    | .struct fs, .omap kvs => .struct (fs.map fun f => (f.name, valOf f.ty ((kvs.lookup f.name).getD .null)))
    | ty, _ => zero ty
end

mutual
  partial def dump : GoVal → Val
    | .string s => .str s | .int i => .int i | .float l => .float l | .bool b => .bool b
    | .any v => v
    | .slice none => .null
    | .slice (some xs) => .seq (xs.map dump)
    | .map none => .null
    | .map (some kvs) => .umap (kvs.map fun (k, v) => (k, dump v))
    | .omap none => .null
    | .omap (some kvs) => .omap (kvs.map fun (k, v) => (k, dump v))
    | .ptr none => .null
    | .ptr (some v) => dump v
    | .struct fs => .omap (fs.map fun (n, v) => (n, dump v))
end

def errName : Err → String
  | .incompatible => "incompatible" | .unsupportedSrc => "unsupportedSrc"
  | .multipleInline => "multipleInline" | .intoNil => "intoNil"

def step (_ : Unit) (line : List Char) : Unit × String :=
  let (op, rest) := splitOp line
  match op, parseArgs rest with
  | "unmarshal", some [tyv, src, cur] =>
    let ty := tyOf tyv
    match unmarshal 64 ty src (valOf ty cur) with
    | .ok v => ((), escapeStr ("ok " ++ Val.enc (dump v)))
    | .error _ => ((), "error")
  | "assign", some [.seq fs, .omap m] =>
    let fields := fs.map fieldOf
    let t := (taken m fields).map fun (f, k, _) => Val.seq [.str f, .str k]
    ((), escapeStr (Val.enc (.seq [.seq t, .seq ((remainder m fields).map fun e => .str e.1)])))
  | _, _ => ((), "bad-op")

end GoPipeline.DriverC16
