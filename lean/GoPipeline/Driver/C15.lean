import GoPipeline.Model.StepKind
import GoPipeline.Gen.StepKinds
import GoPipeline.Driver.Util
namespace GoPipeline.DriverC15
open GoPipeline GoPipeline.StepKind

def selStr : Sel → String
  | .known k => "known:" ++ k.name
  | .unknownType => "unknownType"
  | .inferFail => "inferFail"
  | .hardError => "hardError"

def strsOf (vs : List Val) : List String := vs.filterMap fun | .str s => some s | _ => none

def step (_ : Unit) (line : List Char) : Unit × String :=
  let (op, rest) := splitOp line
  match op, parseArgs rest with
  | "select", some [.seq keys, ty] =>
    let ks := strsOf keys
    let tv : TypeVal := match ty with
      | .null => if ks.contains "type" then .nonString else .absent
      | .str s => .str s
      | _ => .nonString
    -- `type: null` is a present, non-string value; the harness sends `absent` as the string marker below
    ((), selStr (select Gen.typeTable Gen.inferTable (fun k => ks.contains k) tv))
  | "scalar", some [.str s] => ((), selStr (selectScalar Gen.scalarTable s))
  | _, _ => ((), "bad-op")

end GoPipeline.DriverC15
