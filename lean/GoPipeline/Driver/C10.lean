import GoPipeline.Model.EnvBlock
import GoPipeline.Model.ExpandAst
import GoPipeline.Driver.Util
namespace GoPipeline.DriverC10
open GoPipeline GoPipeline.EnvBlock GoPipeline.ExpandAst

mutual
  partial def itemOf : Val → Item
    | .str t => .text t
    | .seq [.str "var", .str id] => .var id
    | .seq [.str "empty", .str id, .seq c] => .empty id (c.map itemOf)
    | .seq [.str "unset", .str id, .seq c] => .unset id (c.map itemOf)
    | .seq [.str "escaped"] => .escaped
    | .seq [.str "substr", .str id, .int off, .null] => .substr id off none
    | .seq [.str "substr", .str id, .int off, .int l] => .substr id off (some l)
    | .seq [.str "required", .str id, .seq c] => .required id (c.map itemOf)
    | _ => .text "‹bad-ast›"
end

def upper (s : String) : String := s.toUpper

/-- `expand` given as a table string ↦ AST (unparsable strings map to `null`: the parse fails). -/
def tableExpand (tbl : List (String × Val)) : Expand String := fun lookup s =>
  match tbl.lookup s with
  | some (.seq items) => expandItems lookup (items.map itemOf)
  | some .null => .error "parse"
  | _ => .error ("missing-ast:" ++ s)

def ssPairs : Val → List (String × String)
  | .omap kvs => kvs.filterMap fun | (k, .str v) => some (k, v) | _ => none
  | _ => []

def step (_ : Unit) (line : List Char) : Unit × String :=
  let (op, rest) := splitOp line
  match op, parseArgs rest with
  | "envblock", some [.str normName, .bool prefer, envV, blockV, .omap tbl, .seq probes] =>
    let norm : String → String := if normName == "upper" then upper else id
    let env : Env := ⟨ssPairs envV⟩
    let block := match blockV with | .null => none | v => some (ssPairs v)
    match envBlock (tableExpand tbl) norm prefer env block with
    | .error _ => ((), "error")
    | .ok (b, envF) =>
      let bl := match b with | none => Val.null | some l => .omap (l.map fun (k, v) => (k, .str v))
      let gets := probes.map fun p => match p with
        | .str n => (match envF.get norm n with | some v => Val.seq [.str v] | none => .null)
        | _ => .null
      ((), escapeStr ("ok " ++ Val.enc bl ++ " " ++ Val.enc (.seq gets)))
  | _, _ => ((), "bad-op")

end GoPipeline.DriverC10
