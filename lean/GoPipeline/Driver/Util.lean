import GoPipeline.Model.Val
namespace GoPipeline

-- Structural equality on `Val` (stands in for go-cmp on decoded values).
mutual
  def Val.beq' : Val → Val → Bool
    | .null, .null => true
    | .bool a, .bool b => a == b
    | .int a, .int b => a == b
    | .float a, .float b => a == b
    | .time a, .time b => a == b
    | .str a, .str b => a == b
    | .seq a, .seq b => Val.beqList a b
    | .omap a, .omap b => Val.beqKVs a b
    | .umap a, .umap b => Val.beqKVs a b
    | _, _ => false
  def Val.beqList : List Val → List Val → Bool
    | [], [] => true
    | a :: as, b :: bs => Val.beq' a b && Val.beqList as bs
    | _, _ => false
  def Val.beqKVs : List (String × Val) → List (String × Val) → Bool
    | [], [] => true
    | (k, a) :: as, (k', b) :: bs => k == k' && Val.beq' a b && Val.beqKVs as bs
    | _, _ => false
end

/-- Split a request into its opcode and the argument tail. -/
def splitOp (cs : List Char) : String × List Char :=
  let w := cs.takeWhile (· != ' ')
  (String.ofList w, cs.drop w.length)

def boolStr (b : Bool) : String := if b then "t" else "f"

/-- Insertion into a key-sorted association list, later value wins (a Go map store). -/
def umapInsert (k : String) (v : Val) : List (String × Val) → List (String × Val)
  | [] => [(k, v)]
  | (k', v') :: r =>
    if k == k' then (k, v) :: r
    else if k < k' then (k, v) :: (k', v') :: r
    else (k', v') :: umapInsert k v r

def umapOfPairs (l : List (String × Val)) : List (String × Val) :=
  l.foldl (fun acc p => umapInsert p.1 p.2 acc) []

end GoPipeline
