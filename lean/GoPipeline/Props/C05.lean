/-
  C05 — property theorems: the concrete ordered map (slots + tombstones + index, as in
  `ordered/map.go`) refines a plain list of pairs under every operation history.
  Only property statements live here; helper lemmas are in `GoPipeline/Lemmas/OMap.lean`.
-/
import GoPipeline.Lemmas.OMap
namespace GoPipeline.OMap
variable {V : Type}

/-! ### The representation invariant holds initially and is preserved by every mutator -/

theorem C05_inv_new : Inv (newMap : CMap V) := inv_new
theorem C05_inv_zero : Inv (zeroMap : CMap V) := inv_zero
theorem C05_inv_set {c : CMap V} (h : Inv c) (k : String) (v : V) : Inv (set c k v) := inv_set h k v
theorem C05_inv_replace {c : CMap V} (h : Inv c) (o n : String) (v : V) : Inv (replace c o n v) :=
  inv_replace h o n v
theorem C05_inv_delete {c : CMap V} (h : Inv c) (k : String) : Inv (delete c k) := inv_delete h k
theorem C05_inv_compact {c : CMap V} (h : Inv c) : Inv (compact c) := inv_compact h

/-! ### Every mutator commutes with the abstraction (compaction is abstractly the identity) -/

theorem C05_abs_set {c : CMap V} (h : Inv c) (k : String) (v : V) :
    abs (set c k v) = aset (abs c) k v := abs_set h k v
theorem C05_abs_replace {c : CMap V} (h : Inv c) (o n : String) (v : V) :
    abs (replace c o n v) = areplace (abs c) o n v := abs_replace h o n v
theorem C05_abs_delete {c : CMap V} (h : Inv c) (k : String) :
    abs (delete c k) = adelete (abs c) k := abs_delete h k
theorem C05_abs_compact {c : CMap V} (h : Inv c) : abs (compact c) = abs c := abs_compact h

/-! ### Every observer equals its list-of-pairs counterpart -/

theorem C05_len {c : CMap V} (h : Inv c) : len c = (abs c).length := len_eq h
theorem C05_isZero {c : CMap V} (h : Inv c) : isZero c = (abs c).isEmpty := isZero_eq h
theorem C05_get {c : CMap V} (h : Inv c) (k : String) : get c k = (abs c).lookup k := get_eq h k
theorem C05_contains {c : CMap V} (h : Inv c) (k : String) :
    contains c k = ((abs c).lookup k).isSome := contains_eq h k
theorem C05_range {c : CMap V} (h : Inv c) : range c = abs c := range_eq h
/-- Keys of a reachable map are pairwise distinct, so converting to a plain Go map loses nothing. -/
theorem C05_keys_nodup {c : CMap V} (h : Inv c) : (akeys (abs c)).Nodup := abs_keys_nodup h

/-! ### Equality: never panics (it is a total function here), and is the pairwise comparison -/

theorem C05_equal {a b : CMap V} (ha : Inv a) (hb : Inv b) (veq : V → V → Bool) :
    equal veq (some a) (some b) = aequal veq (abs a) (abs b) := equal_eq ha hb veq

theorem C05_equal_refl {a : CMap V} (ha : Inv a) (veq : V → V → Bool) (hr : ∀ v, veq v v = true) :
    equal veq (some a) (some a) = true := by
  rw [equal_eq ha ha]; exact aequal_refl veq hr _

theorem C05_equal_symm {a b : CMap V} (ha : Inv a) (hb : Inv b) (veq : V → V → Bool)
    (hs : ∀ v w, veq v w = veq w v) :
    equal veq (some a) (some b) = equal veq (some b) (some a) := by
  rw [equal_eq ha hb, equal_eq hb ha]; exact aequal_symm veq hs _ _

/-- `Equal` is true exactly when keys, values (under `veq`) and order all match. -/
theorem C05_equal_iff {a b : CMap V} (ha : Inv a) (hb : Inv b) (veq : V → V → Bool) :
    equal veq (some a) (some b) = true ↔
      akeys (abs a) = akeys (abs b) ∧
      List.Forall₂ (fun p q => veq p.2 q.2 = true) (abs a) (abs b) := by
  rw [equal_eq ha hb]; exact aequal_iff veq _ _

/-! ### Lifted to every operation history from every start state -/

theorem C05_history (c : CMap V) (h : Inv c) (ops : List (Op V)) :
    Inv (run c ops) ∧ abs (run c ops) = arun (abs c) ops := run_refines c h ops

theorem C05_history_new (ops : List (Op V)) :
    Inv (run (newMap : CMap V) ops) ∧ abs (run (newMap : CMap V) ops) = arun [] ops :=
  run_refines _ inv_new ops

theorem C05_history_zero (ops : List (Op V)) :
    Inv (run (zeroMap : CMap V) ops) ∧ abs (run (zeroMap : CMap V) ops) = arun [] ops :=
  run_refines _ inv_zero ops

/-- `MapFromItems(ps...)` (a `NewMap` followed by one `Set` per item, repeated keys included): the map the
    list of pairs describes — first position, last value — and every later history continues from there. -/
def fromItems (ps : List (String × V)) : CMap V := run newMap (ps.map fun p => Op.set p.1 p.2)

theorem C05_from_items (ps : List (String × V)) (ops : List (Op V)) :
    Inv (run (fromItems ps) ops) ∧
    abs (run (fromItems ps) ops) = arun (ps.foldl (fun l p => aset l p.1 p.2) []) ops := by
  have h0 := run_refines (newMap : CMap V) inv_new (ps.map fun p => Op.set p.1 p.2)
  have h1 := run_refines (fromItems ps) h0.1 ops
  refine ⟨h1.1, ?_⟩
  rw [h1.2]
  have : abs (fromItems ps) = ps.foldl (fun l p => aset l p.1 p.2) [] := by
    unfold fromItems
    rw [h0.2]
    have hab : abs (newMap : CMap V) = [] := rfl
    rw [hab]
    unfold arun
    rw [List.foldl_map]
    rfl
  rw [this]

/-! ### Renames from inside an iteration callback -/

theorem C05_rangeReplace {E : Type} {c : CMap V} (h : Inv c)
    (f : String → V → Except E (String × V)) :
    (match rangeReplace f c with
     | .ok c' => Inv c' ∧ aRangeReplace f [] (abs c) = .ok (abs c')
     | .error e => aRangeReplace f [] (abs c) = .error e) := rangeReplace_refines h f

/-! ### Non-vacuity: a reachable state with a tombstone satisfies the hypotheses -/

example : Inv (run (newMap : CMap Nat) [.set "a" 1, .set "b" 2, .set "c" 3, .delete "c"]) :=
  (C05_history_new _).1

example : abs (run (newMap : CMap Nat) [.set "a" 1, .set "b" 2, .set "c" 3, .replace "a" "c" 9]) =
    [("c", 9), ("b", 2)] := by decide

example : (run (newMap : CMap Nat) [.set "a" 1, .set "b" 2, .set "c" 3, .replace "a" "c" 9]).items.length = 3 := by
  decide

end GoPipeline.OMap
