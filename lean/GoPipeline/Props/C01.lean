/-
  C01 — any semantic change to signed step content makes verification fail.
  Statements only; proofs of the named lemmas are in `GoPipeline/Lemmas/Signing.lean`.
  `S : SigScheme` carries the idealised unforgeability assumptions A1/A2 and correctness as fields
  (hypotheses, not axioms); `DriverSig.recScheme`-like instances show they are consistent.
-/
import GoPipeline.Lemmas.Signing
import GoPipeline.Gen.Signing
namespace GoPipeline.Signing
open GoPipeline GoPipeline.Pipe GoPipeline.Marshal GoPipeline.Jcs

/-! ### The tables in the source are the ones the model implements -/

theorem C01_signing_tables :
    Gen.sigRecognised = true ∧ Gen.sigEnvNamespacePrefix = envNamespacePrefix ∧
    Gen.sigRequired = mandatoryFields ∧ Gen.sigDefaultPassesEnvPrefix = true ∧
    Gen.sigSignedFields =
      [("command", "c.Command"), ("env", "EmptyToNilMap(c.Env)"), ("plugins", "EmptyToNilSlice(c.Plugins)"),
       ("matrix", "EmptyToNilPtr(c.Matrix)"), ("repository_url", "c.RepositoryURL")] ∧
    Gen.sigValuesForFields =
      [("command", "out[\"command\"] = c.Command"), ("env", "out[\"env\"] = EmptyToNilMap(c.Env)"),
       ("plugins", "out[\"plugins\"] = EmptyToNilSlice(c.Plugins)"), ("matrix", "out[\"matrix\"] = EmptyToNilPtr(c.Matrix)"),
       ("repository_url", "out[\"repository_url\"] = c.RepositoryURL")] := by decide

variable (S : SigScheme)

/-! `ValuesOK v` (defined in `Lemmas/Signing.lean`, so that the lemma `sound` can mention it):
    well-formedness of what is signed / presented — number literals inside plugin configs and the
    matrix are number tokens, and no value map has two members of the same name:
    `WFMembers (valJKVs v) ∧ KeysDistinct (.obj (valJKVs v))`.
    `verifyRequired` (same file) is the `required` map `Verify` recomputes:
    `verifyPayload S r c repo env = (verifyRequired S r c repo env).map (payload r.algorithm)`. -/
example (v : List (String × Val)) : ValuesOK v ↔ (WFMembers (valJKVs v) ∧ KeysDistinct (.obj (valJKVs v))) := Iff.rfl
theorem C01_verifyRequired_spec (r : Record S) (c : CommandStep) (repo : String) (env : List (String × String)) :
    verifyPayload S r c repo env = (verifyRequired S r c repo env).map (payload r.algorithm) :=
  verifyPayload_eq S r c repo env

/-! ### Soundness: what a successful verification implies -/

/-- The core: if a record carrying the value produced by `sign` verifies against a presented step,
    env and repository URL, then the key is the signing key and the recomputed payload is the signed one. -/
theorem C01_verify_binds_payload (k : S.Key) (alg : String) (c₀ : CommandStep) (repo₀ : String)
    (penv₀ : List (String × String)) (r' : Record S) (hval : r'.value = (sign S k alg c₀ repo₀ penv₀).value)
    (pub : S.Pub) (c₁ : CommandStep) (repo₁ : String) (env₁ : List (String × String))
    (hv : verify S r' pub c₁ repo₁ env₁ = .ok ()) :
    pub = S.pubOf k ∧ verifyPayload S r' c₁ repo₁ env₁ = .ok (payload alg (signValues c₀ repo₀ penv₀)) :=
  verify_binds_payload S k alg c₀ repo₀ penv₀ r' hval pub c₁ repo₁ env₁ hv

/-- Verification fails under any key other than the signing key. -/
theorem C01_other_key_fails (k : S.Key) (alg : String) (c₀ : CommandStep) (repo₀ : String)
    (penv₀ : List (String × String)) (r' : Record S) (hval : r'.value = (sign S k alg c₀ repo₀ penv₀).value)
    (pub : S.Pub) (hne : pub ≠ S.pubOf k) (c₁ : CommandStep) (repo₁ : String) (env₁ : List (String × String)) :
    verify S r' pub c₁ repo₁ env₁ ≠ .ok () := other_key_fails S k alg c₀ repo₀ penv₀ r' hval pub hne c₁ repo₁ env₁

/-- Everything that was signed is bound: algorithm, command, repository URL, step env, plugin sequence
    (canonical sources and configs, in order), matrix, and every signed pipeline env variable — each
    equal (up to JSON member order inside configs) to what was signed; and the presented field list
    names exactly the signed fields. -/
theorem C01_sound (k : S.Key) (alg : String) (c₀ : CommandStep) (repo₀ : String)
    (penv₀ : List (String × String)) (r' : Record S) (hval : r'.value = (sign S k alg c₀ repo₀ penv₀).value)
    (pub : S.Pub) (c₁ : CommandStep) (repo₁ : String) (env₁ : List (String × String))
    (hv : verify S r' pub c₁ repo₁ env₁ = .ok ())
    (hp₀ : (penv₀.map (·.1)).Nodup) (hp₁ : (env₁.map (·.1)).Nodup)
    (hok₀ : ValuesOK (signValues c₀ repo₀ penv₀))
    (hok₁ : ∀ req, verifyRequired S r' c₁ repo₁ env₁ = .ok req → ValuesOK req) :
    r'.algorithm = alg ∧
    c₁.command = c₀.command ∧ repo₁ = repo₀ ∧
    Equiv (valJ (envField c₁.env)) (valJ (envField c₀.env)) ∧
    Equiv (valJ (pluginsField c₁.plugins)) (valJ (pluginsField c₀.plugins)) ∧
    Equiv (valJ (matrixField c₁.matrix)) (valJ (matrixField c₀.matrix)) ∧
    (∀ f, f ∈ r'.signedFields ↔ f ∈ (signValues c₀ repo₀ penv₀).map (·.1)) ∧
    (∀ name v, (name, v) ∈ penv₀ → name ∉ (c₀.env.getD []).map (·.1) →
        env₁.lookup name = some v ∧ name ∉ (c₁.env.getD []).map (·.1)) :=
  sound S k alg c₀ repo₀ penv₀ r' hval pub c₁ repo₁ env₁ hv hp₀ hp₁ hok₀ hok₁

/-! ### Record mutations that fail outright -/

/-- Dropping a mandatory field from the field list. -/
theorem C01_mandatory_field_dropped (r : Record S) (pub : S.Pub) (c : CommandStep) (repo : String)
    (env : List (String × String)) (f : String) (hf : f ∈ mandatoryFields) (hn : f ∉ r.signedFields) :
    verify S r pub c repo env ≠ .ok () := mandatory_field_dropped S r pub c repo env f hf hn

/-- A field name that is neither a known field nor in the `env::` namespace. -/
theorem C01_garbage_field (r : Record S) (pub : S.Pub) (c : CommandStep) (repo : String)
    (env : List (String × String)) (f : String) (hf : f ∈ r.signedFields)
    (hk : fieldValue c repo f = none) (hp : f.startsWith envNamespacePrefix = false) :
    verify S r pub c repo env ≠ .ok () := garbage_field S r pub c repo env f hf hk hp

/-- An empty field list. -/
theorem C01_no_fields (r : Record S) (pub : S.Pub) (c : CommandStep) (repo : String)
    (env : List (String × String)) (h : r.signedFields = []) : verify S r pub c repo env ≠ .ok () :=
  no_fields S r pub c repo env h

/-! ### Completeness: the honest signature verifies (needed by C02/C06), and harmless changes do too -/

/-- The signature made by `sign` verifies with the matching public key for the same step and URL,
    under any verification env that agrees with the signed pipeline env on the unshadowed names
    (extra, unrelated variables are allowed). -/
theorem C01_complete (k : S.Key) (alg : String) (c : CommandStep) (repo : String)
    (penv env₁ : List (String × String)) (hp : (penv.map (·.1)).Nodup) (hp₁ : (env₁.map (·.1)).Nodup)
    (hsub : ∀ name v, (name, v) ∈ penv → name ∉ (c.env.getD []).map (·.1) → env₁.lookup name = some v) :
    verify S (sign S k alg c repo penv) (S.pubOf k) c repo env₁ = .ok () := complete S k alg c repo penv env₁ hp hp₁ hsub

/-- Reordering or duplicating the field list is not a semantic change: it still verifies. -/
theorem C01_field_list_order_irrelevant (r r' : Record S) (pub : S.Pub) (c : CommandStep) (repo : String)
    (env : List (String × String)) (ha : r'.algorithm = r.algorithm) (hv : r'.value = r.value)
    (hset : ∀ f, f ∈ r'.signedFields ↔ f ∈ r.signedFields)
    (h : verify S r pub c repo env = .ok ()) : verify S r' pub c repo env = .ok () :=
  field_list_order_irrelevant S r r' pub c repo env ha hv hset h

/-! Non-vacuity: the toy scheme "a signature is (key, message)" satisfies A1, A2 and correctness. -/
def toyScheme : SigScheme where
  Key := Nat
  Pub := Nat
  Sig := Nat × List Char
  pubOf := id
  sign := fun k m => (k, m)
  verify := fun p m' s => p == s.1 && m' == s.2
  correct := by intro k m; simp
  a1 := by intro k m m' h; simp at h; exact h
  a2 := by intro k p m m' hne; simp only [id] at hne; simp [hne]

end GoPipeline.Signing
