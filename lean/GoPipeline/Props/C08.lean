/-
  C08 — order-significant mappings keep document order through decode and encode.
  Statements only; proofs of the named lemmas are in `GoPipeline/Lemmas/Order.lean` (which builds on
  `Lemmas/Yaml.lean`, `Lemmas/Parse03.lean`).

  The chain the property describes, stage by stage:
    document --(yaml.v3 parser: trusted)--> node graph --decodeYAML--> ordered tree      (1), (2)
    ordered tree --parse (typed layer)--> Pipeline                                        (3), (4), (5)
    Pipeline --Marshal--> value tree handed to the encoders                               (3), (4), (5)
    value tree --encoding/json / yaml.v3 emitters: trusted, token order checked by the harness--> bytes
    bytes --decode again--> ordered tree                                                  (6)
  The ordered map's own iteration order after any history of Set/Replace/Delete is C05 (C05_range…).
-/
import GoPipeline.Lemmas.Order
namespace GoPipeline.Order
open GoPipeline GoPipeline.Pipe GoPipeline.Parse GoPipeline.Marshal GoPipeline.Unm GoPipeline.Roundtrip

/-! ### (1) decoding a mapping keeps the order in which the merge walk yields its keys -/

/-- The decoded mapping lists its keys in the order the walk yielded them (first occurrence of each). -/
theorem C08_decode_keeps_yield_order (s : Yaml.Store) (f : Nat) (seen : List Nat) (ps : List (String × Nat))
    (acc : List (String × Val)) (h : Yaml.decodePairs s f seen ps [] = .ok acc) :
    acc.map (·.1) = (ps.map (·.1)).eraseDups := Yaml.decoded_key_order s f seen ps acc h

/-! ### (2) the walk's order is document order with merged keys standing where the merge key stood -/

/-- On a mapping without any merge key the walk yields exactly the written pairs, in written order
    (keys canonicalised). -/
theorem C08_plain_mapping_document_order (s : Yaml.Store) (f : Nat) (ps : List (Nat × Nat))
    (hplain : ∀ p ∈ ps, ∀ kn, s[p.1]? = some kn → kn.isMerge = false)
    (out : List String × List (String × Nat))
    (h : Yaml.specPairs s f [] [] ps = .ok out) :
    out.2.map (·.2) = ps.map (·.2) := plain_mapping_document_order s f ps hplain out h

/-- Explicit pairs written before a merge key stay before everything the merge contributes, and those
    written after it come after: `specPairs` only ever appends. (`C07_merge_is_spec` identifies the walk of
    the implementation with `specContent`, whose `<<` case splices the merged content in at that point.) -/
theorem C08_merged_keys_stand_at_merge_key (s : Yaml.Store) (f : Nat) (have_ : List String)
    (out : List (String × Nat)) (ps : List (Nat × Nat)) (r : List String × List (String × Nat))
    (h : Yaml.specPairs s f have_ out ps = .ok r) : ∃ added, r.2 = out ++ added :=
  specPairs_appends s f have_ out ps r h

/-! ### (3) the pipeline env block -/

/-- The typed env block has the document's keys in the document's order. -/
theorem C08_env_block_parse_order (kvs : List (String × Val)) (l : List (String × String))
    (h : parseEnvOrdered (.omap kvs) = .ok (some l)) : l.map (·.1) = kvs.map (·.1) :=
  env_parse_order kvs l h

/-- …and is marshalled as an ordered mapping with those keys in that order. -/
theorem C08_env_block_marshal_order (p : Pipeline) (l : List (String × String)) (j : Val)
    (he : p.env = some l) (h : mPipeline p = .ok j) :
    ∃ kvs, j = .umap kvs ∧ kvs.lookup "env" = some (.omap (l.map fun (k, v) => (k, .str v))) :=
  env_marshal_order p l j he h

/-- End to end on the model: a document's env block comes out with its keys in document order. -/
theorem C08_env_block_order (m : Entries) (kvs : List (String × Val)) (p : Pipeline) (ws : List Warn) (j : Val)
    (hm : (m.map (·.1)).Nodup) (henv : m.lookup "env" = some (.omap kvs))
    (hp : parsePipeline (.omap m) = .ok (p, ws)) (hj : mPipeline p = .ok j) :
    ∃ out kvs', j = .umap out ∧ out.lookup "env" = some (.omap kvs') ∧ kvs'.map (·.1) = kvs.map (·.1) :=
  env_block_order m kvs p ws j hm henv hp hj

/-! ### (4) plugins written as one mapping -/

/-- The plugin list follows the mapping's key order, and is marshalled as a list in that order. -/
theorem C08_plugins_mapping_order (kvs : List (String × Val)) (hne : kvs ≠ []) :
    ∃ l, parsePlugins (.omap kvs) = .ok (some l) ∧
      l.map (fun p => p.map (·.source)) = kvs.map (fun kv => some kv.1) ∧
      ∃ js, mPlugins l = .seq js ∧ js.length = kvs.length :=
  plugins_mapping_order kvs hne

/-! ### (5) mappings nested inside unknown fields and unknown steps are carried as they are -/

/-- An unknown key of a command step is marshalled with the identical value tree — the same keys in the
    same order at every depth. -/
theorem C08_unknown_field_verbatim (m : Entries) (c : CommandStep) (h : parseCommand m = .ok c)
    (hm : (keysOf m).Nodup) (k : String) (hk : k ∉ commandKeys) :
    ∃ kvs, mCommand c = .umap kvs ∧ kvs.lookup k = m.lookup k :=
  let ⟨kvs, h1, h2, _⟩ := command_other_keys_preserved m c h hm k hk
  ⟨kvs, h1, h2⟩

/-- An unknown step is marshalled as the identical value tree. -/
theorem C08_unknown_step_verbatim (v : Val) : mStep (.unknown v) = .ok v := mStep_unknown v

/-! ### (6) an ordered tree survives encode then decode -/

/-- Reading back what the encoders were given keeps every mapping's keys in order … -/
theorem C08_reread_keeps_keys (kvs : List (String × Val)) :
    (rereadJKVs kvs).map (·.1) = kvs.map (·.1) := reread_keeps_keys kvs

/-- … and a tree made of ordered mappings only (what `ordered.DecodeYAML` and `ordered.Map` hold) comes
    back identical: same keys, same values, same order, at every depth. (Number / timestamp re-typing by
    the text codec is C09's `JStable` side condition; it does not touch keys or order.) -/
theorem C08_reread_ordered_tree_id (v : Val) (h : NoUMap v) : rereadJ v = v := reread_id v h

/-! Non-vacuity -/
example : parseEnvOrdered (.omap [("B", .int 1), ("A", .str "x")]) = .ok (some [("B", "1"), ("A", "x")]) := by decide
example : NoUMap (.omap [("z", .omap [("b", .int 1), ("a", .null)]), ("y", .seq [.omap []])]) := by
  simp [NoUMap, NoUMapKVs, NoUMapList]

end GoPipeline.Order
