/-
  C09 — the normal form is a fixpoint (JSON leg, model level), for every pipeline in the image of the
  parser; the stand-alone decoders for one command step and for a plugin list are the same functions.
  Statements only; proofs of the named lemmas are in `GoPipeline/Lemmas/Roundtrip.lean`.

  Side conditions (`Stable*`, all decidable, defined in Model/Roundtrip.lean) and why they are there:
    * `JStable` untyped content — number / timestamp re-typing by the text codec (C09_textcodec_partial,
      explored by correspondence only);
    * no explicitly empty `label`/`key` next to an alias (recorded finding F14);
    * no adjustment `skip` that JSON's omitempty drops (recorded finding F11).
  Not a side condition any more: settings written next to `cache: {disabled: true}`. Finding F18
  (`(*Cache).MarshalJSON` wrote every disabled cache as `false`, dropping name / paths / size / extra
  keys written next to `disabled: true`) was fixed in the code (commit e8ce0ad): only a cache that is
  nothing but disabled is written as `false`, any other disabled cache as an object holding
  `"disabled": true` next to its settings. The condition was removed from `StableCommand` and from
  `C09_cache_roundtrip`, which now hold for every parsed cache.
  Not a side condition any more: plugin sources. The marshaller writes `FullSource()`, so the re-parsed
  step holds the canonical source, and comparing normal forms canonicalises it once more. Finding F17
  (`path.Join` in `FullSource`: `plugins: ["x/y#a/../.."]` was written as `github.com`, whose own
  canonical form was `github.com/buildkite-plugins/github.com-buildkite-plugin`) was fixed in the code
  (commit 3ced888); canonicalisation is now idempotent for every string, theorem
  `Marshal.fullSource_idem` (Lemmas/PluginSourceIdem.lean), and the four theorems below that compare
  normal forms carry no hypothesis about sources.
  The YAML leg goes through the same parse function; its marshalling differs only in omitempty rules
  (documented in DESIGN.md) and is covered by the correspondence and the re-parse oracle.
-/
import GoPipeline.Gen.Methods
import GoPipeline.Lemmas.RoundtripY
namespace GoPipeline.Roundtrip
open GoPipeline GoPipeline.Pipe GoPipeline.Parse GoPipeline.Marshal

/-! ### Untyped content -/

/-- Values as decoded from a document (ordered mappings only) come back unchanged. -/
theorem C09_document_values_stable (v : Val) (h : NoUMap v) : rereadJ v = v := reread_noUMap v h

/-- Plugin configs (`ToMapRecursive` images) come back as the same Go maps. -/
theorem C09_config_roundtrip (v : Val) (h : NoUMap v) : toMapRec (rereadJ (toMapRec v)) = toMapRec v :=
  config_roundtrip v h

/-! ### Components: every emitted shape is accepted and maps back -/

theorem C09_plugins_roundtrip (v : Val) (l : List (Option Plugin)) (hv : NoUMap v)
    (h : parsePlugins v = .ok (some l)) :
    parsePlugins (rereadJ (mPlugins l)) = .ok (some (l.map fun p => p.map normPlugin)) := plugins_roundtrip v l hv h

theorem C09_env_roundtrip (v : Val) (e : List (String × String)) (h : parseEnvMap v = .ok (some e)) (hne : e ≠ []) :
    parseEnvMap (rereadJ (envV (some e))) = .ok (some e) := env_roundtrip v e h hne

theorem C09_pipeline_env_roundtrip (e : List (String × String)) :
    parseEnvOrdered (rereadJ (.omap (e.map fun (k, v) => (k, .str v)))) = .ok (some e) := pipeline_env_roundtrip e

theorem C09_matrix_roundtrip (v : Val) (m : Matrix) (hv : NoUMap v) (h : parseMatrix v = .ok (some m)) (hs : StableMatrix m) :
    ∃ m', parseMatrix (rereadJ (mMatrix m)) = .ok (some m') ∧ normMatrix m' = normMatrix m := matrix_roundtrip v m hv h hs

theorem C09_cache_roundtrip (v : Val) (c : Cache) (hv : NoUMap v) (h : parseCache v = .ok (some c))
    (hs : StableUMap c.rem) :
    ∃ c', parseCache (rereadJ (mCache c)) = .ok (some c') ∧ normCache c' = normCache c := cache_roundtrip v c hv h hs

theorem C09_signature_roundtrip (s : Signature) :
    parseSignature (rereadJ (mSignature s)) = .ok (some s) := signature_roundtrip s

/-! ### Steps -/

/-- One command step (this is also `CommandStep.UnmarshalJSON` applied to the step's own JSON). -/
theorem C09_command_roundtrip (m : Unm.Entries) (c : CommandStep) (hm : NoUMapKVs m) (hk : (m.map (·.1)).Nodup)
    (h : parseCommand m = .ok c) (hs : StableCommand c) :
    ∃ kvs c', rereadJ (mCommand c) = .omap kvs ∧ parseCommand kvs = .ok c' ∧ normCommand c' = normCommand c :=
  command_roundtrip m c hm hk h hs

/-- Every step kind, groups recursively: re-parsing the marshalled step gives the same step, same kind. -/
theorem C09_step_roundtrip (f : Nat) (x : Val) (s : Step) (w : List Warn) (hx : NoUMap x) (hd : KeysNodup x)
    (h : parseStep f x = .ok (s, w)) (hs : StableStep s) :
    ∃ j s' w', mStep s = .ok j ∧ parseStep f (rereadJ j) = .ok (s', w') ∧ normStep s' = normStep s ∧ w' = w :=
  step_roundtrip f x s w hx hd h hs

/-- The whole pipeline: the normal form is a fixpoint. -/
theorem C09_json_fixpoint (v : Val) (p : Pipeline) (ws : List Warn) (hv : NoUMap v) (hd : KeysNodup v)
    (h : parsePipeline v = .ok (p, ws)) (hs : StablePipeline p) :
    ∃ j p' ws', mPipeline p = .ok j ∧ parsePipeline (rereadJ j) = .ok (p', ws') ∧ normPipeline p' = normPipeline p :=
  json_fixpoint v p ws hv hd h hs

/-- Normalisation is idempotent: a second round of marshal + re-parse changes nothing more. -/
theorem C09_norm_idempotent (p : Pipeline) : normPipeline (normPipeline p) = normPipeline p := norm_idempotent p

/-! ### The YAML leg (value-tree level; Model/MarshalY.lean mirrors yaml.v3's struct encoding)

  `rereadJ` also stands for the YAML text codec here: struct levels (Go maps / structs) come back as ordered
  mappings, ordered mappings stay as they are. The YAML leg needs no `emptyishSkip` condition (F11 is a
  JSON-only loss). -/

/-- Every pipeline in the image of the parser can be written as YAML (no inline key collides with a
    declared field), re-parsing that gives the same typed pipeline modulo nil/empty and plugin-source
    canonicalisation, with the same warnings dropped to none for steps that parsed cleanly. -/
theorem C09_yaml_fixpoint (v : Val) (p : Pipeline) (ws : List Warn) (hv : NoUMap v) (hd : KeysNodup v)
    (h : parsePipeline v = .ok (p, ws)) (hs : StablePipelineY p) :
    ∃ j p' ws', MarshalY.yPipeline p = .ok j ∧ parsePipeline (rereadJ j) = .ok (p', ws') ∧
      normPipeline p' = normPipeline p :=
  yaml_fixpoint v p ws hv hd h hs

/-- Both output formats carry the same data: re-parsing the JSON form and re-parsing the YAML form of the
    same parsed pipeline give pipelines with the same normal form. -/
theorem C09_legs_carry_same_data (v : Val) (p : Pipeline) (ws : List Warn) (hv : NoUMap v) (hd : KeysNodup v)
    (h : parsePipeline v = .ok (p, ws)) (hs : StablePipeline p) :
    ∃ jJ jY pJ pY wJ wY, mPipeline p = .ok jJ ∧ MarshalY.yPipeline p = .ok jY ∧
      parsePipeline (rereadJ jJ) = .ok (pJ, wJ) ∧ parsePipeline (rereadJ jY) = .ok (pY, wY) ∧
      normPipeline pJ = normPipeline pY :=
  legs_carry_same_data v p ws hv hd h hs

/-- The one place where the legs differ in content: an adjustment's `skip` that is `false`, `""`, `0` or
    `[]` is kept by the YAML form and dropped by the JSON form (finding F11). -/
theorem C09_yaml_keeps_emptyish_skip (a : Adjustment) (h : emptyishSkip a.skip = true)
    (hrem : (a.rem.getD []).lookup "skip" = none ∧ (a.rem.getD []).lookup "with" = none) :
    (∃ kvs, MarshalY.yAdjustment a = .ok (.umap kvs) ∧ kvs.lookup "skip" = some a.skip) ∧
    (∃ kvs, mAdjustment a = .umap kvs ∧ kvs.lookup "skip" = none) :=
  yaml_keeps_emptyish_skip a h hrem

/-! ### The marshalling models hard-code which fields exist and which are omitted when empty; this ties that
    to the struct tags of the current source (regenerated `Gen/Structs`), so a changed tag — a new
    `omitempty`, a renamed key, a reordered or added field — breaks this obligation at build time. -/

theorem C09_struct_tags_as_modelled :
    (Gen.struct_Pipeline.map fun f => (f.name, f.key)) =
      [("Steps", "steps"), ("Env", "env"), ("RemainingFields", "remainingfields")] ∧
    Gen.omitempty_Pipeline = ["Env"] ∧
    (Gen.struct_CommandStep.map fun f => (f.name, f.key)) =
      [("Key", "key"), ("Label", "label"), ("Command", "command"), ("Plugins", "plugins"), ("Env", "env"),
       ("Signature", "signature"), ("Matrix", "matrix"), ("Cache", "cache"), ("RemainingFields", "remainingfields")] ∧
    Gen.omitempty_CommandStep = ["Key", "Label", "Plugins", "Env", "Signature", "Matrix", "Cache"] ∧
    (Gen.struct_GroupStep.map fun f => (f.name, f.key)) =
      [("Key", "key"), ("Group", "group"), ("Steps", "steps"), ("RemainingFields", "remainingfields")] ∧
    Gen.omitempty_GroupStep = ["Key"] ∧
    (Gen.struct_Matrix.map fun f => (f.name, f.key)) =
      [("Setup", "setup"), ("Adjustments", "adjustments"), ("RemainingFields", "remainingfields")] ∧
    Gen.omitempty_Matrix = ["Adjustments"] ∧
    (Gen.struct_MatrixAdjustment.map fun f => (f.name, f.key)) =
      [("With", "with"), ("Skip", "skip"), ("RemainingFields", "remainingfields")] ∧
    Gen.omitempty_MatrixAdjustment = ["Skip"] ∧
    (Gen.struct_Cache.map fun f => (f.name, f.key)) =
      [("Disabled", "disabled"), ("Name", "name"), ("Paths", "paths"), ("Size", "size"), ("RemainingFields", "remainingfields")] ∧
    Gen.omitempty_Cache = ["Disabled", "Name", "Paths", "Size"] ∧
    (Gen.struct_Signature.map fun f => (f.name, f.key)) =
      [("Algorithm", "algorithm"), ("SignedFields", "signed_fields"), ("Value", "value")] ∧
    Gen.omitempty_Signature = [] := by decide

/-- Where the encoders find the codec methods. yaml.v3 and encoding/json reach a pointer-receiver method only through
    a pointer or an addressable value; a struct FIELD of value type `T` is encoded without it. The value-typed fields
    with named types of the structs the model mirrors (`Matrix.Setup`, `Matrix.Adjustments`, `MatrixAdjustment.With`,
    `CommandStep.Plugins`, `Pipeline.Steps`, `GroupStep.Steps`) have their `MarshalYAML` / `MarshalJSON`, if any, on a
    value receiver — in the current source (regenerated `Gen/Methods`, `Gen/Structs`). A receiver changed to a pointer
    (the YAML leg would silently write the raw map) breaks this obligation at build time. -/
def valueFieldTypes : List String :=
  (Gen.struct_Pipeline ++ Gen.struct_CommandStep ++ Gen.struct_GroupStep ++ Gen.struct_Matrix ++
    Gen.struct_MatrixAdjustment ++ Gen.struct_Cache ++ Gen.struct_Signature).filterMap fun f =>
    match f.ty with
    | .named t => some t
    | _ => none

theorem C09_marshalers_of_value_fields_on_value_receivers :
    valueFieldTypes = ["Steps", "Plugins", "Steps", "MatrixSetup", "MatrixAdjustments", "MatrixAdjustmentWith"] ∧
    ∀ t ∈ valueFieldTypes, ∀ m ∈ ["MarshalYAML", "MarshalJSON"], (t, m, true) ∉ Gen.codecMethods := by decide

/-- …and the types the YAML-leg model gives a `MarshalYAML` do have one (value or pointer receiver as the field requires). -/
theorem C09_yaml_marshalers_present :
    (("MatrixSetup", "MarshalYAML", false) ∈ Gen.codecMethods) ∧ (("MatrixAdjustmentWith", "MarshalYAML", false) ∈ Gen.codecMethods) ∧
    (("Matrix", "MarshalYAML", true) ∈ Gen.codecMethods) ∧ (("Plugin", "MarshalYAML", true) ∈ Gen.codecMethods) ∧
    (("WaitStep", "MarshalYAML", true) ∈ Gen.codecMethods) ∧ (("InputStep", "MarshalYAML", true) ∈ Gen.codecMethods) ∧
    (("UnknownStep", "MarshalYAML", true) ∈ Gen.codecMethods) := by decide

/-! Non-vacuity -/
example : StableCommand { key := "k", label := "", command := "c", plugins := some [some { source := "docker#v1", config := .umap [] }],
                          env := none, signature := none, matrix := none, cache := none, rem := some [("agents", .omap [("q", .str "x")])] } := by
  simp [StableCommand, noEmptyPrimaryWithAlias, StableUMap, JStable, JStableKVs]

end GoPipeline.Roundtrip
