/-
  C03 — parse then marshal yields the documented normal form with no data loss.
  Statements only; proofs of the named lemmas are in `GoPipeline/Lemmas/Parse03.lean`.
  Known gaps kept visible: both `command` and `commands` present (finding F7: `command` is dropped);
  unknown keys inside `signature` (no inline catch-all there).
-/
import GoPipeline.Lemmas.Parse03
namespace GoPipeline.Parse
open GoPipeline GoPipeline.Pipe GoPipeline.Marshal GoPipeline.Unm

-- `keysOf` and `commandKeys` (the keys a command step models) are defined in `Lemmas/Parse03.lean`.

/-- A bare step list becomes `steps` (and nothing else). -/
theorem C03_bare_list_becomes_steps (xs : List Val) (p : Pipeline) (ws : List Warn) (j : Val)
    (h : parsePipeline (.seq xs) = .ok (p, ws)) (hj : mPipeline p = .ok j) :
    ∃ js, j = .umap [("steps", .seq js)] ∧ js.length = xs.length := bare_list_becomes_steps xs p ws j h hj

/-- `command` / `commands` collapse into one newline-joined `command` (scalars stringified). -/
theorem C03_command_join (m : Entries) (c : CommandStep) (h : parseCommand m = .ok c) (v : Val)
    (hv : m.lookup "commands" = some v ∨ (m.lookup "commands" = none ∧ m.lookup "command" = some v)) :
    ∃ l, strsOf v = .ok l ∧ c.command = joinLines (l.getD []) := command_join m c h v hv

theorem C03_no_command_key (m : Entries) (c : CommandStep) (h : parseCommand m = .ok c)
    (h1 : m.lookup "commands" = none) (h2 : m.lookup "command" = none) : c.command = "" := no_command_key m c h h1 h2

/-- `name` fills `label` only when `label` is absent … -/
theorem C03_label_from_name (m : Entries) (c : CommandStep) (h : parseCommand m = .ok c) (v : Val)
    (hl : m.lookup "label" = none) (hn : m.lookup "name" = some v) : strOf v = .ok c.label := label_from_name m c h v hl hn

/-- … otherwise `label` is the label and `name` stays where it was (an unknown key). -/
theorem C03_label_primary (m : Entries) (c : CommandStep) (h : parseCommand m = .ok c) (v : Val)
    (hl : m.lookup "label" = some v) (hm : (keysOf m).Nodup) :
    strOf v = .ok c.label ∧ (c.rem.getD []).lookup "name" = m.lookup "name" := label_primary m c h v hl hm

/-- `id` / `identifier` fill `key` only when `key` is absent, `id` first. -/
theorem C03_key_from_aliases (m : Entries) (c : CommandStep) (h : parseCommand m = .ok c)
    (hk : m.lookup "key" = none) :
    (∀ v, m.lookup "id" = some v → strOf v = .ok c.key) ∧
    (∀ v, m.lookup "id" = none → m.lookup "identifier" = some v → strOf v = .ok c.key) ∧
    (m.lookup "id" = none → m.lookup "identifier" = none → c.key = "") := key_from_aliases m c h hk

/-- Every other key of a command step appears in the marshalled step exactly once (it is a Go map)
    with its input value, unchanged. -/
theorem C03_command_other_keys_preserved (m : Entries) (c : CommandStep) (h : parseCommand m = .ok c)
    (hm : (keysOf m).Nodup) (k : String) (hk : k ∉ commandKeys) :
    ∃ kvs, mCommand c = .umap kvs ∧ kvs.lookup k = m.lookup k ∧ (kvs.map (·.1)).Nodup :=
  command_other_keys_preserved m c h hm k hk

/-- Wait / input / trigger steps written as mappings keep every key and value. -/
theorem C03_contents_steps_preserved (m : Entries) (hm : (keysOf m).Nodup) (hne : m ≠ []) (k : String) :
    (∃ kvs, mStep (.wait "" (some (umapOf m))) = .ok (.umap kvs) ∧ kvs.lookup k = m.lookup k) ∧
    (∃ kvs, mStep (.input "" (some (umapOf m))) = .ok (.umap kvs) ∧ kvs.lookup k = m.lookup k) ∧
    (∃ kvs, mStep (.trigger (some (umapOf m))) = .ok (.umap kvs) ∧ kvs.lookup k = m.lookup k) :=
  contents_steps_preserved m hm hne k

/-- Scalar-step shorthands and unknown steps are emitted verbatim. -/
theorem C03_scalar_and_unknown_verbatim (s : String) (v : Val) (hs : s ≠ "") :
    mStep (.wait s none) = .ok (.str s) ∧ mStep (.input s none) = .ok (.str s) ∧ mStep (.unknown v) = .ok v := by
  -- `simp [mStep]` cannot be used: Lean fails to generate the equation lemmas of `mStep`; the
  -- per-constructor equations are proved by `rfl` in `Lemmas/Parse03.lean`.
  simp [mStep_wait, mStep_input, mStep_unknown, hs]

/-- Plugins (list of strings, list of single-entry objects, or one mapping) become an ordered list of
    single-entry objects keyed by canonical source, configs `ToMapRecursive`d with empty ⇒ null. -/
theorem C03_plugins_normal_form (v : Val) (l : List (Option Plugin)) (h : parsePlugins v = .ok (some l)) :
    mPlugins l = .seq (l.map fun
      | some p => Val.umap [(fullSource p.source,
          match p.config with | .umap [] => Val.null | .seq [] => .null | c => c)]
      | none => .null) ∧ ∀ p ∈ l, p ≠ none := plugins_normal_form v l h

theorem C03_plugins_order_from_mapping (kvs : List (String × Val)) (hne : kvs ≠ []) :
    parsePlugins (.omap kvs) = .ok (some (kvs.map fun (k, v) => some { source := k, config := toMapRec v })) :=
  plugins_from_mapping kvs hne

/-- Env scalars become strings, in document order (pipeline env) / as a map (step env). -/
theorem C03_env_scalars_become_strings (kvs : List (String × Val)) (l : List (String × String))
    (h : parseEnvOrdered (.omap kvs) = .ok (some l)) :
    List.Forall₂ (fun kv e => e.1 = kv.1 ∧ strOf kv.2 = .ok e.2) kvs l := env_scalars_strings kvs l h

/-- Matrix and cache shorthands take their canonical shapes. -/
theorem C03_matrix_list_shorthand (xs : List Val) (m : Matrix) (h : parseMatrix (.seq xs) = .ok (some m)) (hne : xs ≠ []) :
    ∃ l, strsOfSeq xs = .ok l ∧ mMatrix m = strsV l := matrix_list_shorthand xs m h hne

theorem C03_cache_shorthands (s : String) (xs : List Val) :
    (∃ c, parseCache (.str s) = .ok (some c) ∧ mCache c = .umap [("paths", strsV [s])]) ∧
    (∃ c, parseCache (.bool false) = .ok (some c) ∧ mCache c = .bool false) ∧
    (∀ l, strsOfSeq xs = .ok l → l ≠ [] → ∃ c, parseCache (.seq xs) = .ok (some c) ∧ mCache c = .umap [("paths", strsV l)]) :=
  cache_shorthands s xs

/-! Non-vacuity -/
example : ∃ c, parseCommand [("name", .str "n"), ("commands", .seq [.str "a", .int 2]), ("agents", .omap [("q", .str "x")]), ("id", .str "i")] = .ok c ∧
    c.label = "n" ∧ c.key = "i" ∧ c.command = "a\n2" := ⟨_, by rfl, by rfl, by rfl, by rfl⟩

end GoPipeline.Parse
