/-
  C04 with collisions — what interpolation does to a mapping when renamed keys collide, and the tie
  of the Interp model's ordered walk to the C05-verified walk.
  Statements only; proofs of the named lemmas are in `GoPipeline/Lemmas/InterpColl.lean`.

  Vocabulary (defined in `Lemmas/InterpColl.lean`, all plain structural recursions on lists):
    * `omapCb tf k v`       the callback of `interpolateOrderedMap`: `(tf k, interpVal tf v)` or the error;
    * `visited g kvs`       the entries the range cursor reaches: an entry is skipped iff an earlier
                            *visited* entry was renamed onto its key (`C04_ordered_walk_visited_iff`);
    * `lastPerKey g l`      drop an entry iff a later entry of `l` has the same new key;
    * `survivors g kvs`     `lastPerKey g (visited g kvs)`, a sublist of the INPUT entries.
-/
import GoPipeline.Lemmas.InterpColl
namespace GoPipeline.Interp
open GoPipeline GoPipeline.Pipe

variable {E : Type}

/-! ### B1 — the model's ordered walk is the abstract walk of C05 (no hypothesis, duplicates included) -/

theorem C04_interpOMap_is_rangeReplace (tf : String → Except E String) (kvs : List (String × Val)) :
    interpOMap tf [] [] kvs =
      OMap.aRangeReplace (fun k v =>
        match tf k with
        | .error e => .error e
        | .ok k' =>
          match interpVal tf v with
          | .error e => .error e
          | .ok v' => .ok (k', v')) [] kvs := interpOMap_is_rangeReplace tf kvs

/-- The generalised invariant: `done` is `done`, `todo` is the part ahead minus the `dead` keys. -/
theorem C04_interpOMap_is_rangeReplace_gen (tf : String → Except E String)
    (rest done : List (String × Val)) (dead : List String) :
    interpOMap tf done dead rest =
      OMap.aRangeReplace (omapCb tf) done (rest.filter (fun p => !dead.contains p.1)) :=
  interpOMap_is_rangeReplace_gen tf rest done dead

/-- Composed with `C05_rangeReplace`: on a well-formed concrete ordered map the slot/tombstone walk
    (`Range` re-reading slots, `Replace` from inside the callback) computes the model's walk. -/
theorem C04_concrete_walk_computes_interpOMap (tf : String → Except E String) {c : OMap.CMap Val}
    (h : OMap.Inv c) :
    (match OMap.rangeReplace (omapCb tf) c with
     | .ok c' => OMap.Inv c' ∧ interpOMap tf [] [] (OMap.abs c) = .ok (OMap.abs c')
     | .error e => interpOMap tf [] [] (OMap.abs c) = .error e) := rangeReplace_computes_interpOMap tf h

/-! ### B3 — the ordered walk with collisions (transformer that never fails, input keys distinct)

  `NoCollideKVs' g kvs` speaks about the VALUES only (mappings nested inside them are collision-free,
  so that "the value with every string transformed once" is `mapVal g v`); the keys of `kvs` itself
  may collide freely.  Statements about keys alone need no hypothesis on the values. -/

/-- (i) The walk succeeds, whatever collides (no hypothesis at all). -/
theorem C04_ordered_walk_total (g : String → String) (kvs : List (String × Val)) :
    ∃ r, interpOMap (pureTf E g) [] [] kvs = .ok r := interpOMap_pure_total g kvs [] []

/-- The result: the images of the surviving input entries, in input order. -/
theorem C04_ordered_walk_eq (g : String → String) (kvs : List (String × Val))
    (hnd : (kvs.map (·.1)).Nodup) (hv : NoCollideKVs' g kvs) :
    interpOMap (pureTf E g) [] [] kvs = .ok ((survivors g kvs).map (fun p => (g p.1, mapVal g p.2))) :=
  orderedWalk_eq g kvs hnd hv

/-- The same for arbitrary values: `w v` is whatever the walk makes of the value `v`. -/
theorem C04_ordered_walk_eq_gen (g : String → String) (w : Val → Val) (kvs : List (String × Val))
    (hv : ∀ p ∈ kvs, interpVal (pureTf E g) p.2 = .ok (w p.2)) (hnd : (kvs.map (·.1)).Nodup) :
    interpOMap (pureTf E g) [] [] kvs = .ok ((survivors g kvs).map (fun p => (g p.1, w p.2))) :=
  interpOMap_walk g w kvs hv hnd

/-- … and there always is such a `w`. -/
theorem C04_walkVal (g : String → String) (v : Val) : interpVal (pureTf E g) v = .ok (walkVal E g v) :=
  interpVal_walkVal g v

/-- (ii) The keys of the result are pairwise distinct (no hypothesis on the values). -/
theorem C04_ordered_walk_keys_nodup (g : String → String) (kvs r : List (String × Val))
    (hnd : (kvs.map (·.1)).Nodup) (h : interpOMap (pureTf E g) [] [] kvs = .ok r) :
    (r.map (·.1)).Nodup := orderedWalk_keys_nodup g kvs r hnd h

/-- The keys of the result are the images of the surviving keys (no hypothesis on the values). -/
theorem C04_ordered_walk_keys (g : String → String) (kvs r : List (String × Val))
    (hnd : (kvs.map (·.1)).Nodup) (h : interpOMap (pureTf E g) [] [] kvs = .ok r) :
    r.map (·.1) = (survivors g kvs).map (fun p => g p.1) := interpOMap_keys g kvs r hnd h

/-- (iii) Every result entry is the image `(g k, mapVal g v)` of an input entry `(k, v)`, and the
    result keeps the input order. -/
theorem C04_ordered_walk_entries_are_images (g : String → String) (kvs r : List (String × Val))
    (hnd : (kvs.map (·.1)).Nodup) (hv : NoCollideKVs' g kvs)
    (h : interpOMap (pureTf E g) [] [] kvs = .ok r) :
    r.Sublist (kvs.map (fun (k, v) => (g k, mapVal g v))) := orderedWalk_sublist g kvs r hnd hv h

/-- (iv) No collision (`keysFresh`: images distinct, a renamed key is not a key of the map): nothing
    is lost.  This is `interpOMap_eq`, the ordered-map case of `C04_val`. -/
theorem C04_ordered_walk_no_collision (g : String → String) (kvs : List (String × Val))
    (hf : keysFresh g (kvs.map (·.1))) (hv : NoCollideKVs' g kvs) :
    interpOMap (pureTf E g) [] [] kvs = .ok (kvs.map (fun (k, v) => (g k, mapVal g v))) :=
  orderedWalk_fresh g kvs hf hv

/-- (iv, sharp) Nothing is lost IFF the images are pairwise distinct and no entry is renamed onto the
    key of a LATER entry.  (`g` injective on the keys is not enough: `a ↦ b`, `b ↦ c` on `{a, b}` loses
    `b`; `keysFresh` is more than needed: the same `g` on `{b, a}` loses nothing.) -/
theorem C04_ordered_walk_nothing_lost_iff (g : String → String) (kvs : List (String × Val))
    (hnd : (kvs.map (·.1)).Nodup) (hv : NoCollideKVs' g kvs) :
    interpOMap (pureTf E g) [] [] kvs = .ok (kvs.map (fun (k, v) => (g k, mapVal g v))) ↔
      (kvs.map (fun p => g p.1)).Nodup ∧ kvs.Pairwise (fun p q => g p.1 = p.1 ∨ g p.1 ≠ q.1) :=
  orderedWalk_nothing_lost_iff g kvs hnd hv

/-- (v) Last rename wins: the value the result holds under a key `k'` comes from the LAST VISITED
    entry whose key is mapped to `k'` (and `k'` is absent iff there is none). -/
theorem C04_ordered_walk_last_rename_wins (g : String → String) (kvs r : List (String × Val))
    (hnd : (kvs.map (·.1)).Nodup) (hv : NoCollideKVs' g kvs)
    (h : interpOMap (pureTf E g) [] [] kvs = .ok r) (k' : String) :
    r.lookup k' = ((visited g kvs).reverse.find? (fun p => g p.1 == k')).map (fun p => mapVal g p.2) :=
  orderedWalk_lookup g kvs r hnd hv h k'

/-- (v) Which entries are visited: `(k, v)` is reached iff no earlier visited entry was renamed
    (`g p.1 ≠ p.1`) onto `k`. -/
theorem C04_ordered_walk_visited_iff (g : String → String) (pre post : List (String × Val)) (k : String)
    (v : Val) (hnd : ((pre ++ (k, v) :: post).map (·.1)).Nodup) :
    (k, v) ∈ visited g (pre ++ (k, v) :: post) ↔ ∀ p ∈ visited g pre, g p.1 = p.1 ∨ g p.1 ≠ k :=
  mem_visited_iff g pre post k v hnd

/-- (v) "Earlier visited" is meaningful: what is visited of a prefix does not depend on what follows. -/
theorem C04_ordered_walk_visited_prefix (g : String → String) (pre post : List (String × Val)) :
    visited g pre <+: visited g (pre ++ post) := visited_prefix g pre post

/-- (v) Survivors are input entries, in input order. -/
theorem C04_survivors_sublist (g : String → String) (kvs : List (String × Val)) :
    (survivors g kvs).Sublist kvs := survivors_sublist g kvs

/-! ### B4 — the Go-map walk with collisions (`kvs` is the sorted snapshot; sortedness is not used) -/

theorem C04_gomap_walk_total (g : String → String) (kvs : List (String × Val)) :
    ∃ r, interpUMap (pureTf E g) [] kvs = .ok r := interpUMap_pure_total g kvs []

/-- The result is the store built from the images by later-wins insertion. -/
theorem C04_gomap_walk_eq (g : String → String) (kvs : List (String × Val)) (hv : NoCollideKVs' g kvs) :
    interpUMap (pureTf E g) [] kvs = .ok (umapOf (kvs.map (fun (k, v) => (g k, mapVal g v)))) :=
  gomapWalk_eq g kvs hv

/-- The result is strictly sorted by key, so its keys are pairwise distinct (no hypothesis). -/
theorem C04_gomap_walk_sorted (g : String → String) (kvs r : List (String × Val))
    (h : interpUMap (pureTf E g) [] kvs = .ok r) :
    r.Pairwise (fun p q => p.1 < q.1) ∧ (r.map (·.1)).Nodup := gomapWalk_sorted g kvs r h

/-- Every result entry is the image of an input entry. -/
theorem C04_gomap_walk_entries_are_images (g : String → String) (kvs r : List (String × Val))
    (hv : NoCollideKVs' g kvs) (h : interpUMap (pureTf E g) [] kvs = .ok r) :
    ∀ q ∈ r, ∃ p ∈ kvs, q = (g p.1, mapVal g p.2) := gomapWalk_mem g kvs r hv h

/-- Later wins: the value under `k'` comes from the LAST input entry whose key is mapped to `k'`. -/
theorem C04_gomap_walk_last_wins (g : String → String) (kvs r : List (String × Val))
    (hv : NoCollideKVs' g kvs) (h : interpUMap (pureTf E g) [] kvs = .ok r) (k' : String) :
    r.lookup k' = (kvs.reverse.find? (fun p => g p.1 == k')).map (fun p => mapVal g p.2) :=
  gomapWalk_lookup g kvs r hv h k'

end GoPipeline.Interp

/-! ### B2 — the env-block walker of C10 (`Model/EnvBlock.lean`)

  Its callback reads and writes the caller environment, so it is not a fixed
  `String → V → Except E (String × V)`.  `aRangeReplaceS` is `OMap.aRangeReplace` with a state threaded
  through the callback. -/
namespace GoPipeline.EnvBlock

variable {E : Type}

theorem C10_blockLoop_is_rangeReplaceS (expand : Expand E) (norm : String → String) (prefer : Bool)
    (env : Env) (b : List (String × String)) :
    blockLoop expand norm prefer [] [] env b = aRangeReplaceS (entryStep expand norm prefer) env [] b :=
  blockLoop_is_rangeReplaceS expand norm prefer env b

/-- State-independent renaming: the entries component is `OMap.aRangeReplace`. -/
theorem C10_rangeReplaceS_entries {S V : Type} (f : S → String → V → Except E (String × V × S))
    (f₀ : String → V → Except E (String × V))
    (hf : ∀ s k v, (f s k v).map (fun r => (r.1, r.2.1)) = f₀ k v) (s : S) (done todo : OMap.AMap V) :
    (aRangeReplaceS f s done todo).map (·.1) = OMap.aRangeReplace f₀ done todo :=
  aRangeReplaceS_entries f f₀ hf todo.length todo (Nat.le_refl _) s done

/-- Block component, names pairwise distinct: an `OMap.aRangeReplace` (the walk `C05_rangeReplace`
    proves the concrete map refines) of the pure callback that expands each entry with the caller
    environment `envAt name` prevailing when the cursor reaches it. -/
theorem C10_block_is_rangeReplace (expand : Expand E) (norm : String → String) (prefer : Bool) (env : Env)
    (b : List (String × String)) (hnd : (b.map (·.1)).Nodup) :
    ∃ envAt : String → Env, (∀ p, b.head? = some p → envAt p.1 = env) ∧
      (blockLoop expand norm prefer [] [] env b).map (·.1) =
        OMap.aRangeReplace
          (fun k v => (entryStep expand norm prefer (envAt k) k v).map (fun r => (r.1, r.2.1))) [] b :=
  blockLoop_is_rangeReplace expand norm prefer env b hnd

end GoPipeline.EnvBlock

/-! ### Non-vacuity and the six collision shapes of the Go harness -/
namespace GoPipeline.Interp

/-- `${QKEY}`, `$QKEY` ↦ `queue`; `${SKEY}` ↦ `size`; everything else unchanged. -/
def collG : String → String := fun s =>
  if s = "${QKEY}" then "queue" else if s = "$QKEY" then "queue" else if s = "${SKEY}" then "size" else s

-- 1. `[queue, ${QKEY}]`: the later rename drops the earlier entry and keeps its own (only) position
example : interpOMap (pureTf Unit collG) [] [] [("queue", .str "v1"), ("${QKEY}", .str "v2")]
    = .ok [("queue", .str "v2")] := by rfl
-- 2. `[${QKEY}, queue]`: the rename drops the entry ahead, which is then never visited
example : interpOMap (pureTf Unit collG) [] [] [("${QKEY}", .str "v1"), ("queue", .str "v2")]
    = .ok [("queue", .str "v1")] := by rfl
-- 3. `[queue, size, ${QKEY}, ${SKEY}]`
example : interpOMap (pureTf Unit collG) [] []
      [("queue", .str "v1"), ("size", .str "v2"), ("${QKEY}", .str "v3"), ("${SKEY}", .str "v4")]
    = .ok [("queue", .str "v3"), ("size", .str "v4")] := by rfl
-- 4. `[$QKEY, ${QKEY}, queue, size]`: two renames onto the same name, then the dropped original
example : interpOMap (pureTf Unit collG) [] []
      [("$QKEY", .str "v1"), ("${QKEY}", .str "v2"), ("queue", .str "v3"), ("size", .str "v4")]
    = .ok [("queue", .str "v2"), ("size", .str "v4")] := by rfl
-- 5. `[a, ${QKEY}, b, queue, c]`: the renamed entry keeps its position
example : interpOMap (pureTf Unit collG) [] []
      [("a", .str "v1"), ("${QKEY}", .str "v2"), ("b", .str "v3"), ("queue", .str "v4"), ("c", .str "v5")]
    = .ok [("a", .str "v1"), ("queue", .str "v2"), ("b", .str "v3"), ("c", .str "v5")] := by rfl
-- 6. `[queue, x-${QKEY}, ${QKEY}, x-queue]` (`collG` is the identity on the two `x-…` names)
example : interpOMap (pureTf Unit collG) [] []
      [("queue", .str "v1"), ("x-${QKEY}", .str "v2"), ("${QKEY}", .str "v3"), ("x-queue", .str "v4")]
    = .ok [("x-${QKEY}", .str "v2"), ("queue", .str "v3"), ("x-queue", .str "v4")] := by rfl

-- the same through the abstract walk of C05 (B1) …
example : OMap.aRangeReplace (omapCb (pureTf Unit collG)) []
      [("$QKEY", .str "v1"), ("${QKEY}", .str "v2"), ("queue", .str "v3"), ("size", .str "v4")]
    = .ok [("queue", .str "v2"), ("size", .str "v4")] := by
  rw [← interpOMap_is_rangeReplace]; rfl

-- … and through the declarative description: who is visited, who survives
example : (visited collG [("$QKEY", Val.str "v1"), ("${QKEY}", .str "v2"), ("queue", .str "v3"), ("size", .str "v4")]).map (·.1)
    = ["$QKEY", "${QKEY}", "size"] := by decide
example : (survivors collG [("$QKEY", Val.str "v1"), ("${QKEY}", .str "v2"), ("queue", .str "v3"), ("size", .str "v4")]).map (·.1)
    = ["${QKEY}", "size"] := by decide
example : (survivors collG [("queue", Val.str "v1"), ("${QKEY}", .str "v2")]).map (·.1) = ["${QKEY}"] := by decide
example : (survivors collG [("${QKEY}", Val.str "v1"), ("queue", .str "v2")]).map (·.1) = ["${QKEY}"] := by decide
example : (survivors collG [("queue", Val.str "v1"), ("size", .str "v2"), ("${QKEY}", .str "v3"), ("${SKEY}", .str "v4")]).map (·.1)
    = ["${QKEY}", "${SKEY}"] := by decide
example : (survivors collG [("a", Val.str "v1"), ("${QKEY}", .str "v2"), ("b", .str "v3"), ("queue", .str "v4"), ("c", .str "v5")]).map (·.1)
    = ["a", "${QKEY}", "b", "c"] := by decide
example : (survivors collG [("queue", Val.str "v1"), ("x-${QKEY}", .str "v2"), ("${QKEY}", .str "v3"), ("x-queue", .str "v4")]).map (·.1)
    = ["x-${QKEY}", "${QKEY}", "x-queue"] := by decide

-- the hypotheses of the B3 theorems hold on a colliding input
example : NoCollideKVs' collG [("queue", .str "v1"), ("${QKEY}", .str "v2")] := by
  simp [NoCollideKVs', NoCollideVal']
example : ([("queue", Val.str "v1"), ("${QKEY}", .str "v2")].map (·.1)).Nodup := by decide

-- distinct input keys are needed for the `survivors` description (B1 needs nothing): with a repeated
-- key both entries are visited and kept by the model, `lastPerKey` keeps one
example : interpOMap (pureTf Unit collG) [] [] [("a", .str "v1"), ("a", .str "v2")]
    = .ok [("a", .str "v1"), ("a", .str "v2")] := by rfl
example : (survivors collG [("a", Val.str "v1"), ("a", .str "v2")]).map (·.2) = [.str "v2"] := by rfl

-- (iv): injective on the keys, yet an entry is lost (renamed onto a LATER key) …
example : interpOMap (pureTf Unit cexG) [] [] [("a", .str "x"), ("b", .str "y")] = .ok [("b", .str "x")] := by rfl
-- … while the same renames in the other order lose nothing, although `keysFresh` fails
example : interpOMap (pureTf Unit cexG) [] [] [("b", .str "y"), ("a", .str "x")]
    = .ok [("c", .str "y"), ("b", .str "x")] := by rfl
example : ¬ keysFresh cexG ([("b", Val.str "y"), ("a", .str "x")].map (·.1)) := by
  simp [keysFresh, cexG]

-- B4: two names of a Go map collide, the later one (in sorted order) wins
example : interpUMap (pureTf Unit collG) [] [("$QKEY", .str "v1"), ("${QKEY}", .str "v2"), ("queue", .str "v3")]
    = .ok [("queue", .str "v3")] := by rfl
example : interpUMap (pureTf Unit collG) [] [("${QKEY}", .str "v1"), ("a", .str "v2")]
    = .ok [("a", .str "v2"), ("queue", .str "v1")] := by rfl

end GoPipeline.Interp
