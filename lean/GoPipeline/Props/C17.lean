/-
  C17 — plugin source canonicalisation follows the documented rules and is idempotent.
  Statements only; proofs of the named lemmas are in `GoPipeline/Lemmas/PluginSource.lean`.
-/
import GoPipeline.Lemmas.PluginSource
namespace GoPipeline.PluginSrc

/-- The property's domain: characters of the documented forms, and a ref (text after the first
    `#`) whose `/`-separated components are non-empty and neither `.` nor `..`. -/
def Dom (s : Str) : Prop :=
  (∀ c ∈ s, isDomChar c = true) ∧
  ((cutHash s).2 = [] ∨ ∀ comp ∈ splitOn '/' (cutHash s).2, comp ≠ [] ∧ comp ≠ ['.'] ∧ comp ≠ ['.', '.'])

/-- `name[#ref]` ↦ `github.com/buildkite-plugins/name-buildkite-plugin[#ref]`. -/
theorem C17_bare_name (n : Str) (hn : NameOK n) (ref : Option Str) (hr : RefOptOK ref) :
    fullSource (withRef n ref) =
      some (withRef (githubCom ++ '/' :: bkPlugins ++ '/' :: n ++ suffix) ref) :=
  bare_name n hn ref hr

/-- `org/name[#ref]` ↦ `github.com/org/name-buildkite-plugin[#ref]`. -/
theorem C17_org_name (o n : Str) (ho : NameOK o) (hn : NameOK n) (ref : Option Str) (hr : RefOptOK ref) :
    fullSource (withRef (o ++ '/' :: n) ref) =
      some (withRef (githubCom ++ '/' :: o ++ '/' :: n ++ suffix) ref) :=
  org_name o n ho hn ref hr

/-- Paths (leading `/`, `.` or `\`) are left as written. -/
theorem C17_paths_unchanged (c : Char) (r : Str) (hc : c = '/' ∨ c = '.' ∨ c = '\\') :
    fullSource (c :: r) = some (c :: r) := paths_unchanged c r hc

/-- Sources with a scheme (`https://…`, `ssh://…`, `file:///…`, Windows drive `C:\…`) are left as written:
    a letter, then letters/digits/`+`/`-`/`.`, then `:`. -/
theorem C17_scheme_unchanged (a : Char) (sch rest : Str) (ha : isAlpha a = true)
    (hs : ∀ c ∈ sch, isAlpha c = true ∨ isSchemeTail c = true)
    (hdom : ∀ c ∈ a :: sch ++ ':' :: rest, isDomChar c = true) :
    fullSource (a :: sch ++ ':' :: rest) = some (a :: sch ++ ':' :: rest) :=
  scheme_unchanged a sch rest ha hs hdom

/-- scp-style sources (`user@host:path`) are left as written. -/
theorem C17_scp_unchanged (user host path : Str) (hu : NameOK user)
    (hh : ∀ c ∈ host, isNameChar c = true) (hdom : ∀ c ∈ path, isDomChar c = true) :
    fullSource (user ++ '@' :: host ++ ':' :: path) = some (user ++ '@' :: host ++ ':' :: path) :=
  scp_unchanged user host path hu hh hdom

/-- Sources with three or more path segments (e.g. with a host prefix) are left as written. -/
theorem C17_three_segments_unchanged (a b rest : Str) (ha : NameOK a) (hb : ∀ c ∈ b, isNameChar c = true)
    (hrest : ∀ c ∈ rest, isDomChar c = true) (hnh : '#' ∉ a ++ '/' :: b) :
    fullSource (a ++ '/' :: b ++ '/' :: rest) = some (a ++ '/' :: b ++ '/' :: rest) :=
  three_segments_unchanged a b rest ha hb hrest hnh

/-- Inside the domain the modelled part of `url.Parse` is never left. -/
theorem C17_total_on_dom (s : Str) (hd : Dom s) : ∃ r, fullSource s = some r := total_on_dom s hd

/-- Canonicalising an already canonical source returns it unchanged. -/
theorem C17_idempotent (s r : Str) (hd : Dom s) (h : fullSource s = some r) : fullSource r = some r :=
  idempotent s r hd h

/-- The canonical form stays inside the domain, so the statement can be iterated. -/
theorem C17_result_in_dom (s r : Str) (hd : Dom s) (h : fullSource s = some r) : Dom r :=
  result_in_dom s r hd h

/-! Non-vacuity -/
example : fullSource "docker#v1.0".toList = some "github.com/buildkite-plugins/docker-buildkite-plugin#v1.0".toList := by decide
example : fullSource "org/name#feature/x".toList = some "github.com/org/name-buildkite-plugin#feature/x".toList := by decide
example : fullSource "git@github.com:org/repo.git#v1".toList = some "git@github.com:org/repo.git#v1".toList := by decide
example : NameOK "docker".toList := by
  refine ⟨by decide, ?_, by decide⟩
  decide

end GoPipeline.PluginSrc
