/-
  C10 — pipeline env block: definition order, runtime precedence, export to the caller.
  Statements only; proofs of the named lemmas are in `GoPipeline/Lemmas/EnvBlock.lean`.
-/
import GoPipeline.Lemmas.EnvBlock
namespace GoPipeline.EnvBlock

variable {E : Type}

/-- Top to bottom: the in-place walk (`Range` + `Replace`) produces exactly the entry-by-entry
    specification — same length and positions, entry i = (expand envᵢ kᵢ, expand envᵢ vᵢ) with envᵢ the
    caller env after entries < i — and hands the same environment back, for collision-free blocks. -/
theorem C10_block_is_spec (expand : Expand E) (norm : String → String) (prefer : Bool) (env envF : Env)
    (b out : List (String × String))
    (h : specFold expand norm prefer env b = .ok (out, envF))
    (hc : NoCollide (b.map (·.1)) (out.map (·.1))) :
    blockLoop expand norm prefer [] [] env b = .ok (out, envF) := block_is_spec expand norm prefer env envF b out h hc

theorem C10_positions_kept (expand : Expand E) (norm : String → String) (prefer : Bool) (env envF : Env)
    (b out : List (String × String)) (h : specFold expand norm prefer env b = .ok (out, envF)) :
    out.length = b.length := specFold_length expand norm prefer env envF b out h

/-- An expansion error aborts the walk with that entry's error (no collision hypothesis needed):
    the error is the error of expanding some entry's name or value under the environment that entry sees. -/
theorem C10_error_is_entry_error (expand : Expand E) (norm : String → String) (prefer : Bool) (env : Env)
    (b : List (String × String)) (e : E)
    (h : blockLoop expand norm prefer [] [] env b = .error e) :
    ∃ kv ∈ b, ∃ env' : Env, (expand (env'.get norm) kv.1 = .error e ∨ expand (env'.get norm) kv.2 = .error e) :=
  block_error expand norm prefer env b e h

/-- Runtime precedence: with the flag set, every name present in the caller's environment initially
    (under the environment's own name equality) keeps the caller's value in every environment the
    entries are expanded with, and in the environment handed back. -/
theorem C10_runtime_precedence_during (expand : Expand E) (norm : String → String) (env : Env)
    (b : List (String × String)) (name : String) (hp : (env.get norm name).isSome) :
    ∀ env' ∈ specEnvs expand norm true env b, env'.get norm name = env.get norm name :=
  precedence_during expand norm env b name hp

theorem C10_runtime_precedence_after (expand : Expand E) (norm : String → String) (env envF : Env)
    (b out : List (String × String)) (h : specFold expand norm true env b = .ok (out, envF))
    (name : String) (hp : (env.get norm name).isSome) :
    envF.get norm name = env.get norm name := precedence_after expand norm env envF b out h name hp

/-- The same two facts for the in-place walk itself, collisions or not. -/
theorem C10_runtime_precedence_walk (expand : Expand E) (norm : String → String) (env envF : Env)
    (b out : List (String × String)) (h : blockLoop expand norm true [] [] env b = .ok (out, envF))
    (name : String) (hp : (env.get norm name).isSome) :
    envF.get norm name = env.get norm name := precedence_walk expand norm env envF b out h name hp

/-- Export to the caller, no runtime precedence: afterwards the caller's environment maps each
    expanded name to its expanded value (distinct names under the environment's name equality). -/
theorem C10_writeback (expand : Expand E) (norm : String → String) (env envF : Env)
    (b out : List (String × String)) (h : specFold expand norm false env b = .ok (out, envF))
    (hd : (out.map (fun p => norm p.1)).Nodup) :
    ∀ p ∈ out, envF.get norm p.1 = some p.2 := writeback expand norm env envF b out h hd

/-- Export with runtime precedence: a name the caller already had keeps the caller's value, any other
    name gets the pipeline's value — while the block itself (`out`) records the pipeline's value either way. -/
theorem C10_writeback_prefer (expand : Expand E) (norm : String → String) (env envF : Env)
    (b out : List (String × String)) (h : specFold expand norm true env b = .ok (out, envF))
    (hd : (out.map (fun p => norm p.1)).Nodup) :
    ∀ p ∈ out, envF.get norm p.1 = (if (env.get norm p.1).isSome then env.get norm p.1 else some p.2) :=
  writeback_prefer expand norm env envF b out h hd

/-- Names that are not defined by the block and were not in the caller's environment stay undefined;
    names the block does not touch keep their value. -/
theorem C10_untouched_names (expand : Expand E) (norm : String → String) (prefer : Bool) (env envF : Env)
    (b out : List (String × String)) (h : specFold expand norm prefer env b = .ok (out, envF))
    (name : String) (hn : ∀ p ∈ out, norm p.1 ≠ norm name) :
    envF.get norm name = env.get norm name := untouched_names expand norm prefer env envF b out h name hn

/-- Lookups use the environment's own notion of name equality. -/
theorem C10_lookup_by_norm (norm : String → String) (env : Env) (a b : String) (h : norm a = norm b) :
    env.get norm a = env.get norm b := by simp [Env.get, h]

/-! Non-vacuity: a chain with a forward reference, under a toy expander (`$X` alone is a reference). -/
def toyExpand : Expand Unit := fun lookup s =>
  if s.startsWith "$" then .ok ((lookup (s.drop 1).toString).getD "") else .ok s

example : specFold toyExpand id false ⟨[("HOME", "/root")]⟩ [("A", "$HOME"), ("B", "$A"), ("C", "$D"), ("D", "x")]
    = .ok ([("A", "/root"), ("B", "/root"), ("C", ""), ("D", "x")],
           ⟨[("HOME", "/root"), ("A", "/root"), ("B", "/root"), ("C", ""), ("D", "x")]⟩) := by
  -- plain `decide` gets stuck on `String.startsWith` (elaborator whnf); the kernel evaluates it
  decide +kernel

end GoPipeline.EnvBlock
