/-
  C15 — step kinds are chosen by the documented rule table.
  Theorems are about the tables regenerated from steps.go / step_scalar.go (`Gen/StepKinds`).
-/
import GoPipeline.Model.StepKind
import GoPipeline.Gen.StepKinds
set_option linter.unusedSimpArgs false
namespace GoPipeline.StepKind
open GoPipeline.Gen

/-- The translator recognised the shape of all three functions. -/
theorem C15_tables_recognised : stepKindsRecognised = true := by decide

/-- The sentinels carried by the two fallbacks are the documented ones. -/
theorem C15_sentinels :
    typeSentinel = "ErrUnknownStepType" ∧ inferSentinel = "ErrStepTypeInference" ∧
    scalarSentinel = "ErrUnknownStepType" := by decide

/-- `type` present: the kind is the documented function of the type string, for every string. -/
theorem C15_type_rule (s : String) (has : String → Bool) :
    select typeTable inferTable has (.str s) = specType s := by
  by_cases h1 : s = "command"; · subst h1; rfl
  by_cases h2 : s = "script"; · subst h2; rfl
  by_cases h3 : s = "wait"; · subst h3; rfl
  by_cases h4 : s = "waiter"; · subst h4; rfl
  by_cases h5 : s = "block"; · subst h5; rfl
  by_cases h6 : s = "input"; · subst h6; rfl
  by_cases h7 : s = "manual"; · subst h7; rfl
  by_cases h8 : s = "trigger"; · subst h8; rfl
  by_cases h9 : s = "group"; · subst h9; rfl
  simp [select, byString, typeTable, specType, List.find?, h1, h2, h3, h4, h5, h6, h7, h8, h9]

/-- `type` absent: first matching key family in the documented order, for every key set. -/
theorem C15_inference_rule (has : String → Bool) :
    select typeTable inferTable has .absent = specInfer has := by
  simp only [select, byKeys, inferTable, specInfer, List.find?, List.any_cons, List.any_nil, Bool.or_false,
    Bool.or_assoc]
  cases h1 : (has "command" || (has "commands" || has "plugins")) <;> simp only [h1] <;> try rfl
  cases h2 : (has "wait" || has "waiter") <;> simp only [h2] <;> try rfl
  cases h3 : (has "block" || (has "input" || has "manual")) <;> simp only [h3] <;> try rfl
  cases h4 : has "trigger" <;> simp only [h4] <;> try rfl
  cases h5 : has "group" <;> simp only [h5] <;> rfl

/-- The whole selection equals the documented rule for all key sets and all `type` values. -/
theorem C15_select_eq_spec (has : String → Bool) (t : TypeVal) :
    select typeTable inferTable has t = specSelect has t := by
  cases t with
  | absent => exact C15_inference_rule has
  | str s => exact C15_type_rule s has
  | nonString => rfl

/-- Scalar steps. -/
theorem C15_scalar_rule (s : String) : selectScalar scalarTable s = specScalar s := by
  by_cases h3 : s = "wait"; · subst h3; rfl
  by_cases h4 : s = "waiter"; · subst h4; rfl
  by_cases h5 : s = "block"; · subst h5; rfl
  by_cases h6 : s = "input"; · subst h6; rfl
  by_cases h7 : s = "manual"; · subst h7; rfl
  simp [selectScalar, byString, scalarTable, specScalar, List.find?, h3, h4, h5, h6, h7]

/-- Anything else becomes unknown with the right warning — never a different known kind:
    an unknown `type` string never yields a known kind, whatever keys are present. -/
theorem C15_unknown_type_never_known (s : String) (has : String → Bool)
    (h : s ∉ ["command", "script", "wait", "waiter", "block", "input", "manual", "trigger", "group"]) :
    select typeTable inferTable has (.str s) = .unknownType := by
  rw [C15_type_rule]
  simp only [List.mem_cons, List.not_mem_nil, or_false, not_or] at h
  simp [specType, h]

/-- Inference fails exactly when none of the ten kind keys is present. -/
theorem C15_infer_fail_iff (has : String → Bool) :
    select typeTable inferTable has .absent = .inferFail ↔ ∀ k ∈ kindKeys, has k = false := by
  rw [C15_inference_rule]
  simp only [specInfer, kindKeys, List.mem_cons, List.not_mem_nil, or_false, forall_eq_or_imp, forall_eq]
  cases has "command" <;> cases has "commands" <;> cases has "plugins" <;> cases has "wait" <;>
    cases has "waiter" <;> cases has "block" <;> cases has "input" <;> cases has "manual" <;>
    cases has "trigger" <;> cases has "group" <;> simp

/-- Additional keys never change the decision: selection reads `has` only at the ten kind keys
    (general, for arbitrary tables: only at keys listed in the inference table). -/
theorem byKeys_congr (tbl : List (List String × Kind)) (has has' : String → Bool)
    (h : ∀ row ∈ tbl, ∀ k ∈ row.1, has k = has' k) : byKeys tbl has = byKeys tbl has' := by
  unfold byKeys
  congr 1
  induction tbl with
  | nil => rfl
  | cons row rest ih =>
    have hrow : row.1.any has = row.1.any has' := by
      have := h row (List.mem_cons_self ..)
      clear h ih
      generalize row.1 = l at this
      induction l with
      | nil => rfl
      | cons a as ih2 =>
        simp only [List.any_cons]
        rw [this a (List.mem_cons_self ..), ih2 (fun k hk => this k (List.mem_cons_of_mem _ hk))]
    simp only [List.find?, hrow]
    split
    · rfl
    · exact ih (fun r hr => h r (List.mem_cons_of_mem _ hr))

theorem C15_extra_keys_irrelevant (has has' : String → Bool) (t : TypeVal)
    (h : ∀ k ∈ kindKeys, has k = has' k) :
    select typeTable inferTable has t = select typeTable inferTable has' t := by
  cases t with
  | nonString => rfl
  | str s => rfl
  | absent =>
    simp only [select]
    rw [byKeys_congr inferTable has has']
    intro row hrow k hk
    apply h
    simp only [inferTable, List.mem_cons, List.not_mem_nil, or_false] at hrow
    rcases hrow with rfl | rfl | rfl | rfl | rfl <;>
      simp only [List.mem_cons, List.not_mem_nil, or_false] at hk <;>
      rcases hk with rfl | rfl | rfl <;> simp [kindKeys]

/-- Adding one key outside the ten kind keys (and outside `type`, which is the `TypeVal` argument)
    leaves the decision unchanged. -/
theorem C15_add_extra_key (has : String → Bool) (t : TypeVal) (extra : String) (hx : extra ∉ kindKeys) :
    select typeTable inferTable (fun k => has k || k == extra) t = select typeTable inferTable has t := by
  apply C15_extra_keys_irrelevant
  intro k hk
  have : (k == extra) = false := by
    simp only [beq_eq_false_iff_ne, ne_eq]
    intro h; subst h; exact hx hk
  simp [this]

/-! Non-vacuity -/
example : select typeTable inferTable (fun k => k == "wait" || k == "command") .absent = .known .command := by decide
example : select typeTable inferTable (fun _ => true) (.str "waiter") = .known .wait := by decide
example : "deploy" ∉ ["command", "script", "wait", "waiter", "block", "input", "manual", "trigger", "group"] := by decide

end GoPipeline.StepKind
