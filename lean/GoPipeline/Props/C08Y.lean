/-
  C08, YAML leg — order-significant mappings keep document order through decode and `yaml.Marshal`.
  Statements only; proofs of the named lemmas are in `GoPipeline/Lemmas/OrderY.lean` (which builds on
  `Lemmas/Order.lean` and `Model/MarshalY.lean`).

  Sections (1), (2) (decoding) and (6) (re-reading) of `Props/C08.lean` do not depend on the output format.
  This file gives the counterparts of sections (3)–(5) for the value tree handed to `yaml.Marshal`
  (`MarshalY.yPipeline`, `yCommand`, `yStep`), and the statement that both legs hold the same values.

  Where the YAML leg differs from the JSON leg, as far as C08 is concerned:
    * an empty env block is omitted (`ordered.Map.IsZero`), the JSON leg writes `"env":{}` — so (3) carries
      the hypothesis that the block is not empty, and `C08_empty_env_block_omitted_yaml` states the rest;
    * `yaml.Marshal` can fail (an inline key equal to a declared key), so the value tree appears as a
      hypothesis `… = .ok j`; that hypothesis is never vacuous for parsed input
      (`C08_parsed_command_encodes_yaml` here, `EndToEnd.yaml_marshal_total` for whole pipelines).
-/
import GoPipeline.Lemmas.OrderY
namespace GoPipeline.Order
open GoPipeline GoPipeline.Pipe GoPipeline.Parse GoPipeline.Marshal GoPipeline.Unm GoPipeline.Roundtrip
open GoPipeline.MarshalY

/-! ### (3) the pipeline env block -/

/-- A non-empty env block is handed to `yaml.Marshal` as an ordered mapping with the typed block's keys in
    the typed block's order (the same value the JSON leg writes, `C08_env_block_marshal_order`). No condition
    on the unknown top-level keys is needed: the declared field is stored after the inline map. -/
theorem C08_env_block_marshal_order_yaml (p : Pipeline) (l : List (String × String)) (j : Val)
    (he : p.env = some l) (hne : l ≠ []) (h : yPipeline p = .ok j) :
    ∃ kvs, j = .umap kvs ∧ kvs.lookup "env" = some (.omap (l.map fun (k, v) => (k, .str v))) :=
  env_marshal_order_yaml p l j he hne h

/-- An empty env block is not written, and nothing else stands under `env`: an unknown top-level key `env`
    would have made the encoding fail, so `yPipeline p = .ok j` already excludes it. -/
theorem C08_empty_env_block_omitted_yaml (p : Pipeline) (j : Val) (he : p.env = some [])
    (h : yPipeline p = .ok j) : ∃ kvs, j = .umap kvs ∧ kvs.lookup "env" = none :=
  empty_env_omitted_yaml p j he h

/-- End to end on the model: a document's (non-empty) env block comes out with its keys in document order. -/
theorem C08_env_block_order_yaml (m : Entries) (kvs : List (String × Val)) (p : Pipeline) (ws : List Warn) (j : Val)
    (henv : m.lookup "env" = some (.omap kvs)) (hne : kvs ≠ [])
    (hp : parsePipeline (.omap m) = .ok (p, ws)) (hj : yPipeline p = .ok j) :
    ∃ out kvs', j = .umap out ∧ out.lookup "env" = some (.omap kvs') ∧ kvs'.map (·.1) = kvs.map (·.1) :=
  env_block_order_yaml m kvs p ws j henv hne hp hj

/-! ### (4) plugins -/

/-- The plugin list is written with the very value the JSON leg writes (`mPlugins`: a sequence in the order
    of the typed list, which `C08_plugins_mapping_order` ties to the mapping's key order). No condition on
    `c.rem` is needed. -/
theorem C08_plugins_order_yaml (c : CommandStep) (l : List (Option Plugin)) (j : Val)
    (hp : c.plugins = some l) (hne : l ≠ []) (h : yCommand c = .ok j) :
    ∃ kvs, j = .umap kvs ∧ kvs.lookup "plugins" = some (mPlugins l) :=
  plugins_order_yaml c l j hp hne h

/-! ### (5) mappings nested inside unknown fields and unknown steps are carried as they are -/

/-- An unknown key of a command step is handed to `yaml.Marshal` with the identical value tree — the same
    keys in the same order at every depth. -/
theorem C08_unknown_field_verbatim_yaml (m : Entries) (c : CommandStep) (j : Val) (h : parseCommand m = .ok c)
    (hj : yCommand c = .ok j) (hm : (keysOf m).Nodup) (k : String) (hk : k ∉ commandKeys) :
    ∃ kvs, j = .umap kvs ∧ kvs.lookup k = m.lookup k :=
  let ⟨kvs, h1, h2, _⟩ := command_other_keys_preserved_yaml m c j h hj hm k hk
  ⟨kvs, h1, h2⟩

/-- An unknown step is handed to `yaml.Marshal` as the identical value tree. -/
theorem C08_unknown_step_verbatim_yaml (v : Val) : yStep (.unknown v) = .ok v := rfl

/-! ### The two legs -/

/-- Every command step in the image of the parser has a YAML value tree (the hypothesis `yCommand c = .ok j`
    above is never vacuous on parsed input). -/
theorem C08_parsed_command_encodes_yaml (m : Entries) (c : CommandStep) (h : parseCommand m = .ok c) :
    ∃ j, yCommand c = .ok j := yCommand_total_of_parse m c h

/-- For a parsed command step both value trees exist and hold the identical value — the document's — under
    every key that is not a command key: the nested order is the same on both legs. -/
theorem C08_legs_same_order (m : Entries) (c : CommandStep) (h : parseCommand m = .ok c) (hm : (keysOf m).Nodup)
    (k : String) (hk : k ∉ commandKeys) :
    ∃ kj ky, mCommand c = .umap kj ∧ yCommand c = .ok (.umap ky) ∧
      kj.lookup k = ky.lookup k ∧ ky.lookup k = m.lookup k :=
  legs_same_order m c h hm k hk

/-! Non-vacuity -/

/-- A pipeline with an order-significant env block and an unknown top-level key. -/
example : yPipeline { steps := none, env := some [("B", "1"), ("A", "x")], rem := some [("zeta", .int 1)] } =
    .ok (.umap [("env", .omap [("B", .str "1"), ("A", .str "x")]), ("steps", .seq []), ("zeta", .int 1)]) := rfl

/-- The empty env block: omitted on the YAML leg, kept on the JSON leg. -/
example : yPipeline { steps := none, env := some [], rem := none } = .ok (.umap [("steps", .seq [])]) ∧
    mPipeline { steps := none, env := some [], rem := none } = .ok (.umap [("env", .omap []), ("steps", .null)]) :=
  ⟨rfl, rfl⟩

/-- A parsed command step with a nested ordered mapping under an unknown key: both legs carry it verbatim. -/
example : ∃ c, parseCommand [("command", .str "x"), ("zz", .omap [("b", .int 1), ("a", .null)])] = .ok c ∧
    yCommand c = .ok (.umap [("command", .str "x"), ("zz", .omap [("b", .int 1), ("a", .null)])]) ∧
    mCommand c = .umap [("command", .str "x"), ("zz", .omap [("b", .int 1), ("a", .null)])] :=
  ⟨_, rfl, rfl, rfl⟩

/-- Plugins written as one mapping: the YAML leg writes the list in the mapping's key order. -/
example : ∃ c, parseCommand [("command", .str "x"), ("plugins", .omap [("zeta#v1", .null), ("alpha#v2", .null)])] = .ok c ∧
    ∃ kvs, yCommand c = .ok (.umap kvs) ∧
      kvs.lookup "plugins" = some (.seq [.umap [(fullSource "zeta#v1", .null)], .umap [(fullSource "alpha#v2", .null)]]) :=
  ⟨_, rfl, _, rfl, rfl⟩

/-- Outside the image of the parser the encoding can fail — an inline key named like a declared field — which
    is why `C08_plugins_order_yaml` needs no side condition on `c.rem`. -/
example : yCommand { key := "", label := "", command := "x", plugins := none, env := none, signature := none,
                     matrix := none, cache := none, rem := some [("plugins", .null)] } =
    .error (.inlineConflict "plugins") := rfl

end GoPipeline.Order
