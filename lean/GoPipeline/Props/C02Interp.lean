/-
  C02 on interpolated step TREES — env interpolation between parsing and signing, for every step kind and for
  the pipeline's step list (JSON leg, model level).  Statements only; the proofs of the named lemmas are in
  `GoPipeline/Lemmas/StepOKInterp.lean`.

  `Props/C02OK.lean` replaces "in the image of the parser" by the structural predicate `StepOK` and bridges
  env interpolation for COMMAND steps.  Here the bridge covers wait / input / trigger / group steps and lists:

    StepOK ∧ MapsNodup ∧ TreeFixed tf ⇒ the interpolated tree is StepOK, same depth
                                                     (C02_interpolated_tree_stays_ok, …_list_stays_ok)
    parse, interpolate (TreeFixed), SignSteps, marshal, re-read, re-parse ⇒ every command step verifies
                                                     (C02_interpolate_then_sign_steps, …_pipeline)

  `TreeFixed tf s` (structural recursion on the step tree, `Lemmas/StepOKInterp.lean`):
    command c        : `KeysFixed tf c` ∧ `TypeFixed tf c.rem`
    wait _ c / input _ c / trigger c : `RemFixed tf c` ∧ `TypeFixed tf c`
    group _ _ ss r   : `RemFixed tf r` ∧ `TypeFixed tf r` ∧ (`ss = some l` → `TreesFixed tf l`)
    unknown _        : nothing
  where `RemFixed tf c` says that `tf` fixes every TOP-LEVEL key of the Go map `c` and `TypeFixed tf c` that it
  fixes the string held by a `type` entry of `c`, if any.  Nothing is asked of the wait / input scalar (the model,
  like `Step.interpolate`, does not transform it), of the group's key and label (they are transformed, but
  `StepOK` does not depend on them), of values other than the `type` string, of nested keys.  The condition is
  what finding F21 and "kind redirection" violate: a contents key rewritten onto `command` (example (ii)).

  EXTRA HYPOTHESIS `MapsNodup s` (not in the informal statement; without it the statement is false in the
  model, `C02_maps_nodup_needed`): the Go-map contents of wait / input / trigger steps have pairwise distinct
  keys.  It is an invariant of Go maps that the model's list representation does not enforce by typing; the
  parser establishes it (`C02_parser_image_maps_nodup`), interpolation re-establishes it unconditionally
  (`C02_interpolation_result_maps_nodup`), so the composed theorems do not mention it.
-/
import GoPipeline.Lemmas.StepOKInterp
import GoPipeline.Props.C02OK
namespace GoPipeline.SignedRT
open GoPipeline GoPipeline.Pipe GoPipeline.Parse GoPipeline.Marshal GoPipeline.Signing GoPipeline.Roundtrip

variable (S : SigScheme)

/-! ### Interpolation keeps a step tree well-formed -/

/-- Env interpolation keeps a well-formed step tree well-formed, with the same nesting depth, when the
    transformer is `TreeFixed` for it.  `hnd` is the Go-map invariant (distinct keys), see the header. -/
theorem C02_interpolated_tree_stays_ok {E : Type} (tf : String → Except E String) (s s₁ : Step)
    (hok : StepOK s) (hnd : MapsNodup s) (h : Interp.interpStep .env tf s = .ok s₁) (hfix : TreeFixed tf s) :
    StepOK s₁ ∧ stepDepth s₁ = stepDepth s :=
  interpStep_stepOK tf s s₁ hok hnd h hfix

theorem C02_interpolated_list_stays_ok {E : Type} (tf : String → Except E String) (l l₁ : List Step)
    (hok : StepsOK l) (hnd : MapsNodupList l) (h : Interp.interpSteps .env tf l = .ok l₁)
    (hfix : TreesFixed tf l) : StepsOK l₁ ∧ stepsDepth l₁ = stepsDepth l :=
  interpSteps_stepsOK tf l l₁ hok hnd h hfix

/-- The parser only produces Go-map contents with distinct keys (no hypothesis on the document). -/
theorem C02_parser_image_maps_nodup (f : Nat) (x : Val) (s : Step) (w : List Warn)
    (h : parseStep f x = .ok (s, w)) : MapsNodup s :=
  parseStep_mapsNodup f x s w h

theorem C02_parser_image_maps_nodup_list (f : Nat) (xs : List Val) (ss : List Step) (ws : List Warn)
    (h : parseSteps f xs = .ok (ss, ws)) : MapsNodupList ss :=
  parseSteps_mapsNodup f xs ss ws h

/-- The result of every interpolation (env or matrix, any transformer, any input tree) has distinct keys, so
    `C02_interpolated_tree_stays_ok` can be iterated. -/
theorem C02_interpolation_result_maps_nodup {E : Type} (kind : Interp.TfKind) (tf : String → Except E String)
    (s s₁ : Step) (h : Interp.interpStep kind tf s = .ok s₁) : MapsNodup s₁ :=
  interpStep_mapsNodup kind tf s s₁ h

/-- For a PARSED tree the Go-map invariant is discharged: parse, then interpolate with a `TreeFixed`
    transformer; the result is well-formed and the parser fuel still covers it. -/
theorem C02_parsed_interpolated_tree_stays_ok {E : Type} (f : Nat) (x : Val) (s s₁ : Step) (w : List Warn)
    (hx : NoUMap x) (hd : KeysNodup x) (h : parseStep f x = .ok (s, w)) (tf : String → Except E String)
    (hi : Interp.interpStep .env tf s = .ok s₁) (hfix : TreeFixed tf s) : StepOK s₁ ∧ stepDepth s₁ ≤ f :=
  parse_then_interp_step f x s s₁ w hx hd h tf hi hfix

/-! ### Parse, interpolate, SignSteps, marshal, re-read, re-parse, verify -/

/-- The pipeline's steps: parsed from a decoded document, interpolated with a transformer that is `TreesFixed`
    for them, signed by `SignSteps`, marshalled, re-read and re-parsed with the same fuel: every command step of
    the result (at any group depth) carries a verifying signature. -/
theorem C02_interpolate_then_sign_steps {E : Type} (render : S.Sig → String) (parseSig : String → Option S.Sig)
    (hrender : ∀ s, parseSig (render s) = some s)
    (f : Nat) (xs : List Val) (l l₁ : List Step) (ws : List Warn) (hx : NoUMapList xs) (hd : KeysNodupList xs)
    (h : parseSteps f xs = .ok (l, ws))
    (tf : String → Except E String) (hi : Interp.interpSteps .env tf l = .ok l₁) (hfix : TreesFixed tf l)
    (hs : StableSteps l₁)
    (k : S.Key) (alg repo : String) (penv env₁ : List (String × String)) (henv : EnvExtends penv env₁)
    (signed : List Step) (hsign : signSteps S render k alg repo penv l₁ = .ok signed) :
    ∃ js ss' ws', mSteps signed = .ok js ∧ parseSteps f (rereadJList js) = .ok (ss', ws') ∧
      VerifiesAllList S parseSig (S.pubOf k) repo env₁ ss' :=
  interp_then_sign_list S render parseSig hrender f xs l l₁ ws hx hd h tf hi hfix hs k alg repo penv env₁ henv
    signed hsign

/-- The same through `(*Pipeline).Interpolate` (the part after the env block) on the typed pipeline. -/
theorem C02_interpolate_then_sign_pipeline {E : Type} (render : S.Sig → String)
    (parseSig : String → Option S.Sig) (hrender : ∀ s, parseSig (render s) = some s)
    (f : Nat) (xs : List Val) (l : List Step) (ws : List Warn) (hx : NoUMapList xs) (hd : KeysNodupList xs)
    (h : parseSteps f xs = .ok (l, ws))
    (tf : String → Except E String) (p p₁ : Pipeline) (hp : p.steps = some l)
    (hi : Interp.interpPipelineRest tf p = .ok p₁) (hfix : TreesFixed tf l) :
    ∃ l₁, p₁.steps = some l₁ ∧ StepsOK l₁ ∧ stepsDepth l₁ ≤ f ∧
      (StableSteps l₁ → ∀ (k : S.Key) (alg repo : String) (penv env₁ : List (String × String)),
        EnvExtends penv env₁ → ∀ signed, signSteps S render k alg repo penv l₁ = .ok signed →
        ∃ js ss' ws', mSteps signed = .ok js ∧ parseSteps f (rereadJList js) = .ok (ss', ws') ∧
          VerifiesAllList S parseSig (S.pubOf k) repo env₁ ss') :=
  interp_then_sign_pipeline S render parseSig hrender f xs l ws hx hd h tf p p₁ hp hi hfix

/-! ### The Go-map invariant cannot be dropped from `C02_interpolated_tree_stays_ok` -/

/-- On the ill-formed representation `[("type","wait"), ("type","command")]` of a wait step's contents
    (`List.lookup` reads the first entry, the Go-map walk keeps the last one) the IDENTITY transformer leaves
    `StepOK`. -/
theorem C02_maps_nodup_needed :
    let tf : String → Except Unit String := fun s => .ok s
    let s : Step := .wait "" (some [("type", .str "wait"), ("type", .str "command")])
    let s₁ : Step := .wait "" (some [("type", .str "command")])
    StepOK s ∧ TreeFixed tf s ∧ ¬ MapsNodup s ∧ Interp.interpStep .env tf s = .ok s₁ ∧ ¬ StepOK s₁ :=
  wait_dup_counterexample

/-! ### Non-vacuity -/

namespace ExampleInterp
open Example ExampleOK

/-! #### (i) A group holding a command step and a wait step, then a scalar wait step -/

/-- `{wait: null, if: "$FOO", meta: {"$FOO": x}}`: a value and a NESTED key mention `$FOO`. -/
def waitDoc : Val := .omap [("wait", .null), ("if", .str "$FOO"), ("meta", .omap [("$FOO", .str "x")])]

def waitEx : Step := .wait "" (some [("if", .str "$FOO"), ("meta", .omap [("$FOO", .str "x")]), ("wait", .null)])

def wait1Ex : Step := .wait "" (some [("if", .str "bar"), ("meta", .omap [("bar", .str "x")]), ("wait", .null)])

/-- The group's label is `$FOO`, its unknown field `notify` mentions `$FOO` in a value; the nested command
    step is `mEx2` of `Props/C02OK.lean` (`$FOO` in every position the walkers visit). -/
def groupDoc : Val :=
  .omap [("group", .str "$FOO"), ("key", .str "grp"), ("steps", .seq [.omap mEx2, waitDoc]),
         ("notify", .seq [.str "$FOO"])]

def xsEx : List Val := [groupDoc, .str "wait"]

def lEx : List Step :=
  [.group "grp" (some "$FOO") (some [.command cEx2, waitEx]) (some [("notify", .seq [.str "$FOO"])]),
   .wait "wait" none]

/-- The interpolated list: label, values, env names, plugin config keys, nested keys rewritten; top-level keys
    of contents and remainders unchanged. -/
def l1Ex : List Step :=
  [.group "grp" (some "bar") (some [.command c1Ex2, wait1Ex]) (some [("notify", .seq [.str "bar"])]),
   .wait "wait" none]

theorem parse_waitDoc : parseStep 1 waitDoc = .ok (waitEx, []) := by
  rw [waitDoc, parseStep.eq_3]; rfl

theorem parse_cmdDoc : parseStep 1 (.omap mEx2) = .ok (.command cEx2, []) := by
  rw [parseStep.eq_3]; rfl

theorem parse_inner : parseSteps 1 [.omap mEx2, waitDoc] = .ok ([.command cEx2, waitEx], []) := by
  rw [parseSteps.eq_2, parse_cmdDoc]
  simp only
  rw [parseSteps.eq_2, parse_waitDoc]
  simp only
  rw [parseSteps.eq_1]
  rfl

theorem parse_groupDoc : parseStep 2 groupDoc =
    .ok (.group "grp" (some "$FOO") (some [.command cEx2, waitEx]) (some [("notify", .seq [.str "$FOO"])]), []) := by
  rw [groupDoc, parseStep.eq_3]
  have hsel : selOf [("group", Val.str "$FOO"), ("key", .str "grp"), ("steps", .seq [.omap mEx2, waitDoc]),
      ("notify", .seq [.str "$FOO"])] = .ok (.known .group) := by rfl
  rw [hsel]
  simp only
  rw [parseGroup.eq_1, fieldOf_group_steps]
  have hlk : List.lookup "steps" [("group", Val.str "$FOO"), ("key", .str "grp"),
      ("steps", .seq [.omap mEx2, waitDoc]), ("notify", .seq [.str "$FOO"])] =
      some (.seq [.omap mEx2, waitDoc]) := by rfl
  rw [hlk]
  simp only
  rw [parse_inner]
  rfl

theorem parse_xsEx : parseSteps 2 xsEx = .ok (lEx, []) := by
  rw [xsEx, parseSteps.eq_2, parse_groupDoc]
  simp only
  rw [parseSteps.eq_2, parseStep.eq_2]
  have hw : StepKind.selectScalar Gen.scalarTable "wait" = .known .wait := by decide
  rw [hw]
  simp only
  rw [parseSteps.eq_1]
  rfl

theorem interp_lEx : Interp.interpSteps .env tfEx lEx = .ok l1Ex := by rfl

theorem noUMap_xsEx : NoUMapList xsEx := by
  simp [xsEx, groupDoc, waitDoc, mEx2, NoUMapKVs, NoUMap, NoUMapList]

theorem keysNodup_xsEx : KeysNodupList xsEx := by
  simp [xsEx, groupDoc, waitDoc, mEx2, KeysNodup, KeysNodupKVs, KeysNodupList]

/-- `tfEx` rewrites `$FOO`, but no top-level key of a contents map / remainder is `$FOO`, and no `type` entry
    is present. -/
theorem treesFixed_ex : TreesFixed tfEx lEx := by
  simp only [lEx, TreesFixed, and_true]
  refine ⟨?_, ?_⟩
  · rw [treeFixed_group_some]
    refine ⟨?_, typeFixed_of_none rfl, ?_⟩
    · intro k hk
      simp only [Option.getD_some, List.map_cons, List.map_nil, List.mem_cons, List.not_mem_nil, or_false] at hk
      subst hk
      rfl
    · simp only [TreesFixed, and_true]
      refine ⟨?_, ?_⟩
      · rw [TreeFixed]
        exact ⟨keysFixed_ex, typeFixed_of_none rfl⟩
      · rw [waitEx, TreeFixed]
        refine ⟨?_, typeFixed_of_none rfl⟩
        intro k hk
        simp only [Option.getD_some, List.map_cons, List.map_nil, List.mem_cons, List.not_mem_nil, or_false] at hk
        rcases hk with rfl | rfl | rfl <;> rfl
  · rw [TreeFixed]
    exact ⟨fun k hk => by simp at hk, typeFixed_of_none rfl⟩

theorem stable_l1Ex : StableSteps l1Ex := by
  simp only [l1Ex, StableSteps, StableStep, and_true]
  refine ⟨⟨⟨stable_c1Ex2, ?_⟩, ?_, by simp, by simp⟩, ?_⟩
  · simp [wait1Ex, StableStep, StableUMap, JStableKVs, JStable]
  · simp [StableUMap, JStableKVs, JStable, JStableList]
  · simp [StableUMap, JStableKVs]

theorem sign_l1Ex : ∃ signed,
    signSteps toyScheme renderToy keyEx "toy-alg" "git@example.com:acme/app.git" penvEx l1Ex = .ok signed := by
  rw [l1Ex, Signing.signSteps_cons, Signing.signStep_group_some, Signing.signSteps_cons, Signing.signStep_command,
    wait1Ex, Signing.signSteps_cons, Signing.signStep_wait, Signing.signSteps_nil]
  simp only [Except.map]
  rw [Signing.signSteps_cons, Signing.signStep_wait, Signing.signSteps_nil]
  exact ⟨_, rfl⟩

/-- All hypotheses of `C02_interpolate_then_sign_steps` are jointly satisfiable on a list with a group that
    holds a command step and a mapping-form wait step, with a transformer that really rewrites strings (the
    group label, values, env names, plugin config keys, a key nested in the wait step's contents), with the toy
    scheme of C01: `SignSteps` succeeds and the re-parsed list verifies. -/
example : ∃ signed js ss' ws',
    signSteps toyScheme renderToy keyEx "toy-alg" "git@example.com:acme/app.git" penvEx l1Ex = .ok signed ∧
    mSteps signed = .ok js ∧ parseSteps 2 (rereadJList js) = .ok (ss', ws') ∧
    VerifiesAllList toyScheme parseToy (toyScheme.pubOf keyEx) "git@example.com:acme/app.git" env1Ex ss' := by
  obtain ⟨signed, hsigned⟩ := sign_l1Ex
  obtain ⟨js, ss', ws', h1, h2, h3⟩ := C02_interpolate_then_sign_steps toyScheme renderToy parseToy
    parseToy_render 2 xsEx lEx l1Ex [] noUMap_xsEx keysNodup_xsEx parse_xsEx tfEx interp_lEx treesFixed_ex
    stable_l1Ex keyEx "toy-alg" "git@example.com:acme/app.git" penvEx env1Ex envExtends_ex signed hsigned
  exact ⟨signed, js, ss', ws', hsigned, h1, h2, h3⟩

/-- The interpolated list is not the parsed one (the transformer is not the identity on this tree). -/
example : l1Ex ≠ lEx := by
  intro h
  simp [l1Ex, lEx] at h

/-! #### (ii) Kind redirection: the `TreeFixed` condition is needed for a wait step -/

/-- The parser's representation of `{wait: null, "$K": "rm -rf /"}` (sorted Go-map contents). -/
def waitK : Step := .wait "" (some [("$K", .str "rm -rf /"), ("wait", .null)])

/-- Sends the key `$K` to the kind-determining key `command`. -/
def tfK : String → Except Unit String := fun s => .ok (if s = "$K" then "command" else s)

def waitK1 : Step := .wait "" (some [("command", .str "rm -rf /"), ("wait", .null)])

example : parseStep 1 (.omap [("wait", .null), ("$K", .str "rm -rf /")]) = .ok (waitK, []) := by
  rw [parseStep.eq_3]; rfl

/-- The parsed step is well-formed, with distinct keys. -/
example : StepOK waitK ∧ MapsNodup waitK := by
  refine ⟨?_, by simp [waitK, MapsNodup]⟩
  simp only [waitK, StepOK, if_pos, Option.getD_some]
  exact .inr (by rfl)

/-- The transformer does not fix the key `$K`. -/
example : ¬ TreeFixed tfK waitK := by
  intro h
  rw [waitK, TreeFixed] at h
  have := h.1 "$K" (by simp)
  simp [tfK] at this

/-- Interpolation succeeds ... -/
example : Interp.interpStep .env tfK waitK = .ok waitK1 := by rfl

theorem selOf_waitK1 : selOf [("command", Val.str "rm -rf /"), ("wait", .null)] = .ok (.known .command) := by rfl

/-- ... the result is NOT well-formed: its contents select the command kind ... -/
example : ¬ StepOK waitK1 := by
  simp only [waitK1, StepOK, if_pos, Option.getD_some]
  rw [selOf_waitK1]
  simp

/-- The command step the marshalled form re-parses to: the former wait marker is now an unknown field. -/
def cK : CommandStep :=
  { key := "", label := "", command := "rm -rf /", plugins := none, env := none, signature := none,
    matrix := none, cache := none, rem := some [("wait", .null)] }

/-- ... and its marshalled form re-parses as a COMMAND step running `rm -rf /` (it would then be refused by
    signature verification, or run unsigned where verification is not enforced). -/
example : ∃ j, mStep waitK1 = .ok j ∧ parseStep 1 (rereadJ j) = .ok (.command cK, []) := by
  refine ⟨.umap [("command", .str "rm -rf /"), ("wait", .null)], by rfl, ?_⟩
  have hr : rereadJ (.umap [("command", .str "rm -rf /"), ("wait", .null)]) =
      .omap [("command", .str "rm -rf /"), ("wait", .null)] := by
    simp [rereadJ, rereadJKVs]
  rw [hr, parseStep.eq_3]
  rfl

end ExampleInterp

end GoPipeline.SignedRT
