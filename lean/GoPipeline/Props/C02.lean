/-
  C02 — signed steps still verify after serialisation and re-parse (JSON leg, model level).
  Statements only; proofs of the named lemmas are in `GoPipeline/Lemmas/SignedRoundtrip.lean`, which
  composes C09 (round trip of the typed step), C01 (`complete`: the honest signature verifies) and the
  signing model.

  Chain: m --parseCommand--> c --sign, attach--> c_s --mCommand, text codec (rereadJ)--> kvs
         --parseCommand (this is Parse on the pipeline's JSON and CommandStep.UnmarshalJSON)--> c'
         --verify (record read out of c'.signature, public key, env ⊇ pipeline env)--> ok.

  Why it holds: the signed payload is a function of the step's normal form only (nil vs empty env /
  plugins / matrix, short vs canonical plugin source, plugin configs as de-ordered maps), the round trip
  preserves the normal form (C09) and the embedded signature record, and JCS makes the payload independent
  of map order and number spelling (C14).

  Side conditions: `StableCommand` as in C09 (findings F11, F14, disabled-cache shorthand, JStable
  content). Interpolating before signing, the YAML leg and real key material / JWS encoding are covered by
  the correspondence and the end-to-end oracle of the harness only (partial there).
-/
import GoPipeline.Lemmas.SignedRoundtrip
namespace GoPipeline.SignedRT
open GoPipeline GoPipeline.Pipe GoPipeline.Parse GoPipeline.Marshal GoPipeline.Signing GoPipeline.Roundtrip

variable (S : SigScheme)

/-! ### The payload sees the normal form only -/

/-- Two steps with the same normal form (nil vs empty containers, plugin sources canonicalised, empty
    plugin configs as null) have the same value for every signed field. -/
theorem C02_signed_fields_see_normal_form_only (c c' : CommandStep) (repo f : String)
    (h : normCommand c' = normCommand c) : fieldValue c' repo f = fieldValue c repo f :=
  fieldValue_norm c c' repo f h

/-- …hence the same payload for the same field list and env, and the same verdict. -/
theorem C02_verify_sees_normal_form_only (r : Record S) (pub : S.Pub) (c c' : CommandStep) (repo : String)
    (env : List (String × String)) (h : normCommand c' = normCommand c) :
    verify S r pub c' repo env = verify S r pub c repo env := verify_norm S r pub c c' repo env h

/-! ### One command step: parse, sign, marshal, re-parse, verify -/

/-- The embedded signature record survives the round trip unchanged and verifies for the re-parsed step
    with the public key, under any verification env that extends the signed pipeline env. -/
theorem C02_signed_step_verifies_after_roundtrip (render : S.Sig → String) (parseSig : String → Option S.Sig)
    (hrender : ∀ s, parseSig (render s) = some s)
    (m : Unm.Entries) (c : CommandStep) (hm : NoUMapKVs m) (hk : (m.map (·.1)).Nodup)
    (h : parseCommand m = .ok c) (hs : StableCommand c)
    (k : S.Key) (alg repo : String) (penv env₁ : List (String × String)) (henv : EnvExtends penv env₁) :
    ∃ kvs c', rereadJ (mCommand (attach S render (sign S k alg c repo penv) c)) = .omap kvs ∧
      parseCommand kvs = .ok c' ∧
      c'.signature = (attach S render (sign S k alg c repo penv) c).signature ∧
      StepVerifies S parseSig (S.pubOf k) repo env₁ c' :=
  signed_step_roundtrip S render parseSig hrender m c hm hk h hs k alg repo penv env₁ henv

/-! ### Step trees: SignSteps, marshal, re-parse — every command step verifies -/

/-- For every step kind, groups recursively: after `SignSteps`, marshalling and re-parsing, every command
    step of the result carries a verifying signature. -/
theorem C02_signed_steps_verify_after_roundtrip (render : S.Sig → String) (parseSig : String → Option S.Sig)
    (hrender : ∀ s, parseSig (render s) = some s)
    (f : Nat) (x : Val) (s : Step) (w : List Warn) (hx : NoUMap x) (hd : KeysNodup x)
    (h : parseStep f x = .ok (s, w)) (hs : StableStep s)
    (k : S.Key) (alg repo : String) (penv env₁ : List (String × String)) (henv : EnvExtends penv env₁)
    (signed : Step) (hsign : signStep S render k alg repo penv s = .ok signed) :
    ∃ j s' w', mStep signed = .ok j ∧ parseStep f (rereadJ j) = .ok (s', w') ∧
      VerifiesAll S parseSig (S.pubOf k) repo env₁ s' :=
  signed_steps_roundtrip S render parseSig hrender f x s w hx hd h hs k alg repo penv env₁ henv signed hsign

/-- The whole pipeline. -/
theorem C02_signed_pipeline_verifies_after_roundtrip (render : S.Sig → String) (parseSig : String → Option S.Sig)
    (hrender : ∀ s, parseSig (render s) = some s)
    (v : Val) (p : Pipeline) (ws : List Warn) (hv : NoUMap v) (hd : KeysNodup v)
    (h : parsePipeline v = .ok (p, ws)) (hs : StablePipeline p)
    (k : S.Key) (alg repo : String) (env₁ : List (String × String))
    (henv : EnvExtends (p.env.getD []) env₁)
    (signed : List Step) (hsign : signSteps S render k alg repo (p.env.getD []) (p.steps.getD []) = .ok signed) :
    ∃ j p' ws', mPipeline { p with steps := some signed } = .ok j ∧ parsePipeline (rereadJ j) = .ok (p', ws') ∧
      VerifiesAllList S parseSig (S.pubOf k) repo env₁ (p'.steps.getD []) :=
  signed_pipeline_roundtrip S render parseSig hrender v p ws hv hd h hs k alg repo env₁ henv signed hsign

end GoPipeline.SignedRT
