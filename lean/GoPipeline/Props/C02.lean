/-
  C02 — signed steps still verify after serialisation and re-parse (JSON leg, model level).
  Statements only; proofs of the named lemmas are in `GoPipeline/Lemmas/SignedRoundtrip.lean`, which
  composes C09 (round trip of the typed step), C01 (`complete`: the honest signature verifies) and the
  signing model.

  Chain: m --parseCommand--> c --sign, attach--> c_s --mCommand, text codec (rereadJ)--> kvs
         --parseCommand (this is Parse on the pipeline's JSON and CommandStep.UnmarshalJSON)--> c'
         --verify (record read out of c'.signature, public key, env ⊇ pipeline env)--> ok.

  Why it holds: the signed payload is a function of what survives the round trip: the command, the env,
  plugins and matrix pointer up to nil vs empty (`EmptyToNil*`), plugin sources up to canonicalisation
  (`fullSource` is idempotent) and empty plugin configs as null (C09 normal form), and the marshalled matrix,
  which comes back exactly (the C09 normal form is too coarse INSIDE the matrix, see the first section).
  The embedded signature record comes back exactly, `verify` ignores the `signature` field, and C01
  (`complete`) says the honest signature verifies.

  Side conditions: `StableCommand` as in C09 (findings F11, F14, JStable content; the disabled-cache
  condition is gone: finding F18 was fixed in the code, commit e8ce0ad, and the condition was removed from
  `StableCommand`). The YAML leg is in Props/C02Y.lean. Interpolating before signing and real key material / JWS
  encoding are covered by the correspondence and the end-to-end oracle of the harness only (partial there).
-/
import GoPipeline.Lemmas.SignedRoundtrip
import GoPipeline.Props.C01   -- `toyScheme` (non-vacuity example at the end)
namespace GoPipeline.SignedRT
open GoPipeline GoPipeline.Pipe GoPipeline.Parse GoPipeline.Marshal GoPipeline.Signing GoPipeline.Roundtrip

variable (S : SigScheme)

/-! ### The payload sees the normal form only

  Correction to the first draft of these two statements (which had `normCommand c' = normCommand c` as only
  hypothesis): that version is FALSE.  `EmptyToNilMap/Slice/Ptr` normalise the outermost container of each
  signed field only; inside the matrix the payload still distinguishes an empty non-nil container from nil
  (`"setup":{}` vs `"setup":null`, a dimension `"os":[]` vs `"os":null`, an adjustment `"with":{}` vs
  `"with":null`), whereas the C09 normal form `normMatrix` identifies them.  Counterexample (proved below):
  two steps with command `x` and matrix `{adjustments: [{with: {a: b}}]}`, one with `setup: {}` (empty
  non-nil `MatrixSetup`), one without `setup`.  The side condition `MatrixInnerNonEmpty`
  (Model/SignedRoundtrip.lean) excludes exactly these three shapes.  It is NOT needed by the round-trip
  theorems below: the JSON round trip returns these containers exactly (`matrix_roundtrip_sig`). -/

/-- Two steps with the same normal form (nil vs empty containers, plugin sources canonicalised, empty
    plugin configs as null) and no empty non-nil container inside their matrices have the same value for
    every signed field. -/
theorem C02_signed_fields_see_normal_form_only (c c' : CommandStep) (repo f : String)
    (h : normCommand c' = normCommand c) (ht : MatrixInnerNonEmpty c) (ht' : MatrixInnerNonEmpty c') :
    fieldValue c' repo f = fieldValue c repo f :=
  fieldValue_norm c c' repo f h ht ht'

/-- …hence the same payload for the same field list and env, and the same verdict. -/
theorem C02_verify_sees_normal_form_only (r : Record S) (pub : S.Pub) (c c' : CommandStep) (repo : String)
    (env : List (String × String)) (h : normCommand c' = normCommand c)
    (ht : MatrixInnerNonEmpty c) (ht' : MatrixInnerNonEmpty c') :
    verify S r pub c' repo env = verify S r pub c repo env := verify_norm S r pub c c' repo env h ht ht'

/-- The counterexample to the uncorrected statement: same normal form, different signed `matrix` value
    (`{"adjustments":[{"with":{"a":"b"}}],"setup":{}}` vs `…,"setup":null}`). -/
example :
    let adj : Adjustment := { with_ := some [("a", "b")], skip := .null, rem := none }
    let c : CommandStep := { (default : CommandStep) with
      command := "x", matrix := some { setup := some [], adjustments := some [some adj], rem := none } }
    let c' : CommandStep := { (default : CommandStep) with
      command := "x", matrix := some { setup := none, adjustments := some [some adj], rem := none } }
    normCommand c' = normCommand c ∧ fieldValue c' "r" "matrix" ≠ fieldValue c "r" "matrix" := by
  refine ⟨rfl, ?_⟩
  simp [fieldValue, matrixField, matrixIsEmpty, lenUMap, mMatrix, isSimple, inlineFriendly, mSetup, Marshal.umapOf,
    Marshal.umapInsert]

/-! ### One command step: parse, sign, marshal, re-parse, verify -/

/-- The embedded signature record survives the round trip unchanged and verifies for the re-parsed step
    with the public key, under any verification env that extends the signed pipeline env. -/
theorem C02_signed_step_verifies_after_roundtrip (render : S.Sig → String) (parseSig : String → Option S.Sig)
    (hrender : ∀ s, parseSig (render s) = some s)
    (m : Unm.Entries) (c : CommandStep) (hm : NoUMapKVs m) (hk : (m.map (·.1)).Nodup)
    (h : parseCommand m = .ok c) (hs : StableCommand c)
    (k : S.Key) (alg repo : String) (penv env₁ : List (String × String)) (henv : EnvExtends penv env₁) :
    ∃ kvs c', rereadJ (mCommand (attach S render (sign S k alg c repo penv) c)) = .omap kvs ∧
      parseCommand kvs = .ok c' ∧
      c'.signature = (attach S render (sign S k alg c repo penv) c).signature ∧
      StepVerifies S parseSig (S.pubOf k) repo env₁ c' :=
  signed_step_roundtrip S render parseSig hrender m c hm hk h hs k alg repo penv env₁ henv

/-! ### Step trees: SignSteps, marshal, re-parse — every command step verifies -/

/-- For every step kind, groups recursively: after `SignSteps`, marshalling and re-parsing, every command
    step of the result carries a verifying signature. -/
theorem C02_signed_steps_verify_after_roundtrip (render : S.Sig → String) (parseSig : String → Option S.Sig)
    (hrender : ∀ s, parseSig (render s) = some s)
    (f : Nat) (x : Val) (s : Step) (w : List Warn) (hx : NoUMap x) (hd : KeysNodup x)
    (h : parseStep f x = .ok (s, w)) (hs : StableStep s)
    (k : S.Key) (alg repo : String) (penv env₁ : List (String × String)) (henv : EnvExtends penv env₁)
    (signed : Step) (hsign : signStep S render k alg repo penv s = .ok signed) :
    ∃ j s' w', mStep signed = .ok j ∧ parseStep f (rereadJ j) = .ok (s', w') ∧
      VerifiesAll S parseSig (S.pubOf k) repo env₁ s' :=
  signed_steps_roundtrip S render parseSig hrender f x s w hx hd h hs k alg repo penv env₁ henv signed hsign

/-- The whole pipeline. -/
theorem C02_signed_pipeline_verifies_after_roundtrip (render : S.Sig → String) (parseSig : String → Option S.Sig)
    (hrender : ∀ s, parseSig (render s) = some s)
    (v : Val) (p : Pipeline) (ws : List Warn) (hv : NoUMap v) (hd : KeysNodup v)
    (h : parsePipeline v = .ok (p, ws)) (hs : StablePipeline p)
    (k : S.Key) (alg repo : String) (env₁ : List (String × String))
    (henv : EnvExtends (p.env.getD []) env₁)
    (signed : List Step) (hsign : signSteps S render k alg repo (p.env.getD []) (p.steps.getD []) = .ok signed) :
    ∃ j p' ws', mPipeline { p with steps := some signed } = .ok j ∧ parsePipeline (rereadJ j) = .ok (p', ws') ∧
      VerifiesAllList S parseSig (S.pubOf k) repo env₁ (p'.steps.getD []) :=
  signed_pipeline_roundtrip S render parseSig hrender v p ws hv hd h hs k alg repo env₁ henv signed hsign

/-! ### The parser's image matters (finding F21) -/

/-- Finding F21 in the model: a step OUTSIDE the parser's image — its unknown fields hold the key `plugins`,
    which interpolation of an unknown key `"${P}"` with `P=plugins` produces — marshals with that entry under the
    field's name, re-parses with it as the typed field, and the signed `plugins` value differs: the honest
    signature no longer verifies. The round-trip theorems exclude it through `parseCommand m = .ok c`
    (the parser's guarantee `CommandOK`: no unknown key is a declared key). -/
def cF21 : CommandStep :=
  { (default : CommandStep) with command := "echo hi", rem := some [("plugins", .seq [.str "docker#v1"])] }

example : ∃ kvs c', rereadJ (mCommand cF21) = .omap kvs ∧ parseCommand kvs = .ok c' ∧
    fieldValue c' "r" "plugins" ≠ fieldValue cF21 "r" "plugins" := by
  refine ⟨[("command", .str "echo hi"), ("plugins", .seq [.str "docker#v1"])], _, by rfl, by rfl, ?_⟩
  intro h
  have h2 : fieldValue cF21 "r" "plugins" = some .null := by rfl
  rw [h2] at h
  revert h
  simp [fieldValue, pluginsField, mPlugins]
/-! ### Non-vacuity -/

namespace Example

/-- A signature of the toy scheme (key, message) as text: `xxx|message` with one `x` per unit of the key. -/
def renderToy (s : toyScheme.Sig) : String := String.ofList (List.replicate s.1 'x' ++ '|' :: s.2)
def parseToy (t : String) : Option toyScheme.Sig :=
  some ((t.toList.takeWhile (· == 'x')).length, (t.toList.dropWhile (· == 'x')).drop 1)

theorem parseToy_render (s : toyScheme.Sig) : parseToy (renderToy s) = some s := by
  obtain ⟨n, cs⟩ := s
  simp [parseToy, renderToy, String.toList_ofList]

def mEx : Unm.Entries :=
  [("key", .str "build"), ("command", .str "make test"),
   ("plugins", .seq [.omap [("docker#v5.0.0", .omap [("image", .str "alpine")])], .str "ecr"]),
   ("env", .omap [("FOO", .str "bar"), ("BAZ", .str "1")])]

def cEx : CommandStep :=
  { key := "build", label := "", command := "make test",
    plugins := some [some { source := "docker#v5.0.0", config := .umap [("image", .str "alpine")] },
                     some { source := "ecr", config := .null }],
    env := some [("BAZ", "1"), ("FOO", "bar")], signature := none, matrix := none, cache := none, rem := none }

theorem parse_mEx : parseCommand mEx = .ok cEx := by rfl

theorem stable_cEx : StableCommand cEx := by
  refine ⟨⟨fun _ => rfl, fun h => by simp [cEx] at h⟩, ?_, fun m h => by simp [cEx] at h, fun k h => by simp [cEx] at h, trivial⟩
  intro l hl p hp
  simp only [cEx, Option.some.injEq] at hl
  subst hl
  simp only [List.mem_cons, Option.some.injEq, List.not_mem_nil, or_false] at hp
  rcases hp with rfl | rfl <;> simp [JStable, JStableKVs]

def keyEx : toyScheme.Key := (7 : Nat)
def penvEx : List (String × String) := [("CI", "true"), ("FOO", "shadowed")]
def env1Ex : List (String × String) := [("HOME", "/root"), ("FOO", "shadowed"), ("CI", "true")]

theorem envExtends_ex : EnvExtends penvEx env1Ex := by
  refine ⟨by decide, by decide, ?_⟩
  intro name v h
  simp only [penvEx, List.mem_cons, Prod.mk.injEq, List.not_mem_nil, or_false] at h
  rcases h with ⟨rfl, rfl⟩ | ⟨rfl, rfl⟩ <;> rfl

/-- The hypotheses of `C02_signed_step_verifies_after_roundtrip` are jointly satisfiable on a non-trivial step
    (two plugins, one with a short source and a config; two env variables, one of which shadows a pipeline
    variable; a verification env with an extra variable), with the toy scheme of C01. -/
example : ∃ kvs c', rereadJ (mCommand (attach toyScheme renderToy (sign toyScheme keyEx "toy-alg" cEx "git@example.com:acme/app.git" penvEx) cEx)) = .omap kvs ∧
      parseCommand kvs = .ok c' ∧
      c'.signature = (attach toyScheme renderToy (sign toyScheme keyEx "toy-alg" cEx "git@example.com:acme/app.git" penvEx) cEx).signature ∧
      StepVerifies toyScheme parseToy (toyScheme.pubOf keyEx) "git@example.com:acme/app.git" env1Ex c' :=
  C02_signed_step_verifies_after_roundtrip toyScheme renderToy parseToy parseToy_render mEx cEx
    (by simp [mEx, NoUMapKVs, NoUMap, NoUMapList]) (by decide) parse_mEx stable_cEx keyEx "toy-alg"
    "git@example.com:acme/app.git" penvEx env1Ex envExtends_ex

end Example

end GoPipeline.SignedRT
