/-
  C16 — the reflective unmarshaller assigns every input key to exactly one destination.
  Statements only; proofs of the named lemmas are in `GoPipeline/Lemmas/Unmarshal.lean`.
-/
import GoPipeline.Lemmas.Unmarshal
import GoPipeline.Gen.Structs
namespace GoPipeline.Unm

def keysOf (m : Entries) : List String := m.map (·.1)

/-- Partition: the keys consumed by fields together with the keys passed to the inline field are
    exactly the input keys — none lost, none duplicated. -/
theorem C16_partition (fs : List Field) (m : Entries) (hm : (keysOf m).Nodup) (wf : WF fs) :
    (outlineKeys m fs ++ keysOf (remainder m fs)).Perm (keysOf m) := partition fs m hm wf

/-- No key is consumed by two fields. -/
theorem C16_no_key_twice (fs : List Field) (m : Entries) (wf : WF fs) :
    (outlineKeys m fs).Nodup := outline_nodup fs m wf

/-- Each consumed value is the input's value for that key. -/
theorem C16_taken_value (fs : List Field) (m : Entries) (f k : String) (v : Val)
    (h : (f, k, v) ∈ taken m fs) : m.lookup k = some v := taken_value fs m f k v h

/-- Destination rule: a key goes to the field whose tag names it, else to the field listing it as its
    first present alias when that field's own key is absent, else to the inline remainder. -/
theorem C16_destination_field (fs : List Field) (m : Entries) (wf : WF fs) (hn : (fs.map Field.name).Nodup)
    (k : String) (hk : k ∈ keysOf m) (f : String) :
    (∃ v, (f, k, v) ∈ taken m fs) ↔ destOf m fs k = .field f := destination_field fs m wf hn k hk f

theorem C16_destination_inline (fs : List Field) (m : Entries) (wf : WF fs) (k : String) (hk : k ∈ keysOf m) :
    k ∈ keysOf (remainder m fs) ↔ destOf m fs k = .inline := destination_inline fs m wf k hk

/-- The inline remainder keeps input order and values: it is a filter of the input. -/
theorem C16_remainder_in_order (fs : List Field) (m : Entries) (wf : WF fs) (hm : (keysOf m).Nodup) :
    remainder m fs = m.filter (fun e => destOf m fs e.1 == .inline) := remainder_in_order fs m wf hm

/-- Absent keys leave fields untouched. -/
theorem C16_absent_untouched (n : Nat) (fs : List Field) (m : Entries) (cvs cvs' : List (String × GoVal))
    (hn : (fs.map Field.name).Nodup) (h : decodeStruct n fs m cvs = .ok cvs')
    (f : Field) (hf : f ∈ fs) (hr : f.role ≠ .inline) (habs : f.role = .skip ∨ fieldTake m f = none) :
    getField f.name cvs' = getField f.name cvs := absent_untouched n fs m cvs cvs' hn h f hf hr habs

/-- `null` zeroes the destination, whatever it held. -/
theorem C16_null_zeroes (n : Nat) (ty : GoTy) (cur : GoVal) (h : ∀ s, ty ≠ .named s) :
    unmarshal (n + 1) ty .null cur = .ok (zero ty) := null_zeroes n ty cur h

/-- For alias-free targets the key assignment is the YAML library's rule: a field takes the entry
    under its key, the inline field the rest, in order. -/
theorem C16_alias_free_is_yaml_rule (fs : List Field) (m : Entries) (h : aliasFree fs) :
    taken m fs = refTaken m fs ∧ remainder m fs = refRemainder m fs := alias_free_ref fs m h

/-- Every struct of package pipeline (regenerated from the source) has a well-formed descriptor,
    so the theorems above apply to all of them. -/
theorem C16_repo_structs_wf : ∀ d ∈ Gen.allStructs, WF d.2 := by decide

/-! Non-vacuity -/
example : taken [("id", .str "x"), ("name", .str "n"), ("zzz", .int 1), ("identifier", .str "y")] Gen.struct_CommandStep
    = [("Key", "id", .str "x"), ("Label", "name", .str "n")] := by rfl  -- `Val` has no `DecidableEq`
example : keysOf (remainder [("id", .str "x"), ("name", .str "n"), ("zzz", .int 1), ("identifier", .str "y")] Gen.struct_CommandStep)
    = ["zzz", "identifier"] := by decide

end GoPipeline.Unm
