/-
  C02 on structurally well-formed steps, YAML leg — the signed round trip through `yaml.Marshal` without the
  parser hypothesis (model level).  Statements only; proofs of the named lemmas are in
  `GoPipeline/Lemmas/StepOKY.lean`.

  The fourth corner of the square

                         parser image            every `StepOK` tree
      JSON leg          `Props/C02.lean`          `Props/C02OK.lean`, `Props/C02Interp.lean`
      YAML leg          `Props/C02Y.lean`         this file

    StepOK ∧ StableY ⇒ signed YAML round trip verifies      (C02_signed_tree_…_yaml_roundtrip_ok, …_list_…)
    parse, interpolate (TreesFixed), SignSteps, yaml.Marshal, re-read, re-parse ⇒ every command step verifies
                                                             (C02_interpolate_then_sign_steps_yaml, …_pipeline_yaml)

  NO EXTRA HYPOTHESIS with respect to the JSON-leg statements of `Props/C02OK.lean` / `Props/C02Interp.lean`; the
  stability hypothesis is the YAML-leg one (`StableStepY` / `StableStepsY`, implied by `StableStep` /
  `StableSteps`: `C02_stable_implies_stableY`).  The points where `yaml.Marshal` and `json.Marshal` differ
  (header of `Model/MarshalY.lean`) are all outside `StepOK` or discharged by it:
    * `inlineConflict` (an unknown key equal to a declared key is an encoding error): `StepOK` contains
      `RemOK.prim` at every struct level (command step, cache, matrix, adjustment, group);
    * a trigger step without contents is `{}` (JSON: `null`): `StepOK (.trigger c)` asks the contents to select
      the trigger kind, so they are not empty (`C02_trigger_without_contents_not_ok`), and non-empty contents are
      the same Go map on both legs;
    * a nil step list is `[]` (JSON: `null`): a group with `steps := none` is not `StepOK`;
    * wait / input scalars and the empty input step: the same on both legs.
-/
import GoPipeline.Lemmas.StepOKY
import GoPipeline.Props.C02Interp   -- `ExampleInterp.*`, and through it `ExampleOK.*`, `Example.*`, `toyScheme`
namespace GoPipeline.SignedRT
open GoPipeline GoPipeline.Pipe GoPipeline.Parse GoPipeline.Marshal GoPipeline.Signing GoPipeline.Roundtrip
  GoPipeline.MarshalY

variable (S : SigScheme)

/-! ### The signed YAML round trip for every well-formed step tree -/

/-- For EVERY typed step tree that is structurally well-formed (parsed, interpolated or built through the API):
    after `SignSteps`, `yaml.Marshal` and re-parsing with enough fuel, every command step of the result carries a
    verifying signature. -/
theorem C02_signed_tree_verifies_after_yaml_roundtrip_ok (render : S.Sig → String)
    (parseSig : String → Option S.Sig) (hrender : ∀ s, parseSig (render s) = some s)
    (s : Step) (hok : StepOK s) (hs : StableStepY s) (f : Nat) (hf : stepDepth s ≤ f)
    (k : S.Key) (alg repo : String) (penv env₁ : List (String × String)) (henv : EnvExtends penv env₁)
    (signed : Step) (hsign : signStep S render k alg repo penv s = .ok signed) :
    ∃ j s' w', yStep signed = .ok j ∧ parseStep f (rereadJ j) = .ok (s', w') ∧
      VerifiesAll S parseSig (S.pubOf k) repo env₁ s' :=
  signed_steps_roundtripY_ok S render parseSig k alg repo penv env₁ hrender s hok hs f hf henv signed hsign

theorem C02_signed_list_verifies_after_yaml_roundtrip_ok (render : S.Sig → String)
    (parseSig : String → Option S.Sig) (hrender : ∀ s, parseSig (render s) = some s)
    (l : List Step) (hok : StepsOK l) (hs : StableStepsY l) (f : Nat) (hf : stepsDepth l ≤ f)
    (k : S.Key) (alg repo : String) (penv env₁ : List (String × String)) (henv : EnvExtends penv env₁)
    (l' : List Step) (hsign : signSteps S render k alg repo penv l = .ok l') :
    ∃ js ss' ws', ySteps l' = .ok js ∧ parseSteps f (rereadJList js) = .ok (ss', ws') ∧
      VerifiesAllList S parseSig (S.pubOf k) repo env₁ ss' :=
  signed_list_roundtripY_ok S render parseSig k alg repo penv env₁ hrender l hok hs f hf henv l' hsign

/-- The YAML-leg stability hypothesis is the weaker one (no condition on an adjustment's empty-ish `skip`,
    finding F11): whatever is stable for the JSON leg is stable for the YAML leg. -/
theorem C02_stable_implies_stableY (l : List Step) (hs : StableSteps l) : StableStepsY l :=
  stableStepsY_of l hs

/-! ### Parse, interpolate, SignSteps, yaml.Marshal, re-read, re-parse, verify -/

/-- The pipeline's steps: parsed from a decoded document, interpolated with a transformer that is `TreesFixed`
    for them, signed by `SignSteps`, marshalled by `yaml.Marshal`, re-read and re-parsed with the same fuel: every
    command step of the result (at any group depth) carries a verifying signature. -/
theorem C02_interpolate_then_sign_steps_yaml {E : Type} (render : S.Sig → String)
    (parseSig : String → Option S.Sig) (hrender : ∀ s, parseSig (render s) = some s)
    (f : Nat) (xs : List Val) (l l₁ : List Step) (ws : List Warn) (hx : NoUMapList xs) (hd : KeysNodupList xs)
    (h : parseSteps f xs = .ok (l, ws))
    (tf : String → Except E String) (hi : Interp.interpSteps .env tf l = .ok l₁) (hfix : TreesFixed tf l)
    (hs : StableStepsY l₁)
    (k : S.Key) (alg repo : String) (penv env₁ : List (String × String)) (henv : EnvExtends penv env₁)
    (signed : List Step) (hsign : signSteps S render k alg repo penv l₁ = .ok signed) :
    ∃ js ss' ws', ySteps signed = .ok js ∧ parseSteps f (rereadJList js) = .ok (ss', ws') ∧
      VerifiesAllList S parseSig (S.pubOf k) repo env₁ ss' :=
  interp_then_sign_listY S render parseSig hrender f xs l l₁ ws hx hd h tf hi hfix hs k alg repo penv env₁ henv
    signed hsign

/-- The same through `(*Pipeline).Interpolate` (the part after the env block) on the typed pipeline. -/
theorem C02_interpolate_then_sign_pipeline_yaml {E : Type} (render : S.Sig → String)
    (parseSig : String → Option S.Sig) (hrender : ∀ s, parseSig (render s) = some s)
    (f : Nat) (xs : List Val) (l : List Step) (ws : List Warn) (hx : NoUMapList xs) (hd : KeysNodupList xs)
    (h : parseSteps f xs = .ok (l, ws))
    (tf : String → Except E String) (p p₁ : Pipeline) (hp : p.steps = some l)
    (hi : Interp.interpPipelineRest tf p = .ok p₁) (hfix : TreesFixed tf l) :
    ∃ l₁, p₁.steps = some l₁ ∧ StepsOK l₁ ∧ stepsDepth l₁ ≤ f ∧
      (StableStepsY l₁ → ∀ (k : S.Key) (alg repo : String) (penv env₁ : List (String × String)),
        EnvExtends penv env₁ → ∀ signed, signSteps S render k alg repo penv l₁ = .ok signed →
        ∃ js ss' ws', ySteps signed = .ok js ∧ parseSteps f (rereadJList js) = .ok (ss', ws') ∧
          VerifiesAllList S parseSig (S.pubOf k) repo env₁ ss') :=
  interp_then_sign_pipelineY S render parseSig hrender f xs l ws hx hd h tf p p₁ hp hi hfix

/-! ### The leg difference on trigger steps is outside `StepOK` -/

/-- A trigger step without contents (written `{}` by `yaml.Marshal`, `null` by `json.Marshal`) is not
    well-formed on either representation of "no contents": neither form re-parses to a trigger step. -/
theorem C02_trigger_without_contents_not_ok : ¬ StepOK (.trigger none) ∧ ¬ StepOK (.trigger (some [])) := by
  constructor <;>
  · intro h
    rw [StepOK] at h
    exact selOf_ne_nil h rfl

/-! ### Non-vacuity -/

namespace ExampleOKY
open Example ExampleOK ExampleInterp

/-- All hypotheses of `C02_interpolate_then_sign_steps_yaml` are jointly satisfiable on the list of
    `Props/C02Interp.lean` (a group that holds a command step with plugins, env, matrix with an adjustment, cache
    and unknown fields, and a mapping-form wait step; then a scalar wait step), with a transformer that really
    rewrites strings and the toy scheme of C01: `SignSteps` succeeds, `yaml.Marshal` succeeds (no
    `inlineConflict`), and the re-parsed list verifies. -/
example : ∃ signed js ss' ws',
    signSteps toyScheme renderToy keyEx "toy-alg" "git@example.com:acme/app.git" penvEx l1Ex = .ok signed ∧
    ySteps signed = .ok js ∧ parseSteps 2 (rereadJList js) = .ok (ss', ws') ∧
    VerifiesAllList toyScheme parseToy (toyScheme.pubOf keyEx) "git@example.com:acme/app.git" env1Ex ss' := by
  obtain ⟨signed, hsigned⟩ := sign_l1Ex
  obtain ⟨js, ss', ws', h1, h2, h3⟩ := C02_interpolate_then_sign_steps_yaml toyScheme renderToy parseToy
    parseToy_render 2 xsEx lEx l1Ex [] noUMap_xsEx keysNodup_xsEx parse_xsEx tfEx interp_lEx treesFixed_ex
    (C02_stable_implies_stableY l1Ex stable_l1Ex) keyEx "toy-alg" "git@example.com:acme/app.git" penvEx env1Ex
    envExtends_ex signed hsigned
  exact ⟨signed, js, ss', ws', hsigned, h1, h2, h3⟩

/-- A step tree OUTSIDE the parser's image (`treeEx` of `Props/C02OK.lean`: a group holding a command step and
    an API-built empty wait step) through the tree-level theorem. -/
example : ∃ signed j s' w',
    signStep toyScheme renderToy keyEx "toy-alg" "git@example.com:acme/app.git" penvEx treeEx = .ok signed ∧
    yStep signed = .ok j ∧ parseStep 2 (rereadJ j) = .ok (s', w') ∧
    VerifiesAll toyScheme parseToy (toyScheme.pubOf keyEx) "git@example.com:acme/app.git" env1Ex s' := by
  have hsign : ∃ signed, signStep toyScheme renderToy keyEx "toy-alg" "git@example.com:acme/app.git" penvEx treeEx =
      .ok signed := by
    rw [treeEx, Signing.signStep_group_some, Signing.signSteps_cons, Signing.signStep_command,
      Signing.signSteps_cons, Signing.signStep_wait, Signing.signSteps_nil]
    exact ⟨_, rfl⟩
  obtain ⟨signed, hsigned⟩ := hsign
  obtain ⟨j, s', w', h1, h2, h3⟩ := C02_signed_tree_verifies_after_yaml_roundtrip_ok toyScheme renderToy parseToy
    parseToy_render treeEx stepOK_treeEx (stableStepY_of treeEx stable_treeEx) 2
    (by simp [treeEx, stepDepth, stepsDepth]) keyEx "toy-alg"
    "git@example.com:acme/app.git" penvEx env1Ex envExtends_ex signed hsigned
  exact ⟨signed, j, s', w', hsigned, h1, h2, h3⟩

/-- A trigger step WITH contents is well-formed and goes through the YAML leg (signing leaves it alone; the
    statement is about the re-parse). -/
def trigEx : Step := .trigger (some [("async", .bool true), ("trigger", .str "deploy")])

example : ∃ j s' w', yStep trigEx = .ok j ∧ parseStep 1 (rereadJ j) = .ok (s', w') ∧
    VerifiesAll toyScheme parseToy (toyScheme.pubOf keyEx) "git@example.com:acme/app.git" env1Ex s' :=
  C02_signed_tree_verifies_after_yaml_roundtrip_ok toyScheme renderToy parseToy parseToy_render trigEx
    (by simp only [trigEx, StepOK, Option.getD_some]; rfl) (by simp [trigEx, StableStepY, StableUMap, JStableKVs, JStable]) 1
    (by simp [trigEx, stepDepth]) keyEx "toy-alg" "git@example.com:acme/app.git" penvEx env1Ex envExtends_ex trigEx
    (by rw [trigEx, Signing.signStep_trigger])

end ExampleOKY

end GoPipeline.SignedRT
