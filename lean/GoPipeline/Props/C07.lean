/-
  C07 — YAML anchors, aliases and merges resolve per the merge rules; cycles error out.
  (C08's order corollaries about decoded mappings are at the end.)
  Statements only; proofs of the named lemmas are in `GoPipeline/Lemmas/Yaml.lean`.
-/
import GoPipeline.Lemmas.Yaml
namespace GoPipeline.Yaml
open GoPipeline

/-! ### Bounded recursion: no hang, no stack overflow -/

/-- With `bound s = (|store|+2)·((|store|+1)·maxContent+3)` the fuel never runs out: every call chain of
    `decode` adds a fresh node to `seen`, every call chain of the merge walk adds a fresh node to `merged`, so
    the nesting depth is at most the number of nodes (this is what bounds Go's recursion depth), and every
    list walked at one level has at most `(|store|+1)·maxContent` elements.

    Two corrections against the first version of this statement (both with machine-checked
    counterexamples in `Lemmas/Yaml.lean`):
    * hypothesis `AliasFlat s` (the target of an alias node is not an alias node — an invariant of every
      graph yaml.v3 builds, since an alias cannot carry an anchor).  Without it the statement is false:
      `canonicalMapKey` follows alias → alias chains with no cycle detection, so on the hand-built graph
      `aliasLoopStore` (`{*a: v}` with `*a` its own target) Go recurses forever and the model returns
      `.error .fuel` for every fuel (`aliasLoop_counterexample`).
    * `bound` in `Model/Yaml.lean` was `(|store|+2)·(maxContent+3)`; that is too small for the *model*
      (not a Go defect: `decodePairs` spends one unit of fuel per yielded pair, and with merges the yielded
      list is longer than any content list): `oldBound_counterexample` is a 53-node acyclic document on
      which the old bound ran out of fuel.  Results other than `.error .fuel` do not depend on the bound. -/
theorem C07_decode_total (s : Store) (root : Nat) (h : AliasFlat s) : decodeYAML s root ≠ .error .fuel :=
  decode_total s root h

theorem C07_rangeMap_total (s : Store) (i : Nat) (h : AliasFlat s) : rangeMap s (bound s) i ≠ .error .fuel :=
  rangeMap_total s i h

/-! ### Value cycles are errors; merge cycles are tolerated -/

/-- A node that is its own ancestor on the current decoding path is rejected with the recursion error. -/
theorem C07_cycle_detected (s : Store) (f : Nat) (seen : List Nat) (i : Nat) (h : i ∈ seen) :
    decode s (f + 1) seen (some i) = .error .recursion := cycle_detected s f seen i h

/-- Aliases as values: an alias node decodes to whatever its target decodes to — so every alias
    expands to a full copy of the anchored subtree (two aliases of one anchor give equal, independent values). -/
theorem C07_alias_is_copy (s : Store) (f : Nat) (seen : List Nat) (i t : Nat) (n : NodeRec)
    (hn : s[i]? = some n) (hk : n.kind = .alias) (ht : n.aliasTo = some t) (hi : i ∉ seen) :
    decode s (f + 2) seen (some i) = decode s (f + 1) (i :: seen) (some t) := alias_is_copy s f seen i t n hn hk ht hi

/-- The merge walk never reports a recursion error, and a mapping already merged into the mapping being
    ranged is skipped silently: merge cycles terminate without error. -/
theorem C07_merge_cycle_tolerated (s : Store) (f : Nat) (levels : List (List String)) (st : RangeSt) (i : Nat)
    (h : i ∈ st.merged) : rangeImpl s (f + 1) levels st (some i) = .ok (levels, st) := merged_skipped s f levels st i h

theorem C07_merge_walk_no_recursion_error (s : Store) (f : Nat) (i : Nat) :
    rangeMap s f i ≠ .error .recursion := rangeMap_no_recursion s f i

/-! ### Merge rules -/

/-- For every mapping whose merge graph the specification can unfold (i.e. it is acyclic), the walk yields
    exactly the content the YAML merge specification prescribes — keys, value nodes and order:
    explicit pairs where written, merged keys at the position of the merge key in first-contribution
    order, explicit keys beating merged ones, earlier sources beating later ones; the `merged`
    de-duplication does not change the result.  (No `AliasFlat` needed: when the specification unfolds,
    every alias chain the walk follows terminates, and the fuel `bound s` is shown to suffice.) -/
theorem C07_merge_is_spec (s : Store) (f : Nat) (i : Nat) (ps : List (String × Nat))
    (h : specContent s f i = .ok ps) : rangeMap s (bound s) i = .ok ps := merge_is_spec s f i ps h

/-- Explicit keys beat merged keys: a key written explicitly in the mapping is yielded exactly where it is
    written, with its own value node. -/
theorem C07_explicit_beats_merged (have_ : List String) (out src : List (String × Nat)) (k : String)
    (hk : k ∈ have_) : ∀ p ∈ (mergeInto have_ out src).2, p ∈ out ∨ p.1 ≠ k := explicit_beats_merged have_ out src k hk

/-- Earlier merge sources beat later ones: once a key has been contributed, later sources cannot replace it. -/
theorem C07_earlier_beats_later (have_ : List String) (out src : List (String × Nat)) :
    out <+: (mergeInto have_ out src).2 ∧ ∀ k ∈ have_, k ∈ (mergeInto have_ out src).1 :=
  earlier_beats_later have_ out src

/-! ### Keys -/

/-- An alias used as a mapping key is canonicalised through its target. -/
theorem C07_alias_key (s : Store) (f : Nat) (i t : Nat) (n : NodeRec) (hn : s[i]? = some n)
    (hk : n.kind = .alias) (ht : n.aliasTo = some t) :
    canonicalKey s (f + 1) i = canonicalKey s f t := by simp [canonicalKey, hn, hk, ht]

/-- Null (or undecodable) keys and non-scalar keys are errors. -/
theorem C07_bad_key (s : Store) (f : Nat) (i : Nat) (n : NodeRec) (hn : s[i]? = some n)
    (h : (n.kind = .scalar ∧ n.keyStr = none) ∨ (n.kind ≠ .scalar ∧ n.kind ≠ .alias)) :
    ∃ e, canonicalKey s (f + 1) i = .error e := bad_key s f i n hn h

/-! ### C08: decoded mappings keep document order -/

/-- The decoded mapping lists its keys in the order the walk yielded them (first occurrence of each key):
    document order, with merged keys standing where the merge key stood. -/
theorem C08_decoded_key_order (s : Store) (f : Nat) (seen : List Nat) (ps : List (String × Nat))
    (acc : List (String × Val)) (h : decodePairs s f seen ps [] = .ok acc) :
    acc.map (·.1) = (ps.map (·.1)).eraseDups := decoded_key_order s f seen ps acc h

/-! Non-vacuity: `base: &b {x: 1, y: 2}`, `m: {<<: *b, y: 3, z: 4}` and a self-referential anchor. -/
def exStore : Store :=
  [ /-0 doc-/ { kind := .document, isMerge := false, content := [1] },
    /-1 top-/ { kind := .mapping, isMerge := false, content := [2, 3, 8, 9] },
    /-2-/ { kind := .scalar, isMerge := false, decoded := some (.str "base"), keyStr := some "base" },
    /-3 &b-/ { kind := .mapping, isMerge := false, content := [4, 5, 6, 7] },
    /-4-/ { kind := .scalar, isMerge := false, decoded := some (.str "x"), keyStr := some "x" },
    /-5-/ { kind := .scalar, isMerge := false, decoded := some (.int 1), keyStr := some "1" },
    /-6-/ { kind := .scalar, isMerge := false, decoded := some (.str "y"), keyStr := some "y" },
    /-7-/ { kind := .scalar, isMerge := false, decoded := some (.int 2), keyStr := some "2" },
    /-8-/ { kind := .scalar, isMerge := false, decoded := some (.str "m"), keyStr := some "m" },
    /-9 m-/ { kind := .mapping, isMerge := false, content := [10, 11, 6, 12, 13, 14] },
    /-10 <<-/ { kind := .scalar, isMerge := true, decoded := some (.str "<<"), keyStr := some "<<" },
    /-11 *b-/ { kind := .alias, isMerge := false, aliasTo := some 3 },
    /-12-/ { kind := .scalar, isMerge := false, decoded := some (.int 3), keyStr := some "3" },
    /-13-/ { kind := .scalar, isMerge := false, decoded := some (.str "z"), keyStr := some "z" },
    /-14-/ { kind := .scalar, isMerge := false, decoded := some (.int 4), keyStr := some "4" } ]

example : rangeMap exStore (bound exStore) 9 = .ok [("x", 5), ("y", 12), ("z", 14)] := by decide
example : specContent exStore 20 9 = .ok [("x", 5), ("y", 12), ("z", 14)] := by decide

end GoPipeline.Yaml
