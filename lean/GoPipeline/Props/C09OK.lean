/-
  C09 on structurally well-formed step trees — the marshalled normal form is a fixpoint for EVERY well-formed
  typed step tree (parsed, interpolated, or built through the Go API), JSON leg and YAML leg, model level.
  Statements only; the proofs of the named lemmas are in `GoPipeline/Lemmas/FixpointOK.lean`.

  `Props/C09.lean` states the fixpoint for trees that `parseStep` produced.  Here "in the image of the parser"
  is replaced by predicates on the typed tree:

    StepOK ∧ FormOK ∧ Stable ⇒ marshal, re-read, re-parse gives the same normal form
                                  (C09_fixpoint_for_every_well_formed_tree, …_list; YAML: C09_yaml_fixpoint_…)
    the two legs re-parse to the same normal form             (C09_legs_agree_for_every_well_formed_tree)
    parser image ⊆ FormOK, warnings = unknown steps           (C09_parser_image_is_in_marshalled_form)
    FormOK is kept by env interpolation under `TreeFixed`     (C09_interpolation_keeps_marshalled_form)
    parse, interpolate, marshal, re-read, re-parse ⇒ same normal form
                                  (C09_interpolated_normal_form_is_a_fixpoint, …_yaml_fixpoint, …_clean)

  EXTRA HYPOTHESES with respect to C02 on well-formed trees (`Props/C02OK.lean`), each needed (the statement
  without it is false in the model, theorems `C09_form_needed_*`, `C09_unknown_hypothesis_needed`):

  * `FormOK s` (structural, `Lemmas/FixpointOK.lean`): the tree is in the form the marshaller writes it.
      wait sc c / input sc c : the scalar form (`sc ≠ ""`) holds no contents; the mapping form (`sc = ""`)
                               holds contents that are a strictly key-sorted Go map of decoded values
                               (`ContentsOK`), non-empty for a wait step;
      trigger c              : `ContentsOK c`;
      group _ _ (some l) _   : `FormsOK l`, and no unknown step at any depth inside (`NoUnknownList l`);
      command / unknown      : nothing (the command level is `CommandOK`, part of `StepOK`).
    `StepOK` was enough for the SIGNED round trip because there only the command steps of the re-parsed tree
    matter; the fixpoint compares the whole tree, and e.g. `&WaitStep{}` (`.wait "" none`, `StepOK`) is written
    `"wait"` and comes back as `.wait "wait" none`, a different normal form.
  * A TOP-LEVEL unknown step must hold a value that the parser classifies as unknown:
      `hu : ∀ v, s = .unknown v → ∃ w, parseStep f v = .ok (.unknown v, w)`
    (`∀ v, .unknown v ∈ l → …` for lists).  For an unknown step this IS the fixpoint statement (an unknown step
    is written verbatim), so nothing weaker can do; it is vacuous for every other step, it holds in the parser's
    image (`C09_parser_image_unknown_reparses`), and it is NOT kept by interpolation (`"${X}"` ↦ `"wait"`), which
    is why the composed theorem (d) carries it for the interpolated list, or asks for a warning-free parse
    (`…_clean`).

  WARNINGS.  The trees here have no parser input whose warnings could be compared (`w' = w` in
  `C09_step_roundtrip`).  What is proved instead: `w' = [] ↔ NoUnknown s` — the re-parse raises no warning
  exactly when the tree holds no unknown step; a top-level unknown step raises its own warning again.  The
  `…_known` / `…_clean` versions are the statement with `parseStep f (rereadJ j) = .ok (s', [])`.
-/
import GoPipeline.Lemmas.FixpointOK
import GoPipeline.Props.C02Interp   -- the concrete tree `ExampleInterp.*`
namespace GoPipeline.Roundtrip
open GoPipeline GoPipeline.Pipe GoPipeline.Parse GoPipeline.Marshal GoPipeline.SignedRT

/-! ### (a) The JSON leg -/

/-- For EVERY typed step tree that is structurally well-formed and in marshalled form: marshalling, re-reading
    and re-parsing with enough fuel gives a tree with the same normal form; no warning iff no unknown step. -/
theorem C09_fixpoint_for_every_well_formed_tree (s : Step) (hok : StepOK s) (hform : FormOK s)
    (hs : StableStep s) (f : Nat) (hf : stepDepth s ≤ f)
    (hu : ∀ v, s = .unknown v → ∃ w, parseStep f v = .ok (.unknown v, w)) :
    ∃ j s' w', mStep s = .ok j ∧ parseStep f (rereadJ j) = .ok (s', w') ∧ normStep s' = normStep s ∧
      (w' = [] ↔ NoUnknown s) :=
  step_roundtrip_ok s hok hform hs f hf hu

theorem C09_fixpoint_for_every_well_formed_tree_list (l : List Step) (hok : StepsOK l) (hform : FormsOK l)
    (hs : StableSteps l) (f : Nat) (hf : stepsDepth l ≤ f)
    (hu : ∀ v, Step.unknown v ∈ l → ∃ w, parseStep f v = .ok (.unknown v, w)) :
    ∃ js ss' ws', mSteps l = .ok js ∧ parseSteps f (rereadJList js) = .ok (ss', ws') ∧
      normSteps ss' = normSteps l ∧ (ws' = [] ↔ NoUnknownList l) :=
  steps_roundtrip_ok l hok hform hs f hf hu

/-- Without unknown steps: no hypothesis about the parser at all, and the re-parse raises no warning. -/
theorem C09_fixpoint_for_every_well_formed_tree_known (s : Step) (hok : StepOK s) (hform : FormOK s)
    (hs : StableStep s) (f : Nat) (hf : stepDepth s ≤ f) (hnu : NoUnknown s) :
    ∃ j s', mStep s = .ok j ∧ parseStep f (rereadJ j) = .ok (s', []) ∧ normStep s' = normStep s :=
  step_roundtrip_ok_known s hok hform hs f hf hnu

theorem C09_fixpoint_for_every_well_formed_tree_list_known (l : List Step) (hok : StepsOK l)
    (hform : FormsOK l) (hs : StableSteps l) (f : Nat) (hf : stepsDepth l ≤ f) (hnu : NoUnknownList l) :
    ∃ js ss', mSteps l = .ok js ∧ parseSteps f (rereadJList js) = .ok (ss', []) ∧ normSteps ss' = normSteps l :=
  steps_roundtrip_ok_known l hok hform hs f hf hnu

/-! ### (b) The YAML leg -/

/-- The same on the YAML leg: every such tree can be written as YAML (no inline key collides with a declared
    field), and the re-parse has the same normal form.  `StableStepY` asks less than `StableStep` (F11 is a
    JSON-only loss). -/
theorem C09_yaml_fixpoint_for_every_well_formed_tree (s : Step) (hok : StepOK s) (hform : FormOK s)
    (hs : StableStepY s) (f : Nat) (hf : stepDepth s ≤ f)
    (hu : ∀ v, s = .unknown v → ∃ w, parseStep f v = .ok (.unknown v, w)) :
    ∃ j s' w', MarshalY.yStep s = .ok j ∧ parseStep f (rereadJ j) = .ok (s', w') ∧ normStep s' = normStep s ∧
      (w' = [] ↔ NoUnknown s) :=
  step_roundtripY_ok s hok hform hs f hf hu

theorem C09_yaml_fixpoint_for_every_well_formed_tree_list (l : List Step) (hok : StepsOK l)
    (hform : FormsOK l) (hs : StableStepsY l) (f : Nat) (hf : stepsDepth l ≤ f)
    (hu : ∀ v, Step.unknown v ∈ l → ∃ w, parseStep f v = .ok (.unknown v, w)) :
    ∃ js ss' ws', MarshalY.ySteps l = .ok js ∧ parseSteps f (rereadJList js) = .ok (ss', ws') ∧
      normSteps ss' = normSteps l ∧ (ws' = [] ↔ NoUnknownList l) :=
  steps_roundtripY_ok l hok hform hs f hf hu

theorem C09_yaml_fixpoint_for_every_well_formed_tree_known (s : Step) (hok : StepOK s) (hform : FormOK s)
    (hs : StableStepY s) (f : Nat) (hf : stepDepth s ≤ f) (hnu : NoUnknown s) :
    ∃ j s', MarshalY.yStep s = .ok j ∧ parseStep f (rereadJ j) = .ok (s', []) ∧ normStep s' = normStep s :=
  step_roundtripY_ok_known s hok hform hs f hf hnu

theorem C09_yaml_fixpoint_for_every_well_formed_tree_list_known (l : List Step) (hok : StepsOK l)
    (hform : FormsOK l) (hs : StableStepsY l) (f : Nat) (hf : stepsDepth l ≤ f) (hnu : NoUnknownList l) :
    ∃ js ss', MarshalY.ySteps l = .ok js ∧ parseSteps f (rereadJList js) = .ok (ss', []) ∧
      normSteps ss' = normSteps l :=
  steps_roundtripY_ok_known l hok hform hs f hf hnu

/-! ### (c) The two legs agree -/

/-- Both output formats of a well-formed tree re-parse to trees with the same normal form, with the same
    warnings (the JSON side conditions imply the YAML ones). -/
theorem C09_legs_agree_for_every_well_formed_tree (s : Step) (hok : StepOK s) (hform : FormOK s)
    (hs : StableStep s) (f : Nat) (hf : stepDepth s ≤ f)
    (hu : ∀ v, s = .unknown v → ∃ w, parseStep f v = .ok (.unknown v, w)) :
    ∃ jJ jY sJ sY wJ wY, mStep s = .ok jJ ∧ MarshalY.yStep s = .ok jY ∧
      parseStep f (rereadJ jJ) = .ok (sJ, wJ) ∧ parseStep f (rereadJ jY) = .ok (sY, wY) ∧
      normStep sJ = normStep sY ∧ wJ = wY :=
  legs_agree_ok s hok hform hs f hf hu

theorem C09_legs_agree_for_every_well_formed_tree_list (l : List Step) (hok : StepsOK l) (hform : FormsOK l)
    (hs : StableSteps l) (f : Nat) (hf : stepsDepth l ≤ f)
    (hu : ∀ v, Step.unknown v ∈ l → ∃ w, parseStep f v = .ok (.unknown v, w)) :
    ∃ jsJ jsY ssJ ssY wsJ wsY, mSteps l = .ok jsJ ∧ MarshalY.ySteps l = .ok jsY ∧
      parseSteps f (rereadJList jsJ) = .ok (ssJ, wsJ) ∧ parseSteps f (rereadJList jsY) = .ok (ssY, wsY) ∧
      normSteps ssJ = normSteps ssY :=
  legs_agree_list_ok l hok hform hs f hf hu

/-! ### Where the extra hypotheses come from -/

/-- The parser's image is in marshalled form; the parse raised no warning exactly when the step holds no
    unknown step; an unknown step holds the parsed value itself. -/
theorem C09_parser_image_is_in_marshalled_form (f : Nat) (x : Val) (s : Step) (w : List Warn) (hx : NoUMap x)
    (h : parseStep f x = .ok (s, w)) :
    FormOK s ∧ (w = [] ↔ NoUnknown s) ∧ ∀ v, s = .unknown v → v = x :=
  parseStep_formOK f x s w hx h

theorem C09_parser_image_is_in_marshalled_form_list (f : Nat) (xs : List Val) (ss : List Step)
    (ws : List Warn) (hx : NoUMapList xs) (h : parseSteps f xs = .ok (ss, ws)) :
    FormsOK ss ∧ (ws = [] ↔ NoUnknownList ss) :=
  parseSteps_formsOK f xs ss ws hx h

/-- The hypothesis on top-level unknown steps holds in the parser's image. -/
theorem C09_parser_image_unknown_reparses (f : Nat) (x : Val) (s : Step) (w : List Warn) (hx : NoUMap x)
    (h : parseStep f x = .ok (s, w)) : ∀ v, s = .unknown v → ∃ w', parseStep f v = .ok (.unknown v, w') :=
  parseStep_unknown_reparses f x s w hx h

/-- Env interpolation with a `TreeFixed` transformer keeps a well-formed tree in marshalled form ... -/
theorem C09_interpolation_keeps_marshalled_form {E : Type} (tf : String → Except E String) (s s₁ : Step)
    (hok : StepOK s) (hform : FormOK s) (h : Interp.interpStep .env tf s = .ok s₁) (hfix : TreeFixed tf s) :
    FormOK s₁ :=
  interpStep_formOK tf s s₁ hok hform h hfix

theorem C09_interpolation_keeps_marshalled_form_list {E : Type} (tf : String → Except E String)
    (l l₁ : List Step) (hok : StepsOK l) (hform : FormsOK l) (h : Interp.interpSteps .env tf l = .ok l₁)
    (hfix : TreesFixed tf l) : FormsOK l₁ :=
  interpSteps_formsOK tf l l₁ hok hform h hfix

/-- ... and no interpolation (env or matrix, any transformer) creates an unknown step. -/
theorem C09_interpolation_creates_no_unknown_step {E : Type} (kind : Interp.TfKind)
    (tf : String → Except E String) (s s₁ : Step) (h : Interp.interpStep kind tf s = .ok s₁)
    (hnu : NoUnknown s) : NoUnknown s₁ :=
  interpStep_noUnknown kind tf s s₁ h hnu

/-! ### (d) Parse, interpolate, marshal, re-read, re-parse -/

/-- The interpolated pipeline's normal form is a fixpoint too: steps parsed from a decoded document,
    interpolated with a transformer that is `TreesFixed` for them, marshalled, re-read and re-parsed with the
    same fuel give the same normal form.  `hu`: the top-level unknown steps of the INTERPOLATED list still hold
    values the parser classifies as unknown (needed: `C09_unknown_hypothesis_needed`). -/
theorem C09_interpolated_normal_form_is_a_fixpoint {E : Type} (f : Nat) (xs : List Val) (l l₁ : List Step)
    (ws : List Warn) (hx : NoUMapList xs) (hd : KeysNodupList xs) (h : parseSteps f xs = .ok (l, ws))
    (tf : String → Except E String) (hi : Interp.interpSteps .env tf l = .ok l₁) (hfix : TreesFixed tf l)
    (hs : StableSteps l₁)
    (hu : ∀ v, Step.unknown v ∈ l₁ → ∃ w, parseStep f v = .ok (.unknown v, w)) :
    ∃ js ss' ws', mSteps l₁ = .ok js ∧ parseSteps f (rereadJList js) = .ok (ss', ws') ∧
      normSteps ss' = normSteps l₁ ∧ (ws' = [] ↔ NoUnknownList l₁) :=
  interp_then_fixpoint f xs l l₁ ws hx hd h tf hi hfix hs hu

/-- The YAML twin. -/
theorem C09_interpolated_normal_form_is_a_yaml_fixpoint {E : Type} (f : Nat) (xs : List Val)
    (l l₁ : List Step) (ws : List Warn) (hx : NoUMapList xs) (hd : KeysNodupList xs)
    (h : parseSteps f xs = .ok (l, ws))
    (tf : String → Except E String) (hi : Interp.interpSteps .env tf l = .ok l₁) (hfix : TreesFixed tf l)
    (hs : StableStepsY l₁)
    (hu : ∀ v, Step.unknown v ∈ l₁ → ∃ w, parseStep f v = .ok (.unknown v, w)) :
    ∃ js ss' ws', MarshalY.ySteps l₁ = .ok js ∧ parseSteps f (rereadJList js) = .ok (ss', ws') ∧
      normSteps ss' = normSteps l₁ ∧ (ws' = [] ↔ NoUnknownList l₁) :=
  interp_then_fixpointY f xs l l₁ ws hx hd h tf hi hfix hs hu

/-- For a document that parsed WITHOUT WARNINGS nothing is asked about unknown steps (there are none, before
    and after interpolation), and the re-parse raises no warning either. -/
theorem C09_interpolated_normal_form_is_a_fixpoint_clean {E : Type} (f : Nat) (xs : List Val)
    (l l₁ : List Step) (hx : NoUMapList xs) (hd : KeysNodupList xs) (h : parseSteps f xs = .ok (l, []))
    (tf : String → Except E String) (hi : Interp.interpSteps .env tf l = .ok l₁) (hfix : TreesFixed tf l)
    (hs : StableSteps l₁) :
    ∃ js ss', mSteps l₁ = .ok js ∧ parseSteps f (rereadJList js) = .ok (ss', []) ∧
      normSteps ss' = normSteps l₁ :=
  interp_then_fixpoint_clean f xs l l₁ hx hd h tf hi hfix hs

theorem C09_interpolated_normal_form_is_a_yaml_fixpoint_clean {E : Type} (f : Nat) (xs : List Val)
    (l l₁ : List Step) (hx : NoUMapList xs) (hd : KeysNodupList xs) (h : parseSteps f xs = .ok (l, []))
    (tf : String → Except E String) (hi : Interp.interpSteps .env tf l = .ok l₁) (hfix : TreesFixed tf l)
    (hs : StableStepsY l₁) :
    ∃ js ss', MarshalY.ySteps l₁ = .ok js ∧ parseSteps f (rereadJList js) = .ok (ss', []) ∧
      normSteps ss' = normSteps l₁ :=
  interp_then_fixpointY_clean f xs l l₁ hx hd h tf hi hfix hs

/-! ### The extra hypotheses cannot be dropped

  Each tree below is `StepOK` and `StableStep`; the theorem gives the marshalled value, its re-parse (for every
  fuel that covers the tree) and the fact that the normal forms differ. -/

/-- `&WaitStep{}`: written `"wait"`, re-parsed with that scalar (the scalar is part of the normal form). -/
theorem C09_form_needed_empty_wait :
    let s : Step := .wait "" none
    StepOK s ∧ StableStep s ∧ ¬ FormOK s ∧ mStep s = .ok (.str "wait") ∧ MarshalY.yStep s = .ok (.str "wait") ∧
      (∀ f, parseStep (f + 1) (rereadJ (.str "wait")) = .ok (.wait "wait" none, [])) ∧
      normStep (.wait "wait" none) ≠ normStep s :=
  wait_empty_counterexample

/-- A scalar AND contents: written as the scalar, the contents are lost. -/
theorem C09_form_needed_scalar_with_contents :
    let s : Step := .wait "wait" (some [("a", .null)])
    StepOK s ∧ StableStep s ∧ ¬ FormOK s ∧ mStep s = .ok (.str "wait") ∧ MarshalY.yStep s = .ok (.str "wait") ∧
      (∀ f, parseStep (f + 1) (rereadJ (.str "wait")) = .ok (.wait "wait" none, [])) ∧
      normStep (.wait "wait" none) ≠ normStep s :=
  wait_scalar_contents_counterexample

/-- An unsorted list as the representation of the contents Go map (no real Go map marshals in this order). -/
theorem C09_form_needed_sorted_contents :
    let s : Step := .wait "" (some [("wait", .null), ("a", .null)])
    let j : Val := .umap [("wait", .null), ("a", .null)]
    let s' : Step := .wait "" (some [("a", .null), ("wait", .null)])
    StepOK s ∧ StableStep s ∧ ¬ FormOK s ∧ mStep s = .ok j ∧ MarshalY.yStep s = .ok j ∧
      (∀ f, parseStep (f + 1) (rereadJ j) = .ok (s', [])) ∧ normStep s' ≠ normStep s :=
  wait_unsorted_counterexample

/-- A Go map inside the contents comes back as an ordered mapping. -/
theorem C09_form_needed_decoded_contents :
    let s : Step := .trigger (some [("trigger", .umap [])])
    let j : Val := .umap [("trigger", .umap [])]
    let s' : Step := .trigger (some [("trigger", .omap [])])
    StepOK s ∧ StableStep s ∧ ¬ FormOK s ∧ mStep s = .ok j ∧ MarshalY.yStep s = .ok j ∧
      (∀ f, parseStep (f + 1) (rereadJ j) = .ok (s', [])) ∧ normStep s' ≠ normStep s :=
  trigger_gomap_counterexample

/-- An unknown step inside a group: the nested warning is refused, the whole group falls back to an unknown
    step. -/
theorem C09_form_needed_no_unknown_in_group :
    let s : Step := .group "" none (some [.unknown (.str "foo")]) none
    let j : Val := .umap [("group", .null), ("steps", .seq [.str "foo"])]
    let m : Unm.Entries := [("group", .null), ("steps", .seq [.str "foo"])]
    StepOK s ∧ StableStep s ∧ FormsOK [.unknown (.str "foo")] ∧ ¬ FormOK s ∧ mStep s = .ok j ∧
      MarshalY.yStep s = .ok j ∧
      (∀ f, parseStep (f + 2) (rereadJ j) = .ok (.unknown (.omap m), [.fellBack])) ∧
      normStep (.unknown (.omap m)) ≠ normStep s :=
  group_unknown_counterexample

/-- A top-level unknown step built through the API may hold anything: `null` is refused by the re-parse (a
    hard error), `"wait"` comes back as a wait step. -/
theorem C09_unknown_hypothesis_needed_api :
    (StepOK (.unknown .null) ∧ StableStep (.unknown .null) ∧ mStep (.unknown .null) = .ok .null ∧
      ∀ f, parseStep (f + 1) (rereadJ .null) = .error .badStepEntry) ∧
    (StepOK (.unknown (.str "wait")) ∧ StableStep (.unknown (.str "wait")) ∧
      mStep (.unknown (.str "wait")) = .ok (.str "wait") ∧
      (∀ f, parseStep (f + 1) (rereadJ (.str "wait")) = .ok (.wait "wait" none, [])) ∧
      normStep (.wait "wait" none) ≠ normStep (.unknown (.str "wait"))) :=
  unknown_counterexample

/-- (d) without `hu`: the document `["${X}"]` parses (one warning) to an unknown step, every transformer is
    `TreesFixed` for it, interpolation rewrites it to `"wait"`, which re-parses as a wait step. -/
theorem C09_unknown_hypothesis_needed :
    let tf : String → Except Unit String := fun s => .ok (if s = "${X}" then "wait" else s)
    let xs : List Val := [.str "${X}"]
    let l : List Step := [.unknown (.str "${X}")]
    let l₁ : List Step := [.unknown (.str "wait")]
    NoUMapList xs ∧ KeysNodupList xs ∧ parseSteps 1 xs = .ok (l, [.unknownType]) ∧
      Interp.interpSteps .env tf l = .ok l₁ ∧ TreesFixed tf l ∧ StableSteps l₁ ∧
      mSteps l₁ = .ok [.str "wait"] ∧ MarshalY.ySteps l₁ = .ok [.str "wait"] ∧
      parseSteps 1 (rereadJList [.str "wait"]) = .ok ([.wait "wait" none], []) ∧
      normSteps [.wait "wait" none] ≠ normSteps l₁ :=
  interp_unknown_counterexample

/-! ### Non-vacuity -/

section NonVacuity
open GoPipeline.SignedRT.Example GoPipeline.SignedRT.ExampleOK GoPipeline.SignedRT.ExampleInterp

/-- All hypotheses of (d) are jointly satisfiable on the tree of `Props/C02Interp.lean` (a group holding a
    command step with plugins / env / matrix / cache and a mapping-form wait step, then a scalar wait step),
    with a transformer that really rewrites strings; the list has no unknown step, so `hu` is vacuous and the
    re-parse raises no warning. -/
example : ∃ js ss', mSteps l1Ex = .ok js ∧ parseSteps 2 (rereadJList js) = .ok (ss', []) ∧
    normSteps ss' = normSteps l1Ex := by
  obtain ⟨js, ss', ws', h1, h2, h3, h4⟩ := C09_interpolated_normal_form_is_a_fixpoint 2 xsEx lEx l1Ex []
    noUMap_xsEx keysNodup_xsEx parse_xsEx tfEx interp_lEx treesFixed_ex stable_l1Ex
    (by intro v hv; simp [l1Ex] at hv)
  have hnu : NoUnknownList l1Ex := by simp [l1Ex, NoUnknownList, NoUnknown, wait1Ex]
  rw [h4.2 hnu] at h2
  exact ⟨js, ss', h1, h2, h3⟩

/-- The same through the warning-free version, and on the YAML leg. -/
example : ∃ js ss', mSteps l1Ex = .ok js ∧ parseSteps 2 (rereadJList js) = .ok (ss', []) ∧
    normSteps ss' = normSteps l1Ex :=
  C09_interpolated_normal_form_is_a_fixpoint_clean 2 xsEx lEx l1Ex noUMap_xsEx keysNodup_xsEx parse_xsEx tfEx
    interp_lEx treesFixed_ex stable_l1Ex

example : ∃ js ss', MarshalY.ySteps l1Ex = .ok js ∧ parseSteps 2 (rereadJList js) = .ok (ss', []) ∧
    normSteps ss' = normSteps l1Ex :=
  C09_interpolated_normal_form_is_a_yaml_fixpoint_clean 2 xsEx lEx l1Ex noUMap_xsEx keysNodup_xsEx parse_xsEx tfEx
    interp_lEx treesFixed_ex (stableStepsY_of _ stable_l1Ex)

/-- The interpolated tree is well-formed, in marshalled form, of depth 2 (the hypotheses of (a) / (b) / (c) hold
    for it), and the two legs agree on it. -/
example : StepsOK l1Ex ∧ FormsOK l1Ex ∧ stepsDepth l1Ex ≤ 2 ∧ NoUnknownList l1Ex := by
  obtain ⟨h1, h2, h3, h4⟩ := parse_then_interp_form 2 xsEx lEx l1Ex [] noUMap_xsEx keysNodup_xsEx parse_xsEx tfEx
    interp_lEx treesFixed_ex
  exact ⟨h1, h2, h3, h4 rfl⟩

/-- `hu` is satisfiable by a genuine unknown step, and then the re-parse does raise the warning again. -/
example : ∃ j s' w', mStep (.unknown (.str "deploy")) = .ok j ∧ parseStep 1 (rereadJ j) = .ok (s', w') ∧
    normStep s' = normStep (.unknown (.str "deploy")) ∧ w' ≠ [] := by
  have hp : parseStep 1 (.str "deploy") = .ok (.unknown (.str "deploy"), [.unknownType]) := by
    rw [parseStep.eq_2]
    have : StepKind.selectScalar Gen.scalarTable "deploy" = .unknownType := by decide
    rw [this]
  obtain ⟨j, s', w', h1, h2, h3, h4⟩ := C09_fixpoint_for_every_well_formed_tree (.unknown (.str "deploy"))
    (by simp [StepOK, NoUMap]) (by simp [FormOK]) (by simp [StableStep, JStable]) 1 (by simp [stepDepth])
    (fun v hv => by cases hv; exact ⟨_, hp⟩)
  exact ⟨j, s', w', h1, h2, h3, fun hw => noUnknown_unknown _ (h4.1 hw)⟩

end NonVacuity

end GoPipeline.Roundtrip
