/-
  Composition: from the YAML node graph to the round trip.
  The parse-side theorems (C03, C08, C09, C02) take a decoded document `v` with hypotheses `NoUMap v`
  (mappings are ordered maps only) and `KeysNodup v` (every mapping has distinct keys). This file shows that
  every value `ordered.DecodeYAML` returns — in the graph model of C07 — satisfies both, and restates the
  fixpoint theorems with the node graph as the only input. Proofs are in `Lemmas/EndToEnd.lean`.

  `ScalarStore s`: every scalar the parser decoded is a scalar (the harness supplies `decoded` from
  `yaml.Node.Decode`, which yields null / bool / int / float / string / time for scalar nodes).
-/
import GoPipeline.Lemmas.EndToEnd
import GoPipeline.Lemmas.MarshalYTotal
import GoPipeline.Props.C07   -- `Yaml.exStore` (non-vacuity example at the end)
namespace GoPipeline.EndToEnd
open GoPipeline GoPipeline.Pipe GoPipeline.Parse GoPipeline.Marshal GoPipeline.Roundtrip

/-- What `DecodeYAML` returns is a tree of scalars, sequences and ordered mappings with distinct keys. -/
theorem C07_decoded_tree_shape (s : Yaml.Store) (root : Nat) (v : Val) (hs : ScalarStore s)
    (h : Yaml.decodeYAML s root = .ok v) : NoUMap v ∧ KeysNodup v :=
  decoded_tree_shape s root v hs h

/-- C09 from the node graph: decode, parse, marshal to JSON, re-read, parse — same normal form. -/
theorem C09_document_json_fixpoint (s : Yaml.Store) (root : Nat) (v : Val) (p : Pipeline) (ws : List Warn)
    (hs : ScalarStore s) (hdec : Yaml.decodeYAML s root = .ok v) (hp : parsePipeline v = .ok (p, ws))
    (hst : StablePipeline p) :
    ∃ j p' ws', mPipeline p = .ok j ∧ parsePipeline (rereadJ j) = .ok (p', ws') ∧ normPipeline p' = normPipeline p :=
  document_json_fixpoint s root v p ws hs hdec hp hst

/-- …and through the YAML form. -/
theorem C09_document_yaml_fixpoint (s : Yaml.Store) (root : Nat) (v : Val) (p : Pipeline) (ws : List Warn)
    (hs : ScalarStore s) (hdec : Yaml.decodeYAML s root = .ok v) (hp : parsePipeline v = .ok (p, ws))
    (hst : StablePipelineY p) :
    ∃ j p' ws', MarshalY.yPipeline p = .ok j ∧ parsePipeline (rereadJ j) = .ok (p', ws') ∧ normPipeline p' = normPipeline p :=
  document_yaml_fixpoint s root v p ws hs hdec hp hst

/-- C02 from the node graph: decode, parse, SignSteps, marshal, re-read, parse — every command step of the
    result carries a verifying signature. -/
theorem C02_document_signed_roundtrip (S : Signing.SigScheme) (render : S.Sig → String)
    (parseSig : String → Option S.Sig) (hrender : ∀ x, parseSig (render x) = some x)
    (s : Yaml.Store) (root : Nat) (v : Val) (p : Pipeline) (ws : List Warn)
    (hs : ScalarStore s) (hdec : Yaml.decodeYAML s root = .ok v) (hp : parsePipeline v = .ok (p, ws))
    (hst : StablePipeline p)
    (k : S.Key) (alg repo : String) (env₁ : List (String × String))
    (henv : SignedRT.EnvExtends (p.env.getD []) env₁)
    (signed : List Step) (hsign : Signing.signSteps S render k alg repo (p.env.getD []) (p.steps.getD []) = .ok signed) :
    ∃ j p' ws', mPipeline { p with steps := some signed } = .ok j ∧ parsePipeline (rereadJ j) = .ok (p', ws') ∧
      SignedRT.VerifiesAllList S parseSig (S.pubOf k) repo env₁ (p'.steps.getD []) :=
  document_signed_roundtrip S render parseSig hrender s root v p ws hs hdec hp hst k alg repo env₁ henv signed hsign

/-- C13 from the node graph: whatever the graph decodes to, parsing is total on it and a usable result has
    a non-nil step list that marshals. -/
theorem C13_document_usable (s : Yaml.Store) (root : Nat) (v : Val) (p : Pipeline) (ws : List Warn)
    (_hdec : Yaml.decodeYAML s root = .ok v) (hp : parsePipeline v = .ok (p, ws)) :
    p.steps.isSome = true ∧ ∃ j, mPipeline p = .ok j :=
  document_usable v p ws hp

/-- C13, YAML leg: the value tree handed to `yaml.Marshal` exists for every parsed pipeline — no side condition:
    no inline key of a parsed struct collides with a declared field key (yaml.v3 panics on that), no input
    step is empty. (That the emitter can write every such tree is outside the model: finding F20.) -/
theorem C13_yaml_marshal_succeeds (v : Val) (p : Pipeline) (ws : List Warn) (hv : NoUMap v) (hd : KeysNodup v)
    (hp : parsePipeline v = .ok (p, ws)) : ∃ j, MarshalY.yPipeline p = .ok j :=
  yaml_marshal_total v p ws hv hd hp

/-- …from the node graph. -/
theorem C13_document_yaml_usable (s : Yaml.Store) (root : Nat) (v : Val) (p : Pipeline) (ws : List Warn)
    (hs : ScalarStore s) (hdec : Yaml.decodeYAML s root = .ok v) (hp : parsePipeline v = .ok (p, ws)) :
    p.steps.isSome = true ∧ (∃ j, mPipeline p = .ok j) ∧ ∃ j, MarshalY.yPipeline p = .ok j :=
  have hshape := decoded_tree_shape s root v hs hdec
  ⟨(document_usable v p ws hp).1, (document_usable v p ws hp).2, yaml_marshal_total v p ws hshape.1 hshape.2 hp⟩

/-! ### Non-vacuity

  `decode` is structurally recursive on its fuel, so `decodeYAML` evaluates in the kernel (`rfl`);
  `ScalarStore` is decidable (`scalarStoreB`). -/

/-- The merge/alias document of C07 (`base: &b {x: 1, y: 2}`, `m: {<<: *b, y: 3, z: 4}`). -/
example : ScalarStore Yaml.exStore := by decide
example : Yaml.decodeYAML Yaml.exStore 0 =
    .ok (.omap [("base", .omap [("x", .int 1), ("y", .int 2)]),
                ("m", .omap [("x", .int 1), ("y", .int 3), ("z", .int 4)])]) := by rfl

/-- The node graph of the document `steps: [wait]`. -/
def waitStore : Yaml.Store :=
  [ /-0 doc-/ { kind := .document, isMerge := false, content := [1] },
    /-1 top-/ { kind := .mapping, isMerge := false, content := [2, 3] },
    /-2-/ { kind := .scalar, isMerge := false, decoded := some (.str "steps"), keyStr := some "steps" },
    /-3-/ { kind := .sequence, isMerge := false, content := [4] },
    /-4-/ { kind := .scalar, isMerge := false, decoded := some (.str "wait"), keyStr := some "wait" } ]

def waitPipeline : Pipeline := { steps := some [.wait "wait" none], env := none, rem := none }

theorem waitStore_scalar : ScalarStore waitStore := by decide

theorem waitStore_decodes : Yaml.decodeYAML waitStore 0 = .ok (.omap [("steps", .seq [.str "wait"])]) := by rfl

theorem waitStore_parses : parsePipeline (.omap [("steps", .seq [.str "wait"])]) = .ok (waitPipeline, []) := by
  -- `parseStep`/`parseSteps` are compiled by well-founded recursion: evaluate through equation lemmas.
  have h1 : parseStep stepFuel (.str "wait") = .ok (.wait "wait" none, []) := by
    rw [stepFuel_succ, parseStep.eq_2]; rfl
  have hs : parseSteps stepFuel [.str "wait"] = .ok ([.wait "wait" none], []) := by
    rw [parseSteps.eq_2, h1, parseSteps.eq_1]; rfl
  unfold parsePipeline
  simp only [fieldOf_pipeline_steps]
  rw [show List.lookup "steps" [("steps", Val.seq [.str "wait"])] = some (Val.seq [.str "wait"]) from rfl]
  simp only [hs]
  rfl

theorem waitPipeline_stable : StablePipeline waitPipeline := by
  refine ⟨?_, ?_⟩
  · intro l hl
    simp only [waitPipeline, Option.some.injEq] at hl
    subst hl
    simp [StableSteps, StableStep, StableUMap, JStableKVs]
  · simp [waitPipeline, StableUMap, JStableKVs]

/-- All hypotheses of the composed fixpoint theorem hold together on a concrete node graph. -/
example : ∃ j p' ws', mPipeline waitPipeline = .ok j ∧ parsePipeline (rereadJ j) = .ok (p', ws') ∧
    normPipeline p' = normPipeline waitPipeline :=
  C09_document_json_fixpoint waitStore 0 _ waitPipeline [] waitStore_scalar waitStore_decodes waitStore_parses
    waitPipeline_stable

end GoPipeline.EndToEnd
