/-
  C06 — signing a step list signs every command step at every depth, or refuses.
  Statements only; proofs of the named lemmas are in `GoPipeline/Lemmas/Signing.lean`.
-/
import GoPipeline.Lemmas.Signing
namespace GoPipeline.Signing
open GoPipeline GoPipeline.Pipe GoPipeline.Marshal

variable (S : SigScheme) (render : S.Sig → String)

/-- A step of unknown kind anywhere in the list (any position, any depth) ⇒ error; and conversely
    success ⇒ no unknown step anywhere. -/
theorem C06_refuses_iff_unknown (key : S.Key) (alg repo : String) (penv : List (String × String)) (l : List Step) :
    (∃ l', signSteps S render key alg repo penv l = .ok l') ↔ hasUnknownList l = false :=
  refuses_iff_unknown S render key alg repo penv l

/-- Signing changes nothing in the steps other than attaching signatures. -/
theorem C06_only_signatures_change (key : S.Key) (alg repo : String) (penv : List (String × String))
    (l l' : List Step) (h : signSteps S render key alg repo penv l = .ok l') :
    eraseSigs l' = eraseSigs l := only_signatures_change S render key alg repo penv l l' h

/-- Every command step at every depth of the result carries the signature `sign` makes for it:
    the key's algorithm name, and as signed-field list exactly the five mandatory fields plus one
    `env::NAME` per pipeline env variable not shadowed by that step's own env, sorted. -/
theorem C06_every_command_signed (key : S.Key) (alg repo : String) (penv : List (String × String))
    (l l' : List Step) (h : signSteps S render key alg repo penv l = .ok l') :
    List.Forall₂ (fun c c' =>
        c' = attach S render (sign S key alg c repo penv) c ∧
        (∃ s, c'.signature = some s ∧ s.algorithm = alg ∧
              s.signedFields = some (sortStrs ((signValues c repo penv).map (·.1)))))
      (commandsOfList l) (commandsOfList l') := every_command_signed S render key alg repo penv l l' h

/-- The signed-field list, spelled out: mandatory fields and `env::NAME` for each unshadowed variable
    (as a set; `sortStrs` orders it). -/
theorem C06_field_list (c : CommandStep) (repo : String) (penv : List (String × String)) (f : String) :
    f ∈ (signValues c repo penv).map (·.1) ↔
      f ∈ mandatoryFields ∨ ∃ name v, (name, v) ∈ penv ∧ name ∉ objEnvNames (Marshal.umapOf (signedFields c repo)) c ∧
        f = envNamespacePrefix ++ name := field_list c repo penv f

/-- The shadowing set is the step's own env names (when it has any). -/
theorem C06_shadow_set (c : CommandStep) (repo : String) :
    objEnvNames (Marshal.umapOf (signedFields c repo)) c =
      (match c.env with | some (e :: es) => (e :: es).map (·.1) | _ => []) := shadow_set c repo

/-- Each attached signature verifies (with the matching public key, the same repository URL, and any
    env agreeing with the pipeline env on unshadowed names). -/
theorem C06_signatures_verify (key : S.Key) (alg repo : String) (penv env₁ : List (String × String))
    (hp : (penv.map (·.1)).Nodup) (hp₁ : (env₁.map (·.1)).Nodup) (c : CommandStep)
    (hsub : ∀ name v, (name, v) ∈ penv → name ∉ (c.env.getD []).map (·.1) → env₁.lookup name = some v) :
    verify S (sign S key alg c repo penv) (S.pubOf key) c repo env₁ = .ok () :=
  complete S key alg c repo penv env₁ hp hp₁ hsub

/-- Wait, input and trigger steps are left untouched. -/
theorem C06_other_kinds_untouched (key : S.Key) (alg repo : String) (penv : List (String × String)) (s : Step)
    (h : ∀ c, s ≠ .command c) (hg : ∀ k g ss r, s ≠ .group k g ss r) (hu : ∀ v, s ≠ .unknown v) :
    signStep S render key alg repo penv s = .ok s := other_kinds_untouched S render key alg repo penv s h hg hu

end GoPipeline.Signing
