/-
  C11 — matrix permutation validation equals the matrix specification.
  Statements only; proofs of the named lemmas are in `GoPipeline/Lemmas/MatrixValidate.lean`.
-/
import GoPipeline.Lemmas.MatrixValidate
namespace GoPipeline.MatrixV

/-- Accepted exactly when the specification accepts, for all matrices and permutations
    (Go maps as entry lists in any order with distinct keys). -/
theorem C11_validate_iff (m : Option Matrix) (p : List (String × String)) (wf : WF m p) :
    validate m p = .ok () ↔ accept m p := validate_iff m p wf

/-- No matrix: only the empty permutation is accepted. -/
theorem C11_nil_matrix (p : List (String × String)) : validate none p = .ok () ↔ p = [] :=
  validate_none_iff p

/-- The verdict does not depend on any Go map iteration order: permuting the entries of the
    permutation, of the setup, and of every adjustment tuple leaves acceptance unchanged
    (only *which* error is reported may differ). -/
theorem C11_order_independent (m m' : Matrix) (p p' : List (String × String))
    (wf : WF (some m) p)
    (hp : p'.Perm p) (hs : m'.setup.Perm m.setup)
    (ha : List.Forall₂ (fun x' x => match x', x with
            | some a', some a => a'.with_.Perm a.with_ ∧ a'.skip = a.skip
            | none, none => True
            | _, _ => False) m'.adjustments m.adjustments) :
    validate (some m') p' = .ok () ↔ validate (some m) p = .ok () :=
  validate_perm m m' p p' wf hp hs ha

/-- `ShouldSkip`: absent or false ⇒ no; true, any string or any other value ⇒ yes. -/
theorem C11_shouldSkip_table :
    shouldSkip .absent = false ∧ shouldSkip (.bool false) = false ∧
    shouldSkip (.bool true) = true ∧ shouldSkip .other = true := by decide

/-- A malformed adjustment (wrong set of dimensions) makes every permutation be rejected. -/
theorem C11_malformed_adjustment_rejects (m : Matrix) (p : List (String × String)) (wf : WF (some m) p)
    (a : Adj) (ha : some a ∈ m.adjustments) (hbad : ¬ adjWellFormed m a) :
    validate (some m) p ≠ .ok () := by
  intro h
  have := (validate_iff (some m) p wf).mp h
  obtain ⟨a', ha', hw⟩ := this.2.1 (some a) ha
  cases ha'
  exact hbad hw

/-- A null entry in the adjustments list makes every permutation be rejected (and nothing panics:
    `validate` is a total function). -/
theorem C11_null_adjustment_rejects (m : Matrix) (p : List (String × String)) (wf : WF (some m) p)
    (ha : none ∈ m.adjustments) : validate (some m) p ≠ .ok () := by
  intro h
  have := (validate_iff (some m) p wf).mp h
  obtain ⟨a', ha', _⟩ := this.2.1 none ha
  cases ha'

/-- A permutation equal to the tuple of an adjustment marked skip is rejected, even if it is
    also a combination of setup values or matches another, non-skipped adjustment. -/
theorem C11_skip_rejects (m : Matrix) (p : List (String × String)) (wf : WF (some m) p)
    (a : Adj) (ha : some a ∈ m.adjustments) (heq : adjEquals a p) (hskip : shouldSkip a.skip = true) :
    validate (some m) p ≠ .ok () := by
  intro h
  have := (validate_iff (some m) p wf).mp h
  have := this.2.2.2 a ha heq
  simp [hskip] at this

/-- A rejected permutation leaves the step unmodified. -/
theorem C11_rejected_unchanged {S E : Type} (interp : List (String × String) → S → S × Option E)
    (m : Option Matrix) (p : List (String × String)) (s : S) (e : Err) (h : validate m p = .error e) :
    interpolateMatrixPermutation interp m p s = (s, some (.inl e)) := by
  simp [interpolateMatrixPermutation, h]

/-- The empty permutation changes nothing. -/
theorem C11_empty_perm_unchanged {S E : Type} (interp : List (String × String) → S → S × Option E)
    (m : Option Matrix) (s : S) : (interpolateMatrixPermutation interp m [] s).1 = s := by
  unfold interpolateMatrixPermutation
  split <;> simp

/-- Interpolation only runs for an accepted, non-empty permutation. -/
theorem C11_interp_only_if_accepted {S E : Type} (interp : List (String × String) → S → S × Option E)
    (m : Option Matrix) (p : List (String × String)) (s : S) (wf : WF m p)
    (h : (interpolateMatrixPermutation interp m p s).1 ≠ s) : accept m p ∧ p ≠ [] :=
  interp_only_if_accepted interp m p s wf h

/-! Non-vacuity: a two-dimension matrix with an adjustment adding a new value and a skip. -/
def exM : Matrix :=
  { setup := [("os", some ["linux", "mac"]), ("arch", some ["arm", "x86"])],
    adjustments := [ some { with_ := [("os", "windows"), ("arch", "x86")], skip := .absent },
                     some { with_ := [("arch", "arm"), ("os", "mac")], skip := .other } ] }

example : validate (some exM) [("arch", "x86"), ("os", "windows")] = .ok () := by decide
example : validate (some exM) [("os", "mac"), ("arch", "arm")] = .error .skipped := by decide
example : validate (some exM) [("os", "linux"), ("arch", "arm")] = .ok () := by decide
example : validate (some exM) [("os", "linux")] = .error .permLen := by decide
example : WF (some exM) [("arch", "x86"), ("os", "windows")] := by
  constructor
  · decide
  · intro mm h; cases h; decide
  · intro mm h a ha; cases h
    simp only [exM, List.mem_cons, List.not_mem_nil, or_false, Option.some.injEq] at ha
    rcases ha with rfl | rfl <;> decide

end GoPipeline.MatrixV
