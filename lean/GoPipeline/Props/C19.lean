/-
  C19 (partial) — no hidden shared state; observers do not mutate.

  What the model can carry: (1) no function of the module writes to a package-level variable after
  initialisation (fact regenerated from the source of every package); (2) in the slot-level model of the
  ordered map every observer is a function *of* the state that returns no state, so any interleaving of
  observer calls leaves the state fixed and gives each call its sequential answer.
  What it cannot exhibit: goroutine interleavings and the Go memory model (data races) — exercised by
  the harness under the race detector only.
-/
import GoPipeline.Model.OMap
import GoPipeline.Gen.Globals
import GoPipeline.Gen.Observers
namespace GoPipeline.OMap

/-- No statement in any function body assigns to, increments or takes the address of a package-level
    variable (so the only shared state are values reachable from the caller's own objects). -/
theorem C19_no_global_writes : Gen.globalWrites = [] ∧ Gen.globalsRecognised = true := by decide

/-- The functions the library offers as observers of a caller's object: the lookups and iteration of the
    ordered map, equality and the recursive plain-map view, every `MarshalJSON` / `MarshalYAML`, the matrix
    validators, plugin source expansion, `Sign`, `Verify`, the signed-field accessors of a command step and the
    option plumbing (`WithEnv` adopts the caller's map). -/
def expectedObservers : List String :=
  ["ordered.Map.Len", "ordered.Map.IsZero", "ordered.Map.Get", "ordered.Map.Contains", "ordered.Map.Range",
   "ordered.Map.ToMap", "ordered.Map.MarshalJSON", "ordered.Map.MarshalYAML", "ordered.Equal", "ordered.ToMapRecursive",
   "pipeline.Pipeline.MarshalJSON", "pipeline.CommandStep.MarshalJSON", "pipeline.GroupStep.MarshalJSON",
   "pipeline.Plugin.MarshalJSON", "pipeline.Plugin.MarshalYAML", "pipeline.Plugin.FullSource",
   "pipeline.Matrix.MarshalJSON", "pipeline.Matrix.MarshalYAML", "pipeline.Matrix.validatePermutation",
   "pipeline.MatrixAdjustment.ShouldSkip", "pipeline.MatrixSetup.MarshalJSON", "pipeline.MatrixSetup.MarshalYAML",
   "pipeline.UnknownStep.MarshalJSON", "pipeline.UnknownStep.MarshalYAML",
   "signature.Sign", "signature.Verify", "signature.CommandStepWithInvariants.SignedFields",
   "signature.CommandStepWithInvariants.ValuesForFields", "signature.envOption.apply", "signature.configureOptions"]

/-- In none of the observer functions does a statement write through the receiver or a parameter: no assignment,
    increment or `delete` whose target is reached from one of them (through selectors, indices, slices,
    dereferences, type assertions, conversions, range values or local aliases of these), no in-place mutator
    (`sort.*`, `slices.Sort*` / `Compact*` / `Reverse` / `Insert`, `maps.DeleteFunc` / `Copy`, `clear`, `copy`, `append`)
    applied to such a value, no mutating method of the ordered map called on it — a syntactic over-approximation
    regenerated from the source (Gen/Observers); and every expected observer was found under its name. -/
theorem C19_observers_do_not_write_through_arguments :
    Gen.observerWrites = [] ∧ expectedObservers.all (Gen.observersFound.contains ·) = true := by decide

variable {V : Type}

/-- The read-only operations of `ordered.Map`. -/
inductive Obs (V : Type) where
  | len | isZero | get (k : String) | contains (k : String) | range | equalTo (other : Option (CMap V))

inductive Ans (V : Type) where
  | nat (n : Nat) | bool (b : Bool) | val (v : Option V) | pairs (l : List (String × V))

def observe (veq : V → V → Bool) (c : CMap V) : Obs V → Ans V
  | .len => .nat (len c)
  | .isZero => .bool (isZero c)
  | .get k => .val (get c k)
  | .contains k => .bool (contains c k)
  | .range => .pairs (range c)
  | .equalTo o => .bool (equal veq (some c) o)

/-- One observer call as a state transition: the state component is the identity. -/
def obsStep (veq : V → V → Bool) (c : CMap V) (o : Obs V) : CMap V × Ans V := (c, observe veq c o)

/-- Any sequence (hence any interleaving of the calls of several readers) of observer calls leaves the
    map's concrete state — slots, tombstones, index — exactly as it was … -/
theorem C19_observers_leave_state (veq : V → V → Bool) (c : CMap V) (os : List (Obs V)) :
    os.foldl (fun s o => (obsStep veq s o).1) c = c := by
  induction os with
  | nil => rfl
  | cons o r ih => simpa [obsStep] using ih

/-- … and each call returns what it returns when made alone on the original map. -/
theorem C19_observer_answers_sequential (veq : V → V → Bool) (c : CMap V) (pre : List (Obs V)) (o : Obs V) :
    (obsStep veq (pre.foldl (fun s o' => (obsStep veq s o').1) c) o).2 = observe veq c o := by
  rw [C19_observers_leave_state]; rfl

/-! Non-vacuity: a map with a tombstone. -/
example : (run (newMap : CMap Nat) [.set "a" 1, .set "b" 2, .set "c" 3, .delete "b"]).items.length = 3 := by decide

end GoPipeline.OMap
