/-
  C02 on structurally well-formed steps — the signed round trip without the parser hypothesis (JSON leg, model
  level).  Statements only; proofs of the named lemmas are in `GoPipeline/Lemmas/StepOK.lean`.

  `Props/C02.lean` states the round trip (sign, marshal, re-read, re-parse, verify) for steps that `parseStep`
  produced.  The library also signs pipelines that were interpolated after parsing or built through the Go
  API, and finding F21 shows that such a step can fail the round trip.  Here the hypothesis "in the image of
  the parser" is replaced by the structural predicate `StepOK` on the typed step tree:

    parser image ⊆ StepOK                         (C02_parser_image_is_ok)
    StepOK ∧ Stable ⇒ signed round trip verifies  (C02_signed_tree_…_ok, C02_signed_list_…_ok)
    CommandOK is kept by env interpolation as long as the transformer fixes the keys of the step's inline
    remainders                                    (C02_interpolated_command_stays_ok)
    parse, interpolate, sign, marshal, re-read, re-parse ⇒ verifies   (C02_interpolate_then_sign_command)

  `StepOK` (Lemmas/StepOK.lean): a command step is `CommandOK` (sorted Go maps, decoded content without Go
  maps, plugin configs that are `ToMapRecursive` images, NO UNKNOWN KEY EQUAL TO A DECLARED KEY) and its unknown
  fields do not redirect the kind selection; a wait / input / trigger step holds a scalar or contents that
  select its own kind; a group step has a well-formed remainder, contents that select the group kind and a
  present, well-formed nested list; an unknown step holds decoded content (signing refuses it anyway).
  `stepDepth` is the parser fuel the tree needs (one level per group nesting).

  `KeysFixed tf c`: the transformer maps every TOP-LEVEL key of the step's four kinds of inline remainder (the
  step's unknown fields, the cache's, the matrix's, each adjustment's) to itself.  Nothing else is needed: env
  names, `with` names, setup dimension names, keys inside plugin configs and keys nested inside remainder values
  may be rewritten freely (Go-map walks re-insert into a fresh sorted map, ordered-map walks keep decoded content
  decoded).  The sharp condition is `KeysSafe` (no such key is sent to a declared key of its struct;
  `interpCommand_ok_safe`).
-/
import GoPipeline.Lemmas.StepOK
import GoPipeline.Props.C02   -- `cF21`, `Example.*`, and through it `toyScheme`
namespace GoPipeline.SignedRT
open GoPipeline GoPipeline.Pipe GoPipeline.Parse GoPipeline.Marshal GoPipeline.Signing GoPipeline.Roundtrip

variable (S : SigScheme)

/-! ### The parser's image is well-formed -/

/-- Every step the parser produces satisfies the structural predicate, and the fuel that parsed it bounds its
    depth. -/
theorem C02_parser_image_is_ok (f : Nat) (x : Val) (s : Step) (w : List Warn) (hx : NoUMap x) (hd : KeysNodup x)
    (h : parseStep f x = .ok (s, w)) : StepOK s ∧ stepDepth s ≤ f :=
  parseStep_stepOK f x s w hx hd h

theorem C02_parser_image_is_ok_list (f : Nat) (xs : List Val) (ss : List Step) (ws : List Warn)
    (hx : NoUMapList xs) (hd : KeysNodupList xs) (h : parseSteps f xs = .ok (ss, ws)) :
    StepsOK ss ∧ stepsDepth ss ≤ f :=
  parseSteps_stepsOK f xs ss ws hx hd h

/-! ### The signed round trip for every well-formed step tree -/

/-- For EVERY typed step tree that is structurally well-formed (parsed, interpolated or built through the API):
    after `SignSteps`, marshalling and re-parsing with enough fuel, every command step of the result carries a
    verifying signature. -/
theorem C02_signed_tree_verifies_after_roundtrip_ok (render : S.Sig → String) (parseSig : String → Option S.Sig)
    (hrender : ∀ s, parseSig (render s) = some s)
    (s : Step) (hok : StepOK s) (hs : StableStep s) (f : Nat) (hf : stepDepth s ≤ f)
    (k : S.Key) (alg repo : String) (penv env₁ : List (String × String)) (henv : EnvExtends penv env₁)
    (signed : Step) (hsign : signStep S render k alg repo penv s = .ok signed) :
    ∃ j s' w', mStep signed = .ok j ∧ parseStep f (rereadJ j) = .ok (s', w') ∧
      VerifiesAll S parseSig (S.pubOf k) repo env₁ s' :=
  signed_steps_roundtrip_ok S render parseSig k alg repo penv env₁ hrender s hok hs f hf henv signed hsign

theorem C02_signed_list_verifies_after_roundtrip_ok (render : S.Sig → String) (parseSig : String → Option S.Sig)
    (hrender : ∀ s, parseSig (render s) = some s)
    (l : List Step) (hok : StepsOK l) (hs : StableSteps l) (f : Nat) (hf : stepsDepth l ≤ f)
    (k : S.Key) (alg repo : String) (penv env₁ : List (String × String)) (henv : EnvExtends penv env₁)
    (l' : List Step) (hsign : signSteps S render k alg repo penv l = .ok l') :
    ∃ js ss' ws', mSteps l' = .ok js ∧ parseSteps f (rereadJList js) = .ok (ss', ws') ∧
      VerifiesAllList S parseSig (S.pubOf k) repo env₁ ss' :=
  signed_list_roundtrip_ok S render parseSig k alg repo penv env₁ hrender l hok hs f hf henv l' hsign

/-! ### Interpolation -/

/-- Env interpolation keeps a command step well-formed when the transformer fixes the keys of its inline
    remainders (no further hypothesis: none on plugin sources or configs, env names, matrix names). -/
theorem C02_interpolated_command_stays_ok {E : Type} (tf : String → Except E String) (c c₁ : CommandStep)
    (hok : CommandOK c) (h : Interp.interpCommand .env tf c = .ok c₁) (hfix : KeysFixed tf c) : CommandOK c₁ :=
  interpCommand_ok tf c c₁ hok h hfix

/-- Parse, interpolate, sign, marshal, re-read, re-parse: the embedded signature verifies. -/
theorem C02_interpolate_then_sign_command {E : Type} (render : S.Sig → String) (parseSig : String → Option S.Sig)
    (hrender : ∀ s, parseSig (render s) = some s)
    (m : Unm.Entries) (c c₁ : CommandStep) (hm : NoUMapKVs m) (h : parseCommand m = .ok c)
    (tf : String → Except E String) (hi : Interp.interpCommand .env tf c = .ok c₁) (hfix : KeysFixed tf c)
    (hs : StableCommand c₁)
    (k : S.Key) (alg repo : String) (penv env₁ : List (String × String)) (henv : EnvExtends penv env₁) :
    ∃ kvs c', rereadJ (mCommand (attach S render (sign S k alg c₁ repo penv) c₁)) = .omap kvs ∧
      parseCommand kvs = .ok c' ∧
      c'.signature = (attach S render (sign S k alg c₁ repo penv) c₁).signature ∧
      StepVerifies S parseSig (S.pubOf k) repo env₁ c' :=
  interp_then_sign_command S render parseSig hrender m c c₁ hm h tf hi hfix hs k alg repo penv env₁ henv

/-- The step-level version: the interpolated step is still SELECTED as a command step, provided the transformer
    also keeps the value of the unknown field `type` if there is one (its key is kept by `KeysFixed`). -/
theorem C02_interpolated_command_step_stays_ok {E : Type} (tf : String → Except E String) (c c₁ : CommandStep)
    (hok : StepOK (.command c)) (h : Interp.interpCommand .env tf c = .ok c₁) (hfix : KeysFixed tf c)
    (htype : ∀ s, (c.rem.getD []).lookup "type" = some (.str s) → tf s = .ok s) : StepOK (.command c₁) :=
  interpCommand_stepOK tf c c₁ hok h hfix htype

/-- Parse a step, interpolate it, sign it, marshal, re-read, re-parse with `parseStep` (kind selection
    included): every command step of the result verifies. -/
theorem C02_interpolate_then_sign_step {E : Type} (render : S.Sig → String) (parseSig : String → Option S.Sig)
    (hrender : ∀ s, parseSig (render s) = some s)
    (f : Nat) (x : Val) (c c₁ : CommandStep) (w : List Warn) (hx : NoUMap x) (hd : KeysNodup x)
    (h : parseStep f x = .ok (.command c, w))
    (tf : String → Except E String) (hi : Interp.interpCommand .env tf c = .ok c₁) (hfix : KeysFixed tf c)
    (htype : ∀ s, (c.rem.getD []).lookup "type" = some (.str s) → tf s = .ok s)
    (hs : StableCommand c₁)
    (k : S.Key) (alg repo : String) (penv env₁ : List (String × String)) (henv : EnvExtends penv env₁) :
    ∃ j s' w', mStep (.command (attach S render (sign S k alg c₁ repo penv) c₁)) = .ok j ∧
      parseStep f (rereadJ j) = .ok (s', w') ∧ VerifiesAll S parseSig (S.pubOf k) repo env₁ s' :=
  interp_then_sign_step S render parseSig hrender f x c c₁ w hx hd h tf hi hfix htype hs k alg repo penv env₁ henv

/-! ### `StepOK` is strictly larger than the parser's image -/

/-- An empty wait step built through the API is well-formed but never produced by the parser. -/
theorem C02_ok_strictly_larger_than_parser_image :
    StepOK (.wait "" none) ∧ ∀ f x w, parseStep f x ≠ .ok (.wait "" none, w) :=
  ⟨stepOK_wait_empty, wait_empty_not_parsed⟩

/-! ### Non-vacuity -/

/-- The F21 step (`Props/C02.lean`: its unknown fields hold the key `plugins`) is exactly what the predicate
    excludes. -/
example : ¬ CommandOK cF21 := by
  intro h
  have := h.rem.prim' (k := "plugins") (by decide)
  simp [cF21] at this

example : ¬ StepOK (.command cF21) := by
  intro h
  rw [StepOK] at h
  have := h.1.rem.prim' (k := "plugins") (by decide)
  simp [cF21] at this

namespace ExampleOK
open Example

/-- A document whose strings mention `$FOO` in every position the walkers visit: env name and value, plugin
    config key and value, cache path and unknown cache setting, matrix dimension name and value, adjustment
    `with` name and unknown adjustment setting, and a key NESTED inside an unknown field. -/
def mEx2 : Unm.Entries :=
  [("key", .str "build"), ("command", .str "$FOO"),
   ("plugins", .seq [.omap [("docker#v5.0.0", .omap [("image", .str "$FOO"), ("$FOO", .str "x")])], .str "ecr"]),
   ("env", .omap [("FOO", .str "$FOO"), ("$FOO", .str "1")]),
   ("cache", .omap [("paths", .seq [.str "$FOO"]), ("zone", .str "$FOO")]),
   ("matrix", .omap [("setup", .omap [("$FOO", .seq [.str "a", .str "$FOO"])]),
                     ("adjustments", .seq [.omap [("with", .omap [("$FOO", .str "a")]), ("soft_fail", .str "$FOO")]])]),
   ("agents", .omap [("queue", .str "$FOO"), ("$FOO", .str "y")]), ("timeout_in_minutes", .int 10)]

/-- Rewrites the string `$FOO` to `bar` and fixes every other string. -/
def tfEx : String → Except Unit String := fun s => .ok (if s = "$FOO" then "bar" else s)

def cEx2 : CommandStep :=
  { key := "build", label := "", command := "$FOO",
    plugins := some [some { source := "docker#v5.0.0", config := .umap [("$FOO", .str "x"), ("image", .str "$FOO")] },
                     some { source := "ecr", config := .null }],
    env := some [("$FOO", "1"), ("FOO", "$FOO")], signature := none,
    matrix := some { setup := some [("$FOO", some ["a", "$FOO"])],
                     adjustments := some [some { with_ := some [("$FOO", "a")], skip := .null,
                                                 rem := some [("soft_fail", .str "$FOO")] }],
                     rem := none },
    cache := some { disabled := false, name := "", paths := some ["$FOO"], size := "",
                    rem := some [("zone", .str "$FOO")] },
    rem := some [("agents", .omap [("queue", .str "$FOO"), ("$FOO", .str "y")]), ("timeout_in_minutes", .int 10)] }

/-- The interpolated step: keys and values rewritten everywhere except the top-level remainder keys. -/
def c1Ex2 : CommandStep :=
  { key := "build", label := "", command := "bar",
    plugins := some [some { source := "docker#v5.0.0", config := .umap [("bar", .str "x"), ("image", .str "bar")] },
                     some { source := "ecr", config := .null }],
    env := some [("FOO", "bar"), ("bar", "1")], signature := none,
    matrix := some { setup := some [("bar", some ["a", "bar"])],
                     adjustments := some [some { with_ := some [("bar", "a")], skip := .null,
                                                 rem := some [("soft_fail", .str "bar")] }],
                     rem := none },
    cache := some { disabled := false, name := "", paths := some ["bar"], size := "",
                    rem := some [("zone", .str "bar")] },
    rem := some [("agents", .omap [("queue", .str "bar"), ("bar", .str "y")]), ("timeout_in_minutes", .int 10)] }

theorem parse_mEx2 : parseCommand mEx2 = .ok cEx2 := by rfl

theorem interp_cEx2 : Interp.interpCommand .env tfEx cEx2 = .ok c1Ex2 := by rfl

theorem keysFixed_ex : KeysFixed tfEx cEx2 := by
  refine ⟨?_, ?_, ?_⟩
  · intro k hk
    simp only [cEx2, Option.getD_some, List.map_cons, List.map_nil, List.mem_cons, List.not_mem_nil, or_false] at hk
    rcases hk with rfl | rfl <;> rfl
  · intro k hk
    simp only [cEx2, Option.some.injEq] at hk
    subst hk
    intro k hk
    simp only [Option.getD_some, List.map_cons, List.map_nil, List.mem_cons, List.not_mem_nil, or_false] at hk
    subst hk
    rfl
  · intro m hm
    simp only [cEx2, Option.some.injEq] at hm
    subst hm
    refine ⟨by intro k hk; simp at hk, ?_⟩
    intro l hl a ha
    simp only [Option.some.injEq] at hl
    subst hl
    simp only [List.mem_cons, Option.some.injEq, List.not_mem_nil, or_false] at ha
    subst ha
    intro k hk
    simp only [Option.getD_some, List.map_cons, List.map_nil, List.mem_cons, List.not_mem_nil, or_false] at hk
    subst hk
    rfl

theorem stable_c1Ex2 : StableCommand c1Ex2 := by
  refine ⟨⟨fun _ => rfl, fun h => by simp [c1Ex2] at h⟩, ?_, ?_, ?_, ?_⟩
  · intro l hl p hp
    simp only [c1Ex2, Option.some.injEq] at hl
    subst hl
    simp only [List.mem_cons, Option.some.injEq, List.not_mem_nil, or_false] at hp
    rcases hp with rfl | rfl <;> simp [JStable, JStableKVs]
  · intro m hm
    simp only [c1Ex2, Option.some.injEq] at hm
    subst hm
    refine ⟨?_, ?_, by simp [StableUMap, JStableKVs]⟩
    · intro l hl a ha
      simp only [Option.some.injEq] at hl
      subst hl
      simp only [List.mem_cons, Option.some.injEq, List.not_mem_nil, or_false] at ha
      subst ha
      simp [StableAdjustment, emptyishSkip, JStable, StableUMap, JStableKVs]
    · intro l hl
      simp only [Option.some.injEq] at hl
      subst hl
      simp
  · intro k hk
    simp only [c1Ex2, Option.some.injEq] at hk
    subst hk
    simp [StableUMap, JStableKVs, JStable]
  · simp [c1Ex2, StableUMap, JStableKVs, JStable]

/-- The hypotheses of `C02_interpolate_then_sign_command` are jointly satisfiable on a step with plugins, env,
    matrix, cache and unknown fields, and a transformer that rewrites keys as well as values (env name, plugin
    config key, matrix dimension, `with` name, a key nested inside an unknown field), with the toy scheme of C01. -/
example : ∃ kvs c', rereadJ (mCommand (attach toyScheme renderToy (sign toyScheme keyEx "toy-alg" c1Ex2 "git@example.com:acme/app.git" penvEx) c1Ex2)) = .omap kvs ∧
      parseCommand kvs = .ok c' ∧
      c'.signature = (attach toyScheme renderToy (sign toyScheme keyEx "toy-alg" c1Ex2 "git@example.com:acme/app.git" penvEx) c1Ex2).signature ∧
      StepVerifies toyScheme parseToy (toyScheme.pubOf keyEx) "git@example.com:acme/app.git" env1Ex c' :=
  C02_interpolate_then_sign_command toyScheme renderToy parseToy parseToy_render mEx2 cEx2 c1Ex2
    (by simp [mEx2, NoUMapKVs, NoUMap, NoUMapList]) parse_mEx2 tfEx interp_cEx2 keysFixed_ex stable_c1Ex2 keyEx "toy-alg"
    "git@example.com:acme/app.git" penvEx env1Ex envExtends_ex

/-- The same step as a one-element step list through the tree-level theorem: `StepOK` holds of the parsed
    step (`C02_parser_image_is_ok`), so the signed list verifies after the round trip. -/
example : StepOK (.command cEx2) ∧ stepDepth (.command cEx2) ≤ 1 :=
  C02_parser_image_is_ok 1 (.omap mEx2) (.command cEx2) []
    (by simp [mEx2, NoUMapKVs, NoUMap, NoUMapList]) (by simp [mEx2, KeysNodup, KeysNodupKVs, KeysNodupList])
    (by rw [parseStep.eq_3]; rfl)

/-- A step tree OUTSIDE the parser's image (the nested empty wait step, see
    `C02_ok_strictly_larger_than_parser_image`): a group holding a command step and an API-built wait step.
    All hypotheses of `C02_signed_tree_verifies_after_roundtrip_ok` hold, `SignSteps` succeeds, and the
    re-parsed tree verifies. -/
def treeEx : Step := .group "grp" (some "Build") (some [.command cEx, .wait "" none]) none

theorem stepOK_treeEx : StepOK treeEx := by
  rw [treeEx, stepOK_group_some]
  refine ⟨remOK_none _, by rfl, ?_⟩
  simp only [StepsOK, and_true]
  refine ⟨?_, stepOK_wait_empty⟩
  rw [StepOK]
  exact ⟨parseCommand_inv (by simp [mEx, NoUMapKVs, NoUMap, NoUMapList]) parse_mEx, by rfl⟩

theorem stable_treeEx : StableStep treeEx := by
  simp only [treeEx, StableStep, StableSteps, and_true]
  refine ⟨⟨stable_cEx, by simp [StableUMap, JStableKVs]⟩, by simp [StableUMap, JStableKVs], by simp, by simp⟩

example : ∃ signed j s' w',
    signStep toyScheme renderToy keyEx "toy-alg" "git@example.com:acme/app.git" penvEx treeEx = .ok signed ∧
    mStep signed = .ok j ∧ parseStep 2 (rereadJ j) = .ok (s', w') ∧
    VerifiesAll toyScheme parseToy (toyScheme.pubOf keyEx) "git@example.com:acme/app.git" env1Ex s' := by
  have hsign : ∃ signed, signStep toyScheme renderToy keyEx "toy-alg" "git@example.com:acme/app.git" penvEx treeEx =
      .ok signed := by
    rw [treeEx, Signing.signStep_group_some, Signing.signSteps_cons, Signing.signStep_command,
      Signing.signSteps_cons, Signing.signStep_wait, Signing.signSteps_nil]
    exact ⟨_, rfl⟩
  obtain ⟨signed, hsigned⟩ := hsign
  obtain ⟨j, s', w', h1, h2, h3⟩ := C02_signed_tree_verifies_after_roundtrip_ok toyScheme renderToy parseToy
    parseToy_render treeEx stepOK_treeEx stable_treeEx 2 (by simp [treeEx, stepDepth, stepsDepth]) keyEx "toy-alg"
    "git@example.com:acme/app.git" penvEx env1Ex envExtends_ex signed hsigned
  exact ⟨signed, j, s', w', hsigned, h1, h2, h3⟩

end ExampleOK

end GoPipeline.SignedRT
