/-
  C13 — parse is total; a usable result is complete (one step per entry, unknown fallback reported);
  marshalling a parsed pipeline succeeds.
  Statements only; proofs of the named lemmas are in `GoPipeline/Lemmas/Parse13.lean`.

  `parsePipeline : Val → Except Hard (Pipeline × List Warn)` is a total Lean function on the decoded
  document, so "returns, never panics" holds of the model by construction; the model starts at the
  node graph yaml.v3 produced (C13_bytes_partial: the byte level — scanner, parser, Go runtime limits —
  is exercised by the harness only; the alias/merge expansion in between is C07's subject).
-/
import GoPipeline.Lemmas.Parse13
namespace GoPipeline.Parse
open GoPipeline GoPipeline.Pipe GoPipeline.Marshal

/- `entries` (the step sequence of a decoded document) and `isUnknown` are defined in
   `GoPipeline/Lemmas/Parse13.lean`, so that the lemmas can mention them. -/

/-- A usable result has a non-nil step list. -/
theorem C13_steps_non_nil (v : Val) (p : Pipeline) (ws : List Warn) (h : parsePipeline v = .ok (p, ws)) :
    ∃ l, p.steps = some l := steps_non_nil v p ws h

/-- Exactly one step per entry of the input step sequence, in the same order: the i-th step is the
    parse of the i-th entry. -/
theorem C13_one_step_per_entry (v : Val) (p : Pipeline) (ws : List Warn) (h : parsePipeline v = .ok (p, ws)) :
    ∃ xs l, entries v = some xs ∧ p.steps = some l ∧
      List.Forall₂ (fun x s => ∃ w, parseStep stepFuel x = .ok (s, w)) xs l := one_step_per_entry v p ws h

/-- Recursively inside groups. -/
theorem C13_group_complete (f : Nat) (m : Unm.Entries) (k : String) (g : Option String) (ss : Option (List Step))
    (r : UMap Val) (w : List Warn) (h : parseStep (f + 1) (.omap m) = .ok (.group k g ss r, w)) :
    ∃ xs l, entries (.omap m) = some xs ∧ ss = some l ∧
      List.Forall₂ (fun x s => ∃ w', parseStep f x = .ok (s, w')) xs l := group_complete f m k g ss r w h

/-- Unrecognised or malformed steps are kept verbatim as unknown steps, and each such fallback is
    reported: a step is unknown only with its input entry as contents and with a warning … -/
theorem C13_unknown_is_verbatim_and_warned (f : Nat) (x c : Val) (w : List Warn)
    (h : parseStep f x = .ok (.unknown c, w)) : c = x ∧ w ≠ [] := unknown_verbatim f x c w h

/-- … and every other step comes without a warning. -/
theorem C13_known_step_no_warning (f : Nat) (x : Val) (s : Step) (w : List Warn)
    (h : parseStep f x = .ok (s, w)) (hk : isUnknown s = false) : w = [] := known_no_warning f x s w h hk

/-- One warning per fallback: the warnings of a step list are as many as its unknown steps. -/
theorem C13_one_warning_per_fallback (f : Nat) (xs : List Val) (ss : List Step) (ws : List Warn)
    (h : parseSteps f xs = .ok (ss, ws)) : ws.length = (ss.filter isUnknown).length := warning_count f xs ss ws h

/-- Hard errors of a step list arise only from the enumerated causes: an entry that is neither a
    string nor a mapping, or a mapping whose `type` is not a string. -/
theorem C13_hard_error_causes (f : Nat) (xs : List Val) (e : Hard) (h : parseSteps (f + 1) xs = .error e) :
    ∃ x ∈ xs, ((∀ s, x ≠ .str s) ∧ (∀ m, x ≠ .omap m)) ∨
              (∃ m t, x = .omap m ∧ m.lookup "type" = some t ∧ ∀ s, t ≠ .str s) := hard_error_causes f xs e h

/-- A malformed typed step (e.g. a list where a string belongs) never aborts the parse: it falls back. -/
theorem C13_malformed_step_falls_back (f : Nat) (m : Unm.Entries) (h : ∀ t, m.lookup "type" = some t → ∃ s, t = .str s) :
    ∃ s w, parseStep (f + 1) (.omap m) = .ok (s, w) := malformed_falls_back f m h

/-- Marshalling the parsed pipeline to JSON succeeds (the only marshalling error of the model — an
    empty input step — cannot come out of the parser; `MarshalYAML` of wait/input steps shares that condition). -/
theorem C13_marshal_succeeds (v : Val) (p : Pipeline) (ws : List Warn) (h : parsePipeline v = .ok (p, ws)) :
    ∃ j, mPipeline p = .ok j := marshal_succeeds v p ws h

/-! Non-vacuity -/
example : ∃ p, parsePipeline (.omap [("x", .int 1), ("steps", .seq [.str "wait", .omap [("foo", .str "bar")], .omap [("command", .seq [.omap []])]])])
    = .ok (p, [.inferFail, .fellBack]) := by
  -- `parseStep`/`parseSteps` are compiled by well-founded recursion (irreducible), so the evaluation
  -- goes through their equation lemmas instead of `rfl`.
  have h1 : parseStep stepFuel (.str "wait") = .ok (.wait "wait" none, []) := by
    rw [stepFuel_succ, parseStep.eq_2]; rfl
  have h2 : parseStep stepFuel (.omap [("foo", .str "bar")]) =
      .ok (.unknown (.omap [("foo", .str "bar")]), [.inferFail]) := by
    rw [stepFuel_succ, parseStep.eq_3]; rfl
  have h3 : parseStep stepFuel (.omap [("command", .seq [.omap []])]) =
      .ok (.unknown (.omap [("command", .seq [.omap []])]), [.fellBack]) := by
    rw [stepFuel_succ, parseStep.eq_3]; rfl
  have hs : parseSteps stepFuel [.str "wait", .omap [("foo", .str "bar")], .omap [("command", .seq [.omap []])]] =
      .ok ([.wait "wait" none, .unknown (.omap [("foo", .str "bar")]), .unknown (.omap [("command", .seq [.omap []])])],
           [.inferFail, .fellBack]) := by
    rw [parseSteps.eq_2, h1, parseSteps.eq_2, h2, parseSteps.eq_2, h3, parseSteps.eq_1]; rfl
  constructor
  unfold parsePipeline
  simp only [fieldOf_pipeline_steps]
  rw [show List.lookup "steps" [("x", Val.int 1), ("steps", Val.seq [.str "wait", .omap [("foo", .str "bar")],
        .omap [("command", .seq [.omap []])]])] =
      some (Val.seq [.str "wait", .omap [("foo", .str "bar")], .omap [("command", .seq [.omap []])]]) from rfl]
  simp only [hs]
  rfl

end GoPipeline.Parse
