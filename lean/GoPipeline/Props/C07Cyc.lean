/-
  C07 — the recursion error is sound: `decodeYAML` reports "infinite recursion" only for node graphs whose value
  graph (sequence elements, document content, alias targets, the value nodes the merge walk yields for a mapping)
  has a cycle. With `C07_cycle_detected` (a node that is its own ancestor IS rejected) this makes the rejection exact
  on the decoding path. Proofs in `Lemmas/YamlCycle.lean`.
-/
import GoPipeline.Lemmas.YamlCycle
namespace GoPipeline.Yaml
open GoPipeline

/-- The invariant behind it: whenever `decode` answers with the recursion error, some node reachable from the
    node it was called on is either already on the current decoding path (`seen`) or lies on a cycle. -/
theorem C07_recursion_error_names_an_ancestor (s : Store) (f : Nat) (seen : List Nat) (i : Nat)
    (h : decode s f seen (some i) = .error .recursion) : ∃ j, Reach s i j ∧ (j ∈ seen ∨ OnCycle s j) :=
  recursion_error_names_an_ancestor s f seen i h

/-- From the top (empty path): a recursion error exhibits a reachable cycle … -/
theorem C07_recursion_only_on_cycles (s : Store) (root : Nat) (h : decodeYAML s root = .error .recursion) :
    ∃ j, Reach s root j ∧ OnCycle s j :=
  recursion_only_on_cycles s root h

/-- … so an acyclic document is never rejected as infinitely recursive (whatever else may be wrong with it). -/
theorem C07_acyclic_never_recursion (s : Store) (root : Nat) (h : Acyclic s root) :
    decodeYAML s root ≠ .error .recursion :=
  fun he => h (recursion_only_on_cycles s root he)

/-! Non-vacuity: a graph with a value cycle is rejected with exactly this error (`a: &x [*x]`), and the acyclic
    merge/alias document of `Props/C07.lean` decodes. -/
def selfSeqStore : Store :=
  [ /-0 doc-/ { kind := .document, isMerge := false, content := [1] },
    /-1 seq &x-/ { kind := .sequence, isMerge := false, content := [2] },
    /-2 *x-/ { kind := .alias, isMerge := false, aliasTo := some 1 } ]

example : decodeYAML selfSeqStore 0 = .error .recursion := by rfl
example : OnCycle selfSeqStore 1 :=
  ⟨2, .seq 1 2 _ rfl rfl (by simp), .step 2 1 1 (.alias 2 1 _ rfl rfl rfl) (.refl 1)⟩

end GoPipeline.Yaml
