/-
  C04 — env interpolation reaches every string exactly once, deterministically; and the step-level
  scope of C12 (which fields the matrix transformer touches).
  Statements only; proofs of the named lemmas are in `GoPipeline/Lemmas/Interp.lean`.
-/
import GoPipeline.Lemmas.Interp
import GoPipeline.Gen.InterpVisits
namespace GoPipeline.Interp
open GoPipeline GoPipeline.Pipe

-- `pureTf E g := fun s => .ok (g s)` (a transformer that never fails: `g` is "the single-pass
-- expansion of a string") is defined in `Lemmas/Interp.lean`.

variable {E : Type}

/-! ### Collision freedom: why the hypotheses are the primed predicates

  The Model's `NoCollide*` ask, for every mapping, that the images of its keys be pairwise distinct
  (`keysNoCollide g ks := (ks.map g).Nodup`).  For ordered maps that is NOT enough for
  "every string is transformed exactly once".  Counterexample (`#eval`ed at the end of
  `Lemmas/Interp.lean`): `g a = b`, `g b = c`, value `{a: x, b: y}`.  The images `b, c` are distinct,
  but `interpolateOrderedMap` renames `a → b` with `Replace` while the original entry `b` is still
  ahead of the range cursor; `Replace` deletes that entry, it is never visited, and the result is
  `{b: x}` instead of `{b: x, c: y}`.

  The primed predicates (`NoCollideVal'`, …, `NoCollideStep'`, defined in `Lemmas/Interp.lean`) are the
  unprimed ones with, at every ordered-map node, `keysFresh g ks` in place of `keysNoCollide g ks`:

      keysFresh g ks := (ks.map g).Nodup ∧ ∀ k ∈ ks, g k = k ∨ g k ∉ ks

  i.e. additionally a key that is renamed is renamed to a string that is not a key of the same
  mapping.  For Go maps (`umap` nodes and all `UMap` fields) no condition on the keys is required:
  model and specification build the result map by the same later-wins insertion. -/

/-! ### Every string is transformed exactly once (`interp = mapStrings`) -/

/-- Untyped values (unknown fields, unknown steps, plugin configs): keys and values at any depth. -/
theorem C04_val (g : String → String) (v : Val) (h : NoCollideVal' g v) :
    interpVal (pureTf E g) v = .ok (mapVal g v) := interpVal_eq g v h

/-- Every step kind, groups recursively; under env interpolation everything but the signature,
    under matrix interpolation exactly command, label, plugins, env values and unknown fields. -/
theorem C04_step (kind : TfKind) (g : String → String) (s : Step) (h : NoCollideStep' g s) :
    interpStep kind (pureTf E g) s = .ok (mapStep g kind s) := interpStep_eq kind g s h

theorem C04_steps (kind : TfKind) (g : String → String) (l : List Step) (h : NoCollideSteps' g l) :
    interpSteps kind (pureTf E g) l = .ok (mapSteps g kind l) := interpSteps_eq kind g l h

/-- The pipeline after the env block: all steps and the top-level extras. -/
theorem C04_pipeline (g : String → String) (p : Pipeline)
    (hs : ∀ l, p.steps = some l → NoCollideSteps' g l) (hr : NoCollideUMapV' g p.rem) :
    interpPipelineRest (pureTf E g) p = .ok (mapPipelineRest g p) := interpPipelineRest_eq g p hs hr

/-! ### Determinism, structure, signature -/

/-- The result is a function of the input (no dependence on iteration order is left: Go-map walks
    use a sorted snapshot). Without the collision-freedom hypothesis too. -/
theorem C04_deterministic (kind : TfKind) (tf : String → Except E String) (s : Step) (r₁ r₂ : Except E Step)
    (h₁ : interpStep kind tf s = r₁) (h₂ : interpStep kind tf s = r₂) : r₁ = r₂ := by rw [← h₁, ← h₂]

/-- Nothing else in the structure changes: same number of steps, same kinds, in the same order. -/
theorem C04_structure (kind : TfKind) (tf : String → Except E String) (l l' : List Step)
    (h : interpSteps kind tf l = .ok l') : l'.map stepTag = l.map stepTag := interpSteps_tags kind tf l l' h

/-- Step signatures are left untouched, by either transformer, whether or not strings collide. -/
theorem C04_signature_untouched (kind : TfKind) (tf : String → Except E String) (c c' : CommandStep)
    (h : interpCommand kind tf c = .ok c') : c'.signature = c.signature := interpCommand_signature kind tf c c' h

/-! ### Errors -/

/-- If the call fails, the error is the error of one of the strings handed to the transformer. -/
theorem C04_error_from_string (kind : TfKind) (tf : String → Except E String) (s : Step) (e : E)
    (h : interpStep kind tf s = .error e) : ∃ x ∈ stringsStep kind s, tf x = .error e :=
  interpStep_error kind tf s e h

/-- If every string expands, the call succeeds. -/
theorem C04_ok_of_all_ok (kind : TfKind) (tf : String → Except E String) (s : Step)
    (h : ∀ x ∈ stringsStep kind s, ∃ y, tf x = .ok y) : ∃ s', interpStep kind tf s = .ok s' :=
  interpStep_ok kind tf s h

/-! ### C12 scope: what the matrix transformer may touch -/

/-- Env names, the step key, the matrix definition, the cache settings and the signature are unchanged
    by matrix interpolation, whatever the transformer does. -/
theorem C12_scope_untouched (tf : String → Except E String) (c c' : CommandStep)
    (h : interpCommand .matrix tf c = .ok c') :
    c'.key = c.key ∧ c'.matrix = c.matrix ∧ c'.signature = c.signature ∧ c'.cache = c.cache ∧
    c'.env.map (·.map (·.1)) = c.env.map (·.map (·.1)) := interpCommand_matrix_scope tf c c' h

/-- Command, label, plugin sources and configs, env values and unknown fields are transformed. -/
theorem C12_scope_transformed (g : String → String) (c : CommandStep) (h : NoCollideCommand' g c) :
    interpCommand .matrix (pureTf E g) c = .ok (mapCommandMatrix g c) := interpCommand_matrix_eq g c h

/-! ### Coverage obligation: the visit table measured on the compiled code (taint run, regenerated
    on every run) is the table this model implements. Rows: (type, position, visits under the env
    transformer, visits under the matrix transformer). -/

def expectedVisits : List (String × String × Nat × Nat) :=
  [ ("CommandStep", "Command", 1, 1), ("CommandStep", "Label", 1, 1), ("CommandStep", "Key", 1, 0),
    ("CommandStep", "Plugins.Source", 1, 1), ("CommandStep", "Plugins.Config.key", 1, 1), ("CommandStep", "Plugins.Config.value", 1, 1),
    ("CommandStep", "Env.key", 1, 0), ("CommandStep", "Env.value", 1, 1),
    ("CommandStep", "Signature.Algorithm", 0, 0), ("CommandStep", "Signature.SignedFields", 0, 0), ("CommandStep", "Signature.Value", 0, 0),
    ("CommandStep", "Matrix.Setup.key", 1, 0), ("CommandStep", "Matrix.Setup.value", 1, 0),
    ("CommandStep", "Matrix.Adjustments.With.key", 1, 0), ("CommandStep", "Matrix.Adjustments.With.value", 1, 0),
    ("CommandStep", "Matrix.Adjustments.Skip", 1, 0),
    ("CommandStep", "Matrix.Adjustments.RemainingFields.key", 1, 0), ("CommandStep", "Matrix.Adjustments.RemainingFields.value", 1, 0),
    ("CommandStep", "Matrix.RemainingFields.key", 1, 0), ("CommandStep", "Matrix.RemainingFields.value", 1, 0),
    ("CommandStep", "Cache.Name", 1, 0), ("CommandStep", "Cache.Paths", 1, 0), ("CommandStep", "Cache.Size", 1, 0),
    ("CommandStep", "Cache.RemainingFields.key", 1, 0), ("CommandStep", "Cache.RemainingFields.value", 1, 0),
    ("CommandStep", "RemainingFields.key", 1, 1), ("CommandStep", "RemainingFields.value", 1, 1),
    ("CommandStep", "RemainingFields.nested-omap.key", 1, 1), ("CommandStep", "RemainingFields.nested-omap.value", 1, 1),
    ("CommandStep", "RemainingFields.nested-seq", 1, 1),
    ("GroupStep", "Key", 1, 1), ("GroupStep", "Group", 1, 1), ("GroupStep", "Steps.Command", 1, 1),
    ("GroupStep", "RemainingFields.key", 1, 1), ("GroupStep", "RemainingFields.value", 1, 1),
    ("WaitStep", "Scalar", 0, 0), ("WaitStep", "Contents.key", 1, 1), ("WaitStep", "Contents.value", 1, 1),
    ("InputStep", "Scalar", 0, 0), ("InputStep", "Contents.key", 1, 1), ("InputStep", "Contents.value", 1, 1),
    ("TriggerStep", "Contents.key", 1, 1), ("TriggerStep", "Contents.value", 1, 1),
    ("UnknownStep", "Contents.key", 1, 1), ("UnknownStep", "Contents.value", 1, 1), ("UnknownStep", "Contents.scalar", 1, 1),
    ("Pipeline", "Steps.Command", 1, 0), ("Pipeline", "RemainingFields.key", 1, 0), ("Pipeline", "RemainingFields.value", 1, 0) ]

theorem C04_visit_table : Gen.interpVisits = expectedVisits := by decide

/-! Non-vacuity -/
example : NoCollideVal' (fun s => s ++ "!") (.omap [("a", .str "x"), ("b", .seq [.str "y", .int 1])]) := by
  simp [NoCollideVal', NoCollideKVs', NoCollideList', keysFresh]

example : interpVal (pureTf Unit (fun s => s ++ "!")) (.omap [("a", .str "x"), ("b", .seq [.str "y", .int 1])])
    = .ok (.omap [("a!", .str "x!"), ("b!", .seq [.str "y!", .int 1])]) := by rfl

end GoPipeline.Interp
