/-
  C02, YAML leg — signed steps still verify after `yaml.Marshal` and re-parse (model level).
  Statements only; proofs of the named lemmas are in `GoPipeline/Lemmas/SignedRoundtripY.lean`, which composes
  the YAML-leg round trip (Lemmas/RoundtripY.lean), C01 (`complete`) and the signing model, exactly as
  Props/C02.lean does for the JSON leg.

  The value tree handed to the YAML emitter is `MarshalY.y*` (Model/MarshalY.lean); the emitter + scanner pair is
  the same text codec `rereadJ` as on the JSON leg (its fidelity on these trees is what the correspondence and
  the end-to-end oracle of the harness check; findings F10 and F20 are emitter defects outside it).

  Side conditions are those of the YAML-leg fixpoint (`Stable*Y`): weaker than the JSON-leg ones, since an
  adjustment's empty-ish `skip` survives `yaml.Marshal` (finding F11 is a JSON-leg loss).  The payload that was
  signed is computed from the JSON form of the matrix (`Signing.matrixField` → `mMatrix`) on BOTH legs; what the
  YAML leg has to deliver is a re-parsed step whose signed fields have the same values.
-/
import GoPipeline.Lemmas.SignedRoundtripY
import GoPipeline.Lemmas.EndToEnd
import GoPipeline.Props.C02   -- the toy scheme and the example step (non-vacuity at the end)
namespace GoPipeline.SignedRT
open GoPipeline GoPipeline.Pipe GoPipeline.Parse GoPipeline.Marshal GoPipeline.Signing GoPipeline.Roundtrip

variable (S : SigScheme)

/-- One command step: parse, sign, attach, `yaml.Marshal`, re-read, re-parse, verify. -/
theorem C02_signed_step_verifies_after_yaml_roundtrip (render : S.Sig → String) (parseSig : String → Option S.Sig)
    (hrender : ∀ s, parseSig (render s) = some s)
    (m : Unm.Entries) (c : CommandStep) (hm : NoUMapKVs m) (hk : (m.map (·.1)).Nodup)
    (h : parseCommand m = .ok c) (hs : StableCommandY c)
    (k : S.Key) (alg repo : String) (penv env₁ : List (String × String)) (henv : EnvExtends penv env₁) :
    ∃ j kvs c', MarshalY.yCommand (attach S render (sign S k alg c repo penv) c) = .ok j ∧
      rereadJ j = .omap kvs ∧ parseCommand kvs = .ok c' ∧
      c'.signature = (attach S render (sign S k alg c repo penv) c).signature ∧
      StepVerifies S parseSig (S.pubOf k) repo env₁ c' :=
  signed_step_roundtripY S render parseSig hrender m c hm hk h hs k alg repo penv env₁ henv

/-- Every step kind, groups recursively. -/
theorem C02_signed_steps_verify_after_yaml_roundtrip (render : S.Sig → String) (parseSig : String → Option S.Sig)
    (hrender : ∀ s, parseSig (render s) = some s)
    (f : Nat) (x : Val) (s : Step) (w : List Warn) (hx : NoUMap x) (hd : KeysNodup x)
    (h : parseStep f x = .ok (s, w)) (hs : StableStepY s)
    (k : S.Key) (alg repo : String) (penv env₁ : List (String × String)) (henv : EnvExtends penv env₁)
    (signed : Step) (hsign : signStep S render k alg repo penv s = .ok signed) :
    ∃ j s' w', MarshalY.yStep signed = .ok j ∧ parseStep f (rereadJ j) = .ok (s', w') ∧
      VerifiesAll S parseSig (S.pubOf k) repo env₁ s' :=
  signed_steps_roundtripY S render parseSig hrender f x s w hx hd h hs k alg repo penv env₁ henv signed hsign

/-- The whole pipeline. -/
theorem C02_signed_pipeline_verifies_after_yaml_roundtrip (render : S.Sig → String)
    (parseSig : String → Option S.Sig) (hrender : ∀ s, parseSig (render s) = some s)
    (v : Val) (p : Pipeline) (ws : List Warn) (hv : NoUMap v) (hd : KeysNodup v)
    (h : parsePipeline v = .ok (p, ws)) (hs : StablePipelineY p)
    (k : S.Key) (alg repo : String) (env₁ : List (String × String))
    (henv : EnvExtends (p.env.getD []) env₁)
    (signed : List Step) (hsign : signSteps S render k alg repo (p.env.getD []) (p.steps.getD []) = .ok signed) :
    ∃ j p' ws', MarshalY.yPipeline { p with steps := some signed } = .ok j ∧
      parsePipeline (rereadJ j) = .ok (p', ws') ∧
      VerifiesAllList S parseSig (S.pubOf k) repo env₁ (p'.steps.getD []) :=
  signed_pipeline_roundtripY S render parseSig hrender v p ws hv hd h hs k alg repo env₁ henv signed hsign

/-- …and the verification env may be the env block of the re-parsed pipeline itself (what an agent that only
    has the uploaded YAML does): the re-parsed block has the same entries (an empty block is omitted by the YAML
    leg and comes back absent, hence `getD []`), and its names are distinct because the document's keys are. -/
theorem C02_reparsed_yaml_env_extends (render : S.Sig → String)
    (parseSig : String → Option S.Sig) (hrender : ∀ s, parseSig (render s) = some s)
    (v : Val) (p : Pipeline) (ws : List Warn) (hv : NoUMap v) (hd : KeysNodup v)
    (h : parsePipeline v = .ok (p, ws)) (hs : StablePipelineY p)
    (k : S.Key) (alg repo : String)
    (signed : List Step) (hsign : signSteps S render k alg repo (p.env.getD []) (p.steps.getD []) = .ok signed) :
    ∃ j p' ws', MarshalY.yPipeline { p with steps := some signed } = .ok j ∧
      parsePipeline (rereadJ j) = .ok (p', ws') ∧ p'.env.getD [] = p.env.getD [] ∧
      VerifiesAllList S parseSig (S.pubOf k) repo (p'.env.getD []) (p'.steps.getD []) :=
  reparsed_yaml_env_extends' S render parseSig hrender v p ws hv hd h hs k alg repo signed hsign

/-- From the YAML node graph (C07's model) to the verified re-parse, YAML leg. -/
theorem C02_document_signed_yaml_roundtrip (render : S.Sig → String)
    (parseSig : String → Option S.Sig) (hrender : ∀ x, parseSig (render x) = some x)
    (s : Yaml.Store) (root : Nat) (v : Val) (p : Pipeline) (ws : List Warn)
    (hsc : EndToEnd.ScalarStore s) (hdec : Yaml.decodeYAML s root = .ok v) (hp : parsePipeline v = .ok (p, ws))
    (hst : StablePipelineY p) (k : S.Key) (alg repo : String)
    (signed : List Step) (hsign : signSteps S render k alg repo (p.env.getD []) (p.steps.getD []) = .ok signed) :
    ∃ j p' ws', MarshalY.yPipeline { p with steps := some signed } = .ok j ∧
      parsePipeline (rereadJ j) = .ok (p', ws') ∧ p'.env.getD [] = p.env.getD [] ∧
      VerifiesAllList S parseSig (S.pubOf k) repo (p'.env.getD []) (p'.steps.getD []) :=
  have hshape := EndToEnd.decoded_tree_shape s root v hsc hdec
  reparsed_yaml_env_extends' S render parseSig hrender v p ws hshape.1 hshape.2 hp hst k alg repo signed hsign

/-! ### Non-vacuity: the example step of Props/C02.lean on the YAML leg -/

example : ∃ j kvs c', MarshalY.yCommand (attach toyScheme Example.renderToy
      (sign toyScheme Example.keyEx "toy-alg" Example.cEx "git@example.com:acme/app.git" Example.penvEx) Example.cEx) = .ok j ∧
      rereadJ j = .omap kvs ∧ parseCommand kvs = .ok c' ∧
      c'.signature = (attach toyScheme Example.renderToy
        (sign toyScheme Example.keyEx "toy-alg" Example.cEx "git@example.com:acme/app.git" Example.penvEx) Example.cEx).signature ∧
      StepVerifies toyScheme Example.parseToy (toyScheme.pubOf Example.keyEx) "git@example.com:acme/app.git"
        Example.env1Ex c' :=
  C02_signed_step_verifies_after_yaml_roundtrip toyScheme Example.renderToy Example.parseToy Example.parseToy_render
    Example.mEx Example.cEx (by simp [Example.mEx, NoUMapKVs, NoUMap, NoUMapList]) (by decide) Example.parse_mEx
    (Roundtrip.stableCommandY_of Example.stable_cEx) Example.keyEx "toy-alg" "git@example.com:acme/app.git"
    Example.penvEx Example.env1Ex Example.envExtends_ex

end GoPipeline.SignedRT
