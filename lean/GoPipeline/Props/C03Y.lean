/-
  C03, YAML leg — parse then `yaml.Marshal` yields the documented normal form with no data loss.
  Statements only; proofs of the named lemmas are in `GoPipeline/Lemmas/Parse03Y.lean` (which builds on
  `Lemmas/Parse03.lean`, `Lemmas/OrderY.lean` and `Model/MarshalY.lean`).

  Every theorem of `Props/C03.lean` has its counterpart here, stated on the value tree handed to
  `yaml.Marshal` (`MarshalY.yPipeline`, `yCommand`, `yStep`, `yMatrix`, `yCache`). `yaml.Marshal` can fail (an
  inline key equal to a declared key); for parsed input it never does, so the statements about parsed command
  steps *conclude* `yCommand c = .ok (.umap kvs)` instead of assuming it.

  Where the YAML leg writes the same sub-value as the JSON leg the statement says so (plugins, step env,
  scalar fields, matrix setup, scalar / unknown / contents steps). Where it legitimately differs (header of
  `Model/MarshalY.lean`) the YAML shape is its own theorem:
    * `C03_adjustment_skip_kept_yaml`, `C03_adjustment_skip_legs_differ` — `skip` kept unless nil (F11);
    * `C03_cache_shapes_yaml`, `C03_cache_disabled_only_yaml` — a cache that is only disabled is `{disabled: true}`;
    * `C03_signature_nil_fields_yaml` — nil `signed_fields` is `[]`;
    * `C03_nil_steps_yaml`, `C03_group_nil_steps_yaml`, `C03_parsed_steps_never_nil` — nil step lists are `[]`;
    * `C03_empty_trigger_yaml` — a trigger without contents is `{}`;
    * `C03_empty_env_omitted_yaml` — an empty pipeline env block is omitted.
  `C03_legs_same_normal_form_command` / `C03_legs_same_iff`: for a parsed command step the two legs hand over
  the identical value tree exactly when none of the first three differences is met.
  Known gaps are those of `Props/C03.lean` (finding F7; unknown keys inside `signature`).
-/
import GoPipeline.Lemmas.Parse03Y
namespace GoPipeline.Parse
open GoPipeline GoPipeline.Pipe GoPipeline.Marshal GoPipeline.Unm GoPipeline.Roundtrip GoPipeline.Order
open GoPipeline.MarshalY

-- `keysOf`, `commandKeys`: `Lemmas/Parse03.lean`. `Free` (no inline key is a declared key): `Lemmas/OrderY.lean`.
-- `NoEmptyishSkip`, `disabledOnly`, `SameLegs`, `AdjFree`: `Lemmas/Parse03Y.lean`.

/-! ### The counterparts of `Props/C03.lean` -/

/-- A bare step list becomes `steps` (and nothing else). -/
theorem C03_bare_list_becomes_steps_yaml (xs : List Val) (p : Pipeline) (ws : List Warn) (j : Val)
    (h : parsePipeline (.seq xs) = .ok (p, ws)) (hj : yPipeline p = .ok j) :
    ∃ js, j = .umap [("steps", .seq js)] ∧ js.length = xs.length := bare_list_becomes_steps_yaml xs p ws j h hj

/-- `command` / `commands` collapse into one newline-joined `command` (scalars stringified). -/
theorem C03_command_join_yaml (m : Entries) (c : CommandStep) (h : parseCommand m = .ok c) (v : Val)
    (hv : m.lookup "commands" = some v ∨ (m.lookup "commands" = none ∧ m.lookup "command" = some v)) :
    ∃ l kvs, strsOf v = .ok l ∧ yCommand c = .ok (.umap kvs) ∧
      kvs.lookup "command" = some (.str (joinLines (l.getD []))) := command_join_yaml m c h v hv

/-- `command` has no `omitempty`: it is written even when the document has neither key. -/
theorem C03_no_command_key_yaml (m : Entries) (c : CommandStep) (h : parseCommand m = .ok c)
    (h1 : m.lookup "commands" = none) (h2 : m.lookup "command" = none) :
    ∃ kvs, yCommand c = .ok (.umap kvs) ∧ kvs.lookup "command" = some (.str "") := no_command_key_yaml m c h h1 h2

/-- `name` fills `label` only when `label` is absent (an empty label is then omitted) … -/
theorem C03_label_from_name_yaml (m : Entries) (c : CommandStep) (h : parseCommand m = .ok c) (v : Val)
    (hl : m.lookup "label" = none) (hn : m.lookup "name" = some v) :
    ∃ s kvs, strOf v = .ok s ∧ yCommand c = .ok (.umap kvs) ∧
      kvs.lookup "label" = (if s = "" then none else some (.str s)) := label_from_name_yaml m c h v hl hn

/-- … otherwise `label` is the label and `name` stays where it was (an unknown key). -/
theorem C03_label_primary_yaml (m : Entries) (c : CommandStep) (h : parseCommand m = .ok c) (v : Val)
    (hl : m.lookup "label" = some v) (hm : (keysOf m).Nodup) :
    ∃ s kvs, strOf v = .ok s ∧ yCommand c = .ok (.umap kvs) ∧
      kvs.lookup "label" = (if s = "" then none else some (.str s)) ∧
      kvs.lookup "name" = m.lookup "name" := label_primary_yaml m c h v hl hm

/-- `id` / `identifier` fill `key` only when `key` is absent, `id` first. -/
theorem C03_key_from_aliases_yaml (m : Entries) (c : CommandStep) (h : parseCommand m = .ok c)
    (hk : m.lookup "key" = none) :
    ∃ s kvs, yCommand c = .ok (.umap kvs) ∧ kvs.lookup "key" = (if s = "" then none else some (.str s)) ∧
      (∀ v, m.lookup "id" = some v → strOf v = .ok s) ∧
      (∀ v, m.lookup "id" = none → m.lookup "identifier" = some v → strOf v = .ok s) ∧
      (m.lookup "id" = none → m.lookup "identifier" = none → s = "") := key_from_aliases_yaml m c h hk

/-- Every other key of a command step appears in the value tree exactly once with its input value, unchanged. -/
theorem C03_command_other_keys_preserved_yaml (m : Entries) (c : CommandStep) (h : parseCommand m = .ok c)
    (hm : (keysOf m).Nodup) (k : String) (hk : k ∉ commandKeys) :
    ∃ kvs, yCommand c = .ok (.umap kvs) ∧ kvs.lookup k = m.lookup k ∧ (kvs.map (·.1)).Nodup :=
  command_other_keys_preserved_yaml' m c h hm k hk

/-- Wait / input / trigger steps written as mappings keep every key and value. -/
theorem C03_contents_steps_preserved_yaml (m : Entries) (hm : (keysOf m).Nodup) (hne : m ≠ []) (k : String) :
    (∃ kvs, yStep (.wait "" (some (umapOf m))) = .ok (.umap kvs) ∧ kvs.lookup k = m.lookup k) ∧
    (∃ kvs, yStep (.input "" (some (umapOf m))) = .ok (.umap kvs) ∧ kvs.lookup k = m.lookup k) ∧
    (∃ kvs, yStep (.trigger (some (umapOf m))) = .ok (.umap kvs) ∧ kvs.lookup k = m.lookup k) :=
  contents_steps_preserved_yaml m hm hne k

/-- Scalar-step shorthands and unknown steps are handed over verbatim — the same values on both legs. -/
theorem C03_scalar_and_unknown_verbatim_yaml (s : String) (v : Val) (hs : s ≠ "") :
    yStep (.wait s none) = .ok (.str s) ∧ yStep (.input s none) = .ok (.str s) ∧ yStep (.unknown v) = .ok v ∧
    mStep (.wait s none) = .ok (.str s) ∧ mStep (.input s none) = .ok (.str s) ∧ mStep (.unknown v) = .ok v :=
  scalar_and_unknown_verbatim_yaml s v hs

/-- Plugins become an ordered list of single-entry objects keyed by canonical source, empty configs ⇒ null:
    `(*Plugin).MarshalYAML` writes the very value the JSON leg writes (`mPlugins`). -/
theorem C03_plugins_normal_form_yaml (m : Entries) (c : CommandStep) (h : parseCommand m = .ok c) (v : Val)
    (l : List (Option Plugin)) (hv : m.lookup "plugins" = some v) (hl : parsePlugins v = .ok (some l)) :
    ∃ ky kj, yCommand c = .ok (.umap ky) ∧ mCommand c = .umap kj ∧
      ky.lookup "plugins" = some (.seq (l.map fun
        | some p => Val.umap [(fullSource p.source,
            match p.config with | .umap [] => Val.null | .seq [] => .null | c => c)]
        | none => .null)) ∧
      kj.lookup "plugins" = ky.lookup "plugins" ∧ ∀ p ∈ l, p ≠ none := plugins_normal_form_yaml m c h v l hv hl

/-- Plugins written as one mapping: the list is in the mapping's key order. -/
theorem C03_plugins_order_from_mapping_yaml (m : Entries) (c : CommandStep) (h : parseCommand m = .ok c)
    (kvs : List (String × Val)) (hv : m.lookup "plugins" = some (.omap kvs)) (hne : kvs ≠ []) :
    ∃ ky, yCommand c = .ok (.umap ky) ∧
      ky.lookup "plugins" = some (.seq (kvs.map fun (k, v) =>
        Val.umap [(fullSource k, match toMapRec v with | .umap [] => Val.null | .seq [] => .null | c => c)])) :=
  plugins_order_from_mapping_yaml m c h kvs hv hne

/-- Pipeline env scalars become strings, in document order (a non-empty block; the empty one is omitted,
    `C03_empty_env_omitted_yaml`). -/
theorem C03_env_scalars_become_strings_yaml (m : Entries) (kvs : List (String × Val)) (p : Pipeline)
    (ws : List Warn) (j : Val) (henv : m.lookup "env" = some (.omap kvs)) (hne : kvs ≠ [])
    (hp : parsePipeline (.omap m) = .ok (p, ws)) (hj : yPipeline p = .ok j) :
    ∃ l out, List.Forall₂ (fun kv e => e.1 = kv.1 ∧ strOf kv.2 = .ok e.2) kvs l ∧
      j = .umap out ∧ out.lookup "env" = some (.omap (l.map fun (k, v) => (k, .str v))) :=
  env_scalars_become_strings_yaml m kvs p ws j henv hne hp hj

/-- Step env scalars become strings, as a Go map; an empty block is omitted; the same value on both legs. -/
theorem C03_step_env_yaml (m : Entries) (c : CommandStep) (h : parseCommand m = .ok c)
    (kvs : List (String × Val)) (hv : m.lookup "env" = some (.omap kvs)) :
    ∃ l ky kj, List.Forall₂ (fun kv e => e.1 = kv.1 ∧ strOf kv.2 = .ok e.2) kvs l ∧
      yCommand c = .ok (.umap ky) ∧ mCommand c = .umap kj ∧
      ky.lookup "env" = (if l = [] then none else some (.umap ((umapOf l).map fun (k, v) => (k, .str v)))) ∧
      kj.lookup "env" = ky.lookup "env" := step_env_yaml m c h kvs hv

/-- The matrix list shorthand: the list of stringified values, on both legs. -/
theorem C03_matrix_list_shorthand_yaml (xs : List Val) (m : Matrix) (h : parseMatrix (.seq xs) = .ok (some m))
    (hne : xs ≠ []) : ∃ l, strsOfSeq xs = .ok l ∧ yMatrix m = .ok (strsV l) ∧ mMatrix m = strsV l :=
  matrix_list_shorthand_yaml xs m h hne

/-- The matrix in general: the simple one is its setup (`mSetup`, as on the JSON leg); otherwise a mapping
    with that setup and, when there are any, the encoded adjustments. -/
theorem C03_matrix_fields_yaml (mx : Matrix) (j : Val) (h : yMatrix mx = .ok j) :
    (isSimple mx = true → j = mSetup mx.setup ∧ mMatrix mx = mSetup mx.setup) ∧
    (isSimple mx = false → ∃ kvs avs, j = .umap kvs ∧ yAdjustments (mx.adjustments.getD []) = .ok avs ∧
      kvs.lookup "setup" = some (mSetup mx.setup) ∧
      kvs.lookup "adjustments" = (if (mx.adjustments.getD []).isEmpty then none else some (.seq avs))) :=
  matrix_fields_yaml mx j h

/-- `setup` of a matrix written as a mapping is that same value on the JSON leg. -/
theorem C03_matrix_setup_json (mx : Matrix) (hf : Free Gen.struct_Matrix mx.rem) (hs : isSimple mx = false) :
    ∃ kvs, mMatrix mx = .umap kvs ∧ kvs.lookup "setup" = some (mSetup mx.setup) := matrix_setup_json mx hf hs

/-- The cache shorthands. `cache: false` is where the legs differ: `{disabled: true}` here, `false` there. -/
theorem C03_cache_shorthands_yaml (s : String) (xs : List Val) :
    (∃ c, parseCache (.str s) = .ok (some c) ∧ yCache c = .ok (.umap [("paths", strsV [s])]) ∧
      mCache c = .umap [("paths", strsV [s])]) ∧
    (∃ c, parseCache (.bool false) = .ok (some c) ∧ yCache c = .ok (.umap [("disabled", .bool true)]) ∧
      mCache c = .bool false) ∧
    (∃ c, parseCache (.bool true) = .ok (some c) ∧ yCache c = .ok (.umap []) ∧ mCache c = .umap []) ∧
    (∀ l, strsOfSeq xs = .ok l → l ≠ [] → ∃ c, parseCache (.seq xs) = .ok (some c) ∧
      yCache c = .ok (.umap [("paths", strsV l)]) ∧ mCache c = .umap [("paths", strsV l)]) :=
  cache_shorthands_yaml s xs

/-! ### Where the YAML leg has its own shape -/

/-- An adjustment: `with` in its canonical shape, `skip` kept unless nil. -/
theorem C03_adjustment_skip_kept_yaml (a : Adjustment) (j : Val) (h : yAdjustment a = .ok j) :
    ∃ kvs, j = .umap kvs ∧ kvs.lookup "with" = some (mWith a.with_) ∧
      kvs.lookup "skip" = (match a.skip with | .null => none | v => some v) := adjustment_fields_yaml a j h

/-- An empty-ish `skip` (`false`, `""`, `0`, `[]`) is dropped by the JSON leg and kept by the YAML leg (F11). -/
theorem C03_adjustment_skip_legs_differ (a : Adjustment) (hf : Free Gen.struct_MatrixAdjustment a.rem)
    (hs : emptyishSkip a.skip = true) :
    ∃ kj ky, mAdjustment a = .umap kj ∧ yAdjustment a = .ok (.umap ky) ∧
      kj.lookup "skip" = none ∧ ky.lookup "skip" = some a.skip := adjustment_skip_legs_differ a hf hs

/-- The cache is always a mapping of its non-empty fields (`Cache` has no `MarshalYAML`). -/
theorem C03_cache_shapes_yaml (k : Cache) (j : Val) (h : yCache k = .ok j) :
    ∃ kvs, j = .umap kvs ∧
      kvs.lookup "disabled" = (if k.disabled then some (.bool true) else none) ∧
      kvs.lookup "name" = (if k.name = "" then none else some (.str k.name)) ∧
      kvs.lookup "paths" = (if (k.paths.getD []).isEmpty then none else some (strsV (k.paths.getD []))) ∧
      kvs.lookup "size" = (if k.size = "" then none else some (.str k.size)) := cache_fields_yaml k j h

/-- The cache that is only disabled: `{disabled: true}`, where the JSON leg writes `false`. -/
theorem C03_cache_disabled_only_yaml (k : Cache) (hd : disabledOnly k = true) :
    yCache k = .ok (.umap [("disabled", .bool true)]) ∧ mCache k = .bool false := cache_disabled_only k hd

/-- Any other cache: the same value on both legs. -/
theorem C03_cache_same_legs (k : Cache) (hf : Free Gen.struct_Cache k.rem) (hd : disabledOnly k = false) :
    yCache k = .ok (mCache k) := yCache_eq k hf hd

/-- A signature with nil `signed_fields`: `[]`, where the JSON leg writes `null`. -/
theorem C03_signature_nil_fields_yaml (s : Signature) (h : s.signedFields = none) :
    ySignature s = .umap [("algorithm", .str s.algorithm), ("signed_fields", .seq []), ("value", .str s.value)] ∧
    mSignature s = .umap [("algorithm", .str s.algorithm), ("signed_fields", .null), ("value", .str s.value)] :=
  signature_nil_fields s h

/-- A nil step list is written `steps: []` … -/
theorem C03_nil_steps_yaml (p : Pipeline) (j : Val) (hs : p.steps = none) (h : yPipeline p = .ok j) :
    ∃ kvs, j = .umap kvs ∧ kvs.lookup "steps" = some (.seq []) := nil_steps_yaml p j hs h

/-- … where the JSON leg writes `steps: null` … -/
theorem C03_nil_steps_json (p : Pipeline) (hs : p.steps = none) (hr : p.rem = none) :
    ∃ kvs, mPipeline p = .ok (.umap kvs) ∧ kvs.lookup "steps" = some .null := nil_steps_json p hs hr

/-- … also inside a group step … -/
theorem C03_group_nil_steps_yaml (k : String) (g : Option String) (r : UMap Val) (j : Val)
    (h : yStep (.group k g none r) = .ok j) : ∃ kvs, j = .umap kvs ∧ kvs.lookup "steps" = some (.seq []) :=
  group_nil_steps_yaml k g r j h

/-- … but the parser never leaves the step list of a pipeline nil. -/
theorem C03_parsed_steps_never_nil (v : Val) (p : Pipeline) (ws : List Warn) (h : parsePipeline v = .ok (p, ws)) :
    p.steps ≠ none := parsePipeline_steps_some v p ws h

/-- A trigger step without contents: `{}`, where the JSON leg writes `null`. -/
theorem C03_empty_trigger_yaml : yStep (.trigger none) = .ok (.umap []) ∧ mStep (.trigger none) = .ok .null :=
  trigger_empty

/-- An empty pipeline env block is not written (the JSON leg writes `"env":{}`). -/
theorem C03_empty_env_omitted_yaml (p : Pipeline) (j : Val) (he : p.env = some [])
    (h : yPipeline p = .ok j) : ∃ kvs, j = .umap kvs ∧ kvs.lookup "env" = none := empty_env_omitted_yaml p j he h

/-! ### The two legs -/

/-- Every declared key of a command step's value tree (no key of the inline map can stand in for an omitted
    field: that would have been an encoding error). -/
theorem C03_command_fields_yaml (c : CommandStep) (j : Val) (h : yCommand c = .ok j) :
    ∃ kvs mv cv, j = .umap kvs ∧ yMatrixEntry c = .ok mv ∧ yCacheEntry c = .ok cv ∧
      kvs.lookup "key" = (if c.key = "" then none else some (.str c.key)) ∧
      kvs.lookup "label" = (if c.label = "" then none else some (.str c.label)) ∧
      kvs.lookup "command" = some (.str c.command) ∧
      kvs.lookup "plugins" =
        (if (c.plugins.getD []).isEmpty then none else some (mPlugins (c.plugins.getD []))) ∧
      kvs.lookup "env" = (if lenUMap c.env = 0 then none else some (envV c.env)) ∧
      kvs.lookup "signature" = c.signature.map ySignature ∧
      kvs.lookup "matrix" = mv.lookup "matrix" ∧
      kvs.lookup "cache" = cv.lookup "cache" := yCommand_fields c j h

/-- `key`, `label`, `command`, `plugins`, `env` of a parsed command step: the same on both legs, always. -/
theorem C03_legs_same_simple_fields (m : Entries) (c : CommandStep) (h : parseCommand m = .ok c) (k : String)
    (hk : k ∈ ["key", "label", "command", "plugins", "env"]) :
    ∃ kj ky, mCommand c = .umap kj ∧ yCommand c = .ok (.umap ky) ∧ kj.lookup k = ky.lookup k :=
  legs_same_simple_fields m c h k hk

/-- Wait, input, unknown steps and triggers with contents: the two legs write the same value or fail together. -/
theorem C03_legs_same_simple_steps (s : String) (c : UMap Val) (kvs : List (String × Val)) (v j : Val) :
    (yStep (.wait s c) = .ok j ↔ mStep (.wait s c) = .ok j) ∧
    (yStep (.input s c) = .ok j ↔ mStep (.input s c) = .ok j) ∧
    (yStep (.trigger (some kvs)) = .ok j ↔ mStep (.trigger (some kvs)) = .ok j) ∧
    (yStep (.unknown v) = .ok j ↔ mStep (.unknown v) = .ok j) := legs_same_simple_steps s c kvs v j

/-- For a parsed command step whose matrix has no adjustment with an empty-ish `skip`, whose cache is not
    "disabled only" and whose signature (if any) has non-nil `signed_fields` (`SameLegs`), `yaml.Marshal` is
    handed literally the value tree `json.Marshal` is handed. -/
theorem C03_legs_same_normal_form_command (m : Entries) (c : CommandStep) (h : parseCommand m = .ok c)
    (hmx : ∀ mx, c.matrix = some mx → NoEmptyishSkip mx)
    (hca : ∀ k, c.cache = some k → disabledOnly k = false)
    (hsg : ∀ s, c.signature = some s → s.signedFields ≠ none) :
    yCommand c = .ok (mCommand c) := legs_same_normal_form_command m c h ⟨hmx, hca, hsg⟩

/-- The three side conditions are exactly the differences: outside them the value trees do differ. -/
theorem C03_legs_same_iff (m : Entries) (c : CommandStep) (h : parseCommand m = .ok c) :
    yCommand c = .ok (mCommand c) ↔ SameLegs c := legs_same_iff m c h

/-- The JSON leg's fixpoint side condition on a matrix (`Roundtrip.StableMatrix`) implies the first one. -/
theorem C03_noEmptyishSkip_of_stable (mx : Matrix) (h : StableMatrix mx) : NoEmptyishSkip mx :=
  noEmptyishSkip_of_stable h

/-! Non-vacuity -/

/-- The example of `Props/C03.lean`, through to the YAML value tree. -/
example : ∃ c, parseCommand [("name", .str "n"), ("commands", .seq [.str "a", .int 2]), ("agents", .omap [("q", .str "x")]), ("id", .str "i")] = .ok c ∧
    yCommand c = .ok (.umap [("agents", .omap [("q", .str "x")]), ("command", .str "a\n2"), ("key", .str "i"), ("label", .str "n")]) ∧
    yCommand c = .ok (mCommand c) := ⟨_, rfl, rfl, rfl⟩

/-- A step inside all three side conditions (a kept `skip: true`, a cache with paths, a signature with fields). -/
example :
    let c : CommandStep :=
      { key := "", label := "", command := "x", plugins := none, env := none,
        signature := some { algorithm := "a", signedFields := some ["command"], value := "v" },
        matrix := some { setup := some [("", some ["p"])],
                         adjustments := some [some { with_ := some [("", "p")], skip := .bool true, rem := none }],
                         rem := none },
        cache := some { disabled := true, name := "", paths := some ["d"], size := "", rem := none }, rem := none }
    parseCommand [("command", .str "x"),
        ("signature", .omap [("algorithm", .str "a"), ("signed_fields", .seq [.str "command"]), ("value", .str "v")]),
        ("matrix", .omap [("setup", .seq [.str "p"]), ("adjustments", .seq [.omap [("with", .str "p"), ("skip", .bool true)]])]),
        ("cache", .omap [("disabled", .bool true), ("paths", .seq [.str "d"])])] = .ok c ∧
      SameLegs c ∧ yCommand c = .ok (mCommand c) := by
  refine ⟨rfl, ?_, rfl⟩
  simp [SameLegs, NoEmptyishSkip, disabledOnly, emptyishSkip, isEmptyAny]

/-- `skip: false` — dropped by the JSON leg, kept by the YAML leg. -/
example : ∃ c, parseCommand [("command", .str "x"), ("matrix", .omap [("setup", .seq [.str "a"]),
      ("adjustments", .seq [.omap [("with", .str "a"), ("skip", .bool false)]])])] = .ok c ∧
    yCommand c = .ok (.umap [("command", .str "x"), ("matrix", .umap [
      ("adjustments", .seq [.umap [("skip", .bool false), ("with", .str "a")]]), ("setup", .seq [.str "a"])])]) ∧
    mCommand c = .umap [("command", .str "x"), ("matrix", .umap [
      ("adjustments", .seq [.umap [("with", .str "a")]]), ("setup", .seq [.str "a"])])] := ⟨_, rfl, rfl, rfl⟩

/-- `cache: false`. -/
example : ∃ c, parseCommand [("command", .str "x"), ("cache", .bool false)] = .ok c ∧
    yCommand c = .ok (.umap [("cache", .umap [("disabled", .bool true)]), ("command", .str "x")]) ∧
    mCommand c = .umap [("cache", .bool false), ("command", .str "x")] := ⟨_, rfl, rfl, rfl⟩

/-- A signature without `signed_fields`. -/
example : ∃ c, parseCommand [("command", .str "x"), ("signature", .omap [("algorithm", .str "a"), ("value", .str "v")])] = .ok c ∧
    yCommand c = .ok (.umap [("command", .str "x"),
      ("signature", .umap [("algorithm", .str "a"), ("signed_fields", .seq []), ("value", .str "v")])]) ∧
    mCommand c = .umap [("command", .str "x"),
      ("signature", .umap [("algorithm", .str "a"), ("signed_fields", .null), ("value", .str "v")])] := ⟨_, rfl, rfl, rfl⟩

/-- Nil steps and an empty env block at pipeline level; an empty trigger. -/
example : yPipeline { steps := none, env := some [], rem := none } = .ok (.umap [("steps", .seq [])]) ∧
    mPipeline { steps := none, env := some [], rem := none } = .ok (.umap [("env", .omap []), ("steps", .null)]) :=
  ⟨rfl, rfl⟩

/-- A step list with a scalar step, an unknown step, a command step, an empty trigger and a group with a nil
    step list. -/
example : yPipeline { steps := some [.wait "wait" none, .unknown (.str "zzz"),
      .command { key := "", label := "", command := "x", plugins := none, env := none, signature := none,
                 matrix := none, cache := none, rem := none },
      .trigger none, .group "" (some "g") none none], env := none, rem := none } =
    .ok (.umap [("steps", .seq [.str "wait", .str "zzz", .umap [("command", .str "x")], .umap [],
      .umap [("group", .str "g"), ("steps", .seq [])]])]) := rfl

/-- The hypotheses of `C03_bare_list_becomes_steps_yaml` are satisfiable. -/
example : parsePipeline (.seq []) = .ok ({ steps := some [], env := none, rem := none }, []) ∧
    yPipeline { steps := some [], env := none, rem := none } = .ok (.umap [("steps", .seq [])]) := by
  refine ⟨?_, rfl⟩
  simp [parsePipeline, parseSteps_nil]

/-- Plugins and step env of a parsed step: the same values on both legs. -/
example : ∃ c, parseCommand [("command", .str "x"), ("env", .omap [("B", .int 1), ("A", .bool true)]),
      ("plugins", .seq [.str "a#v1", .omap [("b#v2", .omap [])]])] = .ok c ∧
    yCommand c = .ok (.umap [("command", .str "x"), ("env", .umap [("A", .str "true"), ("B", .str "1")]),
      ("plugins", .seq [.umap [(fullSource "a#v1", .null)], .umap [(fullSource "b#v2", .null)]])]) ∧
    yCommand c = .ok (mCommand c) := ⟨_, rfl, rfl, rfl⟩

end GoPipeline.Parse
