/-
  C14 — the canonical signing payload is deterministic, order-insensitive and injective.
  Statements only; proofs of the named lemmas are in `GoPipeline/Lemmas/Jcs.lean`.
-/
import GoPipeline.Lemmas.Jcs
namespace GoPipeline.Signing
open GoPipeline GoPipeline.Pipe GoPipeline.Marshal GoPipeline.Jcs

/-! ### The serialiser is injective -/

/-- Two well-formed JSON values with the same serialisation are the same value: no characters can
    move between adjacent fields, between a key and its value, or between nesting levels. -/
theorem C14_ser_injective (a b : J) (ha : WF a) (hb : WF b) (h : ser a = ser b) : a = b :=
  ser_injective a b ha hb h

/-- Canonicalisation forgets member order and nothing else. -/
theorem C14_jcs_injective (a b : J) (ha : WF a) (hb : WF b) (hka : KeysDistinct a) (hkb : KeysDistinct b)
    (h : jcs a = jcs b) : Equiv a b := jcs_injective a b ha hb hka hkb h

/-- Order-insensitive: values equal up to member order at every depth have the same bytes. -/
theorem C14_jcs_order_insensitive (a b : J) (hka : KeysDistinct a) (h : Equiv a b) : jcs a = jcs b :=
  jcs_order_insensitive a b hka h

/-! ### The payload -/

/-- Equal payloads ⇒ equal algorithm name and, field by field, equal values up to member order;
    in particular the two value maps have the same field names (`env::K` entries included). -/
theorem C14_payload_injective (alg₁ alg₂ : String) (v₁ v₂ : List (String × Val))
    (hw₁ : WFMembers (valJKVs v₁)) (hw₂ : WFMembers (valJKVs v₂))
    (hk₁ : KeysDistinct (.obj (valJKVs v₁))) (hk₂ : KeysDistinct (.obj (valJKVs v₂)))
    (h : payload alg₁ v₁ = payload alg₂ v₂) :
    alg₁ = alg₂ ∧ ∀ f : String,
      (match v₁.lookup f, v₂.lookup f with
       | some x, some y => Equiv (valJ x) (valJ y)
       | none, none => True
       | _, _ => False) := payload_injective alg₁ alg₂ v₁ v₂ hw₁ hw₂ hk₁ hk₂ h

/-- The payload does not depend on the order in which the value map is populated / iterated. -/
theorem C14_payload_order_insensitive (alg : String) (v₁ v₂ : List (String × Val))
    (hk : KeysDistinct (.obj (valJKVs v₁))) (hp : v₁.Perm v₂) : payload alg v₁ = payload alg v₂ :=
  payload_perm alg v₁ v₂ hk hp

/-- Strings are carried faithfully: equal up to member order means equal for strings. -/
theorem C14_string_field (a b : String) (h : Equiv (valJ (.str a)) (valJ (.str b))) : a = b :=
  str_field a b h

/-- An array is carried in order: equal up to member order means elementwise so, same length, same order
    (so reordering plugins changes the payload). -/
theorem C14_array_field (xs ys : List Val) (h : Equiv (valJ (.seq xs)) (valJ (.seq ys))) :
    List.Forall₂ (fun x y => Equiv (valJ x) (valJ y)) xs ys := arr_field xs ys h

/-! ### Invariances the property lists -/

/-- nil versus empty env / plugins / matrix. -/
theorem C14_nil_vs_empty :
    envField none = envField (some []) ∧ pluginsField none = pluginsField (some []) ∧
    ∀ m : Matrix, matrixIsEmpty m = true → matrixField (some m) = matrixField none := nil_vs_empty

/-- Equivalent plugin source spellings: replacing a source by its canonical form does not change
    what is signed (idempotence of canonicalisation, C17). -/
theorem C14_source_spelling (p : Plugin)
    (hd : (∀ c ∈ p.source.toList, PluginSrc.isDomChar c = true) ∧
          ((PluginSrc.cutHash p.source.toList).2 = [] ∨
           ∀ comp ∈ PluginSrc.splitOn '/' (PluginSrc.cutHash p.source.toList).2, comp ≠ [] ∧ comp ≠ ['.'] ∧ comp ≠ ['.', '.'])) :
    mPlugin { p with source := fullSource p.source } = mPlugin p := source_spelling p hd

/-- The same for every source, documented form or not: since finding F17 was fixed in the code (commit
    3ced888) canonicalisation is idempotent for every string (`Marshal.fullSource_idem`), so the domain
    hypothesis of `C14_source_spelling` is not needed. -/
theorem C14_source_spelling_any (p : Plugin) :
    mPlugin { p with source := fullSource p.source } = mPlugin p := source_spelling_any p

/-- The `env::` namespace cannot collide with an object field name, and distinct variable names
    give distinct field names: step env and pipeline env entries cannot be confused. -/
theorem C14_env_namespace (k : String) :
    (envNamespacePrefix ++ k) ∉ mandatoryFields ∧
    ∀ k', envNamespacePrefix ++ k = envNamespacePrefix ++ k' → k = k' := env_namespace k

/-! Non-vacuity / boundary-shift examples -/
example : ser (.obj [("a".toList, .str "bc".toList)]) ≠ ser (.obj [("ab".toList, .str "c".toList)]) := by decide
example : jcs (.obj [("b".toList, .num ['1']), ("a".toList, .null)]) = jcs (.obj [("a".toList, .null), ("b".toList, .num ['1'])]) := by decide
example : WF (.obj [("b".toList, .num ['1']), ("a".toList, .arr [.str [], .bool true])]) := by
  simp [WF, WFMembers, WFList, NumOK, isNumChar]

end GoPipeline.Signing
