/-
  C18 — only approved asymmetric key/algorithm pairs pass key validation (decision logic),
  over the tables regenerated from jwkutil/validate.go.
-/
import GoPipeline.Model.Jwk
import GoPipeline.Gen.Jwk
namespace GoPipeline.Jwk
open GoPipeline.Gen

abbrev validateGen (k : KeyDesc) : Except Err Unit :=
  validate jwkValidSigningAlgorithms jwkValidKeyTypes jwkValidAlgsForKeyType k

theorem C18_tables_recognised : jwkRecognised = true := by decide

/-- The checks are made in the order the model makes them. -/
theorem C18_check_order : jwkCheckOrder = checkOrder := by decide

private theorem ok_iff {e : Except Err Unit} : e = .ok () ↔ (match e with | .ok _ => true | .error _ => false) = true := by
  cases e <;> simp

/-- Accepted exactly when structurally valid, an algorithm is declared, it is a signature algorithm and
    (key type, algorithm) is RSA+PS512, EC+ES512 or OKP+EdDSA — for *all* key types and algorithm names. -/
theorem C18_validate_iff (k : KeyDesc) : validateGen k = .ok () ↔ accept k = true := by
  obtain ⟨sok, alg, kty⟩ := k
  cases sok
  · simp [validateGen, validate, accept]
  · cases alg with
    | none => simp [validateGen, validate, accept]
    | some p =>
      obtain ⟨isSig, name⟩ := p
      cases isSig
      · simp [validateGen, validate, accept]
      · by_cases h1 : name = "PS512"
        · subst h1
          by_cases k1 : kty = "RSA"; · subst k1; decide
          by_cases k2 : kty = "EC"; · subst k2; decide
          by_cases k3 : kty = "OKP"; · subst k3; decide
          by_cases k4 : kty = "OctetSeq"; · subst k4; decide
          simp [validateGen, validate, accept, approved, jwkValidSigningAlgorithms, jwkValidKeyTypes,
            jwkValidAlgsForKeyType, k1, k2, k3, k4]
        by_cases h2 : name = "ES512"
        · subst h2
          by_cases k1 : kty = "RSA"; · subst k1; decide
          by_cases k2 : kty = "EC"; · subst k2; decide
          by_cases k3 : kty = "OKP"; · subst k3; decide
          by_cases k4 : kty = "OctetSeq"; · subst k4; decide
          simp [validateGen, validate, accept, approved, jwkValidSigningAlgorithms, jwkValidKeyTypes,
            jwkValidAlgsForKeyType, k1, k2, k3, k4]
        by_cases h3 : name = "EdDSA"
        · subst h3
          by_cases k1 : kty = "RSA"; · subst k1; decide
          by_cases k2 : kty = "EC"; · subst k2; decide
          by_cases k3 : kty = "OKP"; · subst k3; decide
          by_cases k4 : kty = "OctetSeq"; · subst k4; decide
          simp [validateGen, validate, accept, approved, jwkValidSigningAlgorithms, jwkValidKeyTypes,
            jwkValidAlgsForKeyType, k1, k2, k3, k4]
        simp [validateGen, validate, accept, approved, jwkValidSigningAlgorithms, h1, h2, h3]

/-- Every symmetric key is rejected, whatever its algorithm. -/
theorem C18_symmetric_rejected (k : KeyDesc) (h : k.kty = "OctetSeq") : validateGen k ≠ .ok () := by
  intro hv
  have := (C18_validate_iff k).mp hv
  obtain ⟨sok, alg, kty⟩ := k
  simp only at h; subst h
  cases alg with
  | none => simp [accept] at this
  | some p => obtain ⟨s, n⟩ := p; simp [accept, approved] at this

/-- A missing algorithm is rejected; a non-signature algorithm is rejected. -/
theorem C18_missing_alg_rejected (k : KeyDesc) (h : k.alg = none) : validateGen k ≠ .ok () := by
  intro hv; have := (C18_validate_iff k).mp hv; simp [accept, h] at this

theorem C18_non_signature_alg_rejected (k : KeyDesc) (n : String) (h : k.alg = some (false, n)) :
    validateGen k ≠ .ok () := by
  intro hv; have := (C18_validate_iff k).mp hv; simp [accept, h] at this

/-- Every other signature algorithm (HS*, RS*, ES256, PS256, …: any name outside the three) is rejected. -/
theorem C18_other_alg_rejected (k : KeyDesc) (n : String) (h : k.alg = some (true, n))
    (hn : n ≠ "PS512" ∧ n ≠ "ES512" ∧ n ≠ "EdDSA") : validateGen k ≠ .ok () := by
  intro hv; have := (C18_validate_iff k).mp hv
  simp [accept, h, approved, hn.1, hn.2.1, hn.2.2] at this

/-! ### Loading from a key set -/

theorem firstIdx_spec (kids : List (Option String)) (want : String) (i : Nat) :
    firstIdx kids want = some i ↔ kids[i]? = some (some want) ∧ ∀ j, j < i → kids[j]? ≠ some (some want) := by
  induction kids generalizing i with
  | nil => simp [firstIdx]
  | cons k r ih =>
    unfold firstIdx
    by_cases hk : k = some want
    · subst hk
      simp only [beq_self_eq_true, if_true, Option.some.injEq]
      constructor
      · intro h; subst h; simp
      · intro ⟨_, h2⟩
        cases i with
        | zero => rfl
        | succ n => exact absurd (by simp) (h2 0 (Nat.succ_pos n))
    · have hb : (k == some want) = false := by simpa using hk
      simp only [hb, Bool.false_eq_true, if_false, Option.map_eq_some_iff]
      constructor
      · rintro ⟨a, ha, rfl⟩
        have := (ih a).mp ha
        refine ⟨by simpa using this.1, ?_⟩
        intro j hj
        cases j with
        | zero => simpa using hk
        | succ m => simpa using this.2 m (by omega)
      · intro ⟨h1, h2⟩
        cases i with
        | zero => simp at h1; exact absurd h1 hk
        | succ n =>
          refine ⟨n, (ih n).mpr ⟨by simpa using h1, ?_⟩, rfl⟩
          intro j hj
          have := h2 (j + 1) (by omega)
          simpa using this

/-- An id is requested: the first key with that id, or an error when no key has it. -/
theorem C18_pick_by_id (kids : List (Option String)) (keyID : String) (h : keyID ≠ "") :
    (∀ i, pick kids keyID = .ok i ↔ (kids[i]? = some (some keyID) ∧ ∀ j, j < i → kids[j]? ≠ some (some keyID))) ∧
    (pick kids keyID = .error .notFound ↔ ∀ i : Nat, kids[i]? ≠ some (some keyID)) := by
  have hb : (keyID == "") = false := by simpa using h
  constructor
  · intro i
    rw [← firstIdx_spec]
    unfold pick
    simp only [hb, Bool.false_eq_true, if_false]
    cases hf : firstIdx kids keyID <;> simp
  · unfold pick
    simp only [hb, Bool.false_eq_true, if_false]
    cases hf : firstIdx kids keyID with
    | none =>
      simp only [true_iff]
      intro i hi
      have := (firstIdx_spec kids keyID i).mpr
      -- if some index holds the id, a least one exists, contradicting hf
      induction kids generalizing i with
      | nil => simp at hi
      | cons k r ih =>
        unfold firstIdx at hf
        by_cases hk : k = some keyID
        · subst hk; simp at hf
        · have hb2 : (k == some keyID) = false := by simpa using hk
          simp only [hb2, Bool.false_eq_true, if_false, Option.map_eq_none_iff] at hf
          cases i with
          | zero => simp at hi; exact hk hi
          | succ n => exact ih hf n (by simpa using hi) (firstIdx_spec r keyID n).mpr
    | some i =>
      simp only [reduceCtorEq, false_iff]
      intro hall
      exact hall i ((firstIdx_spec kids keyID i).mp hf).1

/-- No id requested: the only key, and an error for an empty or ambiguous set. -/
theorem C18_pick_only_key (kids : List (Option String)) :
    (pick kids "" = .ok 0 ↔ kids.length = 1) ∧ (pick kids "" = .error .noSigningKeyID ↔ kids.length ≠ 1) := by
  unfold pick
  by_cases h : kids.length = 1 <;> simp [h]

/-- Validation is applied to the selected key: a load succeeds only with an accepted key. -/
theorem C18_load_validates (keys : List (Option String × KeyDesc)) (keyID : String) (i : Nat)
    (h : load jwkValidSigningAlgorithms jwkValidKeyTypes jwkValidAlgsForKeyType keys keyID = .ok i) :
    ∃ k, keys[i]? = some k ∧ accept k.2 = true ∧ pick (keys.map (·.1)) keyID = .ok i := by
  unfold load at h
  split at h; · simp at h
  rename_i j hj
  split at h; · simp at h
  rename_i kid k hk
  split at h; · simp at h
  rename_i hv
  simp only [Except.ok.injEq] at h; subst h
  exact ⟨(kid, k), hk, (C18_validate_iff k).mp hv, hj⟩

/-! Non-vacuity -/
example : validateGen { structOk := true, alg := some (true, "EdDSA"), kty := "OKP" } = .ok () := by decide
example : validateGen { structOk := true, alg := some (true, "RS512"), kty := "RSA" } = .error .unsupportedSigningAlg := by decide
example : validateGen { structOk := true, alg := some (true, "ES512"), kty := "RSA" } = .error .unsupportedAlgForKeyType := by decide
example : pick [some "a", none, some "b", some "a"] "b" = .ok 2 := by decide

end GoPipeline.Jwk
