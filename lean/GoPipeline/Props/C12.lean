/-
  C12 (string level) — matrix interpolation replaces exactly the permutation's tokens in a single pass.
  Statements only; proofs of the named lemmas are in `GoPipeline/Lemmas/MatrixToken.lean`.
  The step-level scoping theorems (which fields are transformed) are in `Props/C12Scope.lean`.
-/
import GoPipeline.Lemmas.MatrixToken
import GoPipeline.Gen.MatrixRE
namespace GoPipeline.MatrixTok

/-- The regexp literal in interpolate_matrix.go is the one `matchToken` was written for. -/
theorem C12_regexp_literal :
    Gen.matrixTokenRE = "\\{\\{\\s*matrix(\\.[\\w-\\.]+)?\\s*\\}\\}" ∧ Gen.matrixRERecognised = true := by
  decide

/-- `newMatrixInterpolator` writes the keys `""` (anonymous dimension) and `"." ++ dim`. -/
theorem C12_replacement_keys : Gen.matrixReplKeys = ["\"\"", "\".\" + dim"] := by decide

/-- A well-formed token is matched as a whole, with the right submatch, whatever follows. -/
theorem C12_token_grammar (w1 d w2 rest : List Char) (ok : Seg.OK (.tok w1 d w2)) :
    matchToken (Seg.render (.tok w1 d w2) ++ rest) = some (d, rest) := token_grammar w1 d w2 rest ok

/-- A string without `{{` is unchanged (and never an error). -/
theorem C12_no_double_brace_unchanged (repl : List Char → Option (List Char)) (s : List Char)
    (h : ¬ ['{', '{'] <:+: s) : transform repl s = .ok s := no_double_brace_unchanged repl s h

/-- For every string that is an alternation of brace-free text and well-formed tokens, the output is the
    text with each token replaced by its dimension's value — inserted verbatim, never rescanned (the
    values are arbitrary, including ones that look like tokens) — and the unknown list is exactly the
    tokens whose dimension the permutation lacks, in order. -/
theorem C12_segments (repl : List Char → Option (List Char)) (segs : List Seg) (ok : ∀ s ∈ segs, s.OK) :
    transformAux repl (render segs) = (subst repl segs, unknowns repl segs) := segments repl segs ok

/-- A token naming a dimension the permutation does not have makes the call fail. -/
theorem C12_unknown_dimension_fails (repl : List Char → Option (List Char)) (segs : List Seg)
    (ok : ∀ s ∈ segs, s.OK) (w1 d w2 : List Char) (hm : Seg.tok w1 d w2 ∈ segs) (hd : repl d = none) :
    ∃ u, transform repl (render segs) = .error u ∧ d ∈ u := unknown_dimension_fails repl segs ok w1 d w2 hm hd

/-- All dimensions known ⇒ success with the substituted text. -/
theorem C12_all_known_ok (repl : List Char → Option (List Char)) (segs : List Seg)
    (ok : ∀ s ∈ segs, s.OK) (hk : ∀ w1 d w2, Seg.tok w1 d w2 ∈ segs → repl d ≠ none) :
    transform repl (render segs) = .ok (subst repl segs) := all_known_ok repl segs ok hk

/-- Single pass on *arbitrary* input (near-miss look-alikes included): the input splits into
    segments such that every replaced region is a genuine token and everything else is copied. -/
theorem C12_single_pass (repl : List Char → Option (List Char)) (s : List Char) :
    ∃ segs : List Seg, render segs = s ∧
      (∀ w1 d w2, Seg.tok w1 d w2 ∈ segs → Seg.OK (.tok w1 d w2)) ∧
      transformAux repl s = (subst repl segs, unknowns repl segs) := single_pass repl s

/-- The failure is never silent: `transform` succeeds only if no token had an unknown dimension. -/
theorem C12_ok_iff_no_unknown (repl : List Char → Option (List Char)) (s : List Char) :
    (∃ out, transform repl s = .ok out) ↔ (transformAux repl s).2 = [] := ok_iff_no_unknown repl s

/-! Non-vacuity -/
example : transform (replOf [("os", "{{matrix.os}}"), ("", "x")]) "a {{ matrix.os }}{{matrix}} {{matrix .os}}".toList
    = .ok "a {{matrix.os}}x {{matrix .os}}".toList := by rw [transform_eq_fuel]; decide
example : transform (replOf [("os", "linux")]) "{{matrix.arch}}".toList = .error [".arch".toList] := by
  rw [transform_eq_fuel]; decide
example : Seg.OK (.tok [' '] ".os".toList [' ', '\t']) := by
  refine ⟨by decide, Or.inr ⟨"os".toList, rfl, by decide, by decide⟩, by decide⟩

end GoPipeline.MatrixTok
