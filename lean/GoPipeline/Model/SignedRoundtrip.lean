/-
  C02 — what "the embedded signatures of the re-parsed steps verify" means on the typed model.
  The typed model stores a signature's value as a string; `render`/`parseSig` convert between a scheme
  signature and that string (base64 JWS text in the implementation).
-/
import GoPipeline.Model.Signing
import GoPipeline.Model.Roundtrip
namespace GoPipeline.SignedRT
open GoPipeline GoPipeline.Pipe GoPipeline.Signing

/-- The signature record an agent reads out of a step. -/
def recordOf (S : SigScheme) (parseSig : String → Option S.Sig) (sg : Signature) : Option (Record S) :=
  (parseSig sg.value).map fun v => { algorithm := sg.algorithm, signedFields := sg.signedFields.getD [], value := v }

/-- A command step carries a signature that verifies for this step, repository and verification env. -/
def StepVerifies (S : SigScheme) (parseSig : String → Option S.Sig) (pub : S.Pub) (repo : String)
    (env : List (String × String)) (c : CommandStep) : Prop :=
  ∃ sg r, c.signature = some sg ∧ recordOf S parseSig sg = some r ∧ verify S r pub c repo env = .ok ()

mutual
  /-- Every command step of the tree (groups recursively) carries a verifying signature. -/
  def VerifiesAll (S : SigScheme) (parseSig : String → Option S.Sig) (pub : S.Pub) (repo : String)
      (env : List (String × String)) : Step → Prop
    | .command c => StepVerifies S parseSig pub repo env c
    | .group _ _ ss _ => match ss with | none => True | some l => VerifiesAllList S parseSig pub repo env l
    | _ => True
  def VerifiesAllList (S : SigScheme) (parseSig : String → Option S.Sig) (pub : S.Pub) (repo : String)
      (env : List (String × String)) : List Step → Prop
    | [] => True
    | s :: r => VerifiesAll S parseSig pub repo env s ∧ VerifiesAllList S parseSig pub repo env r
end

/-- The verification env contains the signed pipeline env (on the names no step env shadows is enough;
    containing it on every name is what the property asks) and may contain anything else. -/
def EnvExtends (penv env₁ : List (String × String)) : Prop :=
  (penv.map (·.1)).Nodup ∧ (env₁.map (·.1)).Nodup ∧ ∀ name v, (name, v) ∈ penv → env₁.lookup name = some v

/-- No empty-but-non-nil container INSIDE the step's matrix: `setup` is not an empty non-nil map, no dimension
    has an empty non-nil value list, no adjustment has an empty non-nil `with` map.
    `EmptyToNilMap/Slice/Ptr` normalise only the outermost container of each signed field, so inside the matrix
    the payload distinguishes `{}`/`[]` from `null`, which the C09 normal form (`normMatrix`) identifies.
    Needed by `C02_signed_fields_see_normal_form_only` (false without it); NOT needed by the round-trip
    theorems, because the JSON round trip keeps these containers exactly. -/
def MatrixInnerNonEmpty (c : CommandStep) : Prop :=
  ∀ m, c.matrix = some m →
    m.setup ≠ some [] ∧ (∀ kv ∈ m.setup.getD [], kv.2 ≠ some []) ∧
    (∀ a, some a ∈ m.adjustments.getD [] → a.with_ ≠ some [])

end GoPipeline.SignedRT
