/-
  C02 — what "the embedded signatures of the re-parsed steps verify" means on the typed model.
  The typed model stores a signature's value as a string; `render`/`parseSig` convert between a scheme
  signature and that string (base64 JWS text in the implementation).
-/
import GoPipeline.Model.Signing
import GoPipeline.Model.Roundtrip
namespace GoPipeline.SignedRT
open GoPipeline GoPipeline.Pipe GoPipeline.Signing

/-- The signature record an agent reads out of a step. -/
def recordOf (S : SigScheme) (parseSig : String → Option S.Sig) (sg : Signature) : Option (Record S) :=
  (parseSig sg.value).map fun v => { algorithm := sg.algorithm, signedFields := sg.signedFields.getD [], value := v }

/-- A command step carries a signature that verifies for this step, repository and verification env. -/
def StepVerifies (S : SigScheme) (parseSig : String → Option S.Sig) (pub : S.Pub) (repo : String)
    (env : List (String × String)) (c : CommandStep) : Prop :=
  ∃ sg r, c.signature = some sg ∧ recordOf S parseSig sg = some r ∧ verify S r pub c repo env = .ok ()

mutual
  /-- Every command step of the tree (groups recursively) carries a verifying signature. -/
  def VerifiesAll (S : SigScheme) (parseSig : String → Option S.Sig) (pub : S.Pub) (repo : String)
      (env : List (String × String)) : Step → Prop
    | .command c => StepVerifies S parseSig pub repo env c
    | .group _ _ ss _ => match ss with | none => True | some l => VerifiesAllList S parseSig pub repo env l
    | _ => True
  def VerifiesAllList (S : SigScheme) (parseSig : String → Option S.Sig) (pub : S.Pub) (repo : String)
      (env : List (String × String)) : List Step → Prop
    | [] => True
    | s :: r => VerifiesAll S parseSig pub repo env s ∧ VerifiesAllList S parseSig pub repo env r
end

/-- The verification env contains the signed pipeline env (on the names no step env shadows is enough;
    containing it on every name is what the property asks) and may contain anything else. -/
def EnvExtends (penv env₁ : List (String × String)) : Prop :=
  (penv.map (·.1)).Nodup ∧ (env₁.map (·.1)).Nodup ∧ ∀ name v, (name, v) ∈ penv → env₁.lookup name = some v

end GoPipeline.SignedRT
