/-
  C10 — mirror of `(*Pipeline).interpolateEnvBlock` (pipeline.go) over `internal/env.Env`
  (env.go): the pipeline `env:` block is walked in order with `Range`; the callback expands the
  entry's name and value with the *current* caller environment, renames the entry in place with
  `Replace`, and writes the value back into the caller environment unless runtime precedence
  applies.

  * The caller environment is an association list keyed by *normalised* names; `norm` is the
    identity (case-sensitive) or upper-casing (case-insensitive), as `Env.normaliseCase`.
  * `expand` is the string expansion of `buildkite/interpolate`: a parameter. It sees the
    environment only through lookups, exactly like `interpolate.Env.Get`.
  * The in-iteration `Replace` semantics is the one proved for the ordered map in C05
    (`aRangeReplace`): `done` = entries already passed, `dead` = keys removed from the part not yet
    visited by an earlier rename onto them.
-/
namespace GoPipeline.EnvBlock

variable {E : Type}

structure Env where
  entries : List (String × String)
  deriving Repr

def Env.get (norm : String → String) (e : Env) (k : String) : Option String := e.entries.lookup (norm k)

def assocSet (k v : String) : List (String × String) → List (String × String)
  | [] => [(k, v)]
  | (k', v') :: r => if k' == k then (k, v) :: r else (k', v') :: assocSet k v r

def Env.set (norm : String → String) (e : Env) (k v : String) : Env := ⟨assocSet (norm k) v e.entries⟩

abbrev Expand (E : Type) := (String → Option String) → String → Except E String

def dropKey (k : String) (l : List (String × String)) : List (String × String) := l.filter (fun p => p.1 != k)

/-- The callback of `interpolateEnvBlock` for one entry: expanded name, expanded value, new caller env. -/
def entryStep (expand : Expand E) (norm : String → String) (prefer : Bool) (env : Env) (k v : String) :
    Except E (String × String × Env) :=
  match expand (env.get norm) k with
  | .error e => .error e
  | .ok k' =>
    match expand (env.get norm) v with
    | .error e => .error e
    | .ok v' =>
      -- "If the variable already existed and we prefer the runtime environment then don't overwrite it"
      let exists_ := (env.get norm k').isSome
      let env' := if prefer && exists_ then env else env.set norm k' v'
      .ok (k', v', env')

/-- `p.Env.Range(callback)` with `p.Env.Replace(k, k', v')` inside the callback. -/
def blockLoop (expand : Expand E) (norm : String → String) (prefer : Bool)
    (done : List (String × String)) (dead : List String) (env : Env) :
    List (String × String) → Except E (List (String × String) × Env)
  | [] => .ok (done, env)
  | (k, v) :: rest =>
    if dead.contains k then blockLoop expand norm prefer done dead env rest
    else
      match entryStep expand norm prefer env k v with
      | .error e => .error e
      | .ok (k', v', env') =>
        if k' == k then blockLoop expand norm prefer (done ++ [(k', v')]) dead env' rest
        else blockLoop expand norm prefer (dropKey k' done ++ [(k', v')]) (k' :: dead) env' rest

/-- `interpolateEnvBlock`: `none` is a nil `*ordered.MapSS` (Range on nil does nothing). -/
def envBlock (expand : Expand E) (norm : String → String) (prefer : Bool) (env : Env)
    (block : Option (List (String × String))) : Except E (Option (List (String × String)) × Env) :=
  match block with
  | none => .ok (none, env)
  | some b => (blockLoop expand norm prefer [] [] env b).map (fun r => (some r.1, r.2))

/-! ## Specification: top to bottom, each entry sees the caller env plus all earlier entries -/

/-- Entry by entry: expanded pair and the environment handed to the next entry. -/
def specFold (expand : Expand E) (norm : String → String) (prefer : Bool) (env : Env) :
    List (String × String) → Except E (List (String × String) × Env)
  | [] => .ok ([], env)
  | (k, v) :: rest =>
    match entryStep expand norm prefer env k v with
    | .error e => .error e
    | .ok (k', v', env') =>
      match specFold expand norm prefer env' rest with
      | .error e => .error e
      | .ok (out, envF) => .ok ((k', v') :: out, envF)

/-- The caller environment each entry is expanded with (stops at the first failing entry). -/
def specEnvs (expand : Expand E) (norm : String → String) (prefer : Bool) (env : Env) :
    List (String × String) → List Env
  | [] => []
  | (k, v) :: rest =>
    env :: (match entryStep expand norm prefer env k v with
            | .error _ => []
            | .ok (_, _, env') => specEnvs expand norm prefer env' rest)

/-- The renames of a block do not collide: the expanded names are pairwise distinct, and a renamed
    name is not the (original) name of another entry. -/
def NoCollide (orig : List String) (renamed : List String) : Prop :=
  renamed.Nodup ∧ ∀ i, ∀ h : i < renamed.length, ∀ h' : i < orig.length,
    renamed[i] = orig[i] ∨ renamed[i] ∉ orig

end GoPipeline.EnvBlock
