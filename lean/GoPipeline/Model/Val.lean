/-
  Shared value universe and the VL line codec (DESIGN §4.2, §5).

  `Val` is what `ordered.DecodeYAML` produces (plus `umap` for plain Go maps).
  Floats and timestamps carry opaque renderings supplied by the harness.
  Core-only: this file is linked into the `driver` executable.
-/
namespace GoPipeline

inductive Val where
  | null
  | bool (b : Bool)
  | int (i : Int)
  | float (lit : String)
  | time (lit : String)
  | str (s : String)
  | seq (xs : List Val)
  | omap (kvs : List (String × Val))   -- order-significant (`*ordered.Map`)
  | umap (kvs : List (String × Val))   -- Go `map[string]…`, kept sorted by key
  deriving Inhabited, Repr

namespace Val

/-! ### Printer -/

def encStr (s : String) : String :=
  "s" ++ toString s.toList.length ++ ":" ++ s

mutual
  def enc : Val → String
    | .null => "n"
    | .bool true => "t"
    | .bool false => "f"
    | .int i => "i" ++ toString i ++ ";"
    | .float l => "d" ++ toString l.toList.length ++ ":" ++ l
    | .time l => "T" ++ toString l.toList.length ++ ":" ++ l
    | .str s => encStr s
    | .seq xs => "l" ++ toString xs.length ++ ";" ++ encList xs
    | .omap kvs => "o" ++ toString kvs.length ++ ";" ++ encKVs kvs
    | .umap kvs => "u" ++ toString kvs.length ++ ";" ++ encKVs kvs
  def encList : List Val → String
    | [] => ""
    | v :: vs => enc v ++ encList vs
  def encKVs : List (String × Val) → String
    | [] => ""
    | (k, v) :: kvs => encStr k ++ enc v ++ encKVs kvs
end

/-! ### Parser (trusted glue; `partial`, never used in a theorem) -/

abbrev P := List Char

def takeNat : P → Nat → Nat × P
  | c :: cs, acc => if c.isDigit then takeNat cs (acc * 10 + (c.toNat - 48)) else (acc, c :: cs)
  | [], acc => (acc, [])

def takeInt : P → Option (Int × P)
  | '-' :: cs => let (n, r) := takeNat cs 0; some (-(n : Int), r)
  | cs => let (n, r) := takeNat cs 0; some ((n : Int), r)

def expect (c : Char) : P → Option P
  | d :: cs => if c = d then some cs else none
  | [] => none

def takeChars (n : Nat) (p : P) : Option (String × P) :=
  if p.length < n then none else some (String.ofList (p.take n), p.drop n)

def parseLenStr (p : P) : Option (String × P) := do
  let (n, r) := takeNat p 0
  let r ← expect ':' r
  takeChars n r

def parseStrTok : P → Option (String × P)
  | 's' :: r => parseLenStr r
  | _ => none

mutual
  partial def parse : P → Option (Val × P)
    | 'n' :: r => some (.null, r)
    | 't' :: r => some (.bool true, r)
    | 'f' :: r => some (.bool false, r)
    | 'i' :: r => do
        let (i, r) ← takeInt r
        let r ← expect ';' r
        pure (.int i, r)
    | 'd' :: r => do let (s, r) ← parseLenStr r; pure (.float s, r)
    | 'T' :: r => do let (s, r) ← parseLenStr r; pure (.time s, r)
    | 's' :: r => do let (s, r) ← parseLenStr r; pure (.str s, r)
    | 'l' :: r => do
        let (n, r) := takeNat r 0
        let r ← expect ';' r
        let (xs, r) ← parseN n r
        pure (.seq xs, r)
    | 'o' :: r => do
        let (n, r) := takeNat r 0
        let r ← expect ';' r
        let (kvs, r) ← parseKVN n r
        pure (.omap kvs, r)
    | 'u' :: r => do
        let (n, r) := takeNat r 0
        let r ← expect ';' r
        let (kvs, r) ← parseKVN n r
        pure (.umap kvs, r)
    | _ => none
  partial def parseN : Nat → P → Option (List Val × P)
    | 0, r => some ([], r)
    | n + 1, r => do
        let (v, r) ← parse r
        let (vs, r) ← parseN n r
        pure (v :: vs, r)
  partial def parseKVN : Nat → P → Option (List (String × Val) × P)
    | 0, r => some ([], r)
    | n + 1, r => do
        let (k, r) ← parseStrTok r
        let (v, r) ← parse r
        let (kvs, r) ← parseKVN n r
        pure ((k, v) :: kvs, r)
end

end Val

/-! ### Line escaping: `\n`, `\r`, `\\` so that one request is one line. -/

def unescapeLine : List Char → List Char
  | '\\' :: 'n' :: r => '\n' :: unescapeLine r
  | '\\' :: 'r' :: r => '\r' :: unescapeLine r
  | '\\' :: '\\' :: r => '\\' :: unescapeLine r
  | c :: r => c :: unescapeLine r
  | [] => []

def escapeLine : List Char → List Char
  | '\n' :: r => '\\' :: 'n' :: escapeLine r
  | '\r' :: r => '\\' :: 'r' :: escapeLine r
  | '\\' :: r => '\\' :: '\\' :: escapeLine r
  | c :: r => c :: escapeLine r
  | [] => []

def escapeStr (s : String) : String := String.ofList (escapeLine s.toList)

/-- Skip spaces, then parse `n` whitespace-separated VL values from a request tail. -/
def skipSp : List Char → List Char
  | ' ' :: r => skipSp r
  | r => r

partial def parseArgs (p : List Char) : Option (List Val) :=
  match skipSp p with
  | [] => some []
  | r => do
      let (v, r) ← Val.parse r
      let vs ← parseArgs r
      pure (v :: vs)

end GoPipeline
