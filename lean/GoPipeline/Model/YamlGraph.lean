/-
  C07 — the graph `decodeYAML` walks: from a node to the nodes it is called on next. Used to state that the
  recursion error is reported only when that graph has a cycle (an acyclic document is never rejected as
  infinitely recursive).
-/
import GoPipeline.Model.Yaml
namespace GoPipeline.Yaml

/-- One step of the value-decoding recursion: `decode` on `i` calls `decode` on `j`. For a mapping the next
    nodes are the value nodes the merge walk yields (`rangeMap`): merged content counts, `<<` values as such do not. -/
inductive Edge (s : Store) : Nat → Nat → Prop
  | seq (i c : Nat) (n : NodeRec) : s[i]? = some n → n.kind = .sequence → c ∈ n.content → Edge s i c
  | doc (i c : Nat) (n : NodeRec) : s[i]? = some n → n.kind = .document → n.content = [c] → Edge s i c
  | alias (i t : Nat) (n : NodeRec) : s[i]? = some n → n.kind = .alias → n.aliasTo = some t → Edge s i t
  | map (i v : Nat) (n : NodeRec) (ps : List (String × Nat)) (k : String) : s[i]? = some n → n.kind = .mapping →
      rangeMap s (bound s) i = .ok ps → (k, v) ∈ ps → Edge s i v

/-- Reflexive-transitive closure. -/
inductive Reach (s : Store) : Nat → Nat → Prop
  | refl (i : Nat) : Reach s i i
  | step (i j k : Nat) : Edge s i j → Reach s j k → Reach s i k

/-- `j` lies on a cycle of the value graph. -/
def OnCycle (s : Store) (j : Nat) : Prop := ∃ c, Edge s j c ∧ Reach s c j

/-- No cycle is reachable from `root`. -/
def Acyclic (s : Store) (root : Nat) : Prop := ¬ ∃ j, Reach s root j ∧ OnCycle s j

end GoPipeline.Yaml
