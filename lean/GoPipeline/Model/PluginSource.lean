/-
  C17 — mirror of `(*Plugin).FullSource` (plugin.go) with a model of the parts of
  `net/url.Parse` it depends on. (Until fix 3ced888 the code cleaned the result with `path.Join`;
  `cleanRel`/`pathJoin` below model that and are kept for the record of finding F17.)

  `fullSource` returns `none` for inputs on which `url.Parse` takes paths this model does not
  describe (percent escapes, `?` queries): those are outside the property's documented forms.
  Strings are `List Char`.
-/
namespace GoPipeline.PluginSrc

abbrev Str := List Char

def splitOn (sep : Char) : Str → List Str
  | [] => [[]]
  | c :: r =>
    if c == sep then [] :: splitOn sep r
    else match splitOn sep r with
      | [] => [[c]]                 -- unreachable: splitOn never returns []
      | h :: t => (c :: h) :: t

def joinWith (sep : Char) : List Str → Str
  | [] => []
  | [x] => x
  | x :: y :: r => x ++ sep :: joinWith sep (y :: r)

/-- `strings.Cut(s, "#")`: text before the first `#`, and the text after it (`""` if none). -/
def cutHash : Str → Str × Str
  | [] => ([], [])
  | c :: r => if c == '#' then ([], r) else let (a, b) := cutHash r; (c :: a, b)

def isAlpha (c : Char) : Bool := ('a' ≤ c && c ≤ 'z') || ('A' ≤ c && c ≤ 'Z')
def isSchemeTail (c : Char) : Bool := ('0' ≤ c && c ≤ '9') || c == '+' || c == '-' || c == '.'

/-- Result of `net/url.getScheme`. -/
inductive Scheme where
  | none_                -- no scheme: the whole input is the rest
  | some_ (scheme rest : Str)
  | err                  -- "missing protocol scheme" (`:` first)
  deriving Repr, DecidableEq

/-- `getScheme` loop from position `i` (only `i = 0` matters for the two special cases). -/
def getSchemeFrom (first : Bool) (acc : Str) : Str → Scheme
  | [] => .none_
  | c :: r =>
    if isAlpha c then getSchemeFrom false (acc ++ [c]) r
    else if isSchemeTail c then (if first then .none_ else getSchemeFrom false (acc ++ [c]) r)
    else if c == ':' then (if first then .err else .some_ acc r)
    else .none_

def getScheme (s : Str) : Scheme := getSchemeFrom true [] s

/-- `stringContainsCTLByte` -/
def hasCTL (s : Str) : Bool := s.any (fun c => c.toNat < 0x20 || c.toNat == 0x7f)

/-- `path.Clean` for a relative path given as `/`-separated components (result components;
    empty result stands for `"."`). -/
def cleanRel : List Str → List Str → List Str
  | stack, [] => stack.reverse
  | stack, c :: r =>
    if c == [] || c == ['.'] then cleanRel stack r
    else if c == ['.', '.'] then
      match stack with
      | top :: rest => if top == ['.', '.'] then cleanRel (c :: stack) r else cleanRel rest r
      | [] => cleanRel [c] r
    else cleanRel (c :: stack) r

/-- `path.Join(elems...)` for elements none of which starts with `/` after joining
    (the first element here is always `github.com`). -/
def pathJoin (elems : List Str) : Str :=
  let ne := elems.filter (· != [])
  if ne == [] then []
  else
    match cleanRel [] (splitOn '/' (joinWith '/' ne)) with
    | [] => ['.']
    | comps => joinWith '/' comps

def suffix : Str := "-buildkite-plugin".toList
def githubCom : Str := "github.com".toList
def bkPlugins : Str := "buildkite-plugins".toList

/-- `lastSegment` closure of `FullSource`. -/
def lastSegment (n f : Str) : Str :=
  let n := n ++ suffix
  if f == [] then n else n ++ '#' :: f

/-- `(*Plugin).FullSource`. `none` = outside the modelled part of `url.Parse`. -/
def fullSource (s : Str) : Option Str :=
  match s with
  | [] => some []
  | c0 :: _ =>
    if c0 == '/' || c0 == '.' || c0 == '\\' then some s
    else if s.contains '%' || s.contains '?' then none
    else
      let (u, frag) := cutHash s
      if hasCTL u then some s                      -- url.Parse error ⇒ Source
      else if u == ['*'] then some (githubCom ++ '/' :: bkPlugins ++ '/' :: lastSegment u frag)
      else
        match getScheme u with
        | .err => some s                            -- url.Parse error ⇒ Source
        | .some_ _ _ => some s                      -- Scheme or Opaque set (or a parse error) ⇒ Source
        | .none_ =>
          -- rest = u, which does not start with `/`; first path segment must not contain `:`
          let seg0 := (splitOn '/' u).headD []
          if seg0.contains ':' then some s          -- url.Parse error ⇒ Source
          else
            -- Path = u, Fragment = frag
            match splitOn '/' u with
            | [p0] => some (githubCom ++ '/' :: bkPlugins ++ '/' :: lastSegment p0 frag)
            | [p0, p1] => some (githubCom ++ '/' :: p0 ++ '/' :: lastSegment p1 frag)
            | _ => some s

/-- `strings.Cut(rest, "?")` (and the `ForceQuery` case): the text before the first `?`. -/
def cutQuery : Str → Str
  | [] => []
  | c :: r => if c == '?' then [] else c :: cutQuery r

/-- `FullSource` on sources with a `?` (outside the documented forms; no theorem is stated about it, it
    is tied to the code by the correspondence only): `url.Parse` cuts the query off the path after
    looking for a scheme. Still `none` when a `%` escape is involved. -/
def fullSourceQ (s : Str) : Option Str :=
  match s with
  | [] => some []
  | c0 :: _ =>
    if c0 == '/' || c0 == '.' || c0 == '\\' then some s
    else if s.contains '%' then none
    else
      let (u, frag) := cutHash s
      if hasCTL u then some s
      else if u == ['*'] then some (githubCom ++ '/' :: bkPlugins ++ '/' :: lastSegment u frag)
      else
        match getScheme u with
        | .err => some s
        | .some_ _ _ => some s
        | .none_ =>
          let rest := cutQuery u
          let seg0 := (splitOn '/' rest).headD []
          if seg0.contains ':' then some s
          else
            match splitOn '/' rest with
            | [p0] => some (githubCom ++ '/' :: bkPlugins ++ '/' :: lastSegment p0 frag)
            | [p0, p1] => some (githubCom ++ '/' :: p0 ++ '/' :: lastSegment p1 frag)
            | _ => some s

/-! ## Documented domain -/

def isNameChar (c : Char) : Bool :=
  ('a' ≤ c && c ≤ 'z') || ('A' ≤ c && c ≤ 'Z') || ('0' ≤ c && c ≤ '9') || c == '.' || c == '_' || c == '-'

/-- A name / org: non-empty, over `[A-Za-z0-9._-]`, not starting with `.`. -/
def NameOK (n : Str) : Prop := n ≠ [] ∧ (∀ c ∈ n, isNameChar c = true) ∧ n.head? ≠ some '.'

/-- A git-legal ref over letters, digits, `.`, `_`, `-` and `/` whose `/`-separated components are non-empty and
    neither `.` nor `..` (the property excludes the rest). -/
def RefOK (r : Str) : Prop :=
  r ≠ [] ∧ (∀ c ∈ r, isNameChar c = true ∨ c = '/') ∧
  ∀ comp ∈ splitOn '/' r, comp ≠ [] ∧ comp ≠ ['.'] ∧ comp ≠ ['.', '.']

/-- Optional `#ref`. -/
def withRef (base : Str) (ref : Option Str) : Str :=
  match ref with
  | none => base
  | some r => base ++ '#' :: r

def RefOptOK : Option Str → Prop
  | none => True
  | some r => RefOK r

/-- Characters of the documented forms (no `%`, `?`, controls). -/
def isDomChar (c : Char) : Bool :=
  isNameChar c || c == '/' || c == '#' || c == ':' || c == '@' || c == '\\'

end GoPipeline.PluginSrc
