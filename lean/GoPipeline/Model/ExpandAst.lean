/-
  Expansion semantics of `buildkite/interpolate` over its own AST (`Expression.Expand` and the
  `Expand` methods of interpolate.go). The AST comes from the library's real parser (sent by the
  harness); only the evaluation is modelled. Used by the C10 driver to instantiate `expand`.
-/
namespace GoPipeline.ExpandAst

inductive Item where
  | text (t : String)
  | var (id : String)
  | empty (id : String) (content : List Item)      -- ${ID:-content}
  | unset (id : String) (content : List Item)      -- ${ID-content}
  | escaped                                         -- $$ or \$
  | substr (id : String) (off : Int) (len : Option Int)
  | required (id : String) (msg : List Item)       -- ${ID?msg}
  deriving Inhabited

/-- Go string slicing is by byte; the harness only uses substring forms on ASCII values. -/
def substr (val : String) (off : Int) (len : Option Int) : String :=
  let cs := val.toList
  let n : Int := cs.length
  let from_ := if off < 0 then off + n else off
  let from_ := if from_ < 0 then 0 else from_
  let from_ := if from_ > n then n else from_
  match len with
  | none => String.ofList (cs.drop from_.toNat)
  | some l =>
    let to_ := if l >= 0 then from_ + l else n + l
    let to_ := if to_ > n then n else to_
    let to_ := if to_ < from_ then from_ else to_
    String.ofList ((cs.drop from_.toNat).take (to_ - from_).toNat)

mutual
  def expandItems (lookup : String → Option String) : List Item → Except String String
    | [] => .ok ""
    | it :: r =>
      match expandItem lookup it with
      | .error e => .error e
      | .ok a =>
        match expandItems lookup r with
        | .error e => .error e
        | .ok b => .ok (a ++ b)
  def expandItem (lookup : String → Option String) : Item → Except String String
    | .text t => .ok t
    | .var id => .ok ((lookup id).getD "")
    | .empty id c =>
      let v := (lookup id).getD ""
      if v == "" then expandItems lookup c else .ok v
    | .unset id c =>
      match lookup id with
      | none => expandItems lookup c
      | some v => .ok v
    | .escaped => .ok "$"
    | .substr id off len => .ok (substr ((lookup id).getD "") off len)
    | .required id msg =>
      match lookup id with
      | some v => .ok v
      | none =>
        match expandItems lookup msg with
        | .error e => .error e
        | .ok _ => .error ("$" ++ id)
end

end GoPipeline.ExpandAst
