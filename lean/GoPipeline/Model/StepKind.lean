/-
  C15 — step-kind selection (`steps.go: stepFromMap / stepByType / stepByKeyInference`,
  `step_scalar.go: NewScalarStep`) as interpreters over the tables regenerated in `Gen/StepKinds`.
-/
namespace GoPipeline.StepKind

inductive Kind where
  | command | wait | input | trigger | group | unknown
  deriving DecidableEq, Repr, Inhabited

def Kind.name : Kind → String
  | .command => "command" | .wait => "wait" | .input => "input"
  | .trigger => "trigger" | .group => "group" | .unknown => "unknown"

/-- `switch s { case "a", "b": … }`: the first case listing `s`. -/
def byString (tbl : List (List String × Kind)) (s : String) : Option Kind :=
  (tbl.find? (fun row => row.1.contains s)).map (·.2)

/-- `switch { case o.Contains("a") || o.Contains("b"): … }`: the first case with a present key. -/
def byKeys (tbl : List (List String × Kind)) (has : String → Bool) : Option Kind :=
  (tbl.find? (fun row => row.1.any has)).map (·.2)

/-- The value found under `type`. -/
inductive TypeVal where
  | absent
  | str (s : String)
  | nonString
  deriving Repr

/-- Outcome of the selection part of `stepFromMap`. -/
inductive Sel where
  | known (k : Kind)          -- a typed step of this kind is allocated
  | unknownType               -- UnknownStep + warning wrapping ErrUnknownStepType
  | inferFail                 -- UnknownStep + warning wrapping ErrStepTypeInference
  | hardError                 -- `type` is not a string: the whole parse fails
  deriving DecidableEq, Repr

def select (typeTbl inferTbl : List (List String × Kind)) (has : String → Bool) : TypeVal → Sel
  | .nonString => .hardError
  | .str s => match byString typeTbl s with
    | some k => .known k
    | none => .unknownType
  | .absent => match byKeys inferTbl has with
    | some k => .known k
    | none => .inferFail

/-- `NewScalarStep`. -/
def selectScalar (scalarTbl : List (List String × Kind)) (s : String) : Sel :=
  match byString scalarTbl s with
  | some k => .known k
  | none => .unknownType

/-! ### The documented rule, written outright -/

def specType (s : String) : Sel :=
  if s = "command" ∨ s = "script" then .known .command
  else if s = "wait" ∨ s = "waiter" then .known .wait
  else if s = "block" ∨ s = "input" ∨ s = "manual" then .known .input
  else if s = "trigger" then .known .trigger
  else if s = "group" then .known .group
  else .unknownType

def specInfer (has : String → Bool) : Sel :=
  if has "command" || has "commands" || has "plugins" then .known .command
  else if has "wait" || has "waiter" then .known .wait
  else if has "block" || has "input" || has "manual" then .known .input
  else if has "trigger" then .known .trigger
  else if has "group" then .known .group
  else .inferFail

def specSelect (has : String → Bool) : TypeVal → Sel
  | .nonString => .hardError
  | .str s => specType s
  | .absent => specInfer has

def specScalar (s : String) : Sel :=
  if s = "wait" ∨ s = "waiter" then .known .wait
  else if s = "block" ∨ s = "input" ∨ s = "manual" then .known .input
  else .unknownType

/-- The ten kind-determining keys. -/
def kindKeys : List String :=
  ["command", "commands", "plugins", "wait", "waiter", "block", "input", "manual", "trigger", "group"]

end GoPipeline.StepKind
