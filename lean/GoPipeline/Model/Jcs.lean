/-
  C14 — JSON values and the RFC 8785 (JCS) canonical serialisation that `canonicalPayload`
  (signature/sign.go) produces via `json.Marshal` + `jcs.Transform`.

  * Object members are sorted by the UTF-16 code units of their (raw) names.
  * Strings use the minimal escapes of RFC 8785 §3.2.2.2.
  * Number literals are carried as given (the harness supplies the ES6 form); the theorems assume
    they are tokens over the number alphabet (`NumOK`).
-/
namespace GoPipeline.Jcs

inductive J where
  | null
  | bool (b : Bool)
  | num (lit : List Char)
  | str (s : List Char)
  | arr (xs : List J)
  | obj (kvs : List (List Char × J))
  deriving Inhabited

/-! ## Serialisation -/

def hexDigit (n : Nat) : Char :=
  if n < 10 then Char.ofNat (48 + n) else Char.ofNat (87 + n)   -- 0-9, a-f

/-- RFC 8785 string escaping of one character. -/
def escChar (c : Char) : List Char :=
  if c = '"' then ['\\', '"']
  else if c = '\\' then ['\\', '\\']
  else if c = '\x08' then ['\\', 'b']
  else if c = '\t' then ['\\', 't']
  else if c = '\n' then ['\\', 'n']
  else if c = '\x0c' then ['\\', 'f']
  else if c = '\r' then ['\\', 'r']
  else if c.toNat < 0x20 then ['\\', 'u', '0', '0', hexDigit (c.toNat / 16), hexDigit (c.toNat % 16)]
  else [c]

def escStr : List Char → List Char
  | [] => []
  | c :: r => escChar c ++ escStr r

def quote (s : List Char) : List Char := '"' :: escStr s ++ ['"']

mutual
  /-- Serialise a value whose object members are already in the intended order. -/
  def ser : J → List Char
    | .null => "null".toList
    | .bool true => "true".toList
    | .bool false => "false".toList
    | .num l => l
    | .str s => quote s
    | .arr xs => '[' :: serList xs ++ [']']
    | .obj kvs => '{' :: serMembers kvs ++ ['}']
  def serList : List J → List Char
    | [] => []
    | [x] => ser x
    | x :: y :: r => ser x ++ ',' :: serList (y :: r)
  def serMembers : List (List Char × J) → List Char
    | [] => []
    | [(k, v)] => quote k ++ ':' :: ser v
    | (k, v) :: m :: r => quote k ++ ':' :: ser v ++ ',' :: serMembers (m :: r)
end

/-! ## Canonical member order: UTF-16 code units -/

def utf16 (c : Char) : List Nat :=
  let n := c.toNat
  if n < 0x10000 then [n]
  else
    let m := n - 0x10000
    [0xD800 + m / 0x400, 0xDC00 + m % 0x400]

def utf16s (s : List Char) : List Nat := s.flatMap utf16

def natListLt : List Nat → List Nat → Bool
  | [], [] => false
  | [], _ :: _ => true
  | _ :: _, [] => false
  | a :: as, b :: bs => if a < b then true else if b < a then false else natListLt as bs

def keyLe (a b : List Char) : Bool := !(natListLt (utf16s b) (utf16s a))

/-- Insertion of a member into a list sorted by `keyLe` (stable: after equal keys). -/
def insertMember (kv : List Char × J) : List (List Char × J) → List (List Char × J)
  | [] => [kv]
  | m :: r => if keyLe m.1 kv.1 then m :: insertMember kv r else kv :: m :: r

def sortMembers : List (List Char × J) → List (List Char × J)
  | [] => []
  | kv :: r => insertMember kv (sortMembers r)

mutual
  /-- Recursively put every object's members into canonical order. -/
  def canon : J → J
    | .arr xs => .arr (canonList xs)
    | .obj kvs => .obj (sortMembers (canonMembers kvs))
    | j => j
  def canonList : List J → List J
    | [] => []
    | x :: r => canon x :: canonList r
  def canonMembers : List (List Char × J) → List (List Char × J)
    | [] => []
    | (k, v) :: r => (k, canon v) :: canonMembers r
end

/-- `jcs.Transform` of the JSON text of `j`. -/
def jcs (j : J) : List Char := ser (canon j)

/-! ## Well-formedness -/

def isNumChar (c : Char) : Bool :=
  ('0' ≤ c && c ≤ '9') || c == '-' || c == '+' || c == '.' || c == 'e' || c == 'E'

/-- A number literal: a non-empty token over the number alphabet that starts like a JSON number
    (digit or minus), so it cannot be confused with `null`/`true`/`false`, a string, or a bracket. -/
def NumOK (l : List Char) : Prop :=
  l ≠ [] ∧ (∀ c ∈ l, isNumChar c = true) ∧ (∀ c, l.head? = some c → (c = '-' ∨ ('0' ≤ c ∧ c ≤ '9')))

mutual
  def WF : J → Prop
    | .num l => NumOK l
    | .arr xs => WFList xs
    | .obj kvs => WFMembers kvs
    | _ => True
  def WFList : List J → Prop
    | [] => True
    | x :: r => WF x ∧ WFList r
  def WFMembers : List (List Char × J) → Prop
    | [] => True
    | (_, v) :: r => WF v ∧ WFMembers r
end

-- Member names are pairwise distinct at every object level (true of anything `encoding/json`
-- emits from Go maps and structs).
mutual
  def KeysDistinct : J → Prop
    | .arr xs => KeysDistinctList xs
    | .obj kvs => (kvs.map (·.1)).Nodup ∧ KeysDistinctMembers kvs
    | _ => True
  def KeysDistinctList : List J → Prop
    | [] => True
    | x :: r => KeysDistinct x ∧ KeysDistinctList r
  def KeysDistinctMembers : List (List Char × J) → Prop
    | [] => True
    | (_, v) :: r => KeysDistinct v ∧ KeysDistinctMembers r
end

-- Equality up to the order of object members, at every depth.
mutual
  inductive Equiv : J → J → Prop
    | null : Equiv .null .null
    | bool (b : Bool) : Equiv (.bool b) (.bool b)
    | num (l : List Char) : Equiv (.num l) (.num l)
    | str (s : List Char) : Equiv (.str s) (.str s)
    | arr {xs ys : List J} : EquivList xs ys → Equiv (.arr xs) (.arr ys)
    | obj {kvs kvs' mid : List (List Char × J)} : kvs.Perm mid → EquivMembers mid kvs' → Equiv (.obj kvs) (.obj kvs')
  inductive EquivList : List J → List J → Prop
    | nil : EquivList [] []
    | cons {x y : J} {xs ys : List J} : Equiv x y → EquivList xs ys → EquivList (x :: xs) (y :: ys)
  inductive EquivMembers : List (List Char × J) → List (List Char × J) → Prop
    | nil : EquivMembers [] []
    | cons {k : List Char} {x y : J} {xs ys : List (List Char × J)} :
        Equiv x y → EquivMembers xs ys → EquivMembers ((k, x) :: xs) ((k, y) :: ys)
end

end GoPipeline.Jcs
