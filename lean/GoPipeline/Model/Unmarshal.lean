/-
  C16 — mirror of `ordered.Unmarshal`, `unmarshalScalar`, `(*Map).decodeInto` and
  `(*Map).UnmarshalOrdered` (ordered/unmarshal.go) over a small grammar of destination types.

  The field loop of `decodeInto` is split in two so that the key bookkeeping can be reused by the
  typed pipeline model (C03/C09/C13):
    * `assign`   — which key each field takes (tag key, else first present alias), and the in-order
                   remainder for the inline field;
    * `decodeStruct` — decoding the taken values into the fields, then the remainder into the inline field.
-/
import GoPipeline.Model.Val
namespace GoPipeline.Unm

/-! ## Destination types and values -/

inductive Role where
  | normal | skip | inline      -- ordinary field, `yaml:"-"`, `yaml:",inline"`
  deriving DecidableEq, Repr

mutual
  inductive GoTy where
    | string | int | float | bool | any
    | slice (e : GoTy)                 -- []E
    | map (e : GoTy)                   -- map[string]E
    | omap (e : GoTy)                  -- *ordered.Map[string, E]  (implements ordered.Unmarshaler)
    | ptr (t : GoTy)                   -- *T
    | struct (fs : List Field)
    | named (n : String)               -- a named type with its own UnmarshalOrdered (modelled elsewhere)
  /-- name, yaml key (tag key or lower-cased name), aliases exactly as `strings.Split(tag, ",")`
      yields them, role, type. -/
  inductive Field where
    | mk (name key : String) (aliases : List String) (role : Role) (ty : GoTy)
end

namespace Field
def name : Field → String | mk n _ _ _ _ => n
def key : Field → String | mk _ k _ _ _ => k
def aliases : Field → List String | mk _ _ a _ _ => a
def role : Field → Role | mk _ _ _ r _ => r
def ty : Field → GoTy | mk _ _ _ _ t => t
end Field

inductive GoVal where
  | string (s : String) | int (i : Int) | float (lit : String) | bool (b : Bool)
  | any (v : Val)                                        -- interface value; `.null` = nil interface
  | slice (xs : Option (List GoVal))                     -- nil vs non-nil matters
  | map (kvs : Option (List (String × GoVal)))           -- Go map: sorted by key, unique
  | omap (kvs : Option (List (String × GoVal)))          -- *ordered.Map: nil or entries in order
  | ptr (v : Option GoVal)
  | struct (fs : List (String × GoVal))                  -- field name ↦ value, declaration order
  deriving Inhabited

mutual
  def zero : GoTy → GoVal
    | .string => .string "" | .int => .int 0 | .float => .float "0|0|0.000000e+00|0" | .bool => .bool false
    | .any => .any .null
    | .slice _ => .slice none | .map _ => .map none | .omap _ => .omap none | .ptr _ => .ptr none
    | .struct fs => .struct (zeroFields fs)
    | .named _ => .any .null
  def zeroFields : List Field → List (String × GoVal)
    | [] => []
    | .mk n _ _ _ t :: r => (n, zero t) :: zeroFields r
end

inductive Err where
  | incompatible | unsupportedSrc | multipleInline | intoNil
  deriving DecidableEq, Repr

/-! ## Key assignment (the bookkeeping of the field loop) -/

abbrev Entries := List (String × Val)

/-- `tm.Get(key)`; if absent, the first alias with a value. Returns the matched key and the value.
    (An empty alias is skipped: `strings.Split("", ",")` yields `[""]`.) -/
def firstAlias (m : Entries) : List String → Option (String × Val)
  | [] => none
  | a :: r =>
    if a == "" then firstAlias m r
    else match m.lookup a with
      | some v => some (a, v)
      | none => firstAlias m r

def fieldTake (m : Entries) (f : Field) : Option (String × Val) :=
  match m.lookup f.key with
  | some v => some (f.key, v)
  | none => firstAlias m f.aliases

/-- For each ordinary field in declaration order: the (field name, matched key, value) it consumes. -/
def taken (m : Entries) : List Field → List (String × String × Val)
  | [] => []
  | f :: r =>
    match f.role with
    | .normal =>
      match fieldTake m f with
      | some (k, v) => (f.name, k, v) :: taken m r
      | none => taken m r
    | _ => taken m r

/-- `outlineKeys`. -/
def outlineKeys (m : Entries) (fs : List Field) : List String := (taken m fs).map (·.2.1)

/-- What goes to the inline field: every entry whose key is not an outline key, in input order. -/
def remainder (m : Entries) (fs : List Field) : Entries :=
  m.filter (fun e => !(outlineKeys m fs).contains e.1)

def inlineFields (fs : List Field) : List Field := fs.filter (fun f => f.role == .inline)

/-! ## Value decoding -/

/-- Insertion into a key-sorted association list (a Go map store; later value wins). -/
def mapInsert (k : String) (v : GoVal) : List (String × GoVal) → List (String × GoVal)
  | [] => [(k, v)]
  | (k', v') :: r =>
    if k == k' then (k, v) :: r
    else if k < k' then (k, v) :: (k', v') :: r
    else (k', v') :: mapInsert k v r

/-- `(*Map).Set` on the entries view (update in place or append). -/
def omapSet (k : String) (v : GoVal) : List (String × GoVal) → List (String × GoVal)
  | [] => [(k, v)]
  | (k', v') :: r => if k == k' then (k, v) :: r else (k', v') :: omapSet k v r

def setField (n : String) (v : GoVal) : List (String × GoVal) → List (String × GoVal)
  | [] => []
  | (n', v') :: r => if n == n' then (n, v) :: r else (n', v') :: setField n v r

def getField (n : String) (fs : List (String × GoVal)) : GoVal := (fs.lookup n).getD default

/-- `fmt.Sprint` of a scalar (float rendering is carried by the literal: `Sprint|JSON|%e`). -/
def sprintScalar : Val → Option String
  | .str s => some s
  | .int i => some (toString i)
  | .bool b => some (if b then "true" else "false")
  | .float lit => some (String.ofList (lit.toList.takeWhile (· != '|')))
  | _ => none

/-- `unmarshalScalar[S](src, dst)` for dst = *T, where `cur` is the current value of the T variable. -/
def unmarshalScalar (ty : GoTy) (src : Val) (cur : GoVal) : Except Err GoVal :=
  let same : Option GoVal := match ty, src with
    | .string, .str s => some (.string s)
    | .int, .int i => some (.int i)
    | .float, .float l => some (.float l)
    | .bool, .bool b => some (.bool b)
    | _, _ => none
  match same with
  | some v => .ok v
  | none =>
    match ty, cur with
    | .slice e, .slice xs =>
      let elem : Option GoVal := match e, src with
        | .string, .str s => some (.string s)
        | .int, .int i => some (.int i)
        | .float, .float l => some (.float l)
        | .bool, .bool b => some (.bool b)
        | .any, v => some (.any v)
        | .string, v => (sprintScalar v).map .string
        | _, _ => none
      match elem with
      | some x => .ok (.slice (some (xs.getD [] ++ [x])))
      | none => .error .incompatible
    | .string, _ =>
      match sprintScalar src with
      | some s => .ok (.string s)
      | none => .error .incompatible
    | _, _ => .error .incompatible

def isScalar : Val → Bool
  | .str _ | .int _ | .bool _ | .float _ => true
  | _ => false

mutual
  /-- `Unmarshal(src, &x)` where `x : ty` currently holds `cur`. Fuel bounds the nesting of values. -/
  def unmarshal : Nat → GoTy → Val → GoVal → Except Err GoVal
    | 0, _, _, _ => .error .unsupportedSrc
    | n + 1, ty, src, cur =>
      match ty with
      | .named _ => .error .unsupportedSrc             -- custom Unmarshaler: outside this generic model
      | .omap e =>
        -- dst is **Map: nil ⇒ zero the pointer; otherwise allocate if needed, then (*Map).UnmarshalOrdered
        match src with
        | .null => .ok (.omap none)
        | .omap kvs =>
          let start := match cur with | .omap (some es) => es | _ => []
          (omapEntries n e kvs start).map (fun es => .omap (some es))
        | _ => .error .incompatible
      | _ =>
        match src with
        | .null => .ok (zero ty)                       -- src == nil: zero out the pointee
        | _ =>
          match ty with
          | .ptr t =>
            -- pointer to pointer: create if nil, recurse on the inner layer
            let inner := match cur with | .ptr (some v) => v | _ => zero t
            (unmarshal n t src inner).map (fun v => .ptr (some v))
          | .any => .ok (.any src)                     -- *any: copy src directly
          | _ =>
            match src with
            | .omap kvs => decodeInto n ty kvs cur
            | .seq xs =>
              match ty, cur with
              | .slice .any, .slice cs =>                       -- *[]any: `append(*dst, src...)`, which stays nil for nil ++ []
                match cs, xs with
                | none, [] => .ok (.slice none)
                | _, _ => .ok (.slice (some (cs.getD [] ++ xs.map .any)))
              | .slice e, .slice cs => (seqElems n e xs (cs.getD [])).map (fun l => .slice (some l))
              | _, _ => .error .incompatible
            | v => if isScalar v then unmarshalScalar ty v cur else .error .unsupportedSrc

  /-- elementwise: `x := new(E); Unmarshal(a, x); append`. -/
  def seqElems : Nat → GoTy → List Val → List GoVal → Except Err (List GoVal)
    | _, _, [], acc => .ok acc
    | n, e, a :: r, acc =>
      match unmarshal n e a (zero e) with
      | .error err => .error err
      | .ok x => seqElems n e r (acc ++ [x])

  /-- `(*Map).UnmarshalOrdered`: `var dv V; Unmarshal(v, &dv); tm.Set(k, dv)` for each entry. -/
  def omapEntries : Nat → GoTy → List (String × Val) → List (String × GoVal) → Except Err (List (String × GoVal))
    | _, _, [], acc => .ok acc
    | n, e, (k, v) :: r, acc =>
      match unmarshal n e v (zero e) with
      | .error err => .error err
      | .ok x => omapEntries n e r (omapSet k x acc)

  /-- `decodeInto` on a Go-map target: elementwise into fresh values, `SetMapIndex`. -/
  def mapEntries : Nat → GoTy → List (String × Val) → List (String × GoVal) → Except Err (List (String × GoVal))
    | _, _, [], acc => .ok acc
    | n, e, (k, v) :: r, acc =>
      match unmarshal n e v (zero e) with
      | .error err => .error err
      | .ok x => mapEntries n e r (mapInsert k x acc)

  /-- `tsrc.decodeInto(dst)` for a non-nil source map. -/
  def decodeInto : Nat → GoTy → List (String × Val) → GoVal → Except Err GoVal
    | n, .map e, kvs, cur =>
      let start := match cur with | .map (some es) => es | _ => []
      (mapEntries n e kvs start).map (fun es => .map (some es))
    | n, .struct fs, kvs, cur =>
      match cur with
      | .struct cvs => (decodeStruct n fs kvs cvs).map .struct
      | _ => .error .incompatible
    | _, _, _, _ => .error .incompatible

  /-- The field loop, then the inline field. -/
  def decodeStruct : Nat → List Field → List (String × Val) → List (String × GoVal) → Except Err (List (String × GoVal))
    | n, fs, m, cvs =>
      if (inlineFields fs).length > 1 then .error .multipleInline
      else
        match decodeTaken n fs (taken m fs) cvs with
        | .error e => .error e
        | .ok cvs' =>
          match inlineFields fs with
          | [f] =>
            let rest := remainder m fs
            if rest.isEmpty then .ok cvs'
            else
              match unmarshal n f.ty (.omap rest) (getField f.name cvs') with
              | .error e => .error e
              | .ok v => .ok (setField f.name v cvs')
          | _ => .ok cvs'

  /-- Decode each taken value into its field, in declaration order; the first hard error aborts. -/
  def decodeTaken : Nat → List Field → List (String × String × Val) → List (String × GoVal) → Except Err (List (String × GoVal))
    | _, _, [], cvs => .ok cvs
    | n, fs, (fname, _, v) :: r, cvs =>
      match fs.find? (fun f => f.name == fname) with
      | none => .error .incompatible
      | some f =>
        match unmarshal n f.ty v (getField fname cvs) with
        | .error e => .error e
        | .ok x => decodeTaken n fs r (setField fname x cvs)
end

/-! ## Specification side -/

/-- Descriptor well-formedness: the yaml keys and the non-empty aliases of the ordinary fields are
    pairwise distinct (so no input key can be claimed by two fields). -/
def claimKeys : List Field → List String
  | [] => []
  | f :: r =>
    match f.role with
    | .normal => (f.key :: f.aliases.filter (· != "")) ++ claimKeys r
    | _ => claimKeys r

def WF (fs : List Field) : Prop := (claimKeys fs).Nodup ∧ (inlineFields fs).length ≤ 1

instance (fs : List Field) : Decidable (WF fs) := by unfold WF; exact inferInstance

/-- Where the specification sends an input key. -/
inductive Dest where
  | field (name : String)
  | inline
  deriving DecidableEq, Repr

/-- "the field whose tag names it, else the field that lists it as its first present alias when that
    field's primary key is absent, else the inline catch-all". -/
def destOf (m : Entries) (fs : List Field) (k : String) : Dest :=
  match fs.find? (fun f => f.role == .normal &&
      (f.key == k || ((m.lookup f.key).isNone && (firstAlias m f.aliases).map (·.1) == some k))) with
  | some f => .field f.name
  | none => .inline

/-- The yaml.v3 rule for alias-free structs: a field takes the entry under its key; the inline field
    gets the rest in order. -/
def refTaken (m : Entries) : List Field → List (String × String × Val)
  | [] => []
  | f :: r =>
    match f.role with
    | .normal =>
      match m.lookup f.key with
      | some v => (f.name, f.key, v) :: refTaken m r
      | none => refTaken m r
    | _ => refTaken m r

def refRemainder (m : Entries) (fs : List Field) : Entries :=
  m.filter (fun e => !((fs.filter (fun f => f.role == .normal)).map Field.key).contains e.1)

def aliasFree (fs : List Field) : Prop := ∀ f ∈ fs, f.aliases.filter (· != "") = []

end GoPipeline.Unm
