/-
  Typed pipeline model (DESIGN §5): mirrors the Go structs of package pipeline field for field,
  with `Option` wherever the code's behaviour depends on nil vs empty.

  * `UMap`   = a Go `map[string]T` (entries sorted by key, keys unique) — `none` is the nil map;
  * `Val`    = untyped content (`any`): decoded YAML (`omap` for `*ordered.MapSA`) or, inside plugin
               configs, the `ToMapRecursive` image (`umap`).
  Core-only: linked into the `driver` executable.
-/
import GoPipeline.Model.Val
namespace GoPipeline.Pipe

abbrev UMap (α : Type) := Option (List (String × α))

structure Plugin where
  source : String
  config : Val                 -- `any`: null, or the ToMapRecursive image of the YAML value
  deriving Inhabited

structure Adjustment where
  with_ : UMap String                       -- MatrixAdjustmentWith
  skip : Val                                -- `any`
  rem : UMap Val                            -- RemainingFields
  deriving Inhabited

structure Matrix where
  setup : UMap (Option (List String))       -- MatrixSetup: dim ↦ values (nil slice possible)
  adjustments : Option (List (Option Adjustment))   -- []*MatrixAdjustment (nil elements possible)
  rem : UMap Val
  deriving Inhabited

structure Cache where
  disabled : Bool
  name : String
  paths : Option (List String)
  size : String
  rem : UMap Val
  deriving Inhabited

structure Signature where
  algorithm : String
  signedFields : Option (List String)
  value : String
  deriving Inhabited

structure CommandStep where
  key : String
  label : String
  command : String
  plugins : Option (List (Option Plugin))   -- Plugins = []*Plugin
  env : UMap String
  signature : Option Signature
  matrix : Option Matrix
  cache : Option Cache
  rem : UMap Val
  deriving Inhabited

inductive Step where
  | command (c : CommandStep)
  | wait (scalar : String) (contents : UMap Val)
  | input (scalar : String) (contents : UMap Val)
  | trigger (contents : UMap Val)
  | group (key : String) (group : Option String) (steps : Option (List Step)) (rem : UMap Val)
  | unknown (contents : Val)
  deriving Inhabited

structure Pipeline where
  steps : Option (List Step)
  env : Option (List (String × String))     -- *ordered.MapSS (order-significant)
  rem : UMap Val
  deriving Inhabited

/-! ## Structural dump (the convention both the Go harness and the driver print) -/

def dOpt {α : Type} (f : α → Val) : Option α → Val
  | none => .null
  | some a => f a

def dStrs (l : List String) : Val := .seq (l.map .str)
def dUMapV (m : UMap Val) : Val := dOpt (fun kvs => .umap kvs) m
def dUMapS (m : UMap String) : Val := dOpt (fun kvs => .umap (kvs.map fun (k, v) => (k, .str v))) m

def Plugin.dump (p : Plugin) : Val := .seq [.str p.source, p.config]

def Adjustment.dump (a : Adjustment) : Val :=
  .omap [("with", dUMapS a.with_), ("skip", a.skip), ("rem", dUMapV a.rem)]

def Matrix.dump (m : Matrix) : Val :=
  .omap [("setup", dOpt (fun kvs => .umap (kvs.map fun (k, v) => (k, dOpt dStrs v))) m.setup),
         ("adjustments", dOpt (fun l => .seq (l.map (dOpt Adjustment.dump))) m.adjustments),
         ("rem", dUMapV m.rem)]

def Cache.dump (c : Cache) : Val :=
  .omap [("disabled", .bool c.disabled), ("name", .str c.name), ("paths", dOpt dStrs c.paths),
         ("size", .str c.size), ("rem", dUMapV c.rem)]

def Signature.dump (s : Signature) : Val :=
  .seq [.str s.algorithm, dOpt dStrs s.signedFields, .str s.value]

def CommandStep.dump (c : CommandStep) : Val :=
  .omap [("key", .str c.key), ("label", .str c.label), ("command", .str c.command),
         ("plugins", dOpt (fun l => .seq (l.map (dOpt Plugin.dump))) c.plugins),
         ("env", dUMapS c.env),
         ("signature", dOpt Signature.dump c.signature),
         ("matrix", dOpt Matrix.dump c.matrix),
         ("cache", dOpt Cache.dump c.cache),
         ("rem", dUMapV c.rem)]

mutual
  def Step.dump : Step → Val
    | .command c => .seq [.str "command", c.dump]
    | .wait s c => .seq [.str "wait", .str s, dUMapV c]
    | .input s c => .seq [.str "input", .str s, dUMapV c]
    | .trigger c => .seq [.str "trigger", dUMapV c]
    | .group k g ss r => .seq [.str "group", .str k, dOpt .str g,
        (match ss with | none => .null | some l => .seq (Step.dumpList l)), dUMapV r]
    | .unknown v => .seq [.str "unknown", v]
  def Step.dumpList : List Step → List Val
    | [] => []
    | s :: r => s.dump :: Step.dumpList r
end

def Pipeline.dump (p : Pipeline) : Val :=
  .omap [("steps", match p.steps with | none => .null | some l => .seq (Step.dumpList l)),
         ("env", dOpt (fun kvs => .omap (kvs.map fun (k, v) => (k, .str v))) p.env),
         ("rem", dUMapV p.rem)]

/-! ## Reading a dump back (driver glue; `partial`, never used in a theorem) -/

def rStr : Val → String | .str s => s | _ => ""
def rStrs : Val → Option (List String)
  | .seq l => some (l.map rStr)
  | _ => none
def rUMapV : Val → UMap Val
  | .umap kvs => some kvs
  | _ => none
def rUMapS : Val → UMap String
  | .umap kvs => some (kvs.map fun (k, v) => (k, rStr v))
  | _ => none
def fld (kvs : List (String × Val)) (k : String) : Val := (kvs.lookup k).getD .null

def rPlugin : Val → Option Plugin
  | .seq [.str s, c] => some { source := s, config := c }
  | _ => none

def rAdj : Val → Option Adjustment
  | .omap kvs => some { with_ := rUMapS (fld kvs "with"), skip := fld kvs "skip", rem := rUMapV (fld kvs "rem") }
  | _ => none

def rMatrix : Val → Option Matrix
  | .omap kvs => some {
      setup := match fld kvs "setup" with
        | .umap ds => some (ds.map fun (k, v) => (k, rStrs v))
        | _ => none
      adjustments := match fld kvs "adjustments" with
        | .seq l => some (l.map rAdj)
        | _ => none
      rem := rUMapV (fld kvs "rem") }
  | _ => none

def rCache : Val → Option Cache
  | .omap kvs => some { disabled := (match fld kvs "disabled" with | .bool b => b | _ => false), name := rStr (fld kvs "name"),
                        paths := rStrs (fld kvs "paths"), size := rStr (fld kvs "size"), rem := rUMapV (fld kvs "rem") }
  | _ => none

def rSig : Val → Option Signature
  | .seq [.str a, f, .str v] => some { algorithm := a, signedFields := rStrs f, value := v }
  | _ => none

def rCommand : Val → CommandStep
  | .omap kvs => {
      key := rStr (fld kvs "key"), label := rStr (fld kvs "label"), command := rStr (fld kvs "command"),
      plugins := match fld kvs "plugins" with | .seq l => some (l.map rPlugin) | _ => none,
      env := rUMapS (fld kvs "env"), signature := rSig (fld kvs "signature"),
      matrix := rMatrix (fld kvs "matrix"), cache := rCache (fld kvs "cache"), rem := rUMapV (fld kvs "rem") }
  | _ => default

mutual
  partial def rStep : Val → Step
    | .seq [.str "command", c] => .command (rCommand c)
    | .seq [.str "wait", .str s, c] => .wait s (rUMapV c)
    | .seq [.str "input", .str s, c] => .input s (rUMapV c)
    | .seq [.str "trigger", c] => .trigger (rUMapV c)
    | .seq [.str "group", .str k, g, ss, r] =>
      .group k (match g with | .str s => some s | _ => none) (match ss with | .seq l => some (l.map rStep) | _ => none) (rUMapV r)
    | .seq [.str "unknown", v] => .unknown v
    | _ => .unknown .null
end

def rPipeline : Val → Pipeline
  | .omap kvs => {
      steps := match fld kvs "steps" with | .seq l => some (l.map rStep) | _ => none,
      env := match fld kvs "env" with | .omap es => some (es.map fun (k, v) => (k, rStr v)) | _ => none,
      rem := rUMapV (fld kvs "rem") }
  | _ => default

end GoPipeline.Pipe
