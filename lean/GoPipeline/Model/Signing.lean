/-
  C14 / C01 / C06 — mirror of signature/sign.go (`Sign`, `Verify`, `canonicalPayload`, `requireKeys`,
  `EmptyToNil*`), signature/pipeline_invariants.go (`SignedFields`, `ValuesForFields`) and
  signature/steps.go (`SignSteps`), over an abstract signature scheme.

  The JSON text handed to JCS is `encoding/json` of the value tree from `Model/Marshal`; `valJ` is that
  conversion (number literals: the ES6 rendering the harness supplies as 4th component of a float
  literal; integers in decimal, valid below 2^53 — see finding F12).
-/
import GoPipeline.Model.Marshal
import GoPipeline.Model.Jcs
namespace GoPipeline.Signing
open GoPipeline GoPipeline.Pipe GoPipeline.Marshal GoPipeline.Jcs

/-! ## Value tree → JSON -/

def es6OfFloatLit (lit : String) : List Char :=
  -- literal = Sprint|JSON|%e|ES6
  match (lit.splitOn "|") with
  | [_, _, _, e] => e.toList
  | _ => lit.toList

mutual
  def valJ : Val → J
    | .null => .null
    | .bool b => .bool b
    | .int i => .num (toString i).toList
    | .float lit => .num (es6OfFloatLit lit)
    | .time lit => .str lit.toList
    | .str s => .str s.toList
    | .seq xs => .arr (valJList xs)
    | .omap kvs => .obj (valJKVs kvs)
    | .umap kvs => .obj (valJKVs kvs)
  def valJList : List Val → List J
    | [] => []
    | x :: r => valJ x :: valJList r
  def valJKVs : List (String × Val) → List (List Char × J)
    | [] => []
    | (k, v) :: r => (k.toList, valJ v) :: valJKVs r
end

/-! ## Signed fields of a command step -/

def envNamespacePrefix : String := "env::"

/-- `EmptyToNilMap(c.Env)` then JSON. -/
def envField (e : UMap String) : Val :=
  match e with
  | none => .null
  | some [] => .null
  | some kvs => .umap (kvs.map fun (k, v) => (k, .str v))

/-- `EmptyToNilSlice(c.Plugins)` then JSON. -/
def pluginsField (p : Option (List (Option Plugin))) : Val :=
  match p with
  | none => .null
  | some [] => .null
  | some l => mPlugins l

/-- `(*Matrix).IsEmpty` -/
def matrixIsEmpty (m : Matrix) : Bool :=
  lenUMap m.setup == 0 && (m.adjustments.getD []).isEmpty && lenUMap m.rem == 0

/-- `EmptyToNilPtr(c.Matrix)` then JSON. -/
def matrixField (m : Option Matrix) : Val :=
  match m with
  | none => .null
  | some mm => if matrixIsEmpty mm then .null else mMatrix mm

/-- The value a field name stands for (`SignedFields` / the `switch` of `ValuesForFields`). -/
def fieldValue (c : CommandStep) (repo : String) : String → Option Val
  | "command" => some (.str c.command)
  | "env" => some (envField c.env)
  | "plugins" => some (pluginsField c.plugins)
  | "matrix" => some (matrixField c.matrix)
  | "repository_url" => some (.str repo)
  | _ => none

def mandatoryFields : List String := ["command", "env", "plugins", "matrix", "repository_url"]

/-- `SignedFields()`. -/
def signedFields (c : CommandStep) (repo : String) : List (String × Val) :=
  mandatoryFields.filterMap fun f => (fieldValue c repo f).map (f, ·)

/-- A Go map store on a sorted association list. -/
def mapSet (k : String) (v : Val) (m : List (String × Val)) : List (String × Val) := Marshal.umapInsert k v m

/-- `objEnv, _ := values["env"].(map[string]string)`: the step's own env names, when `env` is among the values. -/
def objEnvNames (values : List (String × Val)) (c : CommandStep) : List String :=
  match values.lookup "env" with
  | some (.umap _) => (c.env.getD []).map (·.1)
  | _ => []

/-- `for k, v := range options.env { if shadowed continue; values["env::"+k] = v }` -/
def addEnv (values : List (String × Val)) (shadow : List String) (env : List (String × String)) : List (String × Val) :=
  env.foldl (fun acc (k, v) => if shadow.contains k then acc else mapSet (envNamespacePrefix ++ k) (.str v) acc) values

/-- `canonicalPayload(alg, values)`. -/
def payload (alg : String) (values : List (String × Val)) : List Char :=
  jcs (.obj [("alg".toList, .str alg.toList), ("values".toList, .obj (valJKVs values))])

/-! ## Abstract signature scheme (hypotheses A1, A2, correctness) -/

structure SigScheme where
  Key : Type
  Pub : Type
  Sig : Type
  pubOf : Key → Pub
  sign : Key → List Char → Sig
  verify : Pub → List Char → Sig → Bool
  correct : ∀ k m, verify (pubOf k) m (sign k m) = true
  a1 : ∀ k m m', verify (pubOf k) m' (sign k m) = true → m' = m
  a2 : ∀ k p m m', p ≠ pubOf k → verify p m' (sign k m) = false

structure Record (S : SigScheme) where
  algorithm : String
  signedFields : List String
  value : S.Sig

inductive VErr where
  | noFields | unknownField (f : String) | missingRequired | missingKey (k : String) | badSignature
  deriving DecidableEq, Repr

/-- Insertion sort by code-point order (`sort.Strings`). -/
def insertStr (s : String) : List String → List String
  | [] => [s]
  | t :: r => if s < t then s :: t :: r else t :: insertStr s r
def sortStrs : List String → List String
  | [] => []
  | s :: r => insertStr s (sortStrs r)

/-- Values that `Sign` signs: the step's fields plus the unshadowed pipeline env. -/
def signValues (c : CommandStep) (repo : String) (penv : List (String × String)) : List (String × Val) :=
  let values := Marshal.umapOf (signedFields c repo)
  addEnv values (objEnvNames values c) penv

/-- `Sign`. `penv` = `options.env` (a Go map: entries in any order, distinct keys). -/
def sign (S : SigScheme) (key : S.Key) (alg : String) (c : CommandStep) (repo : String)
    (penv : List (String × String)) : Record S :=
  let values := signValues c repo penv
  { algorithm := alg, signedFields := sortStrs (values.map (·.1)), value := S.sign key (payload alg values) }

/-- `ValuesForFields`: every requested field must be known (or `env::`-prefixed), and all five
    mandatory fields must be requested. -/
def valuesForFields (c : CommandStep) (repo : String) (fields : List String) : Except VErr (List (String × Val)) :=
  let rec go : List String → List (String × Val) → Except VErr (List (String × Val))
    | [], acc => .ok acc
    | f :: r, acc =>
      match fieldValue c repo f with
      | some v => go r (mapSet f v acc)
      | none => if f.startsWith envNamespacePrefix then go r acc else .error (.unknownField f)
  match go fields [] with
  | .error e => .error e
  | .ok out => if mandatoryFields.all (fields.contains ·) then .ok out else .error .missingRequired

/-- `requireKeys`: the sub-map with exactly the listed keys; a missing key is an error. -/
def requireKeys (values : List (String × Val)) : List String → Except VErr (List (String × Val))
  | [] => .ok []
  | k :: r =>
    match values.lookup k with
    | none => .error (.missingKey k)
    | some v =>
      match requireKeys values r with
      | .error e => .error e
      | .ok out => .ok (mapSet k v out)

/-- The payload `Verify` recomputes from the presented step, env and record. -/
def verifyPayload (S : SigScheme) (r : Record S) (c : CommandStep) (repo : String)
    (env : List (String × String)) : Except VErr (List Char) :=
  if r.signedFields.isEmpty then .error .noFields
  else
    match valuesForFields c repo r.signedFields with
    | .error e => .error e
    | .ok values =>
      let values := addEnv values (objEnvNames values c) env
      match requireKeys values r.signedFields with
      | .error e => .error e
      | .ok required => .ok (payload r.algorithm required)

/-- `Verify`. -/
def verify (S : SigScheme) (r : Record S) (pub : S.Pub) (c : CommandStep) (repo : String)
    (env : List (String × String)) : Except VErr Unit :=
  match verifyPayload S r c repo env with
  | .error e => .error e
  | .ok p => if S.verify pub p r.value then .ok () else .error .badSignature

/-! ## `SignSteps` over a step tree -/

inductive SErr where
  | unknownStep
  deriving DecidableEq, Repr

/-- The typed model stores `Signature.value` as a string; `render` turns a scheme signature into it. -/
def attach (S : SigScheme) (render : S.Sig → String) (r : Record S) (c : CommandStep) : CommandStep :=
  { c with signature := some { algorithm := r.algorithm, signedFields := some r.signedFields, value := render r.value } }

mutual
  def signStep (S : SigScheme) (render : S.Sig → String) (key : S.Key) (alg repo : String)
      (penv : List (String × String)) : Step → Except SErr Step
    | .command c => .ok (.command (attach S render (sign S key alg c repo penv) c))
    | .group k g ss r =>
      match ss with
      | none => .ok (.group k g none r)
      | some l => (signSteps S render key alg repo penv l).map (fun l' => .group k g (some l') r)
    | .unknown _ => .error .unknownStep
    | s => .ok s
  /-- `SignSteps`: left to right, first error aborts. -/
  def signSteps (S : SigScheme) (render : S.Sig → String) (key : S.Key) (alg repo : String)
      (penv : List (String × String)) : List Step → Except SErr (List Step)
    | [] => .ok []
    | s :: r =>
      match signStep S render key alg repo penv s with
      | .error e => .error e
      | .ok s' =>
        match signSteps S render key alg repo penv r with
        | .error e => .error e
        | .ok r' => .ok (s' :: r')
end

-- Remove all signatures (for "signing changes nothing else").
mutual
  def eraseSig : Step → Step
    | .command c => .command { c with signature := none }
    | .group k g ss r => .group k g (match ss with | none => none | some l => some (eraseSigs l)) r
    | s => s
  def eraseSigs : List Step → List Step
    | [] => []
    | s :: r => eraseSig s :: eraseSigs r
end

-- All command steps of a step tree, at every depth.
mutual
  def commandsOf : Step → List CommandStep
    | .command c => [c]
    | .group _ _ ss _ => match ss with | none => [] | some l => commandsOfList l
    | _ => []
  def commandsOfList : List Step → List CommandStep
    | [] => []
    | s :: r => commandsOf s ++ commandsOfList r
end

-- Does an unknown step occur anywhere in the tree?
mutual
  def hasUnknown : Step → Bool
    | .unknown _ => true
    | .group _ _ ss _ => match ss with | none => false | some l => hasUnknownList l
    | _ => false
  def hasUnknownList : List Step → Bool
    | [] => false
    | s :: r => hasUnknown s || hasUnknownList r
end

end GoPipeline.Signing
