/-
  C04 / C12 (scope) — mirror of the interpolation walkers (interpolate.go) and of every
  `interpolate` method (pipeline.go, step_*.go, plugin.go, step_command_matrix.go,
  step_command_cache.go), for an arbitrary string transformer `tf`.

  `TfKind` is the type switch `switch tf.(type) { case envInterpolator: … case matrixInterpolator: … }`.
  Go-map walks (`interpolateMap`) process a snapshot of the entries in sorted key order into a fresh
  map (later entry wins on a key collision); ordered-map walks (`interpolateOrderedMap`) are the
  in-iteration `Replace` semantics of C05.
-/
import GoPipeline.Model.Pipeline
namespace GoPipeline.Interp
open GoPipeline GoPipeline.Pipe

inductive TfKind where
  | env | matrix
  deriving DecidableEq, Repr

variable {E : Type}

/-- A Go map store on the sorted-entries view (later value wins). -/
def umapInsert {α : Type} (k : String) (v : α) : List (String × α) → List (String × α)
  | [] => [(k, v)]
  | (k', v') :: r =>
    if k == k' then (k, v) :: r
    else if k < k' then (k, v) :: (k', v') :: r
    else (k', v') :: umapInsert k v r

def dropKey {α : Type} (k : String) (l : List (String × α)) : List (String × α) := l.filter (fun p => p.1 != k)

/-! ## Untyped values: `interpolateAny` and the container walkers -/

mutual
  /-- `interpolateAny` on an `any`. -/
  def interpVal (tf : String → Except E String) : Val → Except E Val
    | .str s => (tf s).map .str
    | .seq xs => (interpSeq tf xs).map .seq
    | .omap kvs => (interpOMap tf [] [] kvs).map .omap
    | .umap kvs => (interpUMap tf [] kvs).map .umap
    | v => .ok v

  /-- `interpolateSlice` over `[]any`. -/
  def interpSeq (tf : String → Except E String) : List Val → Except E (List Val)
    | [] => .ok []
    | x :: r =>
      match interpVal tf x with
      | .error e => .error e
      | .ok x' =>
        match interpSeq tf r with
        | .error e => .error e
        | .ok r' => .ok (x' :: r')

  /-- `interpolateOrderedMap`: `Range` + `Replace(k, tf k, interp v)`. `done` are the entries already
      passed (final form), `dead` the keys removed from the not-yet-visited part by earlier renames. -/
  def interpOMap (tf : String → Except E String) (done : List (String × Val)) (dead : List String) :
      List (String × Val) → Except E (List (String × Val))
    | [] => .ok done
    | (k, v) :: rest =>
      if dead.contains k then interpOMap tf done dead rest
      else
        match tf k with
        | .error e => .error e
        | .ok k' =>
          match interpVal tf v with
          | .error e => .error e
          | .ok v' =>
            if k' == k then interpOMap tf (done ++ [(k', v')]) dead rest
            else interpOMap tf (dropKey k' done ++ [(k', v')]) (k' :: dead) rest

  /-- `interpolateMap` over `map[string]any`: entries in sorted key order into a fresh map. -/
  def interpUMap (tf : String → Except E String) (acc : List (String × Val)) :
      List (String × Val) → Except E (List (String × Val))
    | [] => .ok acc
    | (k, v) :: rest =>
      match tf k with
      | .error e => .error e
      | .ok k' =>
        match interpVal tf v with
        | .error e => .error e
        | .ok v' => interpUMap tf (umapInsert k' v' acc) rest
end

def interpUMapV (tf : String → Except E String) : UMap Val → Except E (UMap Val)
  | none => .ok none
  | some kvs => (interpUMap tf [] kvs).map some

/-- `interpolateSlice` over `[]string`. -/
def interpStrs (tf : String → Except E String) : List String → Except E (List String)
  | [] => .ok []
  | s :: r =>
    match tf s with
    | .error e => .error e
    | .ok s' =>
      match interpStrs tf r with
      | .error e => .error e
      | .ok r' => .ok (s' :: r')

/-- `interpolateMap` over `map[string]string`. -/
def interpUMapSAux (tf : String → Except E String) (acc : List (String × String)) :
    List (String × String) → Except E (List (String × String))
  | [] => .ok acc
  | (k, v) :: rest =>
    match tf k with
    | .error e => .error e
    | .ok k' =>
      match tf v with
      | .error e => .error e
      | .ok v' => interpUMapSAux tf (umapInsert k' v' acc) rest

def interpUMapS (tf : String → Except E String) : UMap String → Except E (UMap String)
  | none => .ok none
  | some kvs => (interpUMapSAux tf [] kvs).map some

/-- `interpolateMapValues` over `map[string]string` (keys untouched). -/
def interpValuesSAux (tf : String → Except E String) : List (String × String) → Except E (List (String × String))
  | [] => .ok []
  | (k, v) :: rest =>
    match tf v with
    | .error e => .error e
    | .ok v' =>
      match interpValuesSAux tf rest with
      | .error e => .error e
      | .ok r' => .ok ((k, v') :: r')

def interpValuesS (tf : String → Except E String) : UMap String → Except E (UMap String)
  | none => .ok none
  | some kvs => (interpValuesSAux tf kvs).map some

/-- `interpolateMap` over `MatrixSetup = map[string][]string`. -/
def interpSetupAux (tf : String → Except E String) (acc : List (String × Option (List String))) :
    List (String × Option (List String)) → Except E (List (String × Option (List String)))
  | [] => .ok acc
  | (k, v) :: rest =>
    match tf k with
    | .error e => .error e
    | .ok k' =>
      match (match v with | none => .ok none | some l => (interpStrs tf l).map some : Except E (Option (List String))) with
      | .error e => .error e
      | .ok v' => interpSetupAux tf (umapInsert k' v' acc) rest

def interpSetup (tf : String → Except E String) : UMap (Option (List String)) → Except E (UMap (Option (List String)))
  | none => .ok none
  | some kvs => (interpSetupAux tf [] kvs).map some

/-! ## Typed layer: the `interpolate` methods -/

/-- `(*Plugin).interpolate` -/
def interpPlugin (tf : String → Except E String) (p : Plugin) : Except E Plugin :=
  match tf p.source with
  | .error e => .error e
  | .ok s =>
    match interpVal tf p.config with
    | .error e => .error e
    | .ok c => .ok { source := s, config := c }

def interpPlugins (tf : String → Except E String) : List (Option Plugin) → Except E (List (Option Plugin))
  | [] => .ok []
  | none :: r => (interpPlugins tf r).map (none :: ·)
  | some p :: r =>
    match interpPlugin tf p with
    | .error e => .error e
    | .ok p' =>
      match interpPlugins tf r with
      | .error e => .error e
      | .ok r' => .ok (some p' :: r')

/-- `(*MatrixAdjustment).interpolate`: With (names and values), Skip, RemainingFields. -/
def interpAdjustment (tf : String → Except E String) (a : Adjustment) : Except E Adjustment :=
  match interpUMapS tf a.with_ with
  | .error e => .error e
  | .ok w =>
    match interpVal tf a.skip with
    | .error e => .error e
    | .ok s =>
      match interpUMapV tf a.rem with
      | .error e => .error e
      | .ok r => .ok { with_ := w, skip := s, rem := r }

def interpAdjustments (tf : String → Except E String) : List (Option Adjustment) → Except E (List (Option Adjustment))
  | [] => .ok []
  | none :: r => (interpAdjustments tf r).map (none :: ·)
  | some a :: r =>
    match interpAdjustment tf a with
    | .error e => .error e
    | .ok a' =>
      match interpAdjustments tf r with
      | .error e => .error e
      | .ok r' => .ok (some a' :: r')

/-- `(*Matrix).interpolate`: nothing under the matrix transformer ("don't interpolate matrixes into matrixes"). -/
def interpMatrix (kind : TfKind) (tf : String → Except E String) (m : Matrix) : Except E Matrix :=
  match kind with
  | .matrix => .ok m
  | .env =>
    match interpSetup tf m.setup with
    | .error e => .error e
    | .ok s =>
      match (match m.adjustments with | none => .ok none | some l => (interpAdjustments tf l).map some :
              Except E (Option (List (Option Adjustment)))) with
      | .error e => .error e
      | .ok a =>
        match interpUMapV tf m.rem with
        | .error e => .error e
        | .ok r => .ok { setup := s, adjustments := a, rem := r }

/-- `(*Cache).interpolate`: name, paths, size, RemainingFields. -/
def interpCache (tf : String → Except E String) (c : Cache) : Except E Cache :=
  match tf c.name with
  | .error e => .error e
  | .ok n =>
    match (match c.paths with | none => .ok none | some l => (interpStrs tf l).map some : Except E (Option (List String))) with
    | .error e => .error e
    | .ok p =>
      match tf c.size with
      | .error e => .error e
      | .ok s =>
        match interpUMapV tf c.rem with
        | .error e => .error e
        | .ok r => .ok { c with name := n, paths := p, size := s, rem := r }

def optM {α : Type} (f : α → Except E α) : Option α → Except E (Option α)
  | none => .ok none
  | some a => (f a).map some

/-- `(*CommandStep).interpolate`. -/
def interpCommand (kind : TfKind) (tf : String → Except E String) (c : CommandStep) : Except E CommandStep :=
  match tf c.command with
  | .error e => .error e
  | .ok command =>
    match tf c.label with
    | .error e => .error e
    | .ok label =>
      match optM (interpPlugins tf) c.plugins with
      | .error e => .error e
      | .ok plugins =>
        let c1 : CommandStep := { c with command := command, label := label, plugins := plugins }
        let guarded : Except E CommandStep :=
          match kind with
          | .env =>
            match tf c1.key with
            | .error e => .error e
            | .ok key =>
              match interpUMapS tf c1.env with
              | .error e => .error e
              | .ok env =>
                match optM (interpMatrix .env tf) c1.matrix with
                | .error e => .error e
                | .ok matrix =>
                  match optM (interpCache tf) c1.cache with
                  | .error e => .error e
                  | .ok cache => .ok { c1 with key := key, env := env, matrix := matrix, cache := cache }
          | .matrix =>
            match interpValuesS tf c1.env with
            | .error e => .error e
            | .ok env => .ok { c1 with env := env }
        match guarded with
        | .error e => .error e
        | .ok c2 =>
          -- NB: Signature is not interpolated.
          match interpUMapV tf c2.rem with
          | .error e => .error e
          | .ok rem => .ok { c2 with rem := rem }

mutual
  /-- `Step.interpolate` for every step kind (`WaitStep`/`InputStep` scalars are not touched). -/
  def interpStep (kind : TfKind) (tf : String → Except E String) : Step → Except E Step
    | .command c => (interpCommand kind tf c).map .command
    | .wait s c => (interpUMapV tf c).map (.wait s)
    | .input s c => (interpUMapV tf c).map (.input s)
    | .trigger c => (interpUMapV tf c).map .trigger
    | .group k g ss r =>
      match tf k with
      | .error e => .error e
      | .ok k' =>
        match optM tf g with
        | .error e => .error e
        | .ok g' =>
          match (match ss with | none => .ok none | some l => (interpSteps kind tf l).map some : Except E (Option (List Step))) with
          | .error e => .error e
          | .ok ss' =>
            match interpUMapV tf r with
            | .error e => .error e
            | .ok r' => .ok (.group k' g' ss' r')
    | .unknown v => (interpVal tf v).map .unknown

  def interpSteps (kind : TfKind) (tf : String → Except E String) : List Step → Except E (List Step)
    | [] => .ok []
    | s :: r =>
      match interpStep kind tf s with
      | .error e => .error e
      | .ok s' =>
        match interpSteps kind tf r with
        | .error e => .error e
        | .ok r' => .ok (s' :: r')
end

/-- The part of `(*Pipeline).Interpolate` after the env block: steps, then the top-level extras. -/
def interpPipelineRest (tf : String → Except E String) (p : Pipeline) : Except E Pipeline :=
  match optM (interpSteps .env tf) p.steps with
  | .error e => .error e
  | .ok steps =>
    match interpUMapV tf p.rem with
    | .error e => .error e
    | .ok rem => .ok { p with steps := steps, rem := rem }

/-! ## Specification: apply a (total) string function to every string, once -/

section Spec
variable (g : String → String)

/-- Canonical Go-map image of a list of renamed entries (sorted, later wins). -/
def umapOf {α : Type} (l : List (String × α)) : List (String × α) :=
  l.foldl (fun acc p => umapInsert p.1 p.2 acc) []

mutual
  def mapVal : Val → Val
    | .str s => .str (g s)
    | .seq xs => .seq (mapValList xs)
    | .omap kvs => .omap (mapValKVs kvs)
    | .umap kvs => .umap (umapOf (mapValKVs kvs))
    | v => v
  def mapValList : List Val → List Val
    | [] => []
    | x :: r => mapVal x :: mapValList r
  def mapValKVs : List (String × Val) → List (String × Val)
    | [] => []
    | (k, v) :: r => (g k, mapVal v) :: mapValKVs r
end

def mapUMapV : UMap Val → UMap Val
  | none => none
  | some kvs => some (umapOf (mapValKVs g kvs))

def mapUMapS : UMap String → UMap String
  | none => none
  | some kvs => some (umapOf (kvs.map fun (k, v) => (g k, g v)))

def mapValuesS : UMap String → UMap String
  | none => none
  | some kvs => some (kvs.map fun (k, v) => (k, g v))

def mapPlugin (p : Plugin) : Plugin := { source := g p.source, config := mapVal g p.config }

def mapAdjustment (a : Adjustment) : Adjustment :=
  { with_ := mapUMapS g a.with_, skip := mapVal g a.skip, rem := mapUMapV g a.rem }

def mapMatrix (m : Matrix) : Matrix :=
  { setup := m.setup.map fun kvs => umapOf (kvs.map fun (k, v) => (g k, v.map (·.map g))),
    adjustments := m.adjustments.map (·.map (·.map (mapAdjustment g))),
    rem := mapUMapV g m.rem }

def mapCache (c : Cache) : Cache :=
  { c with name := g c.name, paths := c.paths.map (·.map g), size := g c.size, rem := mapUMapV g c.rem }

/-- Env interpolation: every string of the step except the signature. -/
def mapCommandEnv (c : CommandStep) : CommandStep :=
  { c with key := g c.key, label := g c.label, command := g c.command,
           plugins := c.plugins.map (·.map (·.map (mapPlugin g))),
           env := mapUMapS g c.env, matrix := c.matrix.map (mapMatrix g), cache := c.cache.map (mapCache g),
           rem := mapUMapV g c.rem }

/-- Matrix interpolation: command, label, plugin sources and configs, env *values*, unknown fields;
    not env names, key, matrix, cache, signature. -/
def mapCommandMatrix (c : CommandStep) : CommandStep :=
  { c with label := g c.label, command := g c.command,
           plugins := c.plugins.map (·.map (·.map (mapPlugin g))),
           env := mapValuesS g c.env, rem := mapUMapV g c.rem }

mutual
  def mapStep (kind : TfKind) : Step → Step
    | .command c => .command (match kind with | .env => mapCommandEnv g c | .matrix => mapCommandMatrix g c)
    | .wait s c => .wait s (mapUMapV g c)
    | .input s c => .input s (mapUMapV g c)
    | .trigger c => .trigger (mapUMapV g c)
    | .group k gr ss r => .group (g k) (gr.map g) (match ss with | none => none | some l => some (mapSteps kind l)) (mapUMapV g r)
    | .unknown v => .unknown (mapVal g v)
  def mapSteps (kind : TfKind) : List Step → List Step
    | [] => []
    | s :: r => mapStep kind s :: mapSteps kind r
end

def mapPipelineRest (p : Pipeline) : Pipeline :=
  { p with steps := p.steps.map (mapSteps g .env), rem := mapUMapV g p.rem }

end Spec

/-! ## Collision-freedom: within one mapping no two keys are mapped to the same string -/

def keysNoCollide (g : String → String) (ks : List String) : Prop := (ks.map g).Nodup

mutual
  def NoCollideVal (g : String → String) : Val → Prop
    | .seq xs => NoCollideList g xs
    | .omap kvs => keysNoCollide g (kvs.map (·.1)) ∧ NoCollideKVs g kvs
    | .umap kvs => keysNoCollide g (kvs.map (·.1)) ∧ NoCollideKVs g kvs
    | _ => True
  def NoCollideList (g : String → String) : List Val → Prop
    | [] => True
    | x :: r => NoCollideVal g x ∧ NoCollideList g r
  def NoCollideKVs (g : String → String) : List (String × Val) → Prop
    | [] => True
    | (_, v) :: r => NoCollideVal g v ∧ NoCollideKVs g r
end

/-! ## All strings of a value (for the error theorems) -/

mutual
  def stringsVal : Val → List String
    | .str s => [s]
    | .seq xs => stringsList xs
    | .omap kvs => stringsKVs kvs
    | .umap kvs => stringsKVs kvs
    | _ => []
  def stringsList : List Val → List String
    | [] => []
    | x :: r => stringsVal x ++ stringsList r
  def stringsKVs : List (String × Val) → List String
    | [] => []
    | (k, v) :: r => k :: stringsVal v ++ stringsKVs r
end

/-! ## The same two notions for the typed layer -/

def NoCollideUMapV (g : String → String) : UMap Val → Prop
  | none => True
  | some kvs => NoCollideKVs g kvs

def NoCollideAdj (g : String → String) (a : Adjustment) : Prop := NoCollideVal g a.skip ∧ NoCollideUMapV g a.rem

def NoCollideMatrix (g : String → String) (m : Matrix) : Prop :=
  (∀ l, m.adjustments = some l → ∀ a, some a ∈ l → NoCollideAdj g a) ∧ NoCollideUMapV g m.rem

def NoCollideCommand (g : String → String) (c : CommandStep) : Prop :=
  (∀ l, c.plugins = some l → ∀ p, some p ∈ l → NoCollideVal g p.config) ∧
  (∀ m, c.matrix = some m → NoCollideMatrix g m) ∧
  (∀ k, c.cache = some k → NoCollideUMapV g k.rem) ∧
  NoCollideUMapV g c.rem

mutual
  def NoCollideStep (g : String → String) : Step → Prop
    | .command c => NoCollideCommand g c
    | .wait _ c => NoCollideUMapV g c
    | .input _ c => NoCollideUMapV g c
    | .trigger c => NoCollideUMapV g c
    | .group _ _ ss r => (match ss with | none => True | some l => NoCollideSteps g l) ∧ NoCollideUMapV g r
    | .unknown v => NoCollideVal g v
  def NoCollideSteps (g : String → String) : List Step → Prop
    | [] => True
    | s :: r => NoCollideStep g s ∧ NoCollideSteps g r
end

def stringsUMapV : UMap Val → List String
  | none => []
  | some kvs => stringsKVs kvs

def stringsUMapS : UMap String → List String
  | none => []
  | some kvs => kvs.flatMap fun (k, v) => [k, v]

def stringsPlugins : Option (List (Option Plugin)) → List String
  | none => []
  | some l => l.flatMap fun | none => [] | some p => p.source :: stringsVal p.config

def stringsAdj (a : Adjustment) : List String := stringsUMapS a.with_ ++ stringsVal a.skip ++ stringsUMapV a.rem

def stringsMatrix (m : Matrix) : List String :=
  (match m.setup with | none => [] | some kvs => kvs.flatMap fun (k, v) => k :: v.getD []) ++
  (match m.adjustments with | none => [] | some l => l.flatMap fun | none => [] | some a => stringsAdj a) ++
  stringsUMapV m.rem

def stringsCache (c : Cache) : List String := c.name :: (c.paths.getD [] ++ c.size :: stringsUMapV c.rem)

/-- Every string `(*CommandStep).interpolate` hands to the transformer, per transformer kind. -/
def stringsCommand (kind : TfKind) (c : CommandStep) : List String :=
  c.command :: c.label :: stringsPlugins c.plugins ++
  (match kind with
   | .env => c.key :: stringsUMapS c.env ++ (match c.matrix with | none => [] | some m => stringsMatrix m) ++
             (match c.cache with | none => [] | some k => stringsCache k)
   | .matrix => (match c.env with | none => [] | some kvs => kvs.map (·.2))) ++
  stringsUMapV c.rem

mutual
  def stringsStep (kind : TfKind) : Step → List String
    | .command c => stringsCommand kind c
    | .wait _ c => stringsUMapV c
    | .input _ c => stringsUMapV c
    | .trigger c => stringsUMapV c
    | .group k g ss r => k :: (g.toList ++ (match ss with | none => [] | some l => stringsSteps kind l) ++ stringsUMapV r)
    | .unknown v => stringsVal v
  def stringsSteps (kind : TfKind) : List Step → List String
    | [] => []
    | s :: r => stringsStep kind s ++ stringsSteps kind r
end

/-- Kind tag of a step (for "nothing else in the structure changes"). -/
def stepTag : Step → Nat
  | .command _ => 0 | .wait _ _ => 1 | .input _ _ => 2 | .trigger _ => 3 | .group _ _ _ _ => 4 | .unknown _ => 5

end GoPipeline.Interp
