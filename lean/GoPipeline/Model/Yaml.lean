/-
  C07 / C08 — mirror of `DecodeYAML`/`decodeYAML`, `rangeYAMLMap`/`rangeYAMLMapImpl` and the alias/kind
  part of `canonicalMapKey` (ordered/yaml.go) over a *graph* of yaml nodes (cycles representable).

  The model starts at the `*yaml.Node` graph that yaml.v3 produced; scanner, parser, tag resolution
  and scalar decoding are yaml.v3's (inputs here):
    * `decoded`  — what `n.Decode(&v)` yields for a scalar node (`none` = Decode fails);
    * `keyStr`   — what `canonicalMapKey` yields for a scalar node (`none` = error: null key, undecodable).
-/
import GoPipeline.Model.Val
import GoPipeline.Model.OMap
namespace GoPipeline.Yaml

inductive Kind where
  | scalar | sequence | mapping | alias | document | other
  deriving DecidableEq, Repr

structure NodeRec where
  kind : Kind
  isMerge : Bool                -- `k.Tag == "!!merge"`
  decoded : Option Val := none
  keyStr : Option String := none
  content : List Nat := []
  aliasTo : Option Nat := none  -- `n.Alias` (nil possible on hand-built graphs)

instance : Inhabited NodeRec := ⟨{ kind := .other, isMerge := false }⟩

abbrev Store := List NodeRec

inductive Err where
  | recursion          -- "infinite recursion"
  | other              -- wrong kind, odd mapping, bad key, Decode failure, multi-content document
  | fuel               -- model artefact: never returned for fuel > |store| (theorem C07_fuel)
  deriving DecidableEq, Repr

/-- `canonicalMapKey`: follow aliases, scalars give `keyStr`, other kinds are an error.
    Fuel only guards hand-built alias→alias chains. -/
def canonicalKey (s : Store) : Nat → Nat → Except Err String
  | 0, _ => .error .fuel
  | f + 1, i =>
    match s[i]? with
    | none => .error .other
    | some n =>
      match n.kind with
      | .alias => match n.aliasTo with
        | some t => canonicalKey s f t
        | none => .error .other
      | .scalar => match n.keyStr with
        | some k => .ok k
        | none => .error .other
      | _ => .error .other

/-- Split `Content` into (key node, value node) pairs; `none` if the length is odd. -/
def pairsOf : List Nat → Option (List (Nat × Nat))
  | [] => some []
  | [_] => none
  | k :: v :: r => (pairsOf r).map ((k, v) :: ·)

/-- State threaded through `rangeYAMLMapImpl`: the `merged` set and the yielded (key, value node) pairs. -/
structure RangeSt where
  merged : List Nat
  out : List (String × Nat)

/-- A callback chain: each enclosing mapping level contributes a `keys` set (as `skipKeys` closure).
    Yielding a key through the chain: every level must not know it; every level then records it. -/
def yieldChain : List (List String) → String → List (List String) × Bool
  | [], _ => ([], true)                       -- reached the collector
  | ks :: outer, k =>
    if ks.contains k then (ks :: outer, false)  -- `if keys[k] { return nil }`
    else
      let (outer', ok) := yieldChain outer k    -- `keys[k] = true; return f(k, v)`
      ((k :: ks) :: outer', ok)

mutual
  /-- `rangeYAMLMapImpl(merged, n, f)` where `f` is the chain `levels` ending in the top-level collector.
      Returns the updated `levels` (the `keys` maps are shared by reference in Go). -/
  def rangeImpl (s : Store) : Nat → List (List String) → RangeSt → Option Nat →
      Except Err (List (List String) × RangeSt)
    | 0, _, _, _ => .error .fuel
    | _ + 1, levels, st, none => .ok (levels, st)           -- n == nil
    | f + 1, levels, st, some i =>
      if st.merged.contains i then .ok (levels, st)
      else
        let st := { st with merged := i :: st.merged }
        match s[i]? with
        | none => .error .other
        | some n =>
          match n.kind with
          | .mapping =>
            match pairsOf n.content with
            | none => .error .other
            | some ps =>
              -- pass 1: keys at this level (merge keys ignored)
              match explicitKeys s f ps with
              | .error e => .error e
              | .ok ks =>
                -- pass 2: this level's `keys` set is a new innermost level of the chain
                match rangePairs s f ks levels st ps with
                | .error e => .error e
                | .ok (_, outer', st') => .ok (outer', st')
          | .sequence => rangeSeq s f levels st n.content
          | .alias => rangeImpl s f levels st n.aliasTo
          | _ => .error .other

  /-- Pass 2 over the pairs of a mapping; `cur` is this mapping's `keys`, `outer` the enclosing chain. -/
  def rangePairs (s : Store) : Nat → List String → List (List String) → RangeSt → List (Nat × Nat) →
      Except Err (List String × List (List String) × RangeSt)
    | 0, _, _, _, _ => .error .fuel
    | _ + 1, cur, outer, st, [] => .ok (cur, outer, st)
    | f + 1, cur, outer, st, (k, v) :: rest =>
      match s[k]? with
      | none => .error .other
      | some kn =>
        if kn.isMerge then
          -- recurse into the merge value; its yields go through `skipKeys` of this level and all outer ones
          match rangeImpl s f (cur :: outer) st (some v) with
          | .error e => .error e
          | .ok ([], st') => rangePairs s f cur outer st' rest          -- unreachable: the chain keeps its length
          | .ok (cur' :: outer', st') => rangePairs s f cur' outer' st' rest
        else
          match canonicalKey s (f + 1) k with
          | .error e => .error e
          | .ok ck =>
            -- an explicit pair is yielded to the *enclosing* callback: through the outer levels only
            match yieldChain outer ck with
            | (outer', false) => rangePairs s f cur outer' st rest
            | (outer', true) => rangePairs s f cur outer' { st with out := st.out ++ [(ck, v)] } rest

  def rangeSeq (s : Store) : Nat → List (List String) → RangeSt → List Nat →
      Except Err (List (List String) × RangeSt)
    | 0, _, _, _ => .error .fuel
    | _ + 1, levels, st, [] => .ok (levels, st)
    | f + 1, levels, st, e :: rest =>
      match rangeImpl s f levels st (some e) with
      | .error err => .error err
      | .ok (levels', st') => rangeSeq s f levels' st' rest

  /-- Pass 1: canonical keys of the non-merge pairs. -/
  def explicitKeys (s : Store) : Nat → List (Nat × Nat) → Except Err (List String)
    | 0, _ => .error .fuel
    | _ + 1, [] => .ok []
    | f + 1, (k, _) :: rest =>
      match s[k]? with
      | none => .error .other
      | some kn =>
        if kn.isMerge then explicitKeys s f rest
        else
          match canonicalKey s (f + 1) k with
          | .error e => .error e
          | .ok ck => (explicitKeys s f rest).map (ck :: ·)
end

/-- Enough fuel for any call chain: nesting is bounded by the number of nodes (the `seen` / `merged`
    sets grow along a chain) and each level walks one list, consuming one unit of fuel per element.
    That list is a content list (≤ `maxContent`) or, in `decodePairs`, the pairs yielded by one
    `rangeMap`; with merges the latter is NOT bounded by one content list, only by
    `|store| · maxContent` (every mapping node is ranged at most once per `rangeMap`), hence `maxList`.
    (With the former bound `(|store|+2)·(maxContent+3)` deeply nested mappings that each merge several
    wide mappings ran out of fuel; see `Lemmas/Yaml.lean`, `oldBound_counterexample`.) -/
def maxContent (s : Store) : Nat := s.foldl (fun m n => max m n.content.length) 0
def maxList (s : Store) : Nat := (s.length + 1) * maxContent s
def bound (s : Store) : Nat := (s.length + 2) * (maxList s + 3)

/-- `rangeYAMLMap(n, f)`: the (canonical key, value node) pairs in the order `f` receives them. -/
def rangeMap (s : Store) (fuel : Nat) (i : Nat) : Except Err (List (String × Nat)) :=
  (rangeImpl s fuel [] { merged := [], out := [] } (some i)).map (·.2.out)

mutual
  /-- `decodeYAML(seen, n)`. -/
  def decode (s : Store) : Nat → List Nat → Option Nat → Except Err Val
    | 0, _, _ => .error .fuel
    | _ + 1, _, none => .ok .null
    | f + 1, seen, some i =>
      if seen.contains i then .error .recursion
      else
        let seen' := i :: seen           -- un-marked on return: the callee gets `seen'`, the caller keeps `seen`
        match s[i]? with
        | none => .error .other
        | some n =>
          match n.kind with
          | .scalar => match n.decoded with
            | some v => .ok v
            | none => .error .other
          | .sequence => (decodeList s f seen' n.content).map .seq
          | .mapping =>
            match rangeMap s (bound s) i with
            | .error e => .error e
            | .ok ps => (decodePairs s f seen' ps []).map .omap
          | .alias => decode s f seen' n.aliasTo
          | .document =>
            match n.content with
            | [] => .ok .null
            | [c] => decode s f seen' (some c)
            | _ => .error .other
          | .other => .error .other

  def decodeList (s : Store) : Nat → List Nat → List Nat → Except Err (List Val)
    | 0, _, _ => .error .fuel
    | _ + 1, _, [] => .ok []
    | f + 1, seen, c :: rest =>
      match decode s f seen (some c) with
      | .error e => .error e
      | .ok v => (decodeList s f seen rest).map (v :: ·)

  /-- `m.Set(key, v)` for each yielded pair (a repeated key updates in place). -/
  def decodePairs (s : Store) : Nat → List Nat → List (String × Nat) → List (String × Val) → Except Err (List (String × Val))
    | 0, _, _, _ => .error .fuel
    | _ + 1, _, [], acc => .ok acc
    | f + 1, seen, (k, v) :: rest, acc =>
      match decode s f seen (some v) with
      | .error e => .error e
      | .ok x => decodePairs s f seen rest (OMap.aset acc k x)
end

/-- `DecodeYAML(n)`. -/
def decodeYAML (s : Store) (root : Nat) : Except Err Val := decode s (bound s) [] (some root)

/-! ## Specification: the YAML merge rules -/

mutual
  /-- The mapping nodes a merge value denotes, in order: an alias denotes its target, a sequence the
      concatenation of its elements, a mapping itself. -/
  def specSources (s : Store) : Nat → Option Nat → Except Err (List Nat)
    | 0, _ => .error .fuel
    | _ + 1, none => .ok []
    | f + 1, some i =>
      match s[i]? with
      | none => .error .other
      | some n =>
        match n.kind with
        | .mapping => .ok [i]
        | .alias => specSources s f n.aliasTo
        | .sequence => specSourcesList s f n.content
        | _ => .error .other
  def specSourcesList (s : Store) : Nat → List Nat → Except Err (List Nat)
    | 0, _ => .error .fuel
    | _ + 1, [] => .ok []
    | f + 1, e :: rest =>
      match specSources s f (some e) with
      | .error err => .error err
      | .ok a => (specSourcesList s f rest).map (a ++ ·)
end

/-- Append the pairs of `src` whose keys are not yet present ("unless the key already exists"). -/
def mergeInto (have_ : List String) (out : List (String × Nat)) : List (String × Nat) → List String × List (String × Nat)
  | [] => (have_, out)
  | (k, v) :: r => if have_.contains k then mergeInto have_ out r else mergeInto (k :: have_) (out ++ [(k, v)]) r

mutual
  /-- Content of a mapping per https://yaml.org/type/merge.html, order-preserving: explicit pairs stand
      where they are written; a `<<` pair contributes, where it stands, the content of each source
      mapping in order, earlier sources winning over later ones and explicit keys over all merged ones. -/
  def specContent (s : Store) : Nat → Nat → Except Err (List (String × Nat))
    | 0, _ => .error .fuel
    | f + 1, i =>
      match s[i]? with
      | none => .error .other
      | some n =>
        match n.kind, pairsOf n.content with
        | .mapping, some ps =>
          match explicitKeys s (f + 1) ps with
          | .error e => .error e
          | .ok ks => (specPairs s f ks [] ps).map (·.2)
        | _, _ => .error .other
  def specPairs (s : Store) : Nat → List String → List (String × Nat) → List (Nat × Nat) →
      Except Err (List String × List (String × Nat))
    | 0, _, _, _ => .error .fuel
    | _ + 1, have_, out, [] => .ok (have_, out)
    | f + 1, have_, out, (k, v) :: rest =>
      match s[k]? with
      | none => .error .other
      | some kn =>
        if kn.isMerge then
          match specSources s (f + 1) (some v) with
          | .error e => .error e
          | .ok srcs =>
            match specMergeAll s f have_ out srcs with
            | .error e => .error e
            | .ok (have', out') => specPairs s f have' out' rest
        else
          match canonicalKey s (f + 1) k with
          | .error e => .error e
          | .ok ck => specPairs s f have_ (out ++ [(ck, v)]) rest
  def specMergeAll (s : Store) : Nat → List String → List (String × Nat) → List Nat →
      Except Err (List String × List (String × Nat))
    | 0, _, _, _ => .error .fuel
    | _ + 1, have_, out, [] => .ok (have_, out)
    | f + 1, have_, out, src :: rest =>
      match specContent s f src with
      | .error e => .error e
      | .ok ps =>
        let (have', out') := mergeInto have_ out ps
        specMergeAll s f have' out' rest
end

end GoPipeline.Yaml
