/-
  C11 — mirror of `(*Matrix).validatePermutation`, `(*MatrixAdjustment).ShouldSkip` and the
  validation part of `(*CommandStep).InterpolateMatrixPermutation` (step_command_matrix.go,
  step_command.go), and the matrix specification written outright.

  A Go `map[string]T` is a list of entries in *some* iteration order with pairwise distinct keys.
  Every `for … range` loop of the Go function is the early-exit scan `firstErr` / `allMatch`
  over such a list, so the model can be run on any order.
-/
namespace GoPipeline.MatrixV

inductive Err where
  | nilMatrix | permLen | permUnknownDim | adjLen | adjUnknownDim | skipped | noMatch
  deriving DecidableEq, Repr

/-- `MatrixAdjustment.Skip any`: what `ShouldSkip` can see. -/
inductive SkipVal where
  | absent            -- nil interface
  | bool (b : Bool)
  | other             -- string, number, list, …
  deriving DecidableEq, Repr

/-- `ShouldSkip`: `bool` → its value, `nil` → false, anything else → true. -/
def shouldSkip : SkipVal → Bool
  | .absent => false
  | .bool b => b
  | .other => true

structure Adj where
  with_ : List (String × String)      -- `MatrixAdjustmentWith` (Go map entries)
  skip : SkipVal
  deriving Repr

structure Matrix where
  /-- `MatrixSetup = map[string][]string`; a `nil` slice value is `none`, an empty non-nil one `some []`. -/
  setup : List (String × Option (List String))
  /-- `MatrixAdjustments = []*MatrixAdjustment`: a `null` entry parses to a nil pointer (`none`). -/
  adjustments : List (Option Adj)
  deriving Repr

/-- `m.Setup[dim]`: `none` when the dimension is absent *or* maps to a nil slice (the code tests `== nil`). -/
def setupGet (m : Matrix) (dim : String) : Option (List String) := (m.setup.lookup dim).join

/-- `adj.With[dim]` with Go's zero value for a missing key. -/
def withGet (a : Adj) (dim : String) : String := (a.with_.lookup dim).getD ""

/-- `for x := range l { if bad(x) { return err } }` -/
def firstErr {α : Type} (l : List α) (bad : α → Bool) (e : Err) : Except Err Unit :=
  match l with
  | [] => .ok ()
  | x :: r => if bad x then .error e else firstErr r bad e

/-- `ok := true; for x := range l { if !good(x) { ok = false; break } }` -/
def allMatch {α : Type} (l : List α) (good : α → Bool) : Bool :=
  match l with
  | [] => true
  | x :: r => if good x then allMatch r good else false

/-- The loop over `m.Adjustments`, carrying `valid`. -/
def adjLoop (m : Matrix) (p : List (String × String)) : List (Option Adj) → Bool → Except Err Bool
  | [], valid => .ok valid
  | none :: _, _ => .error .adjLen          -- a null adjustment is malformed
  | some adj :: rest, valid =>
    if adj.with_.length != m.setup.length then .error .adjLen
    else
      match firstErr adj.with_ (fun e => (setupGet m e.1).isNone) .adjUnknownDim with
      | .error e => .error e
      | .ok () =>
        if !(allMatch p (fun e => e.2 == withGet adj e.1)) then adjLoop m p rest valid
        else if shouldSkip adj.skip then .error .skipped
        else adjLoop m p rest true

/-- `(*Matrix).validatePermutation`; `none` is the nil receiver. -/
def validate (m : Option Matrix) (p : List (String × String)) : Except Err Unit :=
  match m with
  | none => if p.length > 0 then .error .nilMatrix else .ok ()
  | some m =>
    if p.length != m.setup.length then .error .permLen
    else
      match firstErr p (fun e => (setupGet m e.1).isNone) .permUnknownDim with
      | .error e => .error e
      | .ok () =>
        let valid := allMatch p (fun e => ((setupGet m e.1).getD []).contains e.2)
        match adjLoop m p m.adjustments valid with
        | .error e => .error e
        | .ok valid => if !valid then .error .noMatch else .ok ()

/-- `(*CommandStep).InterpolateMatrixPermutation` over an abstract step type:
    validate, return early for the empty permutation, otherwise interpolate. The step is
    mutated in place in Go, so the model returns the step afterwards together with the error. -/
def interpolateMatrixPermutation {S E : Type} (interp : List (String × String) → S → S × Option E)
    (m : Option Matrix) (p : List (String × String)) (s : S) : S × Option (Err ⊕ E) :=
  match validate m p with
  | .error e => (s, some (.inl e))
  | .ok () =>
    if p.length == 0 then (s, none)
    else
      let (s', r) := interp p s
      (s', r.map .inr)

/-! ## The matrix specification -/

def keys {V : Type} (l : List (String × V)) : List String := l.map (·.1)

/-- Maps are well formed: Go map keys are pairwise distinct. -/
structure WF (m : Option Matrix) (p : List (String × String)) : Prop where
  pKeys : (keys p).Nodup
  setupKeys : ∀ mm, m = some mm → (keys mm.setup).Nodup
  adjKeys : ∀ mm, m = some mm → ∀ a, some a ∈ mm.adjustments → (keys a.with_).Nodup

/-- The permutation names each matrix dimension exactly once
    (a dimension "exists" when its value list is non-nil, as the code tests it). -/
def namesEachDimOnce (m : Matrix) (p : List (String × String)) : Prop :=
  p.length = m.setup.length ∧ ∀ d ∈ keys p, setupGet m d ≠ none

/-- An adjustment is well formed when its tuple has exactly the setup's dimensions. -/
def adjWellFormed (m : Matrix) (a : Adj) : Prop :=
  a.with_.length = m.setup.length ∧ ∀ d ∈ keys a.with_, setupGet m d ≠ none

/-- `p` is a combination of the setup values. -/
def isCombination (m : Matrix) (p : List (String × String)) : Prop :=
  ∀ e ∈ p, ∃ vs, setupGet m e.1 = some vs ∧ e.2 ∈ vs

/-- `p` equals the adjustment's value tuple. -/
def adjEquals (a : Adj) (p : List (String × String)) : Prop :=
  ∀ e ∈ p, a.with_.lookup e.1 = some e.2

/-- Acceptance per the matrix specification. -/
def accept (m : Option Matrix) (p : List (String × String)) : Prop :=
  match m with
  | none => p = []
  | some m =>
    namesEachDimOnce m p ∧
    (∀ x ∈ m.adjustments, ∃ a, x = some a ∧ adjWellFormed m a) ∧
    (isCombination m p ∨ ∃ a, some a ∈ m.adjustments ∧ adjEquals a p) ∧
    (∀ a, some a ∈ m.adjustments → adjEquals a p → shouldSkip a.skip = false)

end GoPipeline.MatrixV
