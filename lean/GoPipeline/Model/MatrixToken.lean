/-
  C12 (string level) — mirror of `matrixInterpolator.Transform` (interpolate_matrix.go):
  `matrixTokenRE.ReplaceAllStringFunc` for the one regexp literal
      \{\{\s*matrix(\.[\w-\.]+)?\s*\}\}
  (`Gen/MatrixRE` carries the literal read from the source; `Props/C12` has the obligation that it
  is the literal this matcher was written for).  RE2 semantics: leftmost-first, greedy; `\s` is
  [\t\n\f\r ], `\w` is [0-9A-Za-z_]; the class `[\w-\.]` additionally contains `-` and `.`.
  For this expression backtracking never succeeds where the greedy choice fails (the character after
  each greedy run must lie outside the run's class), so a deterministic matcher is exact.
-/
namespace GoPipeline.MatrixTok

def isWs (c : Char) : Bool := c == ' ' || c == '\t' || c == '\n' || c == '\x0c' || c == '\r'

def isWord (c : Char) : Bool :=
  ('0' ≤ c && c ≤ '9') || ('A' ≤ c && c ≤ 'Z') || ('a' ≤ c && c ≤ 'z') || c == '_'

/-- `[\w-\.]` -/
def isDimChar (c : Char) : Bool := isWord c || c == '-' || c == '.'

def skipWs : List Char → List Char
  | [] => []
  | c :: r => if isWs c then skipWs r else c :: r

def spanDim : List Char → List Char × List Char
  | [] => ([], [])
  | c :: r => if isDimChar c then let (a, b) := spanDim r; (c :: a, b) else ([], c :: r)

def stripPrefix : List Char → List Char → Option (List Char)
  | [], l => some l
  | _ :: _, [] => none
  | a :: as, b :: bs => if a == b then stripPrefix as bs else none

/-- The optional group `(\.[\w-\.]+)?` after `matrix`: returns submatch 1 (`""` or `.dim`) and the rest. -/
def matchDim : List Char → List Char × List Char
  | '.' :: r =>
    match spanDim r with
    | ([], _) => ([], '.' :: r)           -- `\.` needs at least one class character after it
    | (d, rest) => ('.' :: d, rest)
  | l => ([], l)

/-- Try to match one token at the head of the input: submatch 1 and the text after `}}`. -/
def matchToken (l : List Char) : Option (List Char × List Char) :=
  match stripPrefix ['{', '{'] l with
  | none => none
  | some r =>
    match stripPrefix "matrix".toList (skipWs r) with
    | none => none
    | some r =>
      let (dim, r) := matchDim r
      match stripPrefix ['}', '}'] (skipWs r) with
      | none => none
      | some rest => some (dim, rest)

theorem stripPrefix_length {p l r : List Char} (h : stripPrefix p l = some r) : r.length + p.length = l.length := by
  induction p generalizing l with
  | nil => simp [stripPrefix] at h; subst h; simp
  | cons a as ih =>
    cases l with
    | nil => simp [stripPrefix] at h
    | cons b bs =>
      simp only [stripPrefix] at h
      split at h
      · have := ih h; simp; omega
      · simp at h

theorem skipWs_length (l : List Char) : (skipWs l).length ≤ l.length := by
  induction l with
  | nil => simp [skipWs]
  | cons c r ih => unfold skipWs; split <;> simp <;> omega

theorem spanDim_length (l : List Char) : (spanDim l).2.length ≤ l.length := by
  induction l with
  | nil => simp [spanDim]
  | cons c r ih => unfold spanDim; split <;> simp <;> omega

theorem matchDim_length (l : List Char) : (matchDim l).2.length ≤ l.length := by
  unfold matchDim
  split
  · rename_i r
    have := spanDim_length r
    cases hsd : spanDim r with
    | mk d rest =>
      rw [hsd] at this
      cases d with
      | nil => exact Nat.le_refl _
      | cons x xs => simp only [List.length_cons]; exact Nat.le_succ_of_le this
  · exact Nat.le_refl _

theorem matchToken_length {l d r : List Char} (h : matchToken l = some (d, r)) : r.length < l.length := by
  unfold matchToken at h
  split at h; · simp at h
  rename_i r1 h1
  split at h; · simp at h
  rename_i r2 h2
  simp only at h
  split at h; · simp at h
  rename_i r3 h3
  simp only [Option.some.injEq, Prod.mk.injEq] at h
  have a1 := stripPrefix_length h1
  have a2 := stripPrefix_length h2
  have a3 := stripPrefix_length h3
  have b1 := skipWs_length r1
  have b2 := skipWs_length (matchDim r2).2
  have b3 := matchDim_length r2
  obtain ⟨_, rfl⟩ := h
  simp at a1 a2 a3
  omega

/-- Single left-to-right pass: output text and the list of unknown submatches, in order. -/
def transformAux (repl : List Char → Option (List Char)) : List Char → List Char × List (List Char)
  | [] => ([], [])
  | c :: cs =>
    match _h : matchToken (c :: cs) with
    | some (dim, rest) =>
      let (out, unk) := transformAux repl rest
      match repl dim with
      | some v => (v ++ out, unk)
      | none => (out, dim :: unk)        -- Go: `repl` is "" (zero value) and the name is recorded
    | none =>
      let (out, unk) := transformAux repl cs
      (c :: out, unk)
termination_by l => l.length
decreasing_by
  · have := matchToken_length _h; simpa using this
  · simp

/-- `matrixInterpolator.Transform`: error iff some token names an unknown dimension. -/
def transform (repl : List Char → Option (List Char)) (s : List Char) : Except (List (List Char)) (List Char) :=
  match transformAux repl s with
  | (out, []) => .ok out
  | (_, unk) => .error unk

/-- `newMatrixInterpolator`: replacement table keyed by `""` / `"." ++ dim`. -/
def replOf (perm : List (String × String)) (sub : List Char) : Option (List Char) :=
  (perm.find? (fun e => (if e.1 == "" then [] else '.' :: e.1.toList) == sub)).map (·.2.toList)

/-! ## Declarative side: strings as alternations of text and tokens -/

inductive Seg where
  | text (t : List Char)
  | tok (ws1 : List Char) (dim : List Char) (ws2 : List Char)   -- `{{ws1 matrix dim ws2}}`; dim = "" or ".name"
  deriving Repr

def Seg.render : Seg → List Char
  | .text t => t
  | .tok w1 d w2 => ['{', '{'] ++ w1 ++ "matrix".toList ++ d ++ w2 ++ ['}', '}']

def render (segs : List Seg) : List Char := (segs.map Seg.render).flatten

def Seg.subst (repl : List Char → Option (List Char)) : Seg → List Char
  | .text t => t
  | .tok _ d _ => (repl d).getD []

def subst (repl : List Char → Option (List Char)) (segs : List Seg) : List Char :=
  (segs.map (Seg.subst repl)).flatten

def unknowns (repl : List Char → Option (List Char)) (segs : List Seg) : List (List Char) :=
  segs.filterMap fun
    | .text _ => none
    | .tok _ d _ => if (repl d).isSome then none else some d

/-- A well-formed submatch: empty, or `.` followed by at least one class character. -/
def DimOK (d : List Char) : Prop := d = [] ∨ ∃ n, d = '.' :: n ∧ n ≠ [] ∧ ∀ c ∈ n, isDimChar c = true

def Seg.OK : Seg → Prop
  | .text t => '{' ∉ t
  | .tok w1 d w2 => (∀ c ∈ w1, isWs c = true) ∧ DimOK d ∧ (∀ c ∈ w2, isWs c = true)

end GoPipeline.MatrixTok
