/-
  C09 (YAML leg) — the value tree `yaml.Marshal` is handed for a typed pipeline: yaml.v3's struct
  encoding (fields by yaml tag, `omitempty` = yaml.v3's `isZero`, the `,inline` map appended, a key of
  the inline map that is also a declared field key is an encoding error) and the `MarshalYAML` methods.
  Struct levels are given as `umap` (sorted): key order at struct levels is not part of the comparison
  (order-significant positions keep their `omap`).

  Where the two legs differ (everything else is the same function as in Model/Marshal.lean):
    * an adjustment's `skip` is dropped only when nil (yaml.v3 `isZero` of an interface), not when
      `false` / `""` / `0` / `[]` as `encoding/json`-style `isEmptyValue` does (finding F11);
    * `Cache` has no `MarshalYAML`: a cache that is only disabled is `{disabled: true}`, not `false`;
    * nil slices are written `[]` (steps of a pipeline / group, `signed_fields`), JSON writes `null`;
    * a trigger step without contents is `{}`, JSON writes `null`;
    * an inline key that collides with a declared field key is an error (JSON: the field wins);
    * an empty (non-nil) pipeline env block is omitted (`ordered.Map.IsZero`), JSON writes `"env":{}`.
-/
import GoPipeline.Model.Marshal
import GoPipeline.Gen.Structs
namespace GoPipeline.MarshalY
open GoPipeline GoPipeline.Pipe GoPipeline.Marshal GoPipeline.Unm

inductive YErr where
  | emptyInputStep
  | inlineConflict (k : String)
  deriving DecidableEq, Repr

/-- The keys a struct declares (every non-inline field, whether or not it is omitted when empty). -/
def declaredKeys (d : List Field) : List String :=
  d.filterMap fun f => match f.role with | .normal => some f.key | _ => none

/-- yaml.v3 struct encoding: present fields plus the inline map; an inline key equal to a declared key
    is an error ("cannot have key … in inlined map: conflicts with struct field"). -/
def yStruct (d : List Field) (outline : List (String × Val)) (inline : UMap Val) : Except YErr Val :=
  match (inline.getD []).find? (fun p => (declaredKeys d).contains p.1) with
  | some p => .error (.inlineConflict p.1)
  | none => .ok (.umap (umapOf ((inline.getD []) ++ outline)))

/-- yaml.v3 `isZero` on an `any`-typed field: only nil. -/
def yIsZeroAny : Val → Bool
  | .null => true
  | _ => false

/-- `MatrixAdjustment` (no `MarshalYAML`; `with` through `MatrixAdjustmentWith.MarshalYAML`). -/
def yAdjustment (a : Adjustment) : Except YErr Val :=
  yStruct Gen.struct_MatrixAdjustment
    ([("with", mWith a.with_)] ++ (if yIsZeroAny a.skip then [] else [("skip", a.skip)])) a.rem

def yAdjustments : List (Option Adjustment) → Except YErr (List Val)
  | [] => .ok []
  | none :: r => (yAdjustments r).map (.null :: ·)
  | some a :: r =>
    match yAdjustment a with
    | .error e => .error e
    | .ok v => (yAdjustments r).map (v :: ·)

/-- `(*Matrix).MarshalYAML`. -/
def yMatrix (m : Matrix) : Except YErr Val :=
  if isSimple m then .ok (mSetup m.setup)
  else
    let adjs := m.adjustments.getD []
    match yAdjustments adjs with
    | .error e => .error e
    | .ok avs =>
      yStruct Gen.struct_Matrix ([("setup", mSetup m.setup)] ++
        (if adjs.isEmpty then [] else [("adjustments", .seq avs)])) m.rem

/-- `Cache` (no `MarshalYAML`): plain struct encoding. -/
def yCache (c : Cache) : Except YErr Val :=
  yStruct Gen.struct_Cache ((if c.disabled then [("disabled", .bool true)] else []) ++
        (if c.name == "" then [] else [("name", .str c.name)]) ++
        (if (c.paths.getD []).isEmpty then [] else [("paths", strsV (c.paths.getD []))]) ++
        (if c.size == "" then [] else [("size", .str c.size)])) c.rem

/-- `Signature` (yaml tags; a nil slice is written `[]`). -/
def ySignature (s : Signature) : Val :=
  .umap [("algorithm", .str s.algorithm), ("signed_fields", strsV (s.signedFields.getD [])), ("value", .str s.value)]

/-- `CommandStep` (no `MarshalYAML`). -/
def yCommand (c : CommandStep) : Except YErr Val :=
  match (match c.matrix with | none => .ok [] | some m => (yMatrix m).map fun v => [("matrix", v)] : Except YErr (List (String × Val))),
        (match c.cache with | none => .ok [] | some k => (yCache k).map fun v => [("cache", v)] : Except YErr (List (String × Val))) with
  | .error e, _ => .error e
  | _, .error e => .error e
  | .ok mv, .ok cv =>
    yStruct Gen.struct_CommandStep (
      (if c.key == "" then [] else [("key", .str c.key)]) ++
      (if c.label == "" then [] else [("label", .str c.label)]) ++
      [("command", .str c.command)] ++
      (if (c.plugins.getD []).isEmpty then [] else [("plugins", mPlugins (c.plugins.getD []))]) ++
      (if lenUMap c.env == 0 then [] else [("env", envV c.env)]) ++
      (match c.signature with | none => [] | some s => [("signature", ySignature s)]) ++
      mv ++ cv) c.rem

mutual
  /-- `MarshalYAML` / struct encoding of each step kind. -/
  def yStep : Step → Except YErr Val
    | .command c => yCommand c
    | .wait s c => .ok (if s != "" then .str s else if lenUMap c == 0 then .str "wait" else umapV c)
    | .input s c => if s != "" then .ok (.str s) else if lenUMap c == 0 then .error .emptyInputStep else .ok (umapV c)
    | .trigger c => .ok (.umap (c.getD []))
    | .group k g ss r =>
      match (match ss with | none => .ok [] | some l => ySteps l : Except YErr (List Val)) with
      | .error e => .error e
      | .ok svs =>
        yStruct Gen.struct_GroupStep ((if k == "" then [] else [("key", .str k)]) ++
              [("group", match g with | none => .null | some s => .str s), ("steps", .seq svs)]) r
    | .unknown v => .ok v
  def ySteps : List Step → Except YErr (List Val)
    | [] => .ok []
    | s :: r =>
      match yStep s with
      | .error e => .error e
      | .ok v =>
        match ySteps r with
        | .error e => .error e
        | .ok vs => .ok (v :: vs)
end

/-- `yaml.Marshal(*Pipeline)`. -/
def yPipeline (p : Pipeline) : Except YErr Val :=
  match (match p.steps with | none => .ok [] | some l => ySteps l : Except YErr (List Val)) with
  | .error e => .error e
  | .ok svs =>
    yStruct Gen.struct_Pipeline ([("steps", .seq svs)] ++
      -- `*ordered.Map` has an `IsZero` method, which yaml.v3's omitempty consults: an empty env block is omitted
      -- (the JSON leg keeps `"env":{}`: there omitempty only asks whether the pointer is nil)
      (match p.env with | none => [] | some [] => [] | some kvs => [("env", .omap (kvs.map fun (k, v) => (k, .str v)))])) p.rem

end GoPipeline.MarshalY
