/-
  C05 — mirror of `ordered/map.go` (+ `ordered/tuple.go`) and the list-of-pairs spec.

  Concrete model: storage slots (with tombstones) + index, operation by operation as the
  Go code performs them.  Abstract spec: `List (String × V)`.
  Core-only: linked into the `driver` executable.
-/
namespace GoPipeline.OMap

/-! ## Concrete model -/

/-- `ordered.Tuple`: key, value and the unexported tombstone flag. -/
structure Slot (V : Type) where
  key : String
  val : V
  deleted : Bool := false
  deriving Repr

/-- A Go `map[K]int`, as an association list (order irrelevant, keys unique). -/
abbrev Index := List (String × Nat)

def idxGet (ix : Index) (k : String) : Option Nat := ix.lookup k
def idxDel (ix : Index) (k : String) : Index := ix.filter (fun p => p.1 != k)
def idxSet (ix : Index) (k : String) (i : Nat) : Index := (k, i) :: idxDel ix k

/-- `ordered.Map`: `index = none` is the zero value `Map{}` (nil index). -/
structure CMap (V : Type) where
  items : List (Slot V) := []
  index : Option Index := none
  deriving Repr

variable {V : Type}

def newMap : CMap V := { items := [], index := some [] }
def zeroMap : CMap V := {}

/-- `l[i] = f l[i]` (a no-op out of range; unreachable under `Inv`). -/
def modAt (f : α → α) : Nat → List α → List α
  | _, [] => []
  | 0, a :: r => f a :: r
  | n + 1, a :: r => a :: modAt f n r

/-- `if m.index == nil { m.index = make(...) }` -/
def ensureIndex (c : CMap V) : Index := c.index.getD []

/-- `(*Map).Set` -/
def set (c : CMap V) (k : String) (v : V) : CMap V :=
  let ix := ensureIndex c
  match idxGet ix k with
  | some i => { items := modAt (fun s => { s with val := v }) i c.items, index := some ix }
  | none => { items := c.items ++ [{ key := k, val := v }], index := some (idxSet ix k c.items.length) }

/-- `(*Map).Replace` -/
def replace (c : CMap V) (old new : String) (v : V) : CMap V :=
  let ix := ensureIndex c
  -- idx is where the item will go
  let (idx, items) : Nat × List (Slot V) :=
    match idxGet ix old with
    | some i => (i, c.items)
    | none => (c.items.length, c.items ++ [({ key := new, val := v } : Slot V)])  -- placeholder, overwritten below
  let (items, ix) : List (Slot V) × Index :=
    if old != new then
      let items : List (Slot V) :=
        match idxGet ix new with
        | some j => modAt (fun (s : Slot V) => { s with deleted := true }) j items
        | none => items
      (items, idxDel ix old)
    else (items, ix)
  let ix := idxSet ix new idx
  { items := modAt (fun _ => ({ key := new, val := v } : Slot V)) idx items, index := some ix }

/-- The loop of `(*Map).compact`: `pairs` accumulates, `index[p.Key] = len(pairs)`. -/
def compactLoop : Index → List (Slot V) → List (Slot V) → Index × List (Slot V)
  | ix, [], pairs => (ix, pairs)
  | ix, p :: r, pairs =>
    if p.deleted then compactLoop ix r pairs
    else compactLoop (idxSet ix p.key pairs.length) r (pairs ++ [{ key := p.key, val := p.val }])

def compact (c : CMap V) : CMap V :=
  match c.index with
  | none => c
  | some ix =>
    let (ix', pairs) := compactLoop ix c.items []
    { items := pairs, index := some ix' }

/-- `(*Map).Delete` -/
def delete (c : CMap V) (k : String) : CMap V :=
  match c.index with
  | none => c
  | some ix =>
    match idxGet ix k with
    | none => c
    | some i =>
      let items := modAt (fun s => { s with deleted := true }) i c.items
      let ix := idxDel ix k
      let c' : CMap V := { items := items, index := some ix }
      if items.length ≥ 2 * ix.length then compact c' else c'

/-! ### Observers -/

def len (c : CMap V) : Nat :=
  match c.index with
  | none => 0
  | some ix => ix.length

def isZero (c : CMap V) : Bool := len c == 0

def get (c : CMap V) (k : String) : Option V :=
  match c.index with
  | none => none
  | some ix =>
    match idxGet ix k with
    | none => none
    | some i => (c.items[i]?).map (·.val)

def contains (c : CMap V) (k : String) : Bool :=
  match c.index with
  | none => false
  | some ix => (idxGet ix k).isSome

def live (items : List (Slot V)) : List (Slot V) := items.filter (fun s => !s.deleted)

def pairsOf (items : List (Slot V)) : List (String × V) := (live items).map (fun s => (s.key, s.val))

/-- What `(*Map).Range` feeds to its callback, in order (`m.IsZero()` short-circuit included). -/
def range (c : CMap V) : List (String × V) :=
  if isZero c then [] else pairsOf c.items

/-- The two-cursor loop of `ordered.Equal` (tombstones skipped, skip loops bounded). -/
def skipDel : List (Slot V) → List (Slot V)
  | [] => []
  | s :: r => if s.deleted then skipDel r else s :: r

theorem skipDel_length_le (l : List (Slot V)) : (skipDel l).length ≤ l.length := by
  induction l with
  | nil => simp [skipDel]
  | cons s r ih => unfold skipDel; split <;> simp <;> omega

def equalLoop (veq : V → V → Bool) (as bs : List (Slot V)) : Bool :=
  match _h : skipDel as, skipDel bs with
  | a :: as', b :: bs' =>
    if a.key != b.key then false
    else if !veq a.val b.val then false
    else equalLoop veq as' bs'
  | _, _ => true
termination_by as.length
decreasing_by
  have := skipDel_length_le as
  rw [_h] at this
  simp at this
  omega

/-- `ordered.Equal` on possibly-nil receivers. -/
def equal (veq : V → V → Bool) : Option (CMap V) → Option (CMap V) → Bool
  | none, none => true
  | none, some _ => false
  | some _, none => false
  | some a, some b => if len a != len b then false else equalLoop veq a.items b.items

/-! ### Iteration with renames from inside the callback
    (`interpolateOrderedMap`, `interpolateEnvBlock`): `Range` walks the slot array by position,
    re-reading each slot when it gets there; the callback calls `Replace(k, k', v')`. -/

def rangeReplaceLoop {E : Type} (f : String → V → Except E (String × V)) :
    Nat → Nat → CMap V → Except E (CMap V)
  | 0, _, c => .ok c
  | n + 1, i, c =>
    match c.items[i]? with
    | none => .ok c
    | some s =>
      if s.deleted then rangeReplaceLoop f n (i + 1) c
      else
        match f s.key s.val with
        | .error e => .error e
        | .ok (k', v') => rangeReplaceLoop f n (i + 1) (replace c s.key k' v')

def rangeReplace {E : Type} (f : String → V → Except E (String × V)) (c : CMap V) : Except E (CMap V) :=
  if isZero c then .ok c else rangeReplaceLoop f c.items.length 0 c

/-! ## Abstract specification: a plain list of pairs -/

abbrev AMap (V : Type) := List (String × V)

def akeys (l : AMap V) : List String := l.map (·.1)

def aset (l : AMap V) (k : String) (v : V) : AMap V :=
  if (l.lookup k).isSome then l.map (fun p => if p.1 == k then (k, v) else p) else l ++ [(k, v)]

/-- Doc comment of `Replace`: put `(new, v)` where `old` stood, or at the end; any other `new` goes. -/
def areplace (l : AMap V) (old new : String) (v : V) : AMap V :=
  let l' := l.filter (fun p => p.1 != new || p.1 == old)
  if (l'.lookup old).isSome then l'.map (fun p => if p.1 == old then (new, v) else p)
  else l' ++ [(new, v)]

def adelete (l : AMap V) (k : String) : AMap V := l.filter (fun p => p.1 != k)

/-- Pairwise comparison: equal length, same keys in the same order, `veq` on values. -/
def aequal (veq : V → V → Bool) : AMap V → AMap V → Bool
  | [], [] => true
  | (k, v) :: r, (k', v') :: r' => k == k' && veq v v' && aequal veq r r'
  | _, _ => false

/-- Abstraction function. -/
def abs (c : CMap V) : AMap V := pairsOf c.items

/-- Sequential meaning of "rename entries from inside an in-order iteration":
    `done` = entries already passed (in final form), `todo` = entries still ahead. -/
def aRangeReplace {E : Type} (f : String → V → Except E (String × V)) :
    AMap V → AMap V → Except E (AMap V)
  | done, [] => .ok done
  | done, (k, v) :: rest =>
    match f k v with
    | .error e => .error e
    | .ok (k', v') =>
      if k' == k then aRangeReplace f (done ++ [(k', v')]) rest
      else aRangeReplace f (adelete done k' ++ [(k', v')]) (adelete rest k')
termination_by _ todo => todo.length
decreasing_by
  all_goals simp_wf
  · have := List.length_filter_le (fun (p : String × V) => p.1 != k') rest
    unfold adelete
    omega

/-! ## Representation invariant -/

/-- Positions of the live slots: `(key, position)` for every slot that is not a tombstone. -/
def liveIdxFrom : Nat → List (Slot V) → Index
  | _, [] => []
  | n, s :: r => if s.deleted then liveIdxFrom (n + 1) r else (s.key, n) :: liveIdxFrom (n + 1) r

/-- The index maps exactly the live slots to their positions; live keys are pairwise distinct. -/
structure Inv (c : CMap V) : Prop where
  nilIndex : c.index = none → c.items = []
  idxNodup : ∀ ix, c.index = some ix → (ix.map (·.1)).Nodup
  idxLookup : ∀ ix, c.index = some ix → ∀ k, ix.lookup k = (liveIdxFrom 0 c.items).lookup k
  keysNodup : ((live c.items).map (·.key)).Nodup

/-! ## Operation histories -/

inductive Op (V : Type) where
  | set (k : String) (v : V)
  | replace (old new : String) (v : V)
  | delete (k : String)
  deriving Repr

def step (c : CMap V) : Op V → CMap V
  | .set k v => set c k v
  | .replace o n v => replace c o n v
  | .delete k => delete c k

def astep (l : AMap V) : Op V → AMap V
  | .set k v => aset l k v
  | .replace o n v => areplace l o n v
  | .delete k => adelete l k

def run (c : CMap V) (ops : List (Op V)) : CMap V := ops.foldl step c
def arun (l : AMap V) (ops : List (Op V)) : AMap V := ops.foldl astep l

end GoPipeline.OMap
