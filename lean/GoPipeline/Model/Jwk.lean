/-
  C18 — mirror of `jwkutil.Validate` and `jwkutil.fromIdOrOnlyKey`/`LoadKey` (selection logic),
  as interpreters over the tables regenerated in `Gen/Jwk`. Identifiers are the jwa constant
  names as written in the source (`RSA`, `EC`, `OKP`, `OctetSeq`; `PS512`, …).
-/
namespace GoPipeline.Jwk

/-- What `Validate` can observe of a key. -/
structure KeyDesc where
  structOk : Bool                    -- `key.Validate()` returned nil
  alg : Option (Bool × String)       -- `none`: no `alg`; `some (isSig, name)`: `key.Algorithm()` is (not) a jwa.SignatureAlgorithm
  kty : String
  deriving Repr

inductive Err where
  | structural | missingAlg | invalidSigningAlg | unsupportedSigningAlg | unsupportedKeyType | unsupportedAlgForKeyType
  deriving DecidableEq, Repr

def Err.sentinel : Err → String
  | .structural => "key.Validate" | .missingAlg => "ErrKeyMissingAlg"
  | .invalidSigningAlg => "ErrInvalidSigningAlgorithm" | .unsupportedSigningAlg => "ErrUnsupportedSigningAlgorithm"
  | .unsupportedKeyType => "ErrUnsupportedKeyType" | .unsupportedAlgForKeyType => "ErrUnsupportedSigningAlgorithmForKeyType"

instance {ε α : Type} [DecidableEq ε] [DecidableEq α] : DecidableEq (Except ε α) := fun a b =>
  match a, b with
  | .ok x, .ok y => if h : x = y then isTrue (by rw [h]) else isFalse (by intro e; cases e; exact h rfl)
  | .error x, .error y => if h : x = y then isTrue (by rw [h]) else isFalse (by intro e; cases e; exact h rfl)
  | .ok _, .error _ => isFalse (by intro e; cases e)
  | .error _, .ok _ => isFalse (by intro e; cases e)

/-- `Validate`, check by check in source order. `ValidAlgsForKeyType[kty]` of a missing key is nil. -/
def validate (validSig validKty : List String) (algsFor : List (String × List String)) (k : KeyDesc) : Except Err Unit :=
  if !k.structOk then .error .structural
  else match k.alg with
    | none => .error .missingAlg
    | some (isSig, name) =>
      if !isSig then .error .invalidSigningAlg
      else if !validSig.contains name then .error .unsupportedSigningAlg
      else if !validKty.contains k.kty then .error .unsupportedKeyType
      else if !((algsFor.lookup k.kty).getD []).contains name then .error .unsupportedAlgForKeyType
      else .ok ()

/-- The order in which the model raises its errors (to be compared with `Gen.jwkCheckOrder`). -/
def checkOrder : List String :=
  [Err.structural, .missingAlg, .invalidSigningAlg, .unsupportedSigningAlg, .unsupportedKeyType, .unsupportedAlgForKeyType].map Err.sentinel

/-- The approved pairs. -/
def approved (kty alg : String) : Bool :=
  (kty == "RSA" && alg == "PS512") || (kty == "EC" && alg == "ES512") || (kty == "OKP" && alg == "EdDSA")

/-- The specification: structurally valid, declares an algorithm, approved (key type, signature algorithm) pair. -/
def accept (k : KeyDesc) : Bool :=
  k.structOk && match k.alg with
    | none => false
    | some (isSig, name) => isSig && approved k.kty name

/-! ### Key-set lookup (`fromIdOrOnlyKey`): key ids in file order -/

inductive PickErr where
  | noSigningKeyID | notFound
  deriving DecidableEq, Repr

def firstIdx (kids : List (Option String)) (want : String) : Option Nat :=
  match kids with
  | [] => none
  | k :: r => if k == some want then some 0 else (firstIdx r want).map (· + 1)

/-- `keyID == ""`: the only key, else error; otherwise `jwks.LookupKeyID` (first key with that id). -/
def pick (kids : List (Option String)) (keyID : String) : Except PickErr Nat :=
  if keyID == "" then (if kids.length != 1 then .error .noSigningKeyID else .ok 0)
  else match firstIdx kids keyID with
    | some i => .ok i
    | none => .error .notFound

inductive LoadErr where
  | pick (e : PickErr) | invalid (e : Err)
  deriving DecidableEq, Repr

/-- `LoadKey` after parsing: select, then validate the selected key. -/
def load (validSig validKty : List String) (algsFor : List (String × List String))
    (keys : List (Option String × KeyDesc)) (keyID : String) : Except LoadErr Nat :=
  match pick (keys.map (·.1)) keyID with
  | .error e => .error (.pick e)
  | .ok i =>
    match keys[i]? with
    | none => .error (.pick .notFound)
    | some (_, k) =>
      match validate validSig validKty algsFor k with
      | .error e => .error (.invalid e)
      | .ok () => .ok i

end GoPipeline.Jwk
