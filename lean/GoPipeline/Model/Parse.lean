/-
  C03 / C09 / C13 — mirror of the parse path after YAML decoding: `Pipeline.UnmarshalOrdered`,
  `Steps.UnmarshalOrdered`, `unmarshalStep`, `stepFromMap`, `NewScalarStep`, and every
  `UnmarshalOrdered` of CommandStep / GroupStep / Plugins / Matrix / MatrixSetup /
  MatrixAdjustmentWith / Cache, with the struct-level key bookkeeping done by `Unm.taken` /
  `Unm.remainder` over the descriptors regenerated from the source (`Gen/Structs`) and the kind
  tables regenerated in `Gen/StepKinds`.

  Input: the `Val` that `ordered.DecodeYAML` produced. Output: the typed pipeline and the list of
  warning kinds in the order the warning tree lists them; `Except` error = hard error.
-/
import GoPipeline.Model.Pipeline
import GoPipeline.Model.Unmarshal
import GoPipeline.Model.StepKind
import GoPipeline.Gen.Structs
import GoPipeline.Gen.StepKinds
namespace GoPipeline.Parse
open GoPipeline GoPipeline.Pipe GoPipeline.Unm

inductive Warn where
  | noSteps | unknownType | inferFail | fellBack
  deriving DecidableEq, Repr

inductive Hard where
  | badScalar        -- a value that cannot become a string / bool (list, map, timestamp, uint64)
  | badShape         -- wrong container kind for a field
  | badStepEntry     -- step entry neither string nor mapping
  | typeNotString    -- `type:` present but not a string
  | topLevel         -- document neither mapping nor sequence
  | wrapped          -- a warning wrapped by fmt.Errorf inside a nested Unmarshaler (treated as an error by the caller)
  deriving DecidableEq, Repr

/-- A Go map store on the sorted-entries view. -/
def umapInsert {α : Type} (k : String) (v : α) : List (String × α) → List (String × α)
  | [] => [(k, v)]
  | (k', v') :: r =>
    if k == k' then (k, v) :: r
    else if k < k' then (k, v) :: (k', v') :: r
    else (k', v') :: umapInsert k v r

def umapOf {α : Type} (l : List (String × α)) : List (String × α) := l.foldl (fun acc p => umapInsert p.1 p.2 acc) []

def maxInt64 : Int := 9223372036854775807

/-- `fmt.Sprint` of a scalar source value. -/
def sprint : Val → Option String
  | .str s => some s
  | .int i => if i > maxInt64 then none else some (toString i)     -- uint64 source: unsupported
  | .bool b => some (if b then "true" else "false")
  | .float lit => some (String.ofList (lit.toList.takeWhile (· != '|')))
  | _ => none

/-- `Unmarshal(v, *string)` into a zero string. -/
def strOf : Val → Except Hard String
  | .null => .ok ""
  | v => match sprint v with
    | some s => .ok s
    | none => .error .badScalar

def strsElems : List Val → Except Hard (List String)
  | [] => .ok []
  | v :: r =>
    match strOf v with
    | .error e => .error e
    | .ok s => (strsElems r).map (s :: ·)

/-- `Unmarshal(v, *[]string)` into a nil slice: null ⇒ nil, scalar ⇒ one element, list ⇒ elementwise. -/
def strsOf : Val → Except Hard (Option (List String))
  | .null => .ok none
  | .seq xs => (strsElems xs).map some
  | v => match sprint v with
    | some s => .ok (some [s])
    | none => .error .badShape

/-- `s := make([]string, 0, n); Unmarshal(list, &s)`. -/
def strsOfSeq (xs : List Val) : Except Hard (List String) := strsElems xs

mutual
  /-- `ordered.ToMapRecursive`. -/
  def toMapRec : Val → Val
    | .omap kvs => .umap (umapOf (toMapRecKVs kvs))
    | .seq xs => .seq (toMapRecList xs)
    | v => v
  def toMapRecList : List Val → List Val
    | [] => []
    | x :: r => toMapRec x :: toMapRecList r
  def toMapRecKVs : List (String × Val) → List (String × Val)
    | [] => []
    | (k, v) :: r => (k, toMapRec v) :: toMapRecKVs r
end

/-- Inline remainder into `map[string]any`: untouched (nil) when empty. -/
def remMap (rest : Entries) : UMap Val := if rest.isEmpty then none else some (umapOf rest)

def fieldOf (t : List (String × String × Val)) (name : String) : Option Val :=
  (t.find? (fun x => x.1 == name)).map (·.2.2)

/-! ## Plugins -/

def pluginsOfMap (kvs : List (String × Val)) : List (Option Plugin) :=
  kvs.map fun (k, v) => some { source := k, config := toMapRec v }

def pluginsElems : List Val → Except Hard (List (Option Plugin))
  | [] => .ok []
  | .omap kvs :: r => (pluginsElems r).map (pluginsOfMap kvs ++ ·)
  | .str s :: r => (pluginsElems r).map (some { source := s, config := .null } :: ·)
  | _ :: _ => .error .badShape

/-- `(*Plugins).UnmarshalOrdered` into a nil slice: nothing appended ⇒ stays nil. -/
def parsePlugins : Val → Except Hard (Option (List (Option Plugin)))
  | .null => .ok none
  | .seq xs => (pluginsElems xs).map fun l => if l.isEmpty then none else some l
  | .omap kvs => .ok (if kvs.isEmpty then none else some (pluginsOfMap kvs))
  | _ => .error .badShape

/-! ## Step env, signature -/

def ssElems : List (String × Val) → Except Hard (List (String × String))
  | [] => .ok []
  | (k, v) :: r =>
    match strOf v with
    | .error e => .error e
    | .ok s => (ssElems r).map ((k, s) :: ·)

/-- `map[string]string` field. -/
def parseEnvMap : Val → Except Hard (UMap String)
  | .null => .ok none
  | .omap kvs => (ssElems kvs).map fun l => some (umapOf l)
  | _ => .error .badShape

/-- `*ordered.MapSS` field (pipeline env): order kept, a repeated key updates in place. -/
def parseEnvOrdered : Val → Except Hard (Option (List (String × String)))
  | .null => .ok none
  | .omap kvs => (ssElems kvs).map some
  | _ => .error .badShape

def parseSignature : Val → Except Hard (Option Signature)
  | .null => .ok none
  | .omap m =>
    let t := taken m Gen.struct_Signature
    match strOf ((fieldOf t "Algorithm").getD (.str "")), strsOf ((fieldOf t "SignedFields").getD .null), strOf ((fieldOf t "Value").getD (.str "")) with
    | .ok a, .ok f, .ok v => .ok (some { algorithm := a, signedFields := f, value := v })
    | _, _, _ => .error .badScalar
  | _ => .error .badShape

/-! ## Matrix -/

def setupElems : List (String × Val) → Except Hard (List (String × Option (List String)))
  | [] => .ok []
  | (k, v) :: r =>
    match strsOf v with
    | .error e => .error e
    | .ok s => (setupElems r).map ((k, s) :: ·)

/-- `(*MatrixSetup).UnmarshalOrdered` (called when the `setup` key is present; `null` is accepted and
    zeroes the value). -/
def parseSetup : Val → Except Hard (UMap (Option (List String)))
  | .null => .ok none
  | .seq xs => (strsOfSeq xs).map fun l => some [("", some l)]
  | .omap kvs => (setupElems kvs).map fun l => some (umapOf l)
  | _ => .error .badShape

def withScalar : Val → Option String
  | .str s => some s
  | .int i => if i > maxInt64 then none else some (toString i)
  | .bool b => some (if b then "true" else "false")
  | _ => none

def withElems : List (String × Val) → Except Hard (List (String × String))
  | [] => .ok []
  | (k, v) :: r =>
    match withScalar v with
    | none => .error .badScalar
    | some s => (withElems r).map ((k, s) :: ·)

/-- `(*MatrixAdjustmentWith).UnmarshalOrdered` (key present; `null` accepted, zeroes the value). -/
def parseWith : Val → Except Hard (UMap String)
  | .null => .ok none
  | .omap kvs => (withElems kvs).map fun l => some (umapOf l)
  | v => match withScalar v with
    | some s => .ok (some [("", s)])
    | none => .error .badShape

def parseAdjustment (m : Entries) : Except Hard Adjustment :=
  let t := taken m Gen.struct_MatrixAdjustment
  match (match fieldOf t "With" with | none => .ok none | some v => parseWith v : Except Hard (UMap String)) with
  | .error e => .error e
  | .ok w => .ok { with_ := w, skip := (fieldOf t "Skip").getD .null, rem := remMap (remainder m Gen.struct_MatrixAdjustment) }

def adjustmentsElems : List Val → Except Hard (List (Option Adjustment))
  | [] => .ok []
  | .null :: r => (adjustmentsElems r).map (none :: ·)
  | .omap m :: r =>
    match parseAdjustment m with
    | .error e => .error e
    | .ok a => (adjustmentsElems r).map (some a :: ·)
  | _ :: _ => .error .badShape

def parseAdjustments : Val → Except Hard (Option (List (Option Adjustment)))
  | .null => .ok none
  | .seq xs => (adjustmentsElems xs).map some
  | _ => .error .badShape

/-- `(*Matrix).UnmarshalOrdered` behind the `*Matrix` field. -/
def parseMatrix : Val → Except Hard (Option Matrix)
  | .null => .ok none
  | .seq xs => (strsOfSeq xs).map fun l => some { setup := some [("", some l)], adjustments := none, rem := none }
  | .omap m =>
    let t := taken m Gen.struct_Matrix
    match (match fieldOf t "Setup" with | none => .ok none | some v => parseSetup v : Except Hard (UMap (Option (List String)))) with
    | .error e => .error e
    | .ok setup =>
      match (match fieldOf t "Adjustments" with | none => .ok none | some v => parseAdjustments v : Except Hard (Option (List (Option Adjustment)))) with
      | .error e => .error e
      | .ok adjs => .ok (some { setup := setup, adjustments := adjs, rem := remMap (remainder m Gen.struct_Matrix) })
  | _ => .error .badShape

/-! ## Cache -/

def boolOf : Val → Except Hard Bool
  | .null => .ok false
  | .bool b => .ok b
  | _ => .error .badScalar

def parseCache : Val → Except Hard (Option Cache)
  | .null => .ok none
  | .bool b => .ok (some { disabled := !b, name := "", paths := none, size := "", rem := none })
  | .str s => .ok (some { disabled := false, name := "", paths := some [s], size := "", rem := none })
  | .seq xs => (strsOfSeq xs).map fun l => some { disabled := false, name := "", paths := some l, size := "", rem := none }
  | .omap m =>
    let t := taken m Gen.struct_Cache
    match boolOf ((fieldOf t "Disabled").getD (.bool false)), strOf ((fieldOf t "Name").getD (.str "")),
          strsOf ((fieldOf t "Paths").getD .null), strOf ((fieldOf t "Size").getD (.str "")) with
    | .ok d, .ok n, .ok p, .ok s => .ok (some { disabled := d, name := n, paths := p, size := s, rem := remMap (remainder m Gen.struct_Cache) })
    | _, _, _, _ => .error .badScalar
  | _ => .error .badShape

/-! ## Command step -/

def joinLines : List String → String
  | [] => ""
  | [s] => s
  | s :: r => s ++ "\n" ++ joinLines r

def optField {α : Type} (t : List (String × String × Val)) (name : String) (dflt : α) (f : Val → Except Hard α) : Except Hard α :=
  match fieldOf t name with
  | none => .ok dflt
  | some v => f v

/-- `(*CommandStep).UnmarshalOrdered`. -/
def parseCommand (m : Entries) : Except Hard CommandStep :=
  let outer := Gen.struct_CommandStep_UnmarshalOrdered_local0
  let ot := taken m outer
  match optField ot "Commands" none strsOf with
  | .error e => .error e
  | .ok cmds =>
    let rest := remainder m outer
    let t := taken rest Gen.struct_CommandStep
    match optField t "Key" "" strOf, optField t "Label" "" strOf, optField t "Command" "" strOf,
          optField t "Plugins" none parsePlugins, optField t "Env" none parseEnvMap,
          optField t "Signature" none parseSignature, optField t "Matrix" none parseMatrix,
          optField t "Cache" none parseCache with
    | .ok key, .ok label, .ok _, .ok plugins, .ok env, .ok sig, .ok matrix, .ok cache =>
      .ok { key := key, label := label, command := joinLines (cmds.getD []), plugins := plugins, env := env,
            signature := sig, matrix := matrix, cache := cache, rem := remMap (remainder rest Gen.struct_CommandStep) }
    | _, _, _, _, _, _, _, _ => .error .badScalar

/-! ## Steps -/

def selOf (m : Entries) : Except Hard StepKind.Sel :=
  let has := fun k => (m.lookup k).isSome
  match m.lookup "type" with
  | none => .ok (StepKind.select Gen.typeTable Gen.inferTable has .absent)
  | some (.str s) => .ok (StepKind.select Gen.typeTable Gen.inferTable has (.str s))
  | some _ => .error .typeNotString

mutual
  /-- `unmarshalStep`: the step and the warnings it contributes. -/
  def parseStep : Nat → Val → Except Hard (Step × List Warn)
    | 0, _ => .error .badStepEntry
    | _ + 1, .str s =>
      match StepKind.selectScalar Gen.scalarTable s with
      | .known .wait => .ok (.wait s none, [])
      | .known .input => .ok (.input s none, [])
      | _ => .ok (.unknown (.str s), [.unknownType])
    | f + 1, .omap m =>
      match selOf m with
      | .error e => .error e
      | .ok sel =>
        match sel with
        | .hardError => .error .typeNotString
        | .unknownType => .ok (.unknown (.omap m), [.unknownType])
        | .inferFail => .ok (.unknown (.omap m), [.inferFail])
        | .known .command =>
          match parseCommand m with
          | .ok c => .ok (.command c, [])
          | .error _ => .ok (.unknown (.omap m), [.fellBack])
        | .known .wait => .ok (.wait "" (some (umapOf m)), [])
        | .known .input => .ok (.input "" (some (umapOf m)), [])
        | .known .trigger => .ok (.trigger (some (umapOf m)), [])
        | .known .group =>
          match parseGroup f m with
          | .ok g => .ok (g, [])
          | .error _ => .ok (.unknown (.omap m), [.fellBack])
        | .known .unknown => .ok (.unknown (.omap m), [.unknownType])
    | _ + 1, _ => .error .badStepEntry

  /-- `(*Steps).UnmarshalOrdered` on a list. -/
  def parseSteps : Nat → List Val → Except Hard (List Step × List Warn)
    | _, [] => .ok ([], [])
    | f, v :: r =>
      match parseStep f v with
      | .error e => .error e
      | .ok (s, w) =>
        match parseSteps f r with
        | .error e => .error e
        | .ok (ss, ws) => .ok (s :: ss, w ++ ws)

  /-- `(*GroupStep).UnmarshalOrdered`: any warning from the nested steps comes back wrapped by
      `fmt.Errorf`, i.e. as an error. -/
  def parseGroup : Nat → Entries → Except Hard Step
    | f, m =>
      let t := taken m Gen.struct_GroupStep
      match optField t "Key" "" strOf with
      | .error e => .error e
      | .ok key =>
        match (match fieldOf t "Group" with
               | none => .ok none
               | some .null => .ok none
               | some v => (strOf v).map some : Except Hard (Option String)) with
        | .error e => .error e
        | .ok grp =>
          match (match fieldOf t "Steps" with
                 | none => .ok ([], [])
                 | some .null => .ok ([], [])
                 | some (.seq xs) => parseSteps f xs
                 | some _ => .error .badShape : Except Hard (List Step × List Warn)) with
          | .error e => .error e
          | .ok (ss, ws) =>
            if ws.isEmpty then .ok (.group key grp (some ss) (remMap (remainder m Gen.struct_GroupStep)))
            else .error .wrapped
end

/-- Nesting fuel: a `Val` cannot nest deeper than its size; the driver passes a large constant. -/
def stepFuel : Nat := 10000

/-- `(*Pipeline).UnmarshalOrdered`. -/
def parsePipeline (v : Val) : Except Hard (Pipeline × List Warn) :=
  let finish (steps : Option (List Step)) (env : Option (List (String × String))) (rem : UMap Val) (ws : List Warn) :
      Except Hard (Pipeline × List Warn) :=
    match steps with
    | some l => .ok ({ steps := some l, env := env, rem := rem }, ws)
    | none => .ok ({ steps := some [], env := env, rem := rem }, ws ++ [.noSteps])
  match v with
  | .omap m =>
    let t := taken m Gen.struct_Pipeline
    match (match fieldOf t "Steps" with
           | none => .ok (none, [])
           | some .null => .ok (some [], [])
           | some (.seq xs) => (parseSteps stepFuel xs).map fun r => (some r.1, r.2)
           | some _ => .error .badShape : Except Hard (Option (List Step) × List Warn)) with
    | .error e => .error e
    | .ok (steps, ws) =>
      match optField t "Env" none parseEnvOrdered with
      | .error e => .error e
      | .ok env => finish steps env (remMap (remainder m Gen.struct_Pipeline)) ws
  | .seq xs =>
    match parseSteps stepFuel xs with
    | .error e => .error e
    | .ok (ss, ws) => finish (some ss) none none ws
  | _ => .error .topLevel

end GoPipeline.Parse
