/-
  JSON marshalling of the typed pipeline model: mirror of every `MarshalJSON` method and of
  `inlineFriendlyMarshalJSON` / `isEmptyValue` (json.go, pipeline.go, step_*.go, plugin.go,
  step_command_matrix.go, step_command_cache.go), ending at the value tree handed to `encoding/json`
  (struct levels and Go maps as `umap`, ordered maps as `omap`).

  Used by C14/C01/C06/C02 (signed values) and C03/C09/C13 (normal form).
-/
import GoPipeline.Model.Pipeline
import GoPipeline.Model.PluginSource
namespace GoPipeline.Marshal
open GoPipeline GoPipeline.Pipe

/-- `(*Plugin).FullSource` on `String` (outside the modelled domain of `url.Parse` the source is kept;
    the correspondence never generates such sources for signing). -/
def fullSource (s : String) : String :=
  match PluginSrc.fullSource s.toList with
  | some r => String.ofList r
  | none =>
    match PluginSrc.fullSourceQ s.toList with
    | some r => String.ofList r
    | none => s

/-- A Go map store on the sorted-entries view (later value wins). -/
def umapInsert (k : String) (v : Val) : List (String × Val) → List (String × Val)
  | [] => [(k, v)]
  | (k', v') :: r =>
    if k == k' then (k, v) :: r
    else if k < k' then (k, v) :: (k', v') :: r
    else (k', v') :: umapInsert k v r

def umapOf (l : List (String × Val)) : List (String × Val) := l.foldl (fun acc p => umapInsert p.1 p.2 acc) []

/-- `isEmptyValue(q any)` on an interface value holding decoded content. -/
def isEmptyAny : Val → Bool
  | .null => true
  | .bool b => !b
  | .int i => i == 0
  | .float lit => lit.startsWith "0|" || lit.startsWith "-0|"
  | .str s => s == ""
  | .seq xs => xs.isEmpty
  | .umap kvs => kvs.isEmpty
  | .omap _ => false            -- *ordered.Map: a non-nil pointer
  | .time _ => false            -- time.Time: a struct

/-- `inlineFriendlyMarshalJSON`: outline fields win over inline ones; the result is a Go map. -/
def inlineFriendly (outline : List (String × Val)) (inline : UMap Val) : Val :=
  let inl := (inline.getD []).filter (fun p => !(outline.map (·.1)).contains p.1)
  .umap (umapOf (inl ++ outline))

def strsV (l : List String) : Val := .seq (l.map .str)
def optStrsV : Option (List String) → Val
  | none => .null
  | some l => strsV l

/-- `(*Plugin).MarshalYAML`/`MarshalJSON`: one-key object keyed by the full source; empty configs ⇒ null. -/
def mPlugin (p : Plugin) : Val :=
  let cfg := match p.config with
    | .umap [] => .null
    | .seq [] => .null
    | c => c
  .umap [(fullSource p.source, cfg)]

def mPlugins (l : List (Option Plugin)) : Val := .seq (l.map fun | none => .null | some p => mPlugin p)

/-- `MatrixSetup.MarshalYAML`/`MarshalJSON`. -/
def mSetup (s : UMap (Option (List String))) : Val :=
  match s with
  | none => .null
  | some kvs =>
    match kvs with
    | [("", some (x :: xs))] => strsV (x :: xs)
    | _ => .umap (kvs.map fun (k, v) => (k, optStrsV v))

/-- `MatrixAdjustmentWith.MarshalYAML`/`MarshalJSON`. -/
def mWith (w : UMap String) : Val :=
  match w with
  | none => .null
  | some [("", v)] => .str v
  | some kvs => .umap (kvs.map fun (k, v) => (k, .str v))

/-- `(*MatrixAdjustment).MarshalJSON`. -/
def mAdjustment (a : Adjustment) : Val :=
  inlineFriendly ([("with", mWith a.with_)] ++ (if isEmptyAny a.skip then [] else [("skip", a.skip)])) a.rem

def lenUMap {α : Type} : UMap α → Nat
  | none => 0
  | some l => l.length

/-- `(*Matrix).isSimple`. -/
def isSimple (m : Matrix) : Bool :=
  (match m.setup with | some [("", some (_ :: _))] => true | _ => false) &&
  (m.adjustments.getD []).isEmpty && lenUMap m.rem == 0

/-- `(*Matrix).MarshalJSON`. -/
def mMatrix (m : Matrix) : Val :=
  if isSimple m then mSetup m.setup
  else
    let adjs := m.adjustments.getD []
    inlineFriendly ([("setup", mSetup m.setup)] ++
      (if adjs.isEmpty then [] else [("adjustments", .seq (adjs.map fun | none => .null | some a => mAdjustment a))])) m.rem

/-- `(*Cache).MarshalJSON`. -/
def mCache (c : Cache) : Val :=
  if c.disabled && c.name == "" && (c.paths.getD []).isEmpty && c.size == "" && (c.rem.getD []).isEmpty then .bool false
  else inlineFriendly ((if c.disabled then [("disabled", .bool true)] else []) ++
        (if c.name == "" then [] else [("name", .str c.name)]) ++
        (if (c.paths.getD []).isEmpty then [] else [("paths", strsV (c.paths.getD []))]) ++
        (if c.size == "" then [] else [("size", .str c.size)])) c.rem

/-- `Signature` through `encoding/json` (json tags). -/
def mSignature (s : Signature) : Val :=
  .umap [("algorithm", .str s.algorithm), ("signed_fields", optStrsV s.signedFields), ("value", .str s.value)]

def envV (e : UMap String) : Val :=
  match e with
  | none => .null
  | some kvs => .umap (kvs.map fun (k, v) => (k, .str v))

/-- `(*CommandStep).MarshalJSON`. -/
def mCommand (c : CommandStep) : Val :=
  inlineFriendly (
    (if c.key == "" then [] else [("key", .str c.key)]) ++
    (if c.label == "" then [] else [("label", .str c.label)]) ++
    [("command", .str c.command)] ++
    (if (c.plugins.getD []).isEmpty then [] else [("plugins", mPlugins (c.plugins.getD []))]) ++
    (if lenUMap c.env == 0 then [] else [("env", envV c.env)]) ++
    (match c.signature with | none => [] | some s => [("signature", mSignature s)]) ++
    (match c.matrix with | none => [] | some m => [("matrix", mMatrix m)]) ++
    (match c.cache with | none => [] | some k => [("cache", mCache k)])) c.rem

inductive MErr where
  | emptyInputStep
  deriving DecidableEq, Repr

def umapV (m : UMap Val) : Val :=
  match m with
  | none => .null
  | some kvs => .umap kvs

mutual
  /-- `MarshalJSON` of each step kind. -/
  def mStep : Step → Except MErr Val
    | .command c => .ok (mCommand c)
    | .wait s c => .ok (if s != "" then .str s else if lenUMap c == 0 then .str "wait" else umapV c)
    | .input s c => if s != "" then .ok (.str s) else if lenUMap c == 0 then .error .emptyInputStep else .ok (umapV c)
    | .trigger c => .ok (umapV c)
    | .group k g ss r =>
      match (match ss with | none => .ok .null | some l => (mSteps l).map .seq : Except MErr Val) with
      | .error e => .error e
      | .ok sv =>
        .ok (inlineFriendly ((if k == "" then [] else [("key", .str k)]) ++
              [("group", match g with | none => .null | some s => .str s), ("steps", sv)]) r)
    | .unknown v => .ok v
  def mSteps : List Step → Except MErr (List Val)
    | [] => .ok []
    | s :: r =>
      match mStep s with
      | .error e => .error e
      | .ok v =>
        match mSteps r with
        | .error e => .error e
        | .ok vs => .ok (v :: vs)
end

/-- `(*Pipeline).MarshalJSON`. -/
def mPipeline (p : Pipeline) : Except MErr Val :=
  match (match p.steps with | none => .ok .null | some l => (mSteps l).map .seq : Except MErr Val) with
  | .error e => .error e
  | .ok sv =>
    .ok (inlineFriendly ([("steps", sv)] ++
      (match p.env with | none => [] | some kvs => [("env", .omap (kvs.map fun (k, v) => (k, .str v)))])) p.rem)

end GoPipeline.Marshal
