/-
  C09 / C02 — what re-reading the marshalled JSON yields, and the equality "modulo nil vs empty
  containers and marshal-time plugin normalisation" under which the normal form is a fixpoint.

  `rereadJ` models `json text → yaml.v3 → ordered.DecodeYAML` on the value tree the Marshal model hands
  to `encoding/json`: Go-map levels arrive as ordered mappings in sorted key order. Number and
  timestamp re-typing (an integral float comes back as an int, a timestamp as a string) is confined to
  untyped content; the theorems assume that content is `JStable` (no such scalars) and leave the
  re-typing to the correspondence (C09_textcodec_partial).
-/
import GoPipeline.Model.Parse
import GoPipeline.Model.Marshal
namespace GoPipeline.Roundtrip
open GoPipeline GoPipeline.Pipe GoPipeline.Parse GoPipeline.Marshal

mutual
  /-- Go maps come back as ordered mappings (in the encoder's sorted key order). -/
  def rereadJ : Val → Val
    | .seq xs => .seq (rereadJList xs)
    | .omap kvs => .omap (rereadJKVs kvs)
    | .umap kvs => .omap (rereadJKVs kvs)
    | v => v
  def rereadJList : List Val → List Val
    | [] => []
    | x :: r => rereadJ x :: rereadJList r
  def rereadJKVs : List (String × Val) → List (String × Val)
    | [] => []
    | (k, v) :: r => (k, rereadJ v) :: rereadJKVs r
end

mutual
  /-- A value as `ordered.DecodeYAML` produces it: mappings are ordered maps only. -/
  def NoUMap : Val → Prop
    | .seq xs => NoUMapList xs
    | .omap kvs => NoUMapKVs kvs
    | .umap _ => False
    | _ => True
  def NoUMapList : List Val → Prop
    | [] => True
    | x :: r => NoUMap x ∧ NoUMapList r
  def NoUMapKVs : List (String × Val) → Prop
    | [] => True
    | (_, v) :: r => NoUMap v ∧ NoUMapKVs r
end

mutual
  /-- Every mapping has pairwise distinct keys, at every depth (true of `*ordered.Map`). -/
  def KeysNodup : Val → Prop
    | .seq xs => KeysNodupList xs
    | .omap kvs => (kvs.map (·.1)).Nodup ∧ KeysNodupKVs kvs
    | .umap kvs => (kvs.map (·.1)).Nodup ∧ KeysNodupKVs kvs
    | _ => True
  def KeysNodupList : List Val → Prop
    | [] => True
    | x :: r => KeysNodup x ∧ KeysNodupList r
  def KeysNodupKVs : List (String × Val) → Prop
    | [] => True
    | (_, v) :: r => KeysNodup v ∧ KeysNodupKVs r
end

def isIntLit (s : String) : Bool :=
  let cs := s.toList
  let ds := match cs with | '-' :: r => r | r => r
  !ds.isEmpty && ds.all Char.isDigit

/-- JSON rendering of a float literal `Sprint|JSON|%e|ES6`. -/
def jsonOfFloatLit (lit : String) : String := ((lit.splitOn "|").getD 1 "")

mutual
  /-- Untyped content that the JSON text codec returns unchanged: no timestamps, no floats whose JSON
      rendering is an integer literal, and (decoded documents never hold Go maps) no `umap`. -/
  def JStable : Val → Prop
    | .time _ => False
    | .float lit => isIntLit (jsonOfFloatLit lit) = false
    | .seq xs => JStableList xs
    | .omap kvs => JStableKVs kvs
    | .umap kvs => JStableKVs kvs
    | _ => True
  def JStableList : List Val → Prop
    | [] => True
    | x :: r => JStable x ∧ JStableList r
  def JStableKVs : List (String × Val) → Prop
    | [] => True
    | (_, v) :: r => JStable v ∧ JStableKVs r
end

/-! ## Equality modulo nil/empty and plugin normalisation -/

def normList {α : Type} : Option (List α) → Option (List α)
  | some [] => none
  | l => l

def normPlugin (p : Plugin) : Plugin :=
  { source := fullSource p.source,
    config := match p.config with | .umap [] => .null | .seq [] => .null | c => c }

def normAdjustment (a : Adjustment) : Adjustment :=
  { with_ := normList a.with_, skip := a.skip, rem := normList a.rem }

def normMatrix (m : Matrix) : Matrix :=
  { setup := normList (m.setup.map fun kvs => kvs.map fun (k, v) => (k, normList v)),
    adjustments := normList (m.adjustments.map fun l => l.map fun a => a.map normAdjustment),
    rem := normList m.rem }

def normCache (c : Cache) : Cache := { c with paths := normList c.paths, rem := normList c.rem }

def normCommand (c : CommandStep) : CommandStep :=
  { c with plugins := normList (c.plugins.map fun l => l.map fun p => p.map normPlugin),
           env := normList c.env,
           signature := c.signature.map fun s => { s with signedFields := normList s.signedFields },
           matrix := c.matrix.map normMatrix, cache := c.cache.map normCache, rem := normList c.rem }

mutual
  def normStep : Step → Step
    | .command c => .command (normCommand c)
    | .wait s c => .wait s (normList c)
    | .input s c => .input s (normList c)
    | .trigger c => .trigger (normList c)
    | .group k g ss r => .group k g (match ss with | none => some [] | some l => some (normSteps l)) (normList r)
    | .unknown v => .unknown v
  def normSteps : List Step → List Step
    | [] => []
    | s :: r => normStep s :: normSteps r
end

def normPipeline (p : Pipeline) : Pipeline :=
  { steps := (match p.steps with | none => some [] | some l => some (normSteps l)), env := normList p.env, rem := normList p.rem }

/-! ## Side conditions of the fixpoint theorem (each is a recorded finding or the codec boundary) -/

/-- A `skip` value that JSON's `omitempty` drops (finding F11). -/
def emptyishSkip (v : Val) : Bool :=
  match v with
  | .null => false          -- absent: nothing to drop
  | v => isEmptyAny v

/-- No explicitly empty primary next to one of its aliases (finding F14). -/
def noEmptyPrimaryWithAlias (key label : String) (rem : UMap Val) : Prop :=
  (label = "" → (rem.getD []).lookup "name" = none) ∧
  (key = "" → (rem.getD []).lookup "id" = none ∧ (rem.getD []).lookup "identifier" = none)

def StableUMap (m : UMap Val) : Prop := JStableKVs (m.getD [])

def StableAdjustment (a : Adjustment) : Prop :=
  emptyishSkip a.skip = false ∧ JStable a.skip ∧ StableUMap a.rem

def StableMatrix (m : Matrix) : Prop :=
  (∀ l, m.adjustments = some l → ∀ a, some a ∈ l → StableAdjustment a) ∧
  (∀ l, m.adjustments = some l → none ∉ l) ∧ StableUMap m.rem

def StableCommand (c : CommandStep) : Prop :=
  noEmptyPrimaryWithAlias c.key c.label c.rem ∧
  (∀ l, c.plugins = some l → ∀ p, some p ∈ l → JStable p.config) ∧
  (∀ m, c.matrix = some m → StableMatrix m) ∧
  -- (finding F18, settings written next to `cache: {disabled: true}` were dropped, was fixed in the code,
  --  commit e8ce0ad: the side condition it had forced here was removed)
  (∀ k, c.cache = some k → StableUMap k.rem) ∧
  StableUMap c.rem

mutual
  def StableStep : Step → Prop
    | .command c => StableCommand c
    | .wait _ c => StableUMap c
    | .input _ c => StableUMap c
    | .trigger c => StableUMap c
    | .group k g ss r =>
      (match ss with | none => True | some l => StableSteps l) ∧ StableUMap r ∧
      (g = none → (r.getD []).lookup "label" = none ∧ (r.getD []).lookup "name" = none) ∧
      (k = "" → (r.getD []).lookup "id" = none ∧ (r.getD []).lookup "identifier" = none)
    | .unknown v => JStable v
  def StableSteps : List Step → Prop
    | [] => True
    | s :: r => StableStep s ∧ StableSteps r
end

def StablePipeline (p : Pipeline) : Prop :=
  (∀ l, p.steps = some l → StableSteps l) ∧ StableUMap p.rem

/-! ## The same side conditions for the YAML leg

  yaml.v3 drops an adjustment's `skip` only when it is nil, so finding F11 (the `emptyishSkip` condition)
  does not apply there; everything else is as on the JSON leg. -/

def StableAdjustmentY (a : Adjustment) : Prop := JStable a.skip ∧ StableUMap a.rem

def StableMatrixY (m : Matrix) : Prop :=
  (∀ l, m.adjustments = some l → ∀ a, some a ∈ l → StableAdjustmentY a) ∧
  (∀ l, m.adjustments = some l → none ∉ l) ∧ StableUMap m.rem

def StableCommandY (c : CommandStep) : Prop :=
  noEmptyPrimaryWithAlias c.key c.label c.rem ∧
  (∀ l, c.plugins = some l → ∀ p, some p ∈ l → JStable p.config) ∧
  (∀ m, c.matrix = some m → StableMatrixY m) ∧
  (∀ k, c.cache = some k → StableUMap k.rem) ∧
  StableUMap c.rem

mutual
  def StableStepY : Step → Prop
    | .command c => StableCommandY c
    | .wait _ c => StableUMap c
    | .input _ c => StableUMap c
    | .trigger c => StableUMap c
    | .group k g ss r =>
      (match ss with | none => True | some l => StableStepsY l) ∧ StableUMap r ∧
      (g = none → (r.getD []).lookup "label" = none ∧ (r.getD []).lookup "name" = none) ∧
      (k = "" → (r.getD []).lookup "id" = none ∧ (r.getD []).lookup "identifier" = none)
    | .unknown v => JStable v
  def StableStepsY : List Step → Prop
    | [] => True
    | s :: r => StableStepY s ∧ StableStepsY r
end

def StablePipelineY (p : Pipeline) : Prop :=
  (∀ l, p.steps = some l → StableStepsY l) ∧ StableUMap p.rem

end GoPipeline.Roundtrip
