# Per-property configuration for bin/check.
COMMON_TB = [
    "correspondence check = differential testing of the Lean model's executable definitions against the implementation on generated inputs (harness/cmd/corr); it shows agreement on those inputs only",
    "VL codec + Lean driver parser + Go harness glue",
]

PROPS = {
    "C05": dict(
        level="proof",
        gen=False,
        corr_name="ordered-map observers (driver mode c05)",
        trusted_base=COMMON_TB + [
            "go-cmp value equality is modelled as an arbitrary Boolean relation veq (reflexive/symmetric where the theorem says so); the driver instantiates it with structural equality",
            "encoding/json and yaml.v3 emitters (order of emitted keys is checked by the Go-side oracle only)",
            "Set/Replace on a nil *Map receiver are excluded (nil dereference, like a write to a nil Go map)",
        ],
        assumptions=["model positions out of range are no-ops (unreachable under the proved invariant Inv)"],
        explanation="Refinement proof: concrete slots+tombstones+index model of ordered/map.go refines a list of pairs for every history (theorems C05_*), tied to the code by observer-level correspondence on exhaustive short and random long histories plus a direct list-of-pairs oracle in Go.",
    ),
    "C15": dict(
        level="proof",
        gen=True,
        corr_name="step-kind selection (driver mode c15)",
        trusted_base=COMMON_TB + [
            "fact translator harness/cmd/extract/stepkinds.go (go/ast) regenerates Gen/StepKinds.lean from stepByType, stepByKeyInference, NewScalarStep on every run",
            "typed decoding after selection is outside this model (C16/C03); the correspondence supplies well-typed values",
        ],
        explanation="Decision-table proof over regenerated tables: select typeTable inferTable = documented rule for all key sets and all type values; extra keys irrelevant. Correspondence: full 2^10 x 18 table through the real stepFromMap.",
    ),
    "C11": dict(
        level="proof", gen=False, corr_name="validatePermutation (driver mode c11)",
        trusted_base=COMMON_TB + ["Go map iteration modelled as an entry list in arbitrary order with distinct keys (theorem C11_order_independent covers every order)"],
        explanation="validate = matrix specification for all matrices/permutations and all iteration orders (Lean), tied by exhaustive small-scope + random correspondence through Matrix.validatePermutation and InterpolateMatrixPermutation.",
    ),
    "C12": dict(
        level="proof", gen=True, modules=["C12", "C04"], corr_name="matrixInterpolator.Transform (driver mode c12)",
        trusted_base=COMMON_TB + ["Go regexp (RE2) semantics for the single literal read from interpolate_matrix.go are modelled by a hand-written deterministic matcher; the literal itself is regenerated (Gen/MatrixRE) and checked by C12_regexp_literal",
                                 "step-level scoping (which fields are transformed) is proved in the interpolation model shared with C04 and tied by the taint run"],
        explanation="Single-pass token replacement theorems over the matcher model + scoping; correspondence on constructed token strings and near-miss look-alikes.",
    ),
    "C17": dict(
        level="proof", gen=False, corr_name="Plugin.FullSource (driver mode c17)",
        trusted_base=COMMON_TB + ["net/url.Parse (scheme detection, fragment cut, first-segment colon rule) and path.Join/Clean are modelled on the documented domain, not verified; percent-escapes and '?' are outside the model (model answers outside-model)"],
        explanation="Documented expansions, unchanged classes and idempotence proved on the model for the whole documented domain; correspondence on constructed sources of every documented form plus free-form strings.",
    ),
    "C18": dict(
        level="proof", gen=True, corr_name="jwkutil.Validate / LoadKey (driver mode c18)",
        trusted_base=COMMON_TB + ["jwx: key parsing, key.Validate(), key.Algorithm() typing, key-set lookup are inputs to the model (observed, not modelled)",
                                 "C18_crypto_partial: that generated keys validate and that a signature verifies with its public half and no other key involves real key generation and JWS; exercised by the harness (6x6 sign/verify matrix), not proved"],
        explanation="Decision-logic proof over tables regenerated from jwkutil/validate.go; exhaustive correspondence over key type x every registered algorithm with real keys; key-set selection rule proved and exercised through temp files.",
    ),
    "C16": dict(
        level="proof", gen=True, corr_name="ordered.Unmarshal into tagged structs (driver mode c16)",
        trusted_base=COMMON_TB + ["struct descriptors: regenerated from the source for package pipeline (Gen/Structs, go/ast); for the harness-defined family obtained by reflection exactly as the library reads tags",
                                 "fuel-bounded value decoder (fuel 64 in the driver, far above any generated nesting)",
                                 "warnings from nested custom Unmarshalers are outside the generic model (none arise in the family)"],
        explanation="Partition/destination theorems for the key bookkeeping of decodeInto for every well-formed descriptor, instantiated to all regenerated pipeline structs; generic value decoder tied by correspondence over an 11-type family; yaml.v3 agreement and key partition as direct oracles.",
    ),
    "C04": dict(
        level="proof", gen=True, corr_name="Pipeline.Interpolate walkers (driver mode c04)",
        trusted_base=COMMON_TB + ["buildkite/interpolate: the string expansion is a parameter of the theorems; the correspondence passes the real library's expansion of every string of the pipeline as a table",
                                 "taint run in harness/cmd/extract/taint.go regenerates Gen/InterpVisits.lean (which positions each compiled interpolate method visits, how often, per transformer kind)",
                                 "collision-freedom hypothesis keysFresh (renamed keys pairwise distinct and not equal to another original key of the same ordered mapping): a mapping cannot keep both entries; the model mirrors what the code does there and the correspondence compares it"],
        explanation="interp = mapStrings for every step kind / nesting depth / transformer (Lean), error propagation, signature untouched, structure preserved; visit table regenerated by a taint run; correspondence with table-driven transformer; direct single-expansion oracle; repeated runs for map-order determinism.",
    ),
    "C10": dict(
        level="proof", gen=False, corr_name="interpolateEnvBlock (driver mode c10)",
        trusted_base=COMMON_TB + ["buildkite/interpolate: expansion is a parameter `expand` of the theorems (it sees the environment only through lookups); in the correspondence the library's own parser supplies the AST and the Expand methods are mirrored (Model/ExpandAst)",
                                 "the in-iteration Replace semantics on the ordered map is the abstract one proved equal to the slot-level code in C05 (stateless callback); the stateful walk is tied by correspondence",
                                 "collision-freedom hypothesis NoCollide for 'block = specification' (renamed names pairwise distinct and not another entry's original name); the precedence theorems need no such hypothesis"],
        explanation="Env-block fold proved equal to the top-to-bottom specification; runtime-precedence invariant during and after the walk; write-back; errors; tied by correspondence through the package's own internal/env (case-sensitive and upper-casing) and a direct replay oracle with the real library.",
    ),
    "C14": dict(
        level="proof", gen=True, corr_name="canonical payload bytes (driver mode sig: payload)",
        trusted_base=COMMON_TB + ["encoding/json and gowebpki/jcs: the model *is* RFC 8785 over the value tree of the Marshal model; byte equality with the real payload (captured through WithDebugSigning) is checked differentially",
                                 "number literals: the harness supplies the ES6 rendering of floats; integers are rendered in decimal, valid below 2^53 (integers beyond that are rounded by JCS: recorded finding F12); theorems assume literals are number tokens (NumOK)",
                                 "Plugin.FullSource outside the modelled url.Parse domain is kept as written by the model (never generated for signing)"],
        explanation="Serialiser injectivity (left-to-right, delimiter-initial rests), canonicalisation = forgetting member order, payload-level injectivity and invariances; real payload bytes vs model; must-collide / must-not-collide variant search on the implementation.",
    ),
    "C01": dict(
        level="proof", gen=True, corr_name="Sign/Verify bookkeeping (driver mode sig: verify)",
        trusted_base=COMMON_TB + ["abstract signature scheme: correctness, A1 (a signature verifies only for the signed message) and A2 (and only under the signing key) are *hypotheses* carried by the theorems (structure fields, a toy instance shows consistency); that JWS with EdDSA/ES512/PS512/ES256 satisfies them is a cryptographic assumption, not proved (C01_crypto_partial); the harness signs and verifies with real keys of all four kinds",
                                 "signing tables regenerated from signature/sign.go and pipeline_invariants.go (Gen/Signing) and checked equal to the model's tables (C01_signing_tables)",
                                 "payload bytes: see C14; JSON marshalling of plugins/matrix: Marshal model, differentially checked byte-for-byte through the payload"],
        explanation="Soundness of verification against every single-point mutation class (via A1/A2 + payload injectivity C14), completeness for the honest signature, field-list order irrelevance; mutation matrix on the real Verify with all key kinds vs the model run with the recording scheme.",
    ),
    "C06": dict(
        level="proof", gen=True, modules=["C06"], corr_name="SignSteps over step trees (driver mode sig: signsteps)",
        trusted_base=COMMON_TB + ["abstract signature scheme: correctness, A1 (a signature verifies only for the signed message) and A2 (and only under the signing key) are *hypotheses* carried by the theorems (structure fields, a toy instance shows consistency); that JWS with EdDSA/ES512/PS512/ES256 satisfies them is a cryptographic assumption, not proved (C01_crypto_partial); the harness signs and verifies with real keys of all four kinds",
                                 "signing tables regenerated from signature/sign.go and pipeline_invariants.go (Gen/Signing) and checked equal to the model's tables (C01_signing_tables)",
                                 "payload bytes: see C14; JSON marshalling of plugins/matrix: Marshal model, differentially checked byte-for-byte through the payload"],
        explanation="Induction over the nested step type: success iff no unknown step at any depth; only signatures change; every command step gets exactly sign's record (algorithm, sorted mandatory + unshadowed env:: fields) which verifies; tree correspondence incl. caller-env immutability and per-step verification on the implementation.",
    ),
    "C13": dict(
        level="proof", gen=True, corr_name="Parse (driver mode parse)",
        trusted_base=COMMON_TB + ["yaml.v3 scanner/parser/tag resolution/scalar decoding: the model starts at the decoded document tree (ordered.DecodeYAML output; alias/merge expansion is C07's subject)",
                                 "struct descriptors and step-kind tables regenerated from the source (Gen/Structs, Gen/StepKinds); the parse model interprets them (Unm.taken / remainder)",
                                 "encoding/json and the yaml.v3 emitter: the model ends at the value tree handed to the encoders; the harness re-decodes the real output order-preservingly and compares"] + ["C13_bytes_partial: 'any byte sequence, bounded time, never panics' at the byte level is yaml.v3's scanner/parser plus the Go runtime; the harness drives documents with injected type errors and mutated renderings through Parse with recover; this sampling is support, not proof"],
        explanation="Totality by construction; step-count/order/derivation, unknown fallback verbatim + one warning each, enumerated hard-error causes, marshal succeeds (Lean). Correspondence of typed dump + warning kinds + hard-error class on grammar-generated documents with injected type errors.",
    ),
    "C19": dict(
        level="other", gen=True, race=True, corr_name="concurrency harness (no model driver)",
        trusted_base=["Go race detector (dynamic; finds races only on schedules that occur)", "go/ast globals extractor (Gen/Globals)", "Lean kernel for the frame / no-global-writes theorems"],
        explanation="PARTIAL. Proved in Lean: no function of any package writes a package-level variable (regenerated fact); in the slot-level ordered-map model every observer leaves the concrete state fixed and interleavings of observers give sequential answers. NOT expressible in the model and only exercised: goroutine interleavings and the Go memory model - rounds of 16 goroutines on distinct objects (results must equal the sequential run) and on shared read-only objects under the race detector; observers compared via VerifDump before/after.",
        assumptions=["data-race freedom is supported by dynamic race detection on the schedules met, not proved"],
    ),
    "C03": dict(
        level="proof", gen=True, corr_name="Parse + MarshalJSON normal form (driver mode parse)",
        trusted_base=COMMON_TB + ["yaml.v3 scanner/parser/tag resolution/scalar decoding: the model starts at the decoded document tree (ordered.DecodeYAML output; alias/merge expansion is C07's subject)",
                                 "struct descriptors and step-kind tables regenerated from the source (Gen/Structs, Gen/StepKinds); the parse model interprets them (Unm.taken / remainder)",
                                 "encoding/json and the yaml.v3 emitter: the model ends at the value tree handed to the encoders; the harness re-decodes the real output order-preservingly and compares"] + ["typed-string positions take the four documented scalar kinds (string, int, float, bool); a timestamp / >int64 integer there is a hard error of the unmarshaller (scoping decision, DESIGN §7)",
                                 "known gaps kept visible: both command and commands given (finding F7); unknown keys inside signature are dropped (no inline catch-all; F9)"],
        explanation="Per-key normal-form theorems (bare list, command join, label/key aliases, other keys preserved exactly once, contents steps, scalar/unknown verbatim, plugins, env, matrix/cache shorthands) over regenerated descriptors; order-preserving normal-form correspondence on the real Parse + json.Marshal; documented-rule and key-preservation oracles on the implementation.",
    ),
    "C07": dict(
        level="proof", gen=False, corr_name="ordered.DecodeYAML over node graphs (driver mode c07)",
        trusted_base=COMMON_TB + ["yaml.v3 scanner/parser: the model starts at the *yaml.Node graph the real parser (or the harness's graph surgery) produces; the harness serialises that graph (kinds, tags, values, content, alias targets) for the driver",
                                 "yaml.v3 scalar decoding of keys and values (n.Decode) is an input to the model: the harness supplies each scalar's decoded value and canonical key text",
                                 "totality is proved under AliasFlat (an alias node never targets another alias node), which every graph the yaml.v3 parser builds satisfies; hand-built alias-to-alias chains are outside the theorem (canonicalMapKey would not terminate on an alias cycle, noted in DESIGN)",
                                 "Go stack depth: a deep but finite recursion is a runtime limit outside the model"],
        explanation="Structural model of decodeYAML / rangeYAMLMapImpl / canonicalMapKey over an indexed node store with explicit fuel; proved: fuel bound (totality), cycle detection on the decoding path, alias = copy of target, merge cycles tolerated, merge walk = specification (explicit keys first-position, earlier sources beat later ones, nested merges), key canonicalisation through aliases, bad keys rejected. Tied by correspondence on generated anchored documents parsed by the real yaml.v3 plus graph surgery for cycles.",
    ),
}

NOT_APPLICABLE = {}

MANIFEST_TEXT = {
    "C07": dict(
        text="Kernel-checked proofs (Lean 4) about a structural model of ordered.DecodeYAML (decodeYAML, rangeYAMLMapImpl, canonicalMapKey) over an indexed yaml.Node store: decoding terminates within an explicit fuel bound on every alias-flat graph; a node that is its own ancestor on the decoding path yields the recursion error; an alias decodes to an independent copy of its target at every site; the merge walk never reports recursion, tolerates merge cycles, and yields exactly the specification (explicit keys at their written position beat merged keys, earlier merge sources beat later ones, nested and sequence merges unfold depth-first); alias keys are canonicalised through their targets; null and non-scalar keys are errors. Tied on every run by correspondence: generated flow-style documents with anchors, aliases as values and keys, and single/repeated/sequence/inline merges are parsed by the real yaml.v3, one in four gets a back-edge by graph surgery, and the decoded value or error class is compared with the model's.",
        design_ref="DESIGN.md §6 C07",
        note="Trusted: Lean kernel; yaml.v3 up to the node graph and for scalar decoding; the correspondence. Totality needs AliasFlat (true of parser output).",
        technique="Lean 4 structural-recursion model with fuel bound, merge-walk = specification refinement proof + node-graph correspondence with graph surgery",
    ),
    "C03": dict(
        text="Kernel-checked proofs (Lean 4) about the composition of the parse model and the JSON marshalling model, both interpreting struct descriptors regenerated from the source: a bare step list becomes steps; command/commands collapse into one newline-joined command; name and id/identifier fill label and key only when those are absent (otherwise the alias stays an ordinary key); every other key of a command step appears in the marshalled step exactly once with its input value; wait/input/trigger mappings keep every key; scalar and unknown steps are emitted verbatim; plugins in all three forms become an ordered list of single-entry objects keyed by canonical source with empty configs as null; env scalars become strings in order; matrix and cache shorthands take their canonical shapes. Tied by order-preserving comparison of the model's normal form with the re-decoded real output on grammar-generated documents (block/flow YAML, JSON) and by rule/key-preservation oracles on the implementation. Recorded gaps: F7 (command + commands), F9 (unknown keys inside signature).",
        design_ref="DESIGN.md §6 C03",
        note="Trusted: Lean kernel; yaml.v3 up to the decoded tree and the encoders after the value tree; translators; the correspondence.",
        technique="Lean 4 per-key normal-form theorems over regenerated struct descriptors + normal-form correspondence + rule oracles",
    ),
    "C19": dict(
        text="PARTIAL, by design of the technique: a theorem about a sequential functional model cannot exhibit a data race. Proved (Lean 4): no function in any package assigns to a package-level variable (fact regenerated from source on every run); in the slot/tombstone/index model of the ordered map every observer is a function of the state returning no state, so any interleaving of observer calls leaves slots, tombstones and index unchanged and gives each call its sequential answer. Exercised, not proved: 16 goroutines parsing/interpolating/marshalling/signing/verifying distinct generated pipelines must reproduce the sequential digests; concurrent read-only use of one shared ordered map (with tombstones), signed pipeline and key set runs under the Go race detector and must give sequential answers; every observer must leave ordered.VerifDump unchanged on maps one deletion short of compaction.",
        design_ref="DESIGN.md §6 C19",
        note="Level 'other': the schedule-dependent part rests on the race detector and repeated rounds, which only see schedules that occur.",
        technique="Lean 4 frame/no-global-writes theorems + race-detector stress harness (partial)",
    ),
    "C13": dict(
        text="Kernel-checked proofs (Lean 4) about a total function mirroring the whole parse path after YAML decoding (Pipeline/Steps/stepFromMap and every UnmarshalOrdered, over struct descriptors and kind tables regenerated from source): a usable result has a non-nil step list holding exactly the parse of each entry of the input step sequence, in order and recursively inside groups; a step is unknown exactly with its input entry verbatim and one warning, every other step without; hard errors arise only from an entry that is neither string nor mapping or a non-string type; malformed typed steps fall back instead of aborting; marshalling the result succeeds. Tied by correspondence on grammar-generated documents (block/flow YAML, JSON) with type errors injected at every typed position: typed dump, warning kinds in order, hard-error class. The byte level (scanner, parser, runtime limits) is exercised only (partial).",
        design_ref="DESIGN.md §6 C13",
        note="Trusted: Lean kernel; yaml.v3 up to the decoded tree; translators for descriptors/tables; the correspondence. Byte-level totality is partial (sampling).",
        technique="Lean 4 proofs about a total parse function (induction over step lists / nesting fuel) + correspondence incl. injected type errors",
    ),
    "C01": dict(
        text="Kernel-checked proofs (Lean 4) over a mirror of Sign/Verify/ValuesForFields/requireKeys and an abstract signature scheme with the idealised unforgeability hypotheses A1/A2: if a record carrying a genuine signature value verifies against a presented step, env, repository URL, record and key, then the key is the signing key, the algorithm name, command, repository URL, step env, plugin sequence (canonical sources and configs, in order), matrix and every signed pipeline env variable equal what was signed and the field list names exactly the signed fields; dropping a mandatory field, garbage or empty field lists fail outright; the honest signature verifies under any env extending the pipeline env; reordering/duplicating the field list is not a semantic change. Uses the payload injectivity of C14. Tied by a mutation matrix (about 45 single-point mutation classes) on the real Verify with EdDSA, ES512, PS512 JWKs and an ES256 crypto.Signer against the model with a recording scheme, and by regenerated signing tables.",
        design_ref="DESIGN.md §6 C01",
        note="Trusted: Lean kernel; A1/A2/correctness for the real algorithms are cryptographic assumptions (partial: exercised with real keys, not proved); payload model (C14); table translator; the correspondence.",
        technique="Lean 4 proof (soundness/completeness of the verification bookkeeping over an abstract scheme, using serialiser injectivity) + mutation-matrix correspondence on real keys",
    ),
    "C06": dict(
        text="Kernel-checked proofs (Lean 4) by induction over the nested step type: SignSteps succeeds exactly when no step of unknown kind occurs at any position or depth; on success nothing but signatures changes, and every command step at every depth carries the record Sign makes for it - the key's algorithm and, as field list, the five mandatory fields plus env::NAME for each pipeline env variable not shadowed by the step's own env, sorted - which verifies under the matching public key for any env extending the pipeline env; wait/input/trigger steps are untouched. The env argument is a value in the model; the correspondence checks on the implementation that the caller's map is not modified. Tied by correspondence on generated step trees (groups to depth 4, unknown steps at every position and depth, overlapping envs, all key kinds).",
        design_ref="DESIGN.md §6 C06",
        note="Trusted: as C01; 'does not modify the caller's env map' is checked on the implementation by the harness (the model is pure).",
        technique="Lean 4 proof (structural induction over the step tree, reusing C01 completeness) + tree correspondence",
    ),
    "C14": dict(
        text="Kernel-checked proofs (Lean 4) about a model of the signed byte string (value tree of the JSON marshalling, RFC 8785 canonical serialisation): the serialiser is injective on well-formed values (no characters can move between adjacent fields, key and value, or nesting levels), canonicalisation forgets exactly the order of object members, equal payloads imply equal algorithm and field-by-field equal values (env:: entries included, which can never collide with step fields), and the payload is invariant under map population order, nil versus empty env/plugins/matrix and canonical plugin source spelling. Tied to the code by comparing the model's bytes with the real payload captured from Sign and Verify for every key kind, and by a collision search on re-spellings (must collide) and boundary-shifting / single-point variants (must not).",
        design_ref="DESIGN.md §6 C14",
        note="Trusted: Lean kernel; encoding/json + jcs (differentially checked byte-for-byte); float ES6 literals from the harness; integers below 2^53 (F12 beyond).",
        technique="Lean 4 proof of serialiser injectivity (mutual induction, prefix-freeness with delimiter-initial rests) + byte-level correspondence + collision search",
    ),
    "C10": dict(
        text="Kernel-checked proofs (Lean 4) about a mirror of interpolateEnvBlock for an arbitrary expansion function and name-normaliser: the in-place walk equals the top-to-bottom specification (entry i expanded with the caller environment plus all earlier entries, same positions), the expanded values are written back to the caller, and with runtime precedence every name the caller already had keeps the caller's value in every expansion and afterwards while the block records the pipeline's value; lookups go through the environment's own name equality; an expansion error aborts with that entry's error. Tied by correspondence through the package's own env implementation (both case modes) and by a direct replay with the real interpolation library.",
        design_ref="DESIGN.md §6 C10",
        note="Trusted: Lean kernel; buildkite/interpolate parser (AST supplied by the real parser) and its Expand semantics as mirrored in Model/ExpandAst (differentially checked); the correspondence. NoCollide hypothesis on 'block = spec' only.",
        technique="Lean 4 proofs (fold = specification, invariants over the walk) + correspondence with library-AST-driven expansion + replay oracle",
    ),
    "C04": dict(
        text="Kernel-checked proofs (Lean 4) that a mirror of every interpolate method and walker equals 'apply the expansion once to every string' - keys and values, any depth, all step kinds, unknown fields, plugin configs, matrix, cache - for every transformer, with signatures untouched, step structure preserved, errors propagated exactly from a visited string, and the result a function of the input (Go-map walks use a sorted snapshot). The table of visited positions is re-measured on the compiled code by a taint run on every check and must equal the table the model implements. Tied by correspondence (real library expansions passed as a table) on generated pipelines with $-forms in every position, big Go maps, repeated runs, plus a direct single-expansion oracle on the implementation.",
        design_ref="DESIGN.md §6 C04",
        note="Trusted: Lean kernel; buildkite/interpolate as a black-box string function (its single application is its contract); taint extractor; the correspondence. Hypothesis keysFresh excludes renames that collide inside one ordered mapping.",
        technique="Lean 4 proof (walker = functor map, mutual induction over nested values and steps) + taint-regenerated visit table + correspondence and single-expansion oracle",
    ),
    "C16": dict(
        text="Kernel-checked proofs (Lean 4) about a mirror of decodeInto's field loop: for every descriptor with pairwise distinct keys and non-empty aliases and every input mapping, the keys consumed by fields plus the in-order inline remainder are exactly the input keys (none lost, none duplicated), each key goes to the field whose tag names it, else to the field listing it as first present alias when its own key is absent, else to the inline remainder; absent keys leave fields untouched, null zeroes; alias-free targets follow the YAML library's rule. The descriptor well-formedness is re-proved for every struct of package pipeline regenerated from source. The generic value decoder (scalars, slices, maps, ordered maps, nested/pointer structs, inline forms) is tied by correspondence over a family of 11 struct types, with yaml.v3's own decoder and the key partition as direct oracles.",
        design_ref="DESIGN.md §6 C16",
        note="Trusted: Lean kernel; struct-tag translator; the differential correspondence; yaml.v3 as reference decoder in the oracle (null elements inside typed sequences excluded: yaml.v3 drops them).",
        technique="Lean 4 proofs (partition / destination of keys for arbitrary descriptors) + regenerated descriptor obligations + type-family correspondence",
    ),
    "C11": dict(
        text="Kernel-checked proof (Lean 4) that a statement-for-statement model of Matrix.validatePermutation accepts exactly when the matrix specification does (names every dimension once; a setup combination or some adjustment's tuple; no adjustment with that tuple marked skip; malformed adjustments reject), for all matrices and permutations and independently of every Go map iteration order; ShouldSkip table; rejected and empty permutations leave the step unmodified. Tied to the code by exhaustive small-scope and random correspondence through the real validatePermutation/InterpolateMatrixPermutation, and the specification written directly in Go.",
        design_ref="DESIGN.md §6 C11",
        note="Trusted: Lean kernel; the differential correspondence; Go maps modelled as key-distinct entry lists.",
        technique="Lean 4 proof of decision procedure = specification (iff), order-independence by permutation lemmas + exhaustive small-scope correspondence",
    ),
    "C12": dict(
        text="Kernel-checked proofs (Lean 4) about a deterministic matcher for the token regexp read from the source on every run: well-formed tokens are matched whole with the right dimension; strings without '{{' are unchanged; for every alternation of brace-free text and tokens the output is the text with each token replaced once, verbatim (values never rescanned); unknown dimensions always fail; on arbitrary input every replaced region is a genuine token. Step-level scoping (command, label, plugins, env values, unknown fields transformed; env names, key, matrix, signature untouched) is proved on the interpolation model shared with C04. Tied by correspondence on constructed and look-alike strings and by the regenerated regexp literal.",
        design_ref="DESIGN.md §6 C12",
        note="Trusted: Lean kernel; RE2 semantics of the one literal (hand matcher, differentially checked); the correspondence.",
        technique="Lean 4 proofs over a regexp-specific matcher model + regenerated literal obligation + string correspondence",
    ),
    "C17": dict(
        text="Kernel-checked proofs (Lean 4) on a model of Plugin.FullSource including the relevant parts of url.Parse and path.Clean: bare names and org/name expand to the documented github.com forms (with optional ref), paths, scheme URLs, scp-style and 3+-segment sources are left as written, and canonicalisation is idempotent and closed on the documented domain. Tied to the code by correspondence on sources of every documented form and free-form strings, with idempotence and expansions also checked directly on the implementation.",
        design_ref="DESIGN.md §6 C17",
        note="Trusted: Lean kernel; the model of net/url and path on the documented domain (differentially checked, not verified); the correspondence.",
        technique="Lean 4 proofs (string-level model, idempotence on a decidable domain) + correspondence",
    ),
    "C18": dict(
        text="Kernel-checked proof (Lean 4) that key validation, as a sequence of checks over tables regenerated from jwkutil/validate.go, accepts exactly structurally valid keys that declare a signature algorithm forming one of RSA+PS512, EC+ES512, OKP+EdDSA - for all key types and algorithm names - and that key-set loading returns the first key with the requested id (or the only key), validating after selection. Tied by exhaustive correspondence over real keys of every type x every algorithm jwx registers, and LoadKey over small key sets. The cryptographic part (generated keys validate; signatures verify only with their own public half) is exercised, not proved.",
        design_ref="DESIGN.md §6 C18",
        note="Trusted: Lean kernel; table translator; jwx observations as model inputs; real cryptography (partial: exercised by a 6x6 sign/verify matrix only).",
        technique="Lean 4 decision-table proof over source-regenerated tables + exhaustive (key type x algorithm) correspondence",
    ),
    "C15": dict(
        text="Kernel-checked proof (Lean 4) that the step-kind tables regenerated from steps.go/step_scalar.go on every run, interpreted with first-match semantics, equal the documented rule for every key set and every type value (string or not), that failures carry the documented sentinels and never another known kind, and that keys outside the ten kind keys never change the decision. Tied to the code by the go/ast table translator and by enumerating the complete key-subset x type table (plus adversarial extra keys) through the real stepFromMap/unmarshalStep against the model driver and the rule written directly in Go.",
        design_ref="DESIGN.md §6 C15",
        note="Trusted: Lean kernel; the table translator (shapes it accepts; an unreadable shape falsifies C15_tables_recognised); the differential correspondence. Typed decoding after selection is covered by C16/C03/C13.",
        technique="Lean 4 decision-table proof over source-regenerated tables + exhaustive table correspondence",
    ),
    "C05": dict(
        text="Kernel-checked refinement proof (Lean 4): a slot/tombstone/index model mirroring ordered/map.go satisfies a representation invariant under Set/Replace/Delete/compact and every observer equals its list-of-pairs counterpart, for every operation history from NewMap and the zero value; Equal is total and is exactly pairwise comparison; renames from inside a Range callback equal the sequential rename semantics. The model is tied to the code on every run by observer-level correspondence (exhaustive histories over 3 keys, long random histories crossing the compaction threshold) and a direct list-of-pairs oracle in Go.",
        design_ref="DESIGN.md §6 C05",
        note="Trusted: Lean kernel; propext/Classical.choice/Quot.sound; the differential correspondence (shows agreement on generated histories only); go-cmp as an abstract Boolean relation; JSON/YAML emitters. Set/Replace on a nil receiver excluded.",
        technique="Lean 4 refinement proof (invariant + abstraction function, induction over operation histories) + model/implementation correspondence",
    ),
}
