# Per-property configuration for bin/check.
COMMON_TB = [
    "correspondence check = differential testing of the Lean model's executable definitions against the implementation on generated inputs (harness/cmd/corr); it shows agreement on those inputs only",
    "VL codec + Lean driver parser + Go harness glue",
]

PROPS = {
    "C05": dict(
        level="proof",
        gen=False,
        corr_name="ordered-map observers (driver mode c05)",
        trusted_base=COMMON_TB + [
            "go-cmp value equality is modelled as an arbitrary Boolean relation veq (reflexive/symmetric where the theorem says so); the driver instantiates it with structural equality",
            "encoding/json and yaml.v3 emitters (order of emitted keys is checked by the Go-side oracle only)",
            "Set/Replace on a nil *Map receiver are excluded (nil dereference, like a write to a nil Go map)",
        ],
        assumptions=["model positions out of range are no-ops (unreachable under the proved invariant Inv)"],
        explanation="Refinement proof: concrete slots+tombstones+index model of ordered/map.go refines a list of pairs for every history (theorems C05_*), tied to the code by observer-level correspondence on exhaustive short and random long histories plus a direct list-of-pairs oracle in Go.",
    ),
    "C15": dict(
        level="proof",
        gen=True,
        corr_name="step-kind selection (driver mode c15)",
        trusted_base=COMMON_TB + [
            "fact translator harness/cmd/extract/stepkinds.go (go/ast) regenerates Gen/StepKinds.lean from stepByType, stepByKeyInference, NewScalarStep on every run",
            "typed decoding after selection is outside this model (C16/C03); the correspondence supplies well-typed values",
        ],
        explanation="Decision-table proof over regenerated tables: select typeTable inferTable = documented rule for all key sets and all type values; extra keys irrelevant. Correspondence: full 2^10 x 18 table through the real stepFromMap.",
    ),
}

NOT_APPLICABLE = {}

MANIFEST_TEXT = {
    "C15": dict(
        text="Kernel-checked proof (Lean 4) that the step-kind tables regenerated from steps.go/step_scalar.go on every run, interpreted with first-match semantics, equal the documented rule for every key set and every type value (string or not), that failures carry the documented sentinels and never another known kind, and that keys outside the ten kind keys never change the decision. Tied to the code by the go/ast table translator and by enumerating the complete key-subset x type table (plus adversarial extra keys) through the real stepFromMap/unmarshalStep against the model driver and the rule written directly in Go.",
        design_ref="DESIGN.md §6 C15",
        note="Trusted: Lean kernel; the table translator (shapes it accepts; an unreadable shape falsifies C15_tables_recognised); the differential correspondence. Typed decoding after selection is covered by C16/C03/C13.",
        technique="Lean 4 decision-table proof over source-regenerated tables + exhaustive table correspondence",
    ),
    "C05": dict(
        text="Kernel-checked refinement proof (Lean 4): a slot/tombstone/index model mirroring ordered/map.go satisfies a representation invariant under Set/Replace/Delete/compact and every observer equals its list-of-pairs counterpart, for every operation history from NewMap and the zero value; Equal is total and is exactly pairwise comparison; renames from inside a Range callback equal the sequential rename semantics. The model is tied to the code on every run by observer-level correspondence (exhaustive histories over 3 keys, long random histories crossing the compaction threshold) and a direct list-of-pairs oracle in Go.",
        design_ref="DESIGN.md §6 C05",
        note="Trusted: Lean kernel; propext/Classical.choice/Quot.sound; the differential correspondence (shows agreement on generated histories only); go-cmp as an abstract Boolean relation; JSON/YAML emitters. Set/Replace on a nil receiver excluded.",
        technique="Lean 4 refinement proof (invariant + abstraction function, induction over operation histories) + model/implementation correspondence",
    ),
}
