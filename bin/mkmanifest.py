#!/usr/bin/env python3
"""Regenerates MANIFEST.json from bin/props.py (claimed checks) + the list of properties."""
import json, os, sys
VERIF = os.path.dirname(os.path.dirname(os.path.abspath(__file__)))
sys.path.insert(0, os.path.join(VERIF, "bin"))
from props import PROPS, MANIFEST_TEXT, NOT_APPLICABLE

ids = [json.loads(l)["id"] for l in open(os.path.join(VERIF, "properties.jsonl"))]
checks = []
for pid in ids:
    if pid not in PROPS or not PROPS[pid].get("claimed", True):
        continue
    t = MANIFEST_TEXT[pid]
    checks.append(dict(
        property_id=pid,
        quick_cmd=f"bin/check {pid} quick",
        thorough_cmd=f"bin/check {pid} thorough",
        evidence_file=f"/verif/evidence/{pid}.json",
        replay_cmd_template="bin/check --replay {path}",
        engine="lean4-proof+correspondence",
        level_claimed=dict(category=PROPS[pid]["level"], text=t["text"], design_ref=t["design_ref"]),
        level_note=t["note"],
        technique=t["technique"],
    ))
na = [dict(property_id=p, reason=NOT_APPLICABLE.get(p, "check not built yet in this session; see DESIGN.md §9")) for p in ids
      if p not in PROPS or not PROPS[p].get("claimed", True)]
man = dict(
    version=1,
    setup_cmd="bin/check setup",
    hooks=dict(guard="verif (Go build tag)", enable="go build -tags verif (harness module replaces github.com/buildkite/go-pipeline => /repo)",
               baseline_off_cmd="cd /repo && go test -vet=off -count=1 ./...",
               source_commits=["bd64d21", "29729a6"], add_only=True),
    engines=[dict(name="lean4-proof+correspondence", path="/verif/lean + /verif/harness + /verif/bin/check",
                  serves_properties=[c["property_id"] for c in checks],
                  kind_free_text="Lean 4 theorems about an executable model; model tied to /repo by go/ast fact translators regenerating Gen/*.lean and by differential correspondence (Go harness -tags verif vs compiled Lean driver); direct Go oracles as failing-input search")],
    checks=checks,
    not_applicable=na,
    notes="See DESIGN.md. Fixed defects and recorded findings: known_findings.json.",
)
json.dump(man, open(os.path.join(VERIF, "MANIFEST.json"), "w"), indent=1)
print("checks:", [c["property_id"] for c in checks], "not claimed:", [n["property_id"] for n in na])
