#!/usr/bin/env python3
"""Prints the prompt for a mutant-writing sub-agent: only the property text and its worktree."""
import json, sys
pid = sys.argv[1]
props = {json.loads(l)['id']: json.loads(l) for l in open('/verif/properties.jsonl')}
p = props[pid]
wt = f"/tmp/mut-{pid}"
print(f"""You are testing how well a set of semantic checks protects a Go library. You get ONE property of the library and your own scratch git worktree of the repository at {wt} (module github.com/buildkite/go-pipeline: models Buildkite pipeline YAML/JSON — an order-preserving map, a reflective unmarshaller, env/matrix interpolation, JWS step signing). Work ONLY inside {wt}; do not read or write anything under /verif or /repo (they are off limits for this task). There is no network; use: export GOFLAGS=-mod=mod GOPROXY=off GOSUMDB=off GOTOOLCHAIN=local ; tests: cd {wt} && go test -vet=off -count=1 ./...

THE PROPERTY ({pid}): {p['title']}
{p['statement']}
It is meant to hold {p['quantifier']['text']}.
Why the existing tests cannot settle it: {p['why_tests_cant']}
Code it is anchored in: {', '.join(p['anchors']['files'])}

YOUR TASK: produce TWO different realistic changes (bugs) to the library source (non-test .go files) that each BREAK this property while the module still compiles and ALL existing tests still pass (`go test -vet=off -count=1 ./...` green). Prefer changes a tired maintainer could plausibly make (a refactor gone slightly wrong, an optimisation, a misplaced condition, an off-by-one, a lost branch, two sites that each look fine alone), and — important — changes that need something SPECIFIC to manifest: a particular multi-step sequence of operations, an unusual but legal input, a particular map size / iteration order, a particular combination of keys, a fault at a particular point. Do NOT make changes that ordinary use would expose at once (e.g. breaking every call), do not touch *_test.go files, do not touch files named verif_hooks.go / verif_*.go, do not change exported API signatures, and keep each change small (a few lines to a few dozen). The two changes should break the property in different ways / at different places.

For EACH change i ∈ {{1, 2}} create the directory {wt}/MUTANT{{i}}/ containing:
  - patch.diff : `git diff` of the change against the clean HEAD of the worktree (only library source files). It must apply to a clean checkout with `git apply`.
  - demo_test.go (or demo/main.go): a demonstration that FAILS with the change applied and PASSES on the clean tree — a Go test file you would drop into the relevant package directory (say which one), or a small program. It must exercise the property as stated (through the public API where possible) and print/assert clearly what goes wrong.
  - NOTES.md : which file/function you changed and why it breaks the property; what exactly is needed for the bug to manifest (the specific sequence / input / size / order); the exact commands you ran to show (a) all existing tests pass with the change, (b) the demo fails with the change, (c) the demo passes without it; and the observed outputs.
Procedure per change: start from a clean tree (`git -C {wt} checkout -- . && git -C {wt} status --short` shows only your MUTANT* dirs), make the change, run the full test suite, write and run the demo (copy it into the package dir temporarily, remember to remove it again), `git diff -- '*.go' ':!*_test.go' > MUTANT{{i}}/patch.diff` (make sure the demo file is not in the diff), then `git checkout -- .`, remove any leftover demo file from package dirs, and confirm the demo passes on the clean tree. Leave the worktree clean at the end apart from the MUTANT1/ and MUTANT2/ directories.
Final answer: for each change, one paragraph: what it is, what it needs to manifest, and the three command results.""")
