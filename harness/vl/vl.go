// Package vl implements the VL value encoding shared with the Lean driver
// (DESIGN §4.2): self-delimiting, order-preserving, one request per line.
package vl

import (
	"encoding/json"
	"fmt"
	"sort"
	"strconv"
	"strings"
	"time"
	"unicode/utf8"

	"github.com/buildkite/go-pipeline/ordered"
	"github.com/gowebpki/jcs"
)

// Enc encodes a Go value tree. *ordered.MapSA / *ordered.MapSS -> omap,
// map[string]any / map[string]string / map[string][]string -> umap (sorted).
func Enc(v any) string {
	var b strings.Builder
	enc(&b, v)
	return b.String()
}

func encStr(b *strings.Builder, tag byte, s string) {
	b.WriteByte(tag)
	b.WriteString(strconv.Itoa(utf8.RuneCountInString(s)))
	b.WriteByte(':')
	b.WriteString(s)
}

// FloatLit is the opaque float literal: Sprint | JSON | %e | ES6 (RFC 8785 number form).
func FloatLit(f float64) string {
	j, err := json.Marshal(f)
	js := string(j)
	if err != nil {
		js = "ERR"
	}
	es6, err := jcs.NumberToJSON(f)
	if err != nil {
		es6 = "ERR"
	}
	return fmt.Sprint(f) + "|" + js + "|" + fmt.Sprintf("%e", f) + "|" + es6
}

func enc(b *strings.Builder, v any) {
	switch t := v.(type) {
	case nil:
		b.WriteByte('n')
	case bool:
		if t {
			b.WriteByte('t')
		} else {
			b.WriteByte('f')
		}
	case int:
		fmt.Fprintf(b, "i%d;", t)
	case int64:
		fmt.Fprintf(b, "i%d;", t)
	case uint64:
		fmt.Fprintf(b, "i%d;", t)
	case float64:
		encStr(b, 'd', FloatLit(t))
	case time.Time:
		encStr(b, 'T', t.Format(time.RFC3339Nano))
	case string:
		encStr(b, 's', t)
	case []any:
		fmt.Fprintf(b, "l%d;", len(t))
		for _, e := range t {
			enc(b, e)
		}
	case []string:
		fmt.Fprintf(b, "l%d;", len(t))
		for _, e := range t {
			enc(b, e)
		}
	case *ordered.MapSA:
		if t == nil {
			b.WriteByte('n')
			return
		}
		fmt.Fprintf(b, "o%d;", t.Len())
		t.Range(func(k string, v any) error {
			encStr(b, 's', k)
			enc(b, v)
			return nil
		})
	case *ordered.MapSS:
		if t == nil {
			b.WriteByte('n')
			return
		}
		fmt.Fprintf(b, "o%d;", t.Len())
		t.Range(func(k string, v string) error {
			encStr(b, 's', k)
			enc(b, v)
			return nil
		})
	case OMap:
		fmt.Fprintf(b, "o%d;", len(t))
		for _, kv := range t {
			encStr(b, 's', kv.K)
			enc(b, kv.V)
		}
	case map[string]any:
		ks := sortedKeys(t)
		fmt.Fprintf(b, "u%d;", len(ks))
		for _, k := range ks {
			encStr(b, 's', k)
			enc(b, t[k])
		}
	case map[string]string:
		ks := sortedKeys(t)
		fmt.Fprintf(b, "u%d;", len(ks))
		for _, k := range ks {
			encStr(b, 's', k)
			enc(b, t[k])
		}
	case map[string][]string:
		ks := sortedKeys(t)
		fmt.Fprintf(b, "u%d;", len(ks))
		for _, k := range ks {
			encStr(b, 's', k)
			enc(b, t[k])
		}
	default:
		panic(fmt.Sprintf("vl.Enc: unsupported type %T", v))
	}
}

func sortedKeys[V any](m map[string]V) []string {
	ks := make([]string, 0, len(m))
	for k := range m {
		ks = append(ks, k)
	}
	sort.Strings(ks)
	return ks
}

// KV / OMap: a literal ordered mapping that may carry duplicate keys
// (used for harness-built requests and for decoded driver output).
type KV struct {
	K string
	V any
}
type OMap []KV

// UMap marks a decoded `u` mapping (sorted, unique keys).
type UMap []KV

// Float / Time are decoded opaque literals.
type Float string
type Time string

// Dec decodes one value from s, returning the rest.
func Dec(s string) (any, string, error) {
	if s == "" {
		return nil, "", fmt.Errorf("vl: empty input")
	}
	switch s[0] {
	case 'n':
		return nil, s[1:], nil
	case 't':
		return true, s[1:], nil
	case 'f':
		return false, s[1:], nil
	case 'i':
		i := strings.IndexByte(s, ';')
		if i < 0 {
			return nil, "", fmt.Errorf("vl: unterminated int")
		}
		n, err := strconv.Atoi(s[1:i])
		if err != nil {
			return nil, "", err
		}
		return n, s[i+1:], nil
	case 'd', 'T', 's':
		str, rest, err := decLenStr(s[1:])
		if err != nil {
			return nil, "", err
		}
		switch s[0] {
		case 'd':
			return Float(str), rest, nil
		case 'T':
			return Time(str), rest, nil
		}
		return str, rest, nil
	case 'l':
		n, rest, err := decCount(s[1:])
		if err != nil {
			return nil, "", err
		}
		out := make([]any, 0, n)
		for i := 0; i < n; i++ {
			var v any
			v, rest, err = Dec(rest)
			if err != nil {
				return nil, "", err
			}
			out = append(out, v)
		}
		return out, rest, nil
	case 'o', 'u':
		n, rest, err := decCount(s[1:])
		if err != nil {
			return nil, "", err
		}
		out := make([]KV, 0, n)
		for i := 0; i < n; i++ {
			if rest == "" || rest[0] != 's' {
				return nil, "", fmt.Errorf("vl: expected key")
			}
			var k string
			k, rest, err = decLenStr(rest[1:])
			if err != nil {
				return nil, "", err
			}
			var v any
			v, rest, err = Dec(rest)
			if err != nil {
				return nil, "", err
			}
			out = append(out, KV{k, v})
		}
		if s[0] == 'o' {
			return OMap(out), rest, nil
		}
		return UMap(out), rest, nil
	}
	return nil, "", fmt.Errorf("vl: bad tag %q", s[0])
}

func decCount(s string) (int, string, error) {
	i := strings.IndexByte(s, ';')
	if i < 0 {
		return 0, "", fmt.Errorf("vl: unterminated count")
	}
	n, err := strconv.Atoi(s[:i])
	return n, s[i+1:], err
}

func decLenStr(s string) (string, string, error) {
	i := strings.IndexByte(s, ':')
	if i < 0 {
		return "", "", fmt.Errorf("vl: missing ':'")
	}
	n, err := strconv.Atoi(s[:i])
	if err != nil {
		return "", "", err
	}
	s = s[i+1:]
	// n runes
	off := 0
	for j := 0; j < n; j++ {
		if off >= len(s) {
			return "", "", fmt.Errorf("vl: short string")
		}
		_, w := utf8.DecodeRuneInString(s[off:])
		off += w
	}
	return s[:off], s[off:], nil
}

// Escape makes a request/answer a single line.
func Escape(s string) string {
	if !strings.ContainsAny(s, "\n\r\\") {
		return s
	}
	var b strings.Builder
	for i := 0; i < len(s); i++ {
		switch s[i] {
		case '\n':
			b.WriteString(`\n`)
		case '\r':
			b.WriteString(`\r`)
		case '\\':
			b.WriteString(`\\`)
		default:
			b.WriteByte(s[i])
		}
	}
	return b.String()
}

// Unescape reverses Escape.
func Unescape(s string) string {
	if !strings.Contains(s, `\`) {
		return s
	}
	var b strings.Builder
	for i := 0; i < len(s); i++ {
		if s[i] == '\\' && i+1 < len(s) {
			i++
			switch s[i] {
			case 'n':
				b.WriteByte('\n')
			case 'r':
				b.WriteByte('\r')
			default:
				b.WriteByte(s[i])
			}
			continue
		}
		b.WriteByte(s[i])
	}
	return b.String()
}
