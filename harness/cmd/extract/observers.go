package main

import (
	"fmt"
	"go/ast"
	"go/token"
	"sort"
	"strings"
)

// genObservers: for the functions the library offers as observers (lookups, iteration, equality, marshalling,
// signing, verifying, validation), every statement that may write through the receiver or a parameter — an
// assignment, inc/dec or delete whose target is reached from one of them (directly or through a local alias:
// a selector, index, slice, dereference, type assertion, conversion or range value of something already
// reached), a call of a known in-place mutator (sort.*, slices.Sort*/Compact*/Reverse/Insert/Grow, maps.DeleteFunc,
// maps.Copy, clear, copy, append) on such a value, or a call of a mutating method of ordered.Map on it.
// A syntactic over-approximation of "writes into the observed object"; results of ordinary calls count as fresh.
// The Lean side (Props/C19.lean) checks that the list is empty and that every expected observer was found.
func genObservers(_ *pkg, repo string) ([]byte, error) {
	type target struct{ dir, pkgName string }
	targets := []target{{"/ordered", "ordered"}, {"", "pipeline"}, {"/signature", "signature"}, {"/jwkutil", "jwkutil"}}
	// function or method name -> observed (per package); methods are matched by name whatever the receiver
	observers := map[string]map[string]bool{
		"ordered":   {"Len": true, "IsZero": true, "Get": true, "Contains": true, "Range": true, "ToMap": true, "MarshalJSON": true, "MarshalYAML": true, "Equal": true, "ToMapRecursive": true},
		"pipeline":  {"MarshalJSON": true, "MarshalYAML": true, "FullSource": true, "ShouldSkip": true, "IsEmpty": true, "isSimple": true, "validatePermutation": true, "inlineFriendlyMarshalJSON": true},
		"signature": {"Sign": true, "Verify": true, "canonicalPayload": true, "SignedFields": true, "ValuesForFields": true, "apply": true, "configureOptions": true},
		"jwkutil":   {"Validate": true},
	}
	mutatingMethods := map[string]bool{"Set": true, "Replace": true, "Delete": true, "compact": true, "UnmarshalJSON": true, "UnmarshalYAML": true, "UnmarshalOrdered": true}
	mutatingFuncs := map[string]bool{"sort.Strings": true, "sort.Ints": true, "sort.Slice": true, "sort.SliceStable": true, "sort.Sort": true, "sort.Stable": true,
		"slices.Sort": true, "slices.SortFunc": true, "slices.SortStableFunc": true, "slices.Compact": true, "slices.CompactFunc": true, "slices.Reverse": true,
		"slices.Insert": true, "slices.Grow": true, "slices.Delete": true, "slices.DeleteFunc": true, "maps.DeleteFunc": true, "maps.Copy": true,
		"clear": true, "copy": true, "delete": true, "append": true}
	var found, writes []string
	for _, tg := range targets {
		p, err := load(repo + tg.dir)
		if err != nil {
			return nil, err
		}
		var files []string
		for name := range p.files {
			files = append(files, name)
		}
		sort.Strings(files)
		for _, fname := range files {
			for _, d := range p.files[fname].Decls {
				fd, ok := d.(*ast.FuncDecl)
				if !ok || fd.Body == nil || !observers[tg.pkgName][fd.Name.Name] {
					continue
				}
				label := tg.pkgName + "." + fd.Name.Name
				tainted := map[string]bool{}
				// a struct held by value is the callee's own copy: assigning one of its fields writes nothing the
				// caller can see (an element reached through an index or a dereference still does)
				byValue := map[string]bool{}
				isValueType := func(e ast.Expr) bool {
					switch e.(type) {
					case *ast.Ident, *ast.SelectorExpr, *ast.IndexExpr, *ast.IndexListExpr:
						return true
					}
					return false
				}
				// the option plumbing fills in its own options struct: only element writes count there
				optionPlumbing := fd.Name.Name == "apply" || fd.Name.Name == "configureOptions"
				if fd.Recv != nil {
					for _, f := range fd.Recv.List {
						for _, n := range f.Names {
							tainted[n.Name] = true
							byValue[n.Name] = isValueType(f.Type)
						}
						label = tg.pkgName + "." + recvName(f.Type) + "." + fd.Name.Name
					}
				}
				for _, f := range fd.Type.Params.List {
					for _, n := range f.Names {
						// a callback parameter is called, not written through; context and option lists are not the observed object
						if _, isFunc := f.Type.(*ast.FuncType); isFunc {
							continue
						}
						if n.Name == "ctx" || (n.Name == "opts" && !optionPlumbing) {
							continue
						}
						tainted[n.Name] = true
						byValue[n.Name] = isValueType(f.Type)
					}
				}
				found = append(found, label)
				var root func(e ast.Expr) (string, bool)
				root = func(e ast.Expr) (string, bool) {
					switch x := e.(type) {
					case *ast.Ident:
						return x.Name, tainted[x.Name]
					case *ast.SelectorExpr:
						return root(x.X)
					case *ast.IndexExpr:
						return root(x.X)
					case *ast.SliceExpr:
						return root(x.X)
					case *ast.StarExpr:
						return root(x.X)
					case *ast.ParenExpr:
						return root(x.X)
					case *ast.TypeAssertExpr:
						return root(x.X)
					case *ast.UnaryExpr:
						if x.Op == token.AND {
							return root(x.X)
						}
					case *ast.CallExpr:
						// a conversion T(x) keeps the alias; an ordinary call returns something fresh
						if len(x.Args) == 1 {
							switch x.Fun.(type) {
							case *ast.MapType, *ast.ArrayType, *ast.ParenExpr:
								return root(x.Args[0])
							case *ast.Ident:
								if fn := x.Fun.(*ast.Ident).Name; len(fn) > 0 && fn[0] >= 'A' && fn[0] <= 'Z' && !strings.HasPrefix(fn, "New") {
									return root(x.Args[0]) // a named type of this package used as a conversion
								}
							}
						}
					}
					return "", false
				}
				for pass := 0; pass < 3; pass++ {
					ast.Inspect(fd.Body, func(n ast.Node) bool {
						switch s := n.(type) {
						case *ast.AssignStmt:
							for i, lhs := range s.Lhs {
								if id, ok := lhs.(*ast.Ident); ok && i < len(s.Rhs) && len(s.Lhs) == len(s.Rhs) {
									if _, t := root(s.Rhs[i]); t {
										tainted[id.Name] = true
									}
								}
							}
						case *ast.RangeStmt:
							if _, t := root(s.X); t {
								if id, ok := s.Value.(*ast.Ident); ok && id.Name != "_" {
									tainted[id.Name] = true
								}
							}
						case *ast.TypeSwitchStmt:
							if as, ok := s.Assign.(*ast.AssignStmt); ok && len(as.Lhs) == 1 && len(as.Rhs) == 1 {
								if id, ok := as.Lhs[0].(*ast.Ident); ok {
									if _, t := root(as.Rhs[0]); t {
										tainted[id.Name] = true
									}
								}
							}
						}
						return true
					})
				}
				// does the path from the root to the written place pass an index or a dereference?
				var indirect func(e ast.Expr) bool
				indirect = func(e ast.Expr) bool {
					switch x := e.(type) {
					case *ast.SelectorExpr:
						return indirect(x.X)
					case *ast.ParenExpr:
						return indirect(x.X)
					case *ast.IndexExpr, *ast.StarExpr, *ast.SliceExpr:
						return true
					}
					return false
				}
				ownCopy := func(lhs ast.Expr, r string) bool {
					return (byValue[r] || optionPlumbing) && !indirect(lhs)
				}
				pos := func(n ast.Node) string { return fmt.Sprintf("%s:%d", fname, p.fset.Position(n.Pos()).Line) }
				ast.Inspect(fd.Body, func(n ast.Node) bool {
					switch s := n.(type) {
					case *ast.AssignStmt:
						for _, lhs := range s.Lhs {
							if _, isIdent := lhs.(*ast.Ident); isIdent {
								continue
							}
							if r, t := root(lhs); t && !ownCopy(lhs, r) {
								writes = append(writes, label+": assignment through "+r+" at "+pos(s))
							}
						}
					case *ast.IncDecStmt:
						if _, isIdent := s.X.(*ast.Ident); !isIdent {
							if r, t := root(s.X); t && !ownCopy(s.X, r) {
								writes = append(writes, label+": inc/dec through "+r+" at "+pos(s))
							}
						}
					case *ast.CallExpr:
						name := ""
						switch f := s.Fun.(type) {
						case *ast.Ident:
							name = f.Name
						case *ast.SelectorExpr:
							if x, ok := f.X.(*ast.Ident); ok {
								name = x.Name + "." + f.Sel.Name
								if tainted[x.Name] && mutatingMethods[f.Sel.Name] {
									writes = append(writes, label+": mutating method "+f.Sel.Name+" on "+x.Name+" at "+pos(s))
								}
							} else if r, t := root(f.X); t && mutatingMethods[f.Sel.Name] {
								writes = append(writes, label+": mutating method "+f.Sel.Name+" through "+r+" at "+pos(s))
							}
						}
						if mutatingFuncs[name] && len(s.Args) > 0 {
							if r, t := root(s.Args[0]); t {
								writes = append(writes, label+": "+name+" on a value reached from "+r+" at "+pos(s))
							}
						}
					}
					return true
				})
			}
		}
	}
	sort.Strings(found)
	sort.Strings(writes)
	var b strings.Builder
	b.WriteString("/- GENERATED by harness/cmd/extract from the observer functions of the module — do not edit. -/\n")
	b.WriteString("namespace GoPipeline.Gen\n\n")
	b.WriteString("/-- observer functions found (package.Receiver.Name) -/\n")
	b.WriteString("def observersFound : List String := " + leanStrList(found) + "\n\n")
	b.WriteString("/-- statements in them that may write through the receiver or a parameter -/\n")
	b.WriteString("def observerWrites : List String := " + leanStrList(writes) + "\n\nend GoPipeline.Gen\n")
	return []byte(b.String()), nil
}

func recvName(e ast.Expr) string {
	switch x := e.(type) {
	case *ast.StarExpr:
		return recvName(x.X)
	case *ast.IndexExpr:
		return recvName(x.X)
	case *ast.IndexListExpr:
		return recvName(x.X)
	case *ast.Ident:
		return x.Name
	}
	return "?"
}
