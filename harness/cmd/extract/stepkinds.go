package main

import (
	"fmt"
	"go/ast"
	"go/token"
	"strings"
)

// kindOfResult maps the expression returned by a case body to a step kind name.
// Accepted: new(T), &T{...}, T{...}; nil => the case is the failure/default branch.
func kindOfResult(e ast.Expr) (string, bool) {
	tname := ""
	switch x := e.(type) {
	case *ast.CallExpr:
		if id, ok := x.Fun.(*ast.Ident); ok && id.Name == "new" && len(x.Args) == 1 {
			if t, ok := x.Args[0].(*ast.Ident); ok {
				tname = t.Name
			}
		}
	case *ast.UnaryExpr:
		if x.Op == token.AND {
			if cl, ok := x.X.(*ast.CompositeLit); ok {
				if t, ok := cl.Type.(*ast.Ident); ok {
					tname = t.Name
				}
			}
		}
	case *ast.CompositeLit:
		if t, ok := x.Type.(*ast.Ident); ok {
			tname = t.Name
		}
	case *ast.Ident:
		if x.Name == "nil" {
			return "", true
		}
	}
	switch tname {
	case "CommandStep":
		return "command", true
	case "WaitStep":
		return "wait", true
	case "InputStep":
		return "input", true
	case "TriggerStep":
		return "trigger", true
	case "GroupStep":
		return "group", true
	case "UnknownStep":
		return "unknown", true
	}
	return "", false
}

func firstReturn(body []ast.Stmt) *ast.ReturnStmt {
	for _, s := range body {
		if r, ok := s.(*ast.ReturnStmt); ok {
			return r
		}
	}
	return nil
}

// sentinelIn finds which sentinel error identifier a default branch mentions.
func sentinelIn(n ast.Node) string {
	found := ""
	ast.Inspect(n, func(x ast.Node) bool {
		if id, ok := x.(*ast.Ident); ok && (id.Name == "ErrUnknownStepType" || id.Name == "ErrStepTypeInference") {
			found = id.Name
		}
		return true
	})
	return found
}

// stringSwitchTable reads `switch <ident> { case "a","b": return X ... default: ... }`.
func stringSwitchTable(fd *ast.FuncDecl) (rows [][2]any, sentinel string, ok bool) {
	if fd == nil || fd.Body == nil {
		return nil, "", false
	}
	var sw *ast.SwitchStmt
	for _, s := range fd.Body.List {
		if x, isSw := s.(*ast.SwitchStmt); isSw && x.Tag != nil {
			sw = x
		}
	}
	if sw == nil {
		return nil, "", false
	}
	for _, c := range sw.Body.List {
		cc := c.(*ast.CaseClause)
		ret := firstReturn(cc.Body)
		if ret == nil || len(ret.Results) == 0 {
			return nil, "", false
		}
		if cc.List == nil {
			sentinel = sentinelIn(cc)
			continue
		}
		var keys []string
		for _, e := range cc.List {
			s, isStr := strLit(e)
			if !isStr {
				return nil, "", false
			}
			keys = append(keys, s)
		}
		k, good := kindOfResult(ret.Results[0])
		if !good || k == "" {
			return nil, "", false
		}
		rows = append(rows, [2]any{keys, k})
	}
	return rows, sentinel, true
}

// containsChain reads `o.Contains("a") || o.Contains("b") ...` into its keys.
func containsChain(e ast.Expr) ([]string, bool) {
	switch x := e.(type) {
	case *ast.ParenExpr:
		return containsChain(x.X)
	case *ast.BinaryExpr:
		if x.Op != token.LOR {
			return nil, false
		}
		l, ok1 := containsChain(x.X)
		r, ok2 := containsChain(x.Y)
		return append(l, r...), ok1 && ok2
	case *ast.CallExpr:
		sel, ok := x.Fun.(*ast.SelectorExpr)
		if !ok || sel.Sel.Name != "Contains" || len(x.Args) != 1 {
			return nil, false
		}
		s, ok := strLit(x.Args[0])
		return []string{s}, ok
	}
	return nil, false
}

// inferenceTable reads the tagless switch (or if-chain) of stepByKeyInference.
func inferenceTable(fd *ast.FuncDecl) (rows [][2]any, sentinel string, ok bool) {
	if fd == nil || fd.Body == nil {
		return nil, "", false
	}
	for _, s := range fd.Body.List {
		switch x := s.(type) {
		case *ast.SwitchStmt:
			if x.Tag != nil {
				return nil, "", false
			}
			for _, c := range x.Body.List {
				cc := c.(*ast.CaseClause)
				if cc.List == nil {
					sentinel = sentinelIn(cc)
					continue
				}
				if len(cc.List) != 1 {
					return nil, "", false
				}
				keys, good := containsChain(cc.List[0])
				ret := firstReturn(cc.Body)
				if !good || ret == nil || len(ret.Results) == 0 {
					return nil, "", false
				}
				k, good := kindOfResult(ret.Results[0])
				if !good || k == "" {
					return nil, "", false
				}
				rows = append(rows, [2]any{keys, k})
			}
		case *ast.IfStmt:
			// if-chain form: if cond { return X } [else if ...]
			for cur := x; cur != nil; {
				keys, good := containsChain(cur.Cond)
				ret := firstReturn(cur.Body.List)
				if !good || ret == nil || len(ret.Results) == 0 {
					return nil, "", false
				}
				k, good := kindOfResult(ret.Results[0])
				if !good || k == "" {
					return nil, "", false
				}
				rows = append(rows, [2]any{keys, k})
				next, isIf := cur.Else.(*ast.IfStmt)
				if !isIf {
					if cur.Else != nil {
						sentinel = sentinelIn(cur.Else)
					}
					break
				}
				cur = next
			}
		case *ast.ReturnStmt:
			if s := sentinelIn(x); s != "" {
				sentinel = s
			}
		}
	}
	return rows, sentinel, len(rows) > 0
}

func leanRows(rows [][2]any) string {
	var parts []string
	for _, r := range rows {
		parts = append(parts, fmt.Sprintf("(%s, Kind.%s)", leanStrList(r[0].([]string)), r[1].(string)))
	}
	return "[" + strings.Join(parts, ",\n   ") + "]"
}

func genStepKinds(p *pkg, _ string) ([]byte, error) {
	typeRows, typeSent, ok1 := stringSwitchTable(p.funcDecl("stepByType"))
	inferRows, inferSent, ok2 := inferenceTable(p.funcDecl("stepByKeyInference"))
	scalarRows, scalarSent, ok3 := stringSwitchTable(p.funcDecl("NewScalarStep"))
	var b strings.Builder
	b.WriteString("/- GENERATED by harness/cmd/extract from steps.go and step_scalar.go — do not edit. -/\n")
	b.WriteString("import GoPipeline.Model.StepKind\nnamespace GoPipeline.Gen\nopen GoPipeline.StepKind\n\n")
	fmt.Fprintf(&b, "/-- `stepByType`: switch on the `type` string, cases in source order. -/\ndef typeTable : List (List String × Kind) :=\n  %s\n\n", leanRows(typeRows))
	fmt.Fprintf(&b, "def typeSentinel : String := %s\n\n", leanStr(typeSent))
	fmt.Fprintf(&b, "/-- `stepByKeyInference`: first case whose `o.Contains(..) || ..` chain holds, in source order. -/\ndef inferTable : List (List String × Kind) :=\n  %s\n\n", leanRows(inferRows))
	fmt.Fprintf(&b, "def inferSentinel : String := %s\n\n", leanStr(inferSent))
	fmt.Fprintf(&b, "/-- `NewScalarStep`. -/\ndef scalarTable : List (List String × Kind) :=\n  %s\n\n", leanRows(scalarRows))
	fmt.Fprintf(&b, "def scalarSentinel : String := %s\n\n", leanStr(scalarSent))
	fmt.Fprintf(&b, "def stepKindsRecognised : Bool := %v\n\nend GoPipeline.Gen\n", ok1 && ok2 && ok3)
	return []byte(b.String()), nil
}
