// extract: fact translators (DESIGN §4.1). Re-reads /repo's current source with
// go/parser and regenerates lean/GoPipeline/Gen/*.lean. A shape it cannot read
// yields `recognised := false`, which falsifies the first obligation of the
// property that uses the table.
package main

import (
	"bytes"
	"flag"
	"fmt"
	"go/ast"
	"go/parser"
	"go/token"
	"os"
	"path/filepath"
	"strconv"
	"strings"
)

type pkg struct {
	fset  *token.FileSet
	files map[string]*ast.File
}

func load(dir string) (*pkg, error) {
	fset := token.NewFileSet()
	pkgs, err := parser.ParseDir(fset, dir, func(fi os.FileInfo) bool {
		return !strings.HasSuffix(fi.Name(), "_test.go") && !strings.HasPrefix(fi.Name(), "verif_")
	}, parser.ParseComments)
	if err != nil {
		return nil, err
	}
	p := &pkg{fset: fset, files: map[string]*ast.File{}}
	for _, pk := range pkgs {
		for name, f := range pk.Files {
			p.files[filepath.Base(name)] = f
		}
	}
	return p, nil
}

func (p *pkg) funcDecl(name string) *ast.FuncDecl {
	for _, f := range p.files {
		for _, d := range f.Decls {
			if fd, ok := d.(*ast.FuncDecl); ok && fd.Name.Name == name && fd.Recv == nil {
				return fd
			}
		}
	}
	return nil
}

func (p *pkg) method(recv, name string) *ast.FuncDecl {
	for _, f := range p.files {
		for _, d := range f.Decls {
			fd, ok := d.(*ast.FuncDecl)
			if !ok || fd.Name.Name != name || fd.Recv == nil || len(fd.Recv.List) != 1 {
				continue
			}
			t := fd.Recv.List[0].Type
			if st, ok := t.(*ast.StarExpr); ok {
				t = st.X
			}
			if ix, ok := t.(*ast.IndexListExpr); ok {
				t = ix.X
			}
			if id, ok := t.(*ast.Ident); ok && id.Name == recv {
				return fd
			}
		}
	}
	return nil
}

func strLit(e ast.Expr) (string, bool) {
	bl, ok := e.(*ast.BasicLit)
	if !ok || bl.Kind != token.STRING {
		return "", false
	}
	s, err := strconv.Unquote(bl.Value)
	return s, err == nil
}

func leanStr(s string) string {
	var b strings.Builder
	b.WriteByte('"')
	for _, r := range s {
		switch r {
		case '"':
			b.WriteString(`\"`)
		case '\\':
			b.WriteString(`\\`)
		case '\n':
			b.WriteString(`\n`)
		case '\t':
			b.WriteString(`\t`)
		default:
			b.WriteRune(r)
		}
	}
	b.WriteByte('"')
	return b.String()
}

func leanStrList(ss []string) string {
	q := make([]string, len(ss))
	for i, s := range ss {
		q[i] = leanStr(s)
	}
	return "[" + strings.Join(q, ", ") + "]"
}

// writeIfChanged keeps mtimes stable so an unchanged tree causes no Lean rebuild.
func writeIfChanged(path string, content []byte) error {
	old, err := os.ReadFile(path)
	if err == nil && bytes.Equal(old, content) {
		return nil
	}
	return os.WriteFile(path, content, 0o644)
}

func main() {
	repo := flag.String("repo", "/repo", "repository root")
	out := flag.String("out", "", "output directory (lean/GoPipeline/Gen)")
	flag.Parse()
	root, err := load(*repo)
	if err != nil {
		fmt.Fprintln(os.Stderr, err)
		os.Exit(1)
	}
	os.MkdirAll(*out, 0o755)
	gens := []struct {
		name string
		f    func(*pkg, string) ([]byte, error)
	}{
		{"StepKinds.lean", genStepKinds},
		{"MatrixRE.lean", genMatrixRE},
		{"Jwk.lean", genJwk},
		{"Structs.lean", genStructs},
		{"InterpVisits.lean", genInterpVisits},
		{"Signing.lean", genSigning},
		{"Globals.lean", genGlobals},
		{"Methods.lean", genMethods},
		{"Observers.lean", genObservers},
	}
	for _, g := range gens {
		b, err := g.f(root, *repo)
		if err != nil {
			fmt.Fprintf(os.Stderr, "extract %s: %v\n", g.name, err)
			os.Exit(1)
		}
		if err := writeIfChanged(filepath.Join(*out, g.name), b); err != nil {
			fmt.Fprintln(os.Stderr, err)
			os.Exit(1)
		}
	}
	fmt.Println("extract: ok")
}
