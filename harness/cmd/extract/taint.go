//go:build verif

package main

// Taint run (DESIGN §4.1, Gen/Interp): measure on the compiled code which string positions each
// `interpolate` method hands to the transformer, and how often, per transformer kind.
// A position holds a marker whose n-th expansion is distinguishable:
//   env:    "$$$$V" -> "$$V" -> "$V" -> "3+"
//   matrix: "{{matrix.a}}" -> "{{matrix.b}}" -> "{{matrix.c}}" -> "3+"

import (
	"fmt"
	"strings"

	pipeline "github.com/buildkite/go-pipeline"
	"github.com/buildkite/go-pipeline/ordered"
)

type tEnv map[string]string

func (m tEnv) Get(k string) (string, bool) { v, ok := m[k]; return v, ok }
func (m tEnv) Set(k, v string)             { m[k] = v }

const (
	envMarker    = "$$$$V"
	matrixMarker = "{{matrix.a}}"
)

func visitsOf(kind int, s string) int {
	if kind == 0 {
		switch s {
		case "$$$$V":
			return 0
		case "$$V":
			return 1
		case "$V":
			return 2
		}
		return 3
	}
	switch s {
	case "{{matrix.a}}":
		return 0
	case "{{matrix.b}}":
		return 1
	case "{{matrix.c}}":
		return 2
	}
	return 3
}

// onlyKey returns the single key of a map.
func onlyKey[V any](m map[string]V) string {
	for k := range m {
		return k
	}
	return "<none>"
}

type taintRow struct {
	typ, pos string
	// build returns the object to interpolate (a Step, or *Pipeline) and a reader of the position afterwards
	build func(marker string) (any, func() string)
}

func cmdRow(pos string, set func(c *pipeline.CommandStep, m string) func() string) taintRow {
	return taintRow{"CommandStep", pos, func(m string) (any, func() string) {
		c := &pipeline.CommandStep{Command: "plain"}
		return c, set(c, m)
	}}
}

func mapRows(typ, prefix string, mk func(contents map[string]any) pipeline.Step) []taintRow {
	return []taintRow{
		{typ, prefix + ".key", func(m string) (any, func() string) {
			mm := map[string]any{m: "v"}
			return mk(mm), func() string { return onlyKey(mm) }
		}},
		{typ, prefix + ".value", func(m string) (any, func() string) {
			mm := map[string]any{"k": m}
			return mk(mm), func() string { return fmt.Sprint(mm["k"]) }
		}},
	}
}

func taintRows() []taintRow {
	rows := []taintRow{
		cmdRow("Command", func(c *pipeline.CommandStep, m string) func() string {
			c.Command = m
			return func() string { return c.Command }
		}),
		cmdRow("Label", func(c *pipeline.CommandStep, m string) func() string {
			c.Label = m
			return func() string { return c.Label }
		}),
		cmdRow("Key", func(c *pipeline.CommandStep, m string) func() string {
			c.Key = m
			return func() string { return c.Key }
		}),
		cmdRow("Plugins.Source", func(c *pipeline.CommandStep, m string) func() string {
			p := &pipeline.Plugin{Source: m}
			c.Plugins = pipeline.Plugins{p}
			return func() string { return p.Source }
		}),
		cmdRow("Plugins.Config.key", func(c *pipeline.CommandStep, m string) func() string {
			p := &pipeline.Plugin{Source: "s", Config: map[string]any{m: 1}}
			c.Plugins = pipeline.Plugins{p}
			return func() string { return onlyKey(p.Config.(map[string]any)) }
		}),
		cmdRow("Plugins.Config.value", func(c *pipeline.CommandStep, m string) func() string {
			p := &pipeline.Plugin{Source: "s", Config: map[string]any{"k": []any{m}}}
			c.Plugins = pipeline.Plugins{p}
			return func() string { return fmt.Sprint(p.Config.(map[string]any)["k"].([]any)[0]) }
		}),
		cmdRow("Env.key", func(c *pipeline.CommandStep, m string) func() string {
			c.Env = map[string]string{m: "v"}
			return func() string { return onlyKey(c.Env) }
		}),
		cmdRow("Env.value", func(c *pipeline.CommandStep, m string) func() string {
			c.Env = map[string]string{"k": m}
			return func() string { return c.Env["k"] }
		}),
		cmdRow("Signature.Algorithm", func(c *pipeline.CommandStep, m string) func() string {
			c.Signature = &pipeline.Signature{Algorithm: m}
			return func() string { return c.Signature.Algorithm }
		}),
		cmdRow("Signature.SignedFields", func(c *pipeline.CommandStep, m string) func() string {
			c.Signature = &pipeline.Signature{SignedFields: []string{m}}
			return func() string { return c.Signature.SignedFields[0] }
		}),
		cmdRow("Signature.Value", func(c *pipeline.CommandStep, m string) func() string {
			c.Signature = &pipeline.Signature{Value: m}
			return func() string { return c.Signature.Value }
		}),
		cmdRow("Matrix.Setup.key", func(c *pipeline.CommandStep, m string) func() string {
			c.Matrix = &pipeline.Matrix{Setup: pipeline.MatrixSetup{m: {"v"}}}
			return func() string { return onlyKey(c.Matrix.Setup) }
		}),
		cmdRow("Matrix.Setup.value", func(c *pipeline.CommandStep, m string) func() string {
			c.Matrix = &pipeline.Matrix{Setup: pipeline.MatrixSetup{"d": {m}}}
			return func() string { return c.Matrix.Setup["d"][0] }
		}),
		cmdRow("Matrix.Adjustments.With.key", func(c *pipeline.CommandStep, m string) func() string {
			a := &pipeline.MatrixAdjustment{With: pipeline.MatrixAdjustmentWith{m: "v"}}
			c.Matrix = &pipeline.Matrix{Adjustments: pipeline.MatrixAdjustments{a}}
			return func() string { return onlyKey(a.With) }
		}),
		cmdRow("Matrix.Adjustments.With.value", func(c *pipeline.CommandStep, m string) func() string {
			a := &pipeline.MatrixAdjustment{With: pipeline.MatrixAdjustmentWith{"d": m}}
			c.Matrix = &pipeline.Matrix{Adjustments: pipeline.MatrixAdjustments{a}}
			return func() string { return a.With["d"] }
		}),
		cmdRow("Matrix.Adjustments.Skip", func(c *pipeline.CommandStep, m string) func() string {
			a := &pipeline.MatrixAdjustment{Skip: m}
			c.Matrix = &pipeline.Matrix{Adjustments: pipeline.MatrixAdjustments{a}}
			return func() string { return fmt.Sprint(a.Skip) }
		}),
		cmdRow("Matrix.Adjustments.RemainingFields.key", func(c *pipeline.CommandStep, m string) func() string {
			a := &pipeline.MatrixAdjustment{RemainingFields: map[string]any{m: 1}}
			c.Matrix = &pipeline.Matrix{Adjustments: pipeline.MatrixAdjustments{a}}
			return func() string { return onlyKey(a.RemainingFields) }
		}),
		cmdRow("Matrix.Adjustments.RemainingFields.value", func(c *pipeline.CommandStep, m string) func() string {
			a := &pipeline.MatrixAdjustment{RemainingFields: map[string]any{"k": m}}
			c.Matrix = &pipeline.Matrix{Adjustments: pipeline.MatrixAdjustments{a}}
			return func() string { return fmt.Sprint(a.RemainingFields["k"]) }
		}),
		cmdRow("Matrix.RemainingFields.key", func(c *pipeline.CommandStep, m string) func() string {
			c.Matrix = &pipeline.Matrix{RemainingFields: map[string]any{m: 1}}
			return func() string { return onlyKey(c.Matrix.RemainingFields) }
		}),
		cmdRow("Matrix.RemainingFields.value", func(c *pipeline.CommandStep, m string) func() string {
			c.Matrix = &pipeline.Matrix{RemainingFields: map[string]any{"k": m}}
			return func() string { return fmt.Sprint(c.Matrix.RemainingFields["k"]) }
		}),
		cmdRow("Cache.Name", func(c *pipeline.CommandStep, m string) func() string {
			c.Cache = &pipeline.Cache{Name: m}
			return func() string { return c.Cache.Name }
		}),
		cmdRow("Cache.Paths", func(c *pipeline.CommandStep, m string) func() string {
			c.Cache = &pipeline.Cache{Paths: []string{m}}
			return func() string { return c.Cache.Paths[0] }
		}),
		cmdRow("Cache.Size", func(c *pipeline.CommandStep, m string) func() string {
			c.Cache = &pipeline.Cache{Size: m}
			return func() string { return c.Cache.Size }
		}),
		cmdRow("Cache.RemainingFields.key", func(c *pipeline.CommandStep, m string) func() string {
			c.Cache = &pipeline.Cache{RemainingFields: map[string]any{m: 1}}
			return func() string { return onlyKey(c.Cache.RemainingFields) }
		}),
		cmdRow("Cache.RemainingFields.value", func(c *pipeline.CommandStep, m string) func() string {
			c.Cache = &pipeline.Cache{RemainingFields: map[string]any{"k": m}}
			return func() string { return fmt.Sprint(c.Cache.RemainingFields["k"]) }
		}),
		cmdRow("RemainingFields.key", func(c *pipeline.CommandStep, m string) func() string {
			c.RemainingFields = map[string]any{m: 1}
			return func() string { return onlyKey(c.RemainingFields) }
		}),
		cmdRow("RemainingFields.value", func(c *pipeline.CommandStep, m string) func() string {
			c.RemainingFields = map[string]any{"k": m}
			return func() string { return fmt.Sprint(c.RemainingFields["k"]) }
		}),
		cmdRow("RemainingFields.nested-omap.key", func(c *pipeline.CommandStep, m string) func() string {
			om := ordered.MapFromItems(ordered.TupleSA{Key: m, Value: 1})
			c.RemainingFields = map[string]any{"k": om}
			return func() string {
				k := "<none>"
				om.Range(func(kk string, _ any) error { k = kk; return nil })
				return k
			}
		}),
		cmdRow("RemainingFields.nested-omap.value", func(c *pipeline.CommandStep, m string) func() string {
			om := ordered.MapFromItems(ordered.TupleSA{Key: "x", Value: m})
			c.RemainingFields = map[string]any{"k": om}
			return func() string { v, _ := om.Get("x"); return fmt.Sprint(v) }
		}),
		cmdRow("RemainingFields.nested-seq", func(c *pipeline.CommandStep, m string) func() string {
			l := []any{[]any{m}}
			c.RemainingFields = map[string]any{"k": l}
			return func() string { return fmt.Sprint(l[0].([]any)[0]) }
		}),
		{"GroupStep", "Key", func(m string) (any, func() string) {
			g := &pipeline.GroupStep{Key: m}
			return g, func() string { return g.Key }
		}},
		{"GroupStep", "Group", func(m string) (any, func() string) {
			s := m
			g := &pipeline.GroupStep{Group: &s}
			return g, func() string { return *g.Group }
		}},
		{"GroupStep", "Steps.Command", func(m string) (any, func() string) {
			c := &pipeline.CommandStep{Command: m}
			g := &pipeline.GroupStep{Steps: pipeline.Steps{c}}
			return g, func() string { return c.Command }
		}},
	}
	rows = append(rows, mapRows("GroupStep", "RemainingFields", func(mm map[string]any) pipeline.Step { return &pipeline.GroupStep{RemainingFields: mm} })...)
	rows = append(rows, taintRow{"WaitStep", "Scalar", func(m string) (any, func() string) {
		w := &pipeline.WaitStep{Scalar: m}
		return w, func() string { return w.Scalar }
	}})
	rows = append(rows, mapRows("WaitStep", "Contents", func(mm map[string]any) pipeline.Step { return &pipeline.WaitStep{Contents: mm} })...)
	rows = append(rows, taintRow{"InputStep", "Scalar", func(m string) (any, func() string) {
		w := &pipeline.InputStep{Scalar: m}
		return w, func() string { return w.Scalar }
	}})
	rows = append(rows, mapRows("InputStep", "Contents", func(mm map[string]any) pipeline.Step { return &pipeline.InputStep{Contents: mm} })...)
	rows = append(rows, mapRows("TriggerStep", "Contents", func(mm map[string]any) pipeline.Step { return &pipeline.TriggerStep{Contents: mm} })...)
	rows = append(rows,
		taintRow{"UnknownStep", "Contents.key", func(m string) (any, func() string) {
			om := ordered.MapFromItems(ordered.TupleSA{Key: m, Value: 1})
			u := &pipeline.UnknownStep{Contents: om}
			return u, func() string {
				k := "<none>"
				u.Contents.(*ordered.MapSA).Range(func(kk string, _ any) error { k = kk; return nil })
				return k
			}
		}},
		taintRow{"UnknownStep", "Contents.value", func(m string) (any, func() string) {
			om := ordered.MapFromItems(ordered.TupleSA{Key: "x", Value: []any{m}})
			u := &pipeline.UnknownStep{Contents: om}
			return u, func() string {
				v, _ := u.Contents.(*ordered.MapSA).Get("x")
				return fmt.Sprint(v.([]any)[0])
			}
		}},
		taintRow{"UnknownStep", "Contents.scalar", func(m string) (any, func() string) {
			u := &pipeline.UnknownStep{Contents: m}
			return u, func() string { return fmt.Sprint(u.Contents) }
		}},
		taintRow{"Pipeline", "Steps.Command", func(m string) (any, func() string) {
			c := &pipeline.CommandStep{Command: m}
			p := &pipeline.Pipeline{Steps: pipeline.Steps{c}}
			return p, func() string { return c.Command }
		}},
		taintRow{"Pipeline", "RemainingFields.key", func(m string) (any, func() string) {
			p := &pipeline.Pipeline{Steps: pipeline.Steps{}, RemainingFields: map[string]any{m: 1}}
			return p, func() string { return onlyKey(p.RemainingFields) }
		}},
		taintRow{"Pipeline", "RemainingFields.value", func(m string) (any, func() string) {
			p := &pipeline.Pipeline{Steps: pipeline.Steps{}, RemainingFields: map[string]any{"k": m}}
			return p, func() string { return fmt.Sprint(p.RemainingFields["k"]) }
		}},
	)
	return rows
}

func genInterpVisits(_ *pkg, _ string) ([]byte, error) {
	env := tEnv{"V": "3+"}
	perm := pipeline.MatrixPermutation{"a": "{{matrix.b}}", "b": "{{matrix.c}}", "c": "3+"}
	var b strings.Builder
	b.WriteString("/- GENERATED by harness/cmd/extract (taint run of the compiled interpolate methods) — do not edit. -/\nnamespace GoPipeline.Gen\n\n")
	b.WriteString("/-- (type, position, visits under the env transformer, visits under the matrix transformer) -/\ndef interpVisits : List (String × String × Nat × Nat) :=\n  [ ")
	var parts []string
	for _, row := range taintRows() {
		counts := [2]int{}
		for kind := 0; kind < 2; kind++ {
			marker := envMarker
			if kind == 1 {
				marker = matrixMarker
			}
			obj, read := row.build(marker)
			var err error
			func() {
				defer func() {
					if r := recover(); r != nil {
						err = fmt.Errorf("panic: %v", r)
					}
				}()
				switch o := obj.(type) {
				case *pipeline.Pipeline:
					if kind == 0 {
						err = o.Interpolate(env, false)
					}
				case pipeline.Step:
					if kind == 0 {
						err = pipeline.VerifInterpolateStep(pipeline.VerifEnvTransformer(env), o)
					} else {
						err = pipeline.VerifInterpolateStep(pipeline.VerifMatrixTransformer(perm), o)
					}
				}
			}()
			if err != nil {
				return nil, fmt.Errorf("taint run %s.%s kind %d: %v", row.typ, row.pos, kind, err)
			}
			counts[kind] = visitsOf(kind, read())
		}
		parts = append(parts, fmt.Sprintf("(%s, %s, %d, %d)", leanStr(row.typ), leanStr(row.pos), counts[0], counts[1]))
	}
	b.WriteString(strings.Join(parts, ",\n    "))
	b.WriteString(" ]\n\nend GoPipeline.Gen\n")
	return []byte(b.String()), nil
}
