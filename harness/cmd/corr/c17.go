package main

// C17 — Plugin.FullSource vs the Lean model; documented expansions and idempotence as direct oracles.

import (
	"encoding/json"
	"strings"
	"unicode/utf8"

	pipeline "github.com/buildkite/go-pipeline"

	"verifharness/core"
	"verifharness/vl"
)

func init() { checks["C17"] = runC17 }

func fullSource(s string) (string, bool) {
	var out string
	pn, _ := guard(func() { out = (&pipeline.Plugin{Source: s}).FullSource() })
	return out, !pn
}

const c17NameChars = "abcXYZ019._-"

func randName(r *core.Rand, allowLeadingDot bool) string {
	n := 1 + r.Intn(6)
	if r.Intn(25) == 0 {
		n = 60 + r.Intn(120) // long names (ticket-style branch and repository names): no length is special
	}
	var b strings.Builder
	for i := 0; i < n; i++ {
		ch := c17NameChars[r.Intn(len(c17NameChars))]
		if i == 0 && ch == '.' && !allowLeadingDot {
			ch = 'p'
		}
		b.WriteByte(ch)
	}
	// names that already end in (or contain, or equal the org of) the suffix the rule appends: the rule is
	// unconditional, and where the suffix goes is fixed by position, not by text search
	switch r.Intn(12) {
	case 0:
		return b.String() + "-buildkite-plugin"
	case 1:
		return "acme"
	}
	return b.String()
}

func randRef(r *core.Rand) string {
	k := 1 + r.Intn(3)
	var parts []string
	for i := 0; i < k; i++ {
		p := randName(r, true)
		if p == "." || p == ".." {
			p = "v" + p
		}
		parts = append(parts, p)
	}
	return strings.Join(parts, "/")
}

func inDom(s string) bool {
	for _, c := range s {
		ok := (c >= 'a' && c <= 'z') || (c >= 'A' && c <= 'Z') || (c >= '0' && c <= '9') || strings.ContainsRune("._-/#:@\\", c)
		if !ok {
			return false
		}
	}
	_, frag, _ := strings.Cut(s, "#")
	if frag == "" {
		return true
	}
	for _, comp := range strings.Split(frag, "/") {
		if comp == "" || comp == "." || comp == ".." {
			return false
		}
	}
	return true
}

func runC17(c *ctx) error {
	sess := core.NewSession("c17")
	rng := c.rng.Fork()
	n := 300000
	if c.thorough() {
		n = 1000000
	}
	prevSource := ""
	check := func(s, class string) {
		got, ok := fullSource(s)
		ans := vl.Enc(got)
		if !ok {
			ans = "panic"
			c.res.Fail(core.OracleFailure{What: "FullSource panicked", Input: s})
		}
		// the model declines '%' (escapes, outside the documented forms); say so on the Go side too
		if strings.ContainsAny(s, "%") && s != "" && !strings.ContainsAny(s[:1], "/.\\") {
			ans = "outside-model"
			c.res.Hist("outside-model")
		}
		sess.Add(vl.Escape("fullsource "+vl.Enc(s)), vl.Escape(ans))
		c.res.Case(s, got != s)
		c.res.Hist("class." + class)
		if !ok {
			return
		}
		// the marshalled plugin is keyed by exactly this canonical form (both encoders)
		if i := c.res.OracleChecks; i%7 == 0 {
			pl := &pipeline.Plugin{Source: s}
			// (encoding/json replaces invalid UTF-8 — reachable through % escapes — by U+FFFD: compare valid text only)
			if jb, err := json.Marshal(pl); err == nil && utf8.ValidString(got) {
				var back map[string]any
				if json.Unmarshal(jb, &back) == nil && len(back) == 1 {
					for k := range back {
						if k != got {
							c.res.Fail(core.OracleFailure{What: "the marshalled plugin is not keyed by FullSource()", Input: s, Got: k, Want: got})
						}
					}
				}
			}
			if y, err := pl.MarshalYAML(); err == nil {
				if m, ok := y.(map[string]any); ok && len(m) == 1 {
					for k := range m {
						if k != got {
							c.res.Fail(core.OracleFailure{What: "MarshalYAML does not key the plugin by FullSource()", Input: s, Got: k, Want: got})
						}
					}
				}
			}
			// canonicalising is an observer of one value: the plugin keeps the source it was given, and a plugin value
			// whose Source is assigned again answers for the new source (prevSource: the previous input of this run)
			if pl.Source != s {
				c.res.Fail(core.OracleFailure{What: "marshalling a plugin changed its Source field", Input: s, Got: pl.Source, Want: s})
			}
			if prevSource != "" {
				_ = pl.FullSource()
				pl.Source = prevSource
				want2, _ := fullSource(prevSource)
				if got2 := pl.FullSource(); got2 != want2 {
					c.res.Fail(core.OracleFailure{What: "FullSource of a plugin value whose Source was assigned again differs from a fresh plugin with that source", Input: map[string]any{"first": s, "then": prevSource}, Got: got2, Want: want2})
				}
			}
			prevSource = s
		}
		c.res.OracleChecks++
		if inDom(s) {
			again, _ := fullSource(got)
			if again != got {
				c.res.Fail(core.OracleFailure{What: "canonicalisation is not idempotent", Input: s, Got: again, Want: got})
			}
			if !inDom(got) {
				c.res.Fail(core.OracleFailure{What: "canonical form leaves the domain", Input: s, Got: got})
			}
		}
	}
	for i := 0; i < n; i++ {
		ref := ""
		if rng.Intn(2) == 0 {
			ref = "#" + randRef(rng)
		}
		switch rng.Intn(12) {
		case 0, 1:
			name := randName(rng, false)
			s := name + ref
			check(s, "name")
			c.res.OracleChecks++
			if got, _ := fullSource(s); got != "github.com/buildkite-plugins/"+name+"-buildkite-plugin"+ref {
				c.res.Fail(core.OracleFailure{What: "bare name expansion", Input: s, Got: got, Want: "github.com/buildkite-plugins/" + name + "-buildkite-plugin" + ref})
			}
			if i%1000 == 0 {
				c.res.Sample(s)
			}
		case 2, 3:
			org, name := randName(rng, false), randName(rng, true)
			if rng.Intn(8) == 0 {
				// an organisation named like a host or like the default organisation is still an organisation: the
				// documented two-segment rule applies (and its result, having three segments, is then left alone)
				org = core.Pick(rng, []string{"github.com", "gitlab.com", "buildkite-plugins", "bitbucket.org"})
				c.res.Hist("org/name.org-looks-like-a-host")
			}
			s := org + "/" + name + ref
			check(s, "org/name")
			c.res.OracleChecks++
			if got, _ := fullSource(s); got != "github.com/"+org+"/"+name+"-buildkite-plugin"+ref {
				c.res.Fail(core.OracleFailure{What: "org/name expansion", Input: s, Got: got, Want: "github.com/" + org + "/" + name + "-buildkite-plugin" + ref})
			}
		case 4:
			s := core.Pick(rng, []string{"github.com/", "gitlab.com/", "example.org/"}) + randName(rng, false) + "/" + randName(rng, true) + core.Pick(rng, []string{"", "/sub", ".git"}) + ref
			check(s, "host-prefix")
			if got, _ := fullSource(s); got != s {
				c.res.Fail(core.OracleFailure{What: "three or more segments must be left as written", Input: s, Got: got})
			}
		case 5:
			s := core.Pick(rng, []string{"https://", "ssh://git@", "file:///", "git://", "http://user:pw@", "git+ssh://"}) + randName(rng, false) + "/" + randName(rng, false) + ref
			check(s, "scheme")
			if got, _ := fullSource(s); got != s {
				c.res.Fail(core.OracleFailure{What: "URL with a scheme must be left as written", Input: s, Got: got})
			}
		case 6:
			s := core.Pick(rng, []string{"git@", "user@", "a.b@"}) + randName(rng, false) + ":" + randName(rng, false) + "/" + randName(rng, false) + core.Pick(rng, []string{"", ".git"}) + ref
			if rng.Intn(3) == 0 {
				// scp-style without a user part: host (a name, an IP address, a name that is not a legal URL scheme),
				// a colon, a path of one or two segments
				host := core.Pick(rng, []string{"10.0.0.5", "192.168.1.20", "1host", "my_host", "git.example.com", randName(rng, false)})
				path := randName(rng, false) + core.Pick(rng, []string{"", ".git"})
				if rng.Intn(2) == 0 {
					path = randName(rng, false) + "/" + path
				}
				s = host + ":" + path + ref
			}
			check(s, "scp")
			if got, _ := fullSource(s); got != s {
				c.res.Fail(core.OracleFailure{What: "scp-style source must be left as written", Input: s, Got: got})
			}
		case 7:
			s := core.Pick(rng, []string{"/", "./", "../", ".", "\\", "\\\\srv\\", "/abs/", ".hidden/"}) + randName(rng, true) + core.Pick(rng, []string{"", "/x", "\\y"}) + ref
			check(s, "path")
			if got, _ := fullSource(s); got != s {
				c.res.Fail(core.OracleFailure{What: "path must be left as written", Input: s, Got: got})
			}
		case 8:
			s := core.Pick(rng, []string{"C:\\", "c:/", "D:\\plugins\\", "Z:"}) + randName(rng, false) + ref
			check(s, "windows")
			if got, _ := fullSource(s); got != s {
				c.res.Fail(core.OracleFailure{What: "Windows path must be left as written", Input: s, Got: got})
			}
		default:
			// free-form over the domain alphabet (and a malformed stream with other characters)
			alphabet := "ab1._-/#:@\\"
			if rng.Intn(5) == 0 {
				alphabet += "%? *+~\x01é"
			}
			k := rng.Intn(10)
			var b strings.Builder
			for j := 0; j < k; j++ {
				b.WriteByte(alphabet[rng.Intn(len(alphabet))])
			}
			s := b.String()
			if !strings.ContainsAny(s, "\x01\xc3") || true {
				check(strings.ToValidUTF8(s, "é"), "free-form")
			}
		}
	}
	for _, s := range []string{"", "#", "#ref", "a#", "a##b", "a#b#c", "a/", "a//b", "*", "a:b", ":a", "1a", "+a", "a b", "a/b:c", "a:b/c", "-x", "github.com/a/b", "docker#v1", "a/b#c/d", "github.com/thing", "github.com/thing#v1", "github.com", "buildkite-plugins/docker", "github.com/x-buildkite-plugin"} {
		check(s, "edge")
	}
	c.res.Rule = "sources built from the documented forms (name, org/name, host prefix, scheme, scp-style, POSIX and Windows paths; optional git-legal refs with 1-3 components) with the expected result computed by construction, plus free-form strings over the domain alphabet and a malformed stream; idempotence re-applied to every result inside the domain. Non-trivial = the source is rewritten; distinct by the source string."
	mm, total, err := core.RunSessions(c.driver, []*core.Session{sess}, 20, 0)
	c.res.ModelRequests = total
	c.res.Mismatches = mm
	return err
}
