package main

import (
	"encoding/json"
	"os"
	"path/filepath"
	"sort"
)

// Regression corpus: /verif/corpus/<PROP>/*.json, committed; each entry is a document on which some seeded
// change (or an earlier state of the code) made this property's check fail, collected by bin/harvest.
// A document-driven check runs its corpus first, through the same oracles and the same correspondence as
// generated documents. The directory is only ever read here.
type corpusDoc struct {
	Document string            `json:"document"`
	Env      map[string]string `json:"env"`
	Origin   string            `json:"origin"`
}

func loadCorpus(dir, prop string) []corpusDoc {
	files, _ := filepath.Glob(filepath.Join(dir, prop, "*.json"))
	sort.Strings(files)
	var out []corpusDoc
	for _, f := range files {
		b, err := os.ReadFile(f)
		if err != nil {
			continue
		}
		var d corpusDoc
		if json.Unmarshal(b, &d) != nil || d.Document == "" {
			continue
		}
		out = append(out, d)
	}
	return out
}

// corpusAt: the corpus document for iteration i (each document is used `times` consecutive iterations, the
// random choices around it — key, step, tamper — differ), or nil once the corpus is exhausted.
func (c *ctx) corpusAt(i, times int) *corpusDoc {
	if c.only != nil || times <= 0 {
		return nil
	}
	k := i / times
	if k < len(c.corpus) {
		c.res.Hist("doc.from-regression-corpus")
		return &c.corpus[k]
	}
	return nil
}
