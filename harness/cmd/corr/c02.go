package main

// C02 — signed steps still verify after JSON/YAML serialisation and re-parse: end-to-end on the
// implementation (parse, optionally interpolate, SignSteps, marshal, re-parse through Parse or
// CommandStep.UnmarshalJSON, Verify with an env extending the pipeline env), all key kinds,
// repeated runs; the re-parse is also compared with the Lean parse model.

import (
	"bytes"
	"context"
	"encoding/json"
	"fmt"
	"reflect"
	"strings"

	pipeline "github.com/buildkite/go-pipeline"
	"github.com/buildkite/go-pipeline/ordered"
	"github.com/buildkite/go-pipeline/signature"
	"github.com/buildkite/go-pipeline/warning"
	"gopkg.in/yaml.v3"

	"github.com/buildkite/interpolate"

	"verifharness/core"
	"verifharness/dump"
	"verifharness/gen"
	"verifharness/vl"
)

func init() { checks["C02"] = runC02 }

func c02Str(r *core.Rand) string {
	switch r.Intn(8) {
	case 0:
		return core.Pick(r, gen.YAMLLookalikes)
	case 1:
		// (BAR is set to the empty string, UNSET_TRAIL is not set: a reference at the very end of a string leaves a
		// trailing blank behind, which only exists after interpolation)
		return core.Pick(r, []string{"$FOO", "${BAR:-d}", "$$X", "pre-$FOO", "deploy --env prod ${UNSET_TRAIL}", "run $BAR", "$BAR", " $BAR lead", "tab\t${UNSET_TRAIL}"})
	}
	return core.Pick(r, []string{"build", "make test", "echo \"hi\"", "a\\b", "é😀", "x", "k=v", "tab\there", "<&>", "a,b", "true", "1", "null", "line1\nline2"})
}

// c02InterpEnv: the environment of the interpolate-first third. The VERIF_K* variables hold names of declared
// step fields: a key written "${VERIF_KP}" becomes the unknown key "plugins" (finding F21).
func c02InterpEnv() mapEnv {
	return mapEnv{"FOO": "foo-value", "BAR": "", "VERIF_KP": "plugins", "VERIF_KE": "env", "VERIF_KM": "matrix", "VERIF_KC": "commands", "VERIF_KL": "label", "VERIF_KCMD": "command", "VERIF_KT": "type"}
}

// injectFieldNamedKey adds, to the first command-step mapping of the document that has room for it, an unknown
// key that interpolates onto the name of a declared field the step does not use.
func injectFieldNamedKey(r *core.Rand, doc any) bool {
	var steps []any
	switch t := doc.(type) {
	case []any:
		steps = t
	case *ordered.MapSA:
		if v, ok := t.Get("steps"); ok {
			steps, _ = v.([]any)
		}
	}
	cands := []struct {
		ref, field string
		val        any
	}{
		{"${VERIF_KP}", "plugins", []any{"docker#v1"}},
		{"${VERIF_KE}", "env", ordered.MapFromItems(ordered.TupleSA{Key: "SMUGGLED", Value: "1"})},
		{"${VERIF_KM}", "matrix", []any{"a", "b"}},
		{"${VERIF_KL}", "label", "from-unknown-key"},
	}
	for _, st := range steps {
		m, ok := st.(*ordered.MapSA)
		if !ok {
			continue
		}
		if !m.Contains("command") {
			// kind redirection: a wait / block / trigger / group mapping gains the key `command`
			if r.Intn(3) == 0 && !m.Contains("commands") && !m.Contains("plugins") && !m.Contains("type") {
				m.Set("${VERIF_KCMD}", "echo smuggled")
				return true
			}
			continue
		}
		if r.Intn(4) == 0 && !m.Contains("type") {
			// ...or a command step gains `type: wait`
			m.Set("${VERIF_KT}", "wait")
			return true
		}
		cand := cands[r.Intn(len(cands))]
		if m.Contains(cand.field) {
			continue
		}
		m.Set(cand.ref, cand.val)
		return true
	}
	return false
}

// reservedKeys: names the parser gives a meaning to at step level or inside a matrix / adjustment / cache.
var reservedKeys = map[string]bool{"command": true, "commands": true, "plugins": true, "env": true, "matrix": true, "cache": true, "signature": true,
	"key": true, "label": true, "name": true, "id": true, "identifier": true, "type": true, "wait": true, "waiter": true, "block": true, "input": true,
	"manual": true, "trigger": true, "group": true, "steps": true, "setup": true, "adjustments": true, "with": true, "skip": true, "paths": true,
	"size": true, "disabled": true}

// keyBecomesReserved: some mapping key of the source document is not a reserved name as written but expands to
// one under the interpolate-first environment (the input class of finding F21, kind redirection included).
func keyBecomesReserved(src []byte) bool {
	tree, err := decodeTree(src)
	if err != nil {
		return false
	}
	env := c02InterpEnv()
	found := false
	var walk func(v any)
	walk = func(v any) {
		switch t := v.(type) {
		case []any:
			for _, e := range t {
				walk(e)
			}
		case *ordered.MapSA:
			t.Range(func(k string, e any) error {
				if strings.Contains(k, "$") && !reservedKeys[k] {
					if out, err := interpolate.Interpolate(env, k); err == nil && reservedKeys[out] {
						found = true
					}
				}
				walk(e)
				return nil
			})
		}
	}
	walk(tree)
	return found
}

// inlineShadowsField: some struct of the step tree holds, among its unknown fields, a key that is the yaml key
// of one of its own declared fields — impossible after Parse, reachable through interpolated keys.
func inlineShadowsField(ss pipeline.Steps) bool {
	declared := func(v any) map[string]bool {
		out := map[string]bool{}
		t := reflect.TypeOf(v)
		for t.Kind() == reflect.Pointer {
			t = t.Elem()
		}
		for i := 0; i < t.NumField(); i++ {
			tag := strings.Split(t.Field(i).Tag.Get("yaml"), ",")[0]
			if tag != "" && tag != "-" {
				out[tag] = true
			}
			// (aliases are not counted: next to its primary key an alias legitimately stays among the unknown fields)
		}
		return out
	}
	hit := func(v any, rem map[string]any) bool {
		d := declared(v)
		for k := range rem {
			if d[k] {
				return true
			}
		}
		return false
	}
	for _, s := range ss {
		switch t := s.(type) {
		case *pipeline.CommandStep:
			if hit(t, t.RemainingFields) {
				return true
			}
			if t.Matrix != nil {
				if hit(t.Matrix, t.Matrix.RemainingFields) {
					return true
				}
				for _, a := range t.Matrix.Adjustments {
					if a != nil && hit(a, a.RemainingFields) {
						return true
					}
				}
			}
			if t.Cache != nil && hit(t.Cache, t.Cache.RemainingFields) {
				return true
			}
		case *pipeline.GroupStep:
			if hit(t, t.RemainingFields) || inlineShadowsField(t.Steps) {
				return true
			}
		}
	}
	return false
}

func runC02(c *ctx) error {
	sess := core.NewSession("parse")
	rng := c.rng.Fork()
	keys := sigKeys()
	n := 1500
	if c.thorough() {
		n = 8000
	}
	reps := 2
	if c.thorough() {
		reps = 5
	}
	probes := c.known.probeDocuments()
	for i := 0; i < n; i++ {
		o := &gen.Opts{R: rng, Str: c02Str, Key: gen.DefaultKey, UntypedExotic: true, MaxGroupDepth: 2, MaxMapSize: 12, Hist: c.res.Hist, GroupBias: 10}
		doc := o.Pipeline()
		interpolateFirst := rng.Intn(3) == 0
		if dm, ok := doc.(*ordered.MapSA); ok && interpolateFirst && rng.Intn(3) == 0 {
			// an env-block entry whose templated name expands onto a later literal name: the rename leaves a
			// tombstone in the block, and what is signed, marshalled and re-read must all agree on the survivor
			if ev, ok := dm.Get("env"); ok {
				if em, ok := ev.(*ordered.MapSA); ok && em.Len() > 0 {
					var first string
					em.Range(func(k string, _ any) error {
						if first == "" {
							first = k
						}
						return nil
					})
					ne := ordered.NewMap[string, any](em.Len() + 1)
					ne.Set("${ZZ_UNSET_ALIAS:-"+first+"}", "templated-name-value")
					em.Range(func(k string, v any) error { ne.Set(k, v); return nil })
					dm.Set("env", ne)
					c.res.Hist("env-block.templated-name-collides")
				}
			}
		}
		if interpolateFirst && rng.Intn(12) == 0 {
			// an unknown key of a command step whose name only becomes a declared field name through interpolation
			if injectFieldNamedKey(rng, doc) {
				c.res.Hist("step.unknown-key-interpolates-onto-a-field-name")
			}
		}
		src, style := renderStyles(rng, doc)
		if i < len(probes) {
			src, style, interpolateFirst = probes[i], "known-finding-probe", true
		}
		if d := c.corpusAt(i-len(probes), 4); d != nil {
			src, style = []byte(d.Document), "regression-corpus"
			interpolateFirst = i%2 == 1
		}
		if src == nil {
			continue
		}
		k := keys[rng.Intn(len(keys))]
		if k.kind == "PS512" && rng.Intn(5) != 0 {
			k = keys[1]
		}
		repo := "git@example.com:o/r.git"
		for rep := 0; rep < reps; rep++ {
			p, perr := pipeline.Parse(bytes.NewReader(src))
			if p == nil || (perr != nil && !warning.Is(perr)) {
				c.res.Hist("parse.hard-error")
				break
			}
			if interpolateFirst {
				if err := p.Interpolate(c02InterpEnv(), false); err != nil {
					c.res.Hist("interpolate.error")
					break
				}
			}
			if hasUnknownStep(p.Steps) {
				c.res.Hist("contains-unknown-step")
				break
			}
			if p.Env != nil && p.Env.Len() >= 3 && i%5 == 2 {
				// the env block edited through the map API before signing: a deletion that leaves a tombstone
				// (no compaction below half), so storage and contents differ
				var victim string
				p.Env.Range(func(kk, _ string) error {
					if victim == "" {
						victim = kk
					}
					return nil
				})
				p.Env.Delete(victim)
				c.res.Hist("env-block.entry-deleted-through-api-before-signing")
			}
			// WithEnv(p.Env.ToMap()) is how the pipeline env is handed to SignSteps
			penv := map[string]string{}
			if p.Env != nil {
				penv = p.Env.ToMap()
			}
			if err := signature.SignSteps(context.Background(), p.Steps, k.signer, repo, signature.WithEnv(penv)); err != nil {
				c.res.Fail(core.OracleFailure{What: "SignSteps failed on a pipeline without unknown steps", Input: string(src), Got: err.Error()})
				break
			}
			nCmd := len(commandStepsOf(p.Steps))
			if nCmd == 0 {
				break
			}
			desc := map[string]any{"document": string(src), "style": style, "interpolated_first": interpolateFirst, "key": k.kind}
			venv := copyEnv(penv)
			venv["BUILDKITE_UNRELATED"] = "1"
			// F21: after interpolation an unknown key may carry the name of a declared field of its struct
			shadowKnown := ""
			if interpolateFirst && (inlineShadowsField(p.Steps) || keyBecomesReserved(src)) {
				c.res.Hist("interpolated.unknown-key-shadows-a-field")
				if id, ok := c.known.has("interpolated-key-equals-declared-field"); ok {
					shadowKnown = id
				}
			}
			var jb, yb []byte
			var jerr, yerr error
			if pn, msg := guard(func() {
				jb, jerr = json.Marshal(p)
				yb, yerr = yaml.Marshal(p)
			}); pn {
				c.res.Fail(core.OracleFailure{What: "marshalling the signed pipeline panics", Input: desc, Got: msg, Known: shadowKnown})
				// (yaml.v3 panics on an inline key that equals a field key; the JSON leg is still judged)
				yb, yerr = nil, nil
				if jb == nil {
					break
				}
			}
			if jerr != nil || yerr != nil {
				f := core.OracleFailure{What: "marshalling the signed pipeline fails", Input: desc, Got: fmt.Sprint(jerr, yerr), Known: shadowKnown}
				if id, ok := c.known.has("nonfinite-float-json"); ok && jerr != nil {
					f.Known = id
				}
				c.res.Fail(f)
				break
			}
			envOf := func(pp *pipeline.Pipeline) map[string]string {
				// what an agent has after reading that pipeline: its env block plus unrelated variables
				e := map[string]string{"BUILDKITE_UNRELATED": "1"}
				if pp != nil && pp.Env != nil {
					pp.Env.Range(func(kk, v string) error { e[kk] = v; return nil })
				}
				return e
			}
			check := func(leg string, steps pipeline.Steps, venv map[string]string) {
				cs := commandStepsOf(steps)
				known := shadowKnown
				tree := dump.Pipeline(p)
				if leg == "yaml/Parse" && hasMergeLookalike(tree) {
					if id, ok := c.known.has("yaml-merge-lookalike-string"); ok {
						known = id
					}
				}
				if known == "" && leg == "yaml/Parse" {
					if docTree, err := decodeTree(src); err == nil && hasDegenerateMatrix(dump.Any(docTree)) {
						if id, ok := c.known.has("degenerate-matrix-yaml"); ok {
							known = id
						}
					}
				}
				if len(cs) != nCmd {
					c.res.Fail(core.OracleFailure{What: "re-parse (" + leg + ") yields a different number of command steps", Input: desc, Got: fmt.Sprint(len(cs)), Want: fmt.Sprint(nCmd), Known: known})
					return
				}
				for _, st := range cs {
					c.res.OracleChecks++
					if st.Signature == nil {
						c.res.Fail(core.OracleFailure{What: "re-parse (" + leg + ") lost a signature", Input: desc, Known: known})
						continue
					}
					if verr, _, _ := verifyStep(k, st.Signature, st, repo, venv); verr != nil {
						c.res.Fail(core.OracleFailure{What: "embedded signature does not verify after re-parse (" + leg + ")", Input: desc, Got: verr.Error(), Known: known})
					}
				}
			}
			if p2, err2 := pipeline.Parse(bytes.NewReader(jb)); p2 != nil && (err2 == nil || warning.Is(err2)) {
				check("json/Parse", p2.Steps, envOf(p2))
				if rep == 0 {
					if jtree, err := decodeTree(jb); err == nil {
						var warns []any
						flattenWarn(err2, &warns)
						if warns == nil {
							warns = []any{}
						}
						sess.Add(vl.Escape("parse "+vl.Enc(dump.Any(jtree))), vl.Escape("ok "+vl.Enc(dump.Pipeline(p2))+" "+vl.Enc(warns)))
					}
				}
			} else {
				c.res.Fail(core.OracleFailure{What: "re-parsing the JSON of a signed pipeline fails", Input: desc, Got: fmt.Sprint(err2), Known: shadowKnown})
			}
			if yb == nil {
				c.res.Hist("yaml-leg-marshal-panicked")
			} else if !yamlLegExcluded(dump.Pipeline(p)) {
				if p3, err3 := pipeline.Parse(bytes.NewReader(yb)); p3 != nil && (err3 == nil || warning.Is(err3)) {
					check("yaml/Parse", p3.Steps, envOf(p3))
				} else {
					f := core.OracleFailure{What: "re-parsing the YAML of a signed pipeline fails", Input: desc, Got: fmt.Sprint(err3)}
					if hasMergeLookalike(dump.Pipeline(p)) {
						if id, ok := c.known.has("yaml-merge-lookalike-string"); ok {
							f.Known = id
						}
					}
					c.res.Fail(f)
				}
			} else {
				c.res.Hist("yaml-leg-excluded")
			}
			// step by step, the way an agent receives a job
			var single pipeline.Steps
			for _, st := range commandStepsOf(p.Steps) {
				sb, err := json.Marshal(st)
				if err != nil {
					continue
				}
				var cs pipeline.CommandStep
				if err := cs.UnmarshalJSON(sb); err != nil {
					c.res.Fail(core.OracleFailure{What: "CommandStep.UnmarshalJSON fails on the step's own JSON", Input: desc, Got: err.Error()})
					continue
				}
				single = append(single, &cs)
			}
			check("json/CommandStep.UnmarshalJSON", single, venv)
			if rep == 0 {
				c.res.Case(string(src)+k.kind, nCmd > 0)
				c.res.Hist("style." + style)
				c.res.Hist("key." + k.kind)
				if interpolateFirst {
					c.res.Hist("interpolated-first")
				}
				if i < 2 {
					c.res.Sample(desc)
				}
			}
		}
	}
	c.res.Rule = "generated pipelines (all step kinds, groups, three plugin forms incl. short and canonical sources, matrices, nil/empty env/plugins/matrix, non-string scalars in env, matrix and plugin configs) parsed, one third interpolated, signed with SignSteps (all key kinds), marshalled to JSON and YAML, re-parsed through Parse and through CommandStep.UnmarshalJSON, every embedded signature verified with an env extending the pipeline env; each case repeated on fresh parses (map iteration orders). Non-trivial = at least one command step; distinct by (document, key kind)."
	mm, total, err := core.RunSessions(c.driver, []*core.Session{sess}, 20, 0)
	c.res.ModelRequests = total
	c.res.Mismatches = mm
	return err
}
