package main

// C04 — Pipeline.Interpolate vs the Lean walker model (transformer passed as a table of the real
// library's expansions), plus the direct oracle: every string of the dump equals its single expansion.

import (
	"bytes"
	"encoding/json"
	"fmt"
	"reflect"
	"sort"
	"strings"

	pipeline "github.com/buildkite/go-pipeline"
	"github.com/buildkite/go-pipeline/ordered"
	"github.com/buildkite/interpolate"
	"gopkg.in/yaml.v3"

	"verifharness/core"
	"verifharness/dump"
	"verifharness/gen"
	"verifharness/vl"
)

func init() { checks["C04"] = runC04 }

// ----- strings of a dump tree, and the spec mapper -----

type mapper struct {
	f         func(string) (string, bool) // expansion; false = fails
	collision bool
	failed    bool
}

func (m *mapper) s(x string) string {
	y, ok := m.f(x)
	if !ok {
		m.failed = true
	}
	return y
}

func (m *mapper) any(v any) any {
	switch t := v.(type) {
	case string:
		return m.s(t)
	case []any:
		out := make([]any, len(t))
		for i, e := range t {
			out[i] = m.any(e)
		}
		return out
	case vl.OMap:
		out := make(vl.OMap, 0, len(t))
		orig := map[string]bool{}
		for _, kv := range t {
			orig[kv.K] = true
		}
		seen := map[string]bool{}
		for _, kv := range t {
			nk := m.s(kv.K)
			if seen[nk] || (nk != kv.K && orig[nk]) {
				m.collision = true
			}
			seen[nk] = true
			out = append(out, vl.KV{K: nk, V: m.any(kv.V)})
		}
		return out
	case map[string]any:
		out := map[string]any{}
		for _, k := range sortedKeysS(t) {
			nk := m.s(k)
			if _, dup := out[nk]; dup {
				m.collision = true
			}
			out[nk] = m.any(t[k])
		}
		return out
	case map[string]string:
		out := map[string]string{}
		for _, k := range sortedKeysS(t) {
			nk := m.s(k)
			if _, dup := out[nk]; dup {
				m.collision = true
			}
			out[nk] = m.s(t[k])
		}
		return out
	}
	return v
}

func fld(o vl.OMap, k string) any {
	for _, kv := range o {
		if kv.K == k {
			return kv.V
		}
	}
	return nil
}

func setFld(o vl.OMap, k string, v any) {
	for i := range o {
		if o[i].K == k {
			o[i].V = v
		}
	}
}

func cloneOMap(o vl.OMap) vl.OMap { return append(vl.OMap(nil), o...) }

func (m *mapper) strList(v any) any {
	l, ok := v.([]string)
	if !ok {
		return v
	}
	out := make([]string, len(l))
	for i, s := range l {
		out[i] = m.s(s)
	}
	return out
}

func (m *mapper) command(d vl.OMap, matrixKind bool) vl.OMap {
	o := cloneOMap(d)
	setFld(o, "command", m.s(fld(d, "command").(string)))
	setFld(o, "label", m.s(fld(d, "label").(string)))
	if pl, ok := fld(d, "plugins").([]any); ok {
		out := make([]any, len(pl))
		for i, p := range pl {
			if pp, ok := p.([]any); ok {
				out[i] = []any{m.s(pp[0].(string)), m.any(pp[1])}
			}
		}
		setFld(o, "plugins", out)
	}
	if matrixKind {
		if env, ok := fld(d, "env").(map[string]string); ok {
			out := map[string]string{}
			for k, v := range env {
				out[k] = m.s(v)
			}
			setFld(o, "env", out)
		}
	} else {
		setFld(o, "key", m.s(fld(d, "key").(string)))
		setFld(o, "env", m.any(fld(d, "env")))
		if mx, ok := fld(d, "matrix").(vl.OMap); ok {
			mo := cloneOMap(mx)
			if setup, ok := fld(mx, "setup").(map[string]any); ok {
				out := map[string]any{}
				for _, k := range sortedKeysS(setup) {
					nk := m.s(k)
					if _, dup := out[nk]; dup {
						m.collision = true
					}
					out[nk] = m.strList(setup[k])
				}
				setFld(mo, "setup", out)
			}
			if adjs, ok := fld(mx, "adjustments").([]any); ok {
				out := make([]any, len(adjs))
				for i, a := range adjs {
					ao, ok := a.(vl.OMap)
					if !ok {
						continue
					}
					an := cloneOMap(ao)
					setFld(an, "with", m.any(fld(ao, "with")))
					setFld(an, "skip", m.any(fld(ao, "skip")))
					setFld(an, "rem", m.any(fld(ao, "rem")))
					out[i] = an
				}
				setFld(mo, "adjustments", out)
			}
			setFld(mo, "rem", m.any(fld(mx, "rem")))
			setFld(o, "matrix", mo)
		}
		if c, ok := fld(d, "cache").(vl.OMap); ok {
			co := cloneOMap(c)
			setFld(co, "name", m.s(fld(c, "name").(string)))
			setFld(co, "paths", m.strList(fld(c, "paths")))
			setFld(co, "size", m.s(fld(c, "size").(string)))
			setFld(co, "rem", m.any(fld(c, "rem")))
			setFld(o, "cache", co)
		}
	}
	setFld(o, "rem", m.any(fld(d, "rem")))
	return o
}

func (m *mapper) step(d any, matrixKind bool) any {
	l := d.([]any)
	switch l[0].(string) {
	case "command":
		return []any{"command", m.command(l[1].(vl.OMap), matrixKind)}
	case "wait", "input":
		return []any{l[0], l[1], m.any(l[2])}
	case "trigger":
		return []any{"trigger", m.any(l[1])}
	case "group":
		var g any
		if s, ok := l[2].(string); ok {
			g = m.s(s)
		}
		return []any{"group", m.s(l[1].(string)), g, m.steps(l[3], matrixKind), m.any(l[4])}
	case "unknown":
		return []any{"unknown", m.any(l[1])}
	}
	return d
}

func (m *mapper) steps(d any, matrixKind bool) any {
	l, ok := d.([]any)
	if !ok {
		return d
	}
	out := make([]any, len(l))
	for i, s := range l {
		out[i] = m.step(s, matrixKind)
	}
	return out
}

func (m *mapper) pipelineRest(d vl.OMap) vl.OMap {
	o := cloneOMap(d)
	setFld(o, "steps", m.steps(fld(d, "steps"), false))
	setFld(o, "rem", m.any(fld(d, "rem")))
	return o
}

// allStrings collects every string (keys and values) of a dump tree.
func allStrings(v any, acc map[string]bool) {
	switch t := v.(type) {
	case string:
		acc[t] = true
	case []any:
		for _, e := range t {
			allStrings(e, acc)
		}
	case []string:
		for _, e := range t {
			acc[e] = true
		}
	case vl.OMap:
		for _, kv := range t {
			acc[kv.K] = true
			allStrings(kv.V, acc)
		}
	case map[string]any:
		for k, e := range t {
			acc[k] = true
			allStrings(e, acc)
		}
	case map[string]string:
		for k, e := range t {
			acc[k] = true
			acc[e] = true
		}
	}
}

// canon: VL text of a dump tree (umaps sorted by vl.Enc) — the comparison form.
func canon(v any) string { return vl.Enc(v) }

// ----- string pool with `$`-forms -----

var c04Vars = []string{"FOO", "BAR", "EMPTY", "UNSET", "A", "Mixed_1", "X9", "ÉTAPE", "Ωmega"}

func c04Str(r *core.Rand) string {
	v := core.Pick(r, c04Vars)
	switch r.Intn(16) {
	case 0:
		return "$" + v
	case 1:
		return "${" + v + "}"
	case 2:
		return "$$" + v
	case 3:
		return "\\$" + v
	case 4:
		return "${" + v + ":-dflt}"
	case 5:
		return "${" + v + "-d}"
	case 6:
		return "pre-$" + v + "-post ${" + core.Pick(r, c04Vars) + "}"
	case 7:
		return "${" + v + "?must be set}"
	case 8:
		return "cost: $5 and $$" + v + " and \\${" + v + "}"
	case 9:
		return "$(date)"
	case 10:
		return "lone $ sign"
	case 11:
		return "${" + v + ":0:2}"
	case 12:
		return "{{matrix}} $" + v
	case 13:
		// references nested inside a default or an error message: they are expanded too
		o := core.Pick(r, c04Vars)
		return core.Pick(r, []string{"${" + v + "-$" + o + "}", "${" + v + ":-${" + o + "}/x}", "${" + v + "?need $" + o + " first}", "${" + v + "-pre ${" + o + ":-z} post}"})
	}
	return gen.DefaultStr(r)
}

func c04LongPipeline(r *core.Rand) any {
	safe := func() string {
		return core.Pick(r, []string{"$FOO", "pre-${BAR}-post", "${UNSET:-dflt}", "$$A", "\\$FOO", "plain", "${A}${A}", "x $Mixed_1 y"})
	}
	n := 48 + r.Intn(23)
	steps := make([]any, n)
	for i := range steps {
		st := ordered.NewMap[string, any](6)
		st.Set("command", safe())
		st.Set("key", fmt.Sprintf("k%d-", i)+safe())
		st.Set("label", safe())
		st.Set("env", ordered.MapFromItems(ordered.TupleSA{Key: fmt.Sprintf("E%d", i), Value: safe()}))
		if r.Intn(3) == 0 {
			st.Set("cache", ordered.MapFromItems(ordered.TupleSA{Key: "name", Value: safe()}, ordered.TupleSA{Key: "size", Value: safe()}))
		}
		if r.Intn(3) == 0 {
			st.Set("matrix", []any{safe(), "v2"})
		}
		if r.Intn(4) == 0 {
			st.Set("agents", ordered.MapFromItems(ordered.TupleSA{Key: "queue", Value: safe()}))
		}
		steps[i] = st
	}
	return ordered.MapFromItems(ordered.TupleSA{Key: "steps", Value: steps})
}

// c04OrderedCollision: pairs of an order-preserving mapping whose keys collide under QKEY=queue, SKEY=size.
func c04OrderedCollision(r *core.Rand) [][2]string {
	v := func(i int) string { return fmt.Sprintf("value-%d-${SKEY}", i) }
	shapes := [][][2]string{
		{{"queue", v(0)}, {"${QKEY}", v(1)}},                                         // later onto earlier, two entries
		{{"${QKEY}", v(0)}, {"queue", v(1)}},                                         // earlier onto later
		{{"queue", v(0)}, {"size", v(1)}, {"${QKEY}", v(2)}, {"${SKEY}", v(3)}},      // two renames onto the first two
		{{"$QKEY", v(0)}, {"${QKEY}", v(1)}, {"queue", v(2)}, {"size", v(3)}},        // two spellings of one name, then the name
		{{"a", v(0)}, {"${QKEY}", v(1)}, {"b", v(2)}, {"queue", v(3)}, {"c", v(4)}},  // one collision among bystanders
		{{"queue", v(0)}, {"x-${QKEY}", v(1)}, {"${QKEY}", v(2)}, {"x-queue", v(3)}}, // interleaved
	}
	return shapes[r.Intn(len(shapes))]
}

func pairsToOMap(ps [][2]string) *ordered.MapSA {
	m := ordered.NewMap[string, any](len(ps))
	for _, p := range ps {
		m.Set(p[0], p[1])
	}
	return m
}

// c04RenameModel: the walk of interpolateOrderedMap over a list of pairs (Range + Replace, as specified for C05 / C10).
func c04RenameModel(ps [][2]string, expand func(string) (string, bool)) [][2]string {
	type ent struct {
		k, v string
		dead bool
	}
	es := make([]ent, len(ps))
	for i, p := range ps {
		es[i] = ent{k: p[0], v: p[1]}
	}
	for i := range es {
		if es[i].dead {
			continue
		}
		nk, _ := expand(es[i].k)
		nv, _ := expand(es[i].v)
		for j := range es {
			if j != i && !es[j].dead && es[j].k == nk {
				es[j].dead = true
			}
		}
		es[i].k, es[i].v = nk, nv
	}
	var out [][2]string
	for _, e := range es {
		if !e.dead {
			out = append(out, [2]string{e.k, e.v})
		}
	}
	return out
}

func c04Key(r *core.Rand) string {
	if r.Intn(4) == 0 {
		return core.Pick(r, []string{"$FOO", "k_$BAR", "$$A", "${UNSET:-kd}", "$A", "$X9", "FOO", "k_bar"})
	}
	return gen.DefaultKey(r)
}

func renderDoc(r *core.Rand, doc any) ([]byte, string) {
	if r.Intn(4) == 0 {
		if b := renderAliased(r, doc); b != nil {
			return b, "yaml-aliased"
		}
	}
	if r.Intn(3) == 0 {
		b, err := json.Marshal(doc)
		if err == nil {
			return b, "json"
		}
	}
	b, err := yaml.Marshal(doc)
	if err != nil {
		return nil, "unrenderable"
	}
	return b, "yaml"
}

type mapEnv map[string]string

func (m mapEnv) Get(k string) (string, bool) { v, ok := m[k]; return v, ok }
func (m mapEnv) Set(k, v string)             { m[k] = v }

func runC04(c *ctx) error {
	const nShard = 8
	var shards []*core.Session
	for i := 0; i < nShard; i++ {
		shards = append(shards, core.NewSession("c04"))
	}
	rng := c.rng.Fork()
	n, reps := 3000, 3
	if c.thorough() {
		n, reps = 30000, 20
	}
	_, skipKnown := c.known.has("x")
	_ = skipKnown
	if c.only != nil {
		n = 1
	}
	for i := 0; i < n; i++ {
		o := &gen.Opts{R: rng, Str: c04Str, Key: c04Key, UntypedExotic: true, MaxGroupDepth: 3, MaxMapSize: 24, Hist: c.res.Hist}
		var src []byte
		format := "given"
		var corp *corpusDoc
		var ocoll [][2]string
		if c.only != nil {
			src = c.only
		} else if corp = c.corpusAt(i, 2); corp != nil {
			src, format = []byte(corp.Document), "regression-corpus"
		} else {
			doc := o.Pipeline()
			if i%40 == 7 {
				// a long pipeline (48-70 small command steps, every typed field carrying a reference that expands):
				// size-triggered code paths must reach the same fields
				doc = c04LongPipeline(rng)
				c.res.Hist("doc.long-pipeline")
			}
			if m, ok := doc.(interface{ Delete(string) }); ok {
				m.Delete("env") // the env block is C10's subject; C04 compares the rest of the pipeline
			}
			if dm, ok := doc.(*ordered.MapSA); ok && i%8 == 3 {
				// an order-preserving mapping (top-level unknown field) whose keys collide once expanded: renames onto
				// earlier and later entries, with and without entries already dropped before the one being renamed
				ocoll = c04OrderedCollision(rng)
				dm.Set("zz_ocoll", pairsToOMap(ocoll))
				c.res.Hist("doc.ordered-map-key-collisions")
			}
			src, format = renderDoc(rng, doc)
		}
		if src == nil {
			continue
		}
		runtime := map[string]string{}
		for _, v := range c04Vars {
			switch rng.Intn(4) {
			case 0:
				runtime[v] = "val-" + v
			case 1:
				runtime[v] = core.Pick(rng, []string{"", "$$FOO", "$BAR", "${A}", "{{matrix}}", "two words", "é"})
			}
		}
		delete(runtime, "UNSET")
		runtime["QKEY"], runtime["SKEY"] = "queue", "size" // variables that hold key names (the collision construction)
		if c.only != nil && c.onlyEnv != nil {
			runtime = map[string]string{}
			for k, v := range c.onlyEnv {
				runtime[k] = v
			}
		}
		if corp != nil && corp.Env != nil && i%2 == 0 {
			runtime = map[string]string{}
			for k, v := range corp.Env {
				runtime[k] = v
			}
		}
		expand := func(s string) (string, bool) {
			out, err := interpolate.Interpolate(mapEnv(runtime), s)
			return out, err == nil
		}
		var first string
		for rep := 0; rep < reps; rep++ {
			p, err := pipeline.Parse(bytes.NewReader(src))
			if p == nil || (err != nil && !isWarning(err)) {
				c.res.Hist("parse.hard-error")
				break
			}
			before := dump.Pipeline(p).(vl.OMap)
			envCopy := mapEnv{}
			for k, v := range runtime {
				envCopy[k] = v
			}
			var ierr error
			if pn, msg := guard(func() { ierr = p.Interpolate(envCopy, false) }); pn {
				c.res.Fail(core.OracleFailure{What: "Interpolate panicked: " + msg, Input: string(src)})
				break
			}
			after := dump.Pipeline(p).(vl.OMap)
			got := "error"
			if ierr == nil {
				got = "ok " + canon(after)
			}
			if ocoll != nil && ierr == nil && rep == 0 {
				// the collision construction judged directly against the list-of-pairs reading of the walk: entries are
				// visited in order, an entry dropped by an earlier rename is not visited, a rename keeps its position and
				// drops whatever else has that name
				c.res.OracleChecks++
				want := c04RenameModel(ocoll, expand)
				var gotPairs [][2]string
				if om, ok := p.RemainingFields["zz_ocoll"].(*ordered.MapSA); ok {
					// (the aliased rendering may have added entries of its own: judge the constructed ones)
					mine := map[string]bool{}
					for _, pr := range ocoll {
						mine[pr[0]] = true
						if e, ok := expand(pr[0]); ok {
							mine[e] = true
						}
					}
					om.Range(func(k string, v any) error {
						if mine[k] {
							gotPairs = append(gotPairs, [2]string{k, fmt.Sprint(v)})
						}
						return nil
					})
					all := 0
					om.Range(func(string, any) error { all++; return nil })
					if om.Len() != all {
						c.res.Fail(core.OracleFailure{What: "an ordered mapping's Len disagrees with its Range after interpolation", Input: map[string]any{"document": string(src), "env": runtime}, Got: fmt.Sprint(om.Len()), Want: fmt.Sprint(all)})
					}
				}
				if fmt.Sprint(gotPairs) != fmt.Sprint(want) {
					c.res.Fail(core.OracleFailure{What: "an order-preserving mapping whose keys collide once expanded is not what renaming entry by entry gives", Input: map[string]any{"document": string(src), "env": runtime}, Got: fmt.Sprint(gotPairs), Want: fmt.Sprint(want)})
				}
			}
			if rep == 0 {
				first = got
				// table of the real library's expansions for every string of the pipeline
				strs := map[string]bool{}
				allStrings(before, strs)
				tbl := vl.OMap{}
				keys := make([]string, 0, len(strs))
				for s := range strs {
					keys = append(keys, s)
				}
				sort.Strings(keys)
				for _, s := range keys {
					if e, ok := expand(s); ok {
						tbl = append(tbl, vl.KV{K: s, V: e})
					} else {
						tbl = append(tbl, vl.KV{K: s, V: nil})
					}
				}
				shards[i%nShard].Add(vl.Escape("interprest "+vl.Enc(tbl)+" "+canon(before)), vl.Escape(got))
				// direct oracle
				mp := &mapper{f: expand}
				want := mp.pipelineRest(before)
				c.res.OracleChecks++
				desc := map[string]any{"document": string(src), "env": runtime}
				switch {
				case mp.collision:
					c.res.Hist("oracle.skipped-collision")
				case mp.failed:
					c.res.Hist("case.expansion-fails")
					if ierr == nil {
						// an unvisited failing string is possible only in un-interpolated positions (signature, scalars): check below
						if !failingOnlyInExempt(before, expand) {
							c.res.Fail(core.OracleFailure{What: "an expansion fails but Interpolate reported no error", Input: desc})
						}
					}
				case ierr != nil:
					c.res.Fail(core.OracleFailure{What: "every expansion succeeds but Interpolate failed", Input: desc, Got: ierr.Error()})
				case canon(want) != canon(after):
					f := core.OracleFailure{What: "a string is not the single expansion of the original", Input: desc, Got: firstDiff(canon(after), canon(want)), Want: "mapStrings(expand, pipeline)"}
					c.res.Fail(f)
				}
				c.res.Case(string(src)+fmt.Sprint(runtime), len(strs) > 3)
				c.res.Hist("format." + format)
				if ierr != nil {
					c.res.Hist("outcome.error")
				} else {
					c.res.Hist("outcome.ok")
				}
				if i < 2 {
					c.res.Sample(desc)
				}
			} else if got != first {
				c.res.Fail(core.OracleFailure{What: "repeating the run on the same input gives a different result", Input: map[string]any{"document": string(src), "env": runtime},
					Got: firstDiff(got, first)})
				break
			}
		}
	}
	if c.only != nil {
		return nil
	}
	// walkers in isolation: big Go maps and ordered maps with renamed keys and escaped values (the double-expansion trigger)
	nw := n / 2
	for i := 0; i < nw; i++ {
		size := 9 + rng.Intn(32)
		m := map[string]any{}
		env := mapEnv{}
		for j := 0; j < size; j++ {
			k := fmt.Sprintf("K%d", j)
			switch rng.Intn(4) {
			case 0:
				m["$"+k] = "$$X" + fmt.Sprint(j)
				env[k] = "renamed" + fmt.Sprint(j)
				env["X"+fmt.Sprint(j)] = "DOUBLE-EXPANDED"
			case 1:
				m[k] = "$X" + fmt.Sprint(j)
				env["X"+fmt.Sprint(j)] = "v"
			default:
				m[k] = []any{"$$Y", "\\$Y", map[string]any{"$" + k: "$$Y"}}
				env[k] = "r" + fmt.Sprint(j)
				env["Y"] = "DOUBLE-EXPANDED"
			}
		}
		if i%5 == 2 {
			// two sibling keys that expand to the same name (one of the entries is lost, by a fixed rule); every
			// other entry, containers included, is still expanded exactly once
			m["${COLLIDE_A}"] = "from-a"
			m["${COLLIDE_B}"] = []any{"$$Y", "x"}
			env["COLLIDE_A"] = "same-name"
			env["COLLIDE_B"] = "same-name"
			env["Y"] = "DOUBLE-EXPANDED"
			c.res.Hist("walker.sibling-keys-collide")
		}
		expand := func(s string) (string, bool) {
			out, err := interpolate.Interpolate(env, s)
			return out, err == nil
		}
		before := dump.Any(m)
		mp := &mapper{f: expand}
		want := mp.any(before)
		var first string
		for rep := 0; rep < reps; rep++ {
			mm := deepCopyAny(m).(map[string]any)
			err := pipeline.VerifInterpolateMap(pipeline.VerifEnvTransformer(env), mm)
			got := canon(dump.Any(mm))
			if err != nil {
				got = "error"
			}
			if rep == 0 {
				first = got
				strs := map[string]bool{}
				allStrings(before, strs)
				tbl := vl.OMap{}
				for _, s := range sortedKeysS(strs) {
					e, _ := expand(s)
					tbl = append(tbl, vl.KV{K: s, V: e})
				}
				shards[i%nShard].Add(vl.Escape("interpval "+vl.Enc(tbl)+" "+canon(before)), vl.Escape("ok "+got))
				c.res.OracleChecks++
				if mp.collision && err == nil {
					// entries whose expanded name no other entry shares are judged one by one
					names := map[string]int{}
					for k := range m {
						if e, ok := expand(k); ok {
							names[e]++
						}
					}
					for k, v := range m {
						ek, ok := expand(k)
						if !ok || names[ek] != 1 {
							continue
						}
						one := &mapper{f: expand}
						wv := canon(one.any(dump.Any(v)))
						if gv, has := mm[ek]; !has || canon(dump.Any(gv)) != wv {
							c.res.Fail(core.OracleFailure{What: "interpolateMap: an entry not involved in any key collision is not the single expansion of the original",
								Input: map[string]any{"map": canon(before), "key": k}, Got: canon(dump.Any(mm[ek])), Want: wv})
							break
						}
					}
				}
				if !mp.collision && got != canon(want) {
					c.res.Fail(core.OracleFailure{What: "interpolateMap: a string is not the single expansion of the original (escaped value under a renamed key)",
						Input: map[string]any{"map": canon(before)}, Got: firstDiff(got, canon(want))})
				}
				c.res.Case("walker:"+canon(before), true)
				c.res.Hist("walker.big-go-map")
			} else if got != first {
				c.res.Fail(core.OracleFailure{What: "interpolateMap: different results on repeated runs", Input: map[string]any{"map": canon(before)}, Got: firstDiff(got, first)})
				break
			}
		}
	}
	c.res.Rule = "pipelines from the grammar-directed generator (all step kinds, groups to depth 3, three plugin forms, matrices, caches, unknown fields with maps of up to 24 keys) with $-forms ($V, ${V}, $$V, \\$V, defaults, ${V?}, substrings) injected into every string position incl. keys, rendered as YAML or JSON, parsed by the real parser, interpolated with a random runtime env; each case repeated (3x quick / 20x thorough) on fresh parses; plus Go maps of 9-40 entries with renamed keys and escaped values driven through interpolateMap in isolation. Non-trivial = more than three strings; distinct by (document, env)."
	mm, total, err := core.RunSessions(c.driver, shards, 20, 0)
	c.res.ModelRequests = total
	c.res.Mismatches = mm
	return err
}

func isWarning(err error) bool {
	return err != nil && strings.Contains(fmt.Sprintf("%T", err), "Warning")
}

func firstDiff(a, b string) string {
	i := 0
	for i < len(a) && i < len(b) && a[i] == b[i] {
		i++
	}
	lo := i - 60
	if lo < 0 {
		lo = 0
	}
	ha, hb := i+80, i+80
	if ha > len(a) {
		ha = len(a)
	}
	if hb > len(b) {
		hb = len(b)
	}
	return fmt.Sprintf("at %d: got …%s… want …%s…", i, a[lo:ha], b[lo:hb])
}

// failingOnlyInExempt: every failing string occurs only in positions interpolation never visits
// (signature, scalar of wait/input steps). Conservative: recompute with the mapper and see if it failed.
func failingOnlyInExempt(before vl.OMap, expand func(string) (string, bool)) bool {
	mp := &mapper{f: expand}
	mp.pipelineRest(before)
	return !mp.failed
}

func deepCopyAny(v any) any {
	switch t := v.(type) {
	case map[string]any:
		out := make(map[string]any, len(t))
		for k, e := range t {
			out[k] = deepCopyAny(e)
		}
		return out
	case []any:
		out := make([]any, len(t))
		for i, e := range t {
			out[i] = deepCopyAny(e)
		}
		return out
	}
	return v
}

var _ = reflect.DeepEqual
