package main

// C11 — matrix permutation validation: implementation vs Lean model, plus the matrix
// specification written directly in Go (oracle).

import (
	"bytes"
	"encoding/json"
	"fmt"
	"gopkg.in/yaml.v3"
	"sort"

	pipeline "github.com/buildkite/go-pipeline"

	"verifharness/core"
	"verifharness/vl"
)

func init() { checks["C11"] = runC11 }

type c11Adj struct {
	with  map[string]string
	skip  any
	isNil bool // a null entry in the adjustments list (parses to a nil *MatrixAdjustment)
}

type c11Matrix struct {
	isNil bool
	setup map[string][]string
	adjs  []c11Adj
}

func (m c11Matrix) impl() *pipeline.Matrix {
	if m.isNil {
		return nil
	}
	pm := &pipeline.Matrix{Setup: pipeline.MatrixSetup{}}
	for k, v := range m.setup {
		pm.Setup[k] = v
	}
	for _, a := range m.adjs {
		if a.isNil {
			pm.Adjustments = append(pm.Adjustments, nil)
			continue
		}
		w := pipeline.MatrixAdjustmentWith{}
		for k, v := range a.with {
			w[k] = v
		}
		pm.Adjustments = append(pm.Adjustments, &pipeline.MatrixAdjustment{With: w, Skip: a.skip})
	}
	return pm
}

func (m c11Matrix) vl() any {
	if m.isNil {
		return nil
	}
	setup := vl.OMap{}
	for _, k := range sortedKeysS(m.setup) {
		if m.setup[k] == nil {
			setup = append(setup, vl.KV{K: k, V: nil})
		} else {
			setup = append(setup, vl.KV{K: k, V: m.setup[k]})
		}
	}
	var adjs []any
	for _, a := range m.adjs {
		if a.isNil {
			adjs = append(adjs, nil)
			continue
		}
		adjs = append(adjs, vl.OMap{{K: "with", V: ssOMap(a.with)}, {K: "skip", V: a.skip}})
	}
	if adjs == nil {
		adjs = []any{}
	}
	return vl.OMap{{K: "setup", V: setup}, {K: "adjustments", V: adjs}}
}

func sortedKeysS[V any](m map[string]V) []string {
	ks := make([]string, 0, len(m))
	for k := range m {
		ks = append(ks, k)
	}
	sort.Strings(ks)
	return ks
}

func ssOMap(m map[string]string) vl.OMap {
	o := vl.OMap{}
	for _, k := range sortedKeysS(m) {
		o = append(o, vl.KV{K: k, V: m[k]})
	}
	return o
}

// The matrix specification, from the property statement.
func c11Spec(m c11Matrix, p map[string]string) bool {
	if m.isNil {
		return len(p) == 0
	}
	exists := func(d string) bool { return m.setup[d] != nil }
	// names each matrix dimension once
	if len(p) != len(m.setup) {
		return false
	}
	for d := range p {
		if !exists(d) {
			return false
		}
	}
	// a malformed adjustment rejects
	for _, a := range m.adjs {
		if a.isNil {
			return false
		}
		if len(a.with) != len(m.setup) {
			return false
		}
		for d := range a.with {
			if !exists(d) {
				return false
			}
		}
	}
	eqAdj := func(a c11Adj) bool {
		for d, v := range p {
			w, ok := a.with[d]
			if !ok || w != v {
				return false
			}
		}
		return true
	}
	comb := true
	for d, v := range p {
		found := false
		for _, x := range m.setup[d] {
			if x == v {
				found = true
			}
		}
		if !found {
			comb = false
		}
	}
	isAdj := false
	for _, a := range m.adjs {
		if eqAdj(a) {
			isAdj = true
			skip := false
			switch s := a.skip.(type) {
			case nil:
			case bool:
				skip = s
			default:
				skip = true
			}
			if skip {
				return false
			}
		}
	}
	return comb || isAdj
}

func c11Check(c *ctx, sess *core.Session, m c11Matrix, perms []map[string]string, sample bool) {
	menc := vl.Enc(m.vl())
	pm := m.impl()
	// the nil permutation (a job without one) against a step that has a matrix: never a valid selection unless
	// the matrix has no dimension at all; judged through the public entry point
	if pm != nil && len(m.setup) > 0 {
		step := &pipeline.CommandStep{Command: "echo {{matrix}}", Matrix: pm}
		var ierr error
		c.res.OracleChecks++
		if pn, msg := guard(func() { ierr = step.InterpolateMatrixPermutation(nil) }); pn {
			c.res.Fail(core.OracleFailure{What: "InterpolateMatrixPermutation(nil) panicked: " + msg, Input: map[string]any{"matrix": fmt.Sprint(m.vl())}})
		} else if want := c11Spec(m, map[string]string{}); (ierr == nil) != want {
			c.res.Fail(core.OracleFailure{What: "nil permutation on a step with a matrix", Input: map[string]any{"matrix": fmt.Sprint(m.vl())}, Got: fmt.Sprint(ierr), Want: map[bool]string{true: "accept", false: "reject"}[want]})
		}
	}
	for _, p := range perms {
		var got string
		if pn, msg := guard(func() {
			if err := pm.VerifValidatePermutation(pipeline.MatrixPermutation(p)); err == nil {
				got = "accept"
			} else {
				got = "reject"
			}
		}); pn {
			got = "panic:" + msg
		}
		want := "reject"
		if c11Spec(m, p) {
			want = "accept"
		}
		c.res.OracleChecks++
		desc := map[string]any{"matrix": fmt.Sprint(m.vl()), "permutation": p}
		if got != want {
			c.res.Fail(core.OracleFailure{What: "validatePermutation differs from the matrix specification", Input: desc, Got: got, Want: want})
		}
		// a rejected (or empty) permutation leaves the step unmodified
		if got == "accept" && len(p) != 0 {
			sess.Add(vl.Escape("validate "+menc+" "+vl.Enc(ssOMap(p))), got)
			c.res.Case(fmt.Sprint(menc, p), !m.isNil && len(m.setup) > 0)
			c.res.Hist("verdict." + got)
			if sample && len(m.adjs) > 0 {
				c.res.Sample(desc)
			}
			continue
		}
		step := &pipeline.CommandStep{Command: "echo {{matrix}} {{matrix.os}} {{matrix.arch}}", Label: "{{matrix.os}}", Matrix: pm,
			Env: map[string]string{"K": "{{matrix.arch}}"}}
		if len(p)%2 == 1 {
			// ...or a step that only uses the dimensions its own matrix has (nothing but the validation stands
			// between a wrong permutation and a successful interpolation)
			cmd := "echo"
			for _, d := range sortedKeysSL(m.setup) {
				if d == "" {
					cmd += " {{matrix}}"
				} else {
					cmd += " {{matrix." + d + "}}"
				}
			}
			step = &pipeline.CommandStep{Command: cmd, Label: cmd, Matrix: pm}
		}
		before, _ := json.Marshal(step)
		var ierr error
		if pn, msg := guard(func() { ierr = step.InterpolateMatrixPermutation(pipeline.MatrixPermutation(p)) }); pn {
			c.res.Fail(core.OracleFailure{What: "InterpolateMatrixPermutation panicked: " + msg, Input: desc})
		}
		after, _ := json.Marshal(step)
		if (got == "reject" || len(p) == 0) && string(before) != string(after) {
			c.res.Fail(core.OracleFailure{What: "rejected or empty permutation modified the step", Input: desc, Got: string(after), Want: string(before)})
		}
		if got == "reject" && ierr == nil {
			c.res.Fail(core.OracleFailure{What: "InterpolateMatrixPermutation succeeded for a rejected permutation", Input: desc})
		}
		sess.Add(vl.Escape("validate "+menc+" "+vl.Enc(ssOMap(p))), got)
		c.res.Case(fmt.Sprint(menc, p), !m.isNil && len(m.setup) > 0)
		c.res.Hist("verdict." + got)
		if sample && got == "accept" && len(m.adjs) > 0 {
			c.res.Sample(desc)
		}
	}
}

func sortedKeysSL(m map[string][]string) []string {
	out := make([]string, 0, len(m))
	for k := range m {
		out = append(out, k)
	}
	sort.Strings(out)
	return out
}

// c11TextRoute: the same matrix written as a document and read by the real parser (the way matrices reach
// the validator in use), judged against the same specification.
func c11TextRoute(c *ctx, m c11Matrix, perms []map[string]string) {
	setup := map[string]any{}
	for k, v := range m.setup {
		if v == nil {
			setup[k] = nil
		} else {
			setup[k] = v
		}
	}
	var adjs []any
	for _, a := range m.adjs {
		if a.isNil {
			adjs = append(adjs, nil)
			continue
		}
		am := map[string]any{"with": a.with}
		if a.skip != nil {
			am["skip"] = a.skip
		}
		adjs = append(adjs, am)
	}
	mm := map[string]any{"setup": setup}
	if adjs != nil {
		mm["adjustments"] = adjs
	}
	src, err := yaml.Marshal(map[string]any{"steps": []any{map[string]any{"command": "x", "matrix": mm}}})
	if err != nil {
		return
	}
	p, perr := pipeline.Parse(bytes.NewReader(src))
	if p == nil || perr != nil || len(p.Steps) != 1 {
		c.res.Hist("text-route.not-parsed")
		return
	}
	cs, ok := p.Steps[0].(*pipeline.CommandStep)
	if !ok || cs.Matrix == nil {
		c.res.Hist("text-route.not-a-command-step")
		return
	}
	// what the document says, as the specification reads it: an empty `with` mapping is an adjustment
	// without values; an empty setup is no dimension
	for _, perm := range perms {
		var got string
		if pn, msg := guard(func() {
			if err := cs.Matrix.VerifValidatePermutation(pipeline.MatrixPermutation(perm)); err == nil {
				got = "accept"
			} else {
				got = "reject"
			}
		}); pn {
			got = "panic:" + msg
		}
		want := "reject"
		if c11Spec(m, perm) {
			want = "accept"
		}
		c.res.OracleChecks++
		if got != want {
			c.res.Fail(core.OracleFailure{What: "validatePermutation on the parsed document differs from the matrix specification", Input: map[string]any{"document": string(src), "permutation": perm}, Got: got, Want: want})
		}
	}
	c.res.Hist("text-route")
}

func runC11(c *ctx) error {
	const nShard = 12
	var shards []*core.Session
	for i := 0; i < nShard; i++ {
		shards = append(shards, core.NewSession("c11"))
	}
	sess := shards[0]
	dimNames := []string{"", "os", "arch"}
	valLists := [][]string{nil, {}, {"a"}, {"b"}, {"a", "b"}}
	var setups []map[string][]string
	setups = append(setups, map[string][]string{})
	for _, d := range dimNames {
		for _, vs := range valLists {
			setups = append(setups, map[string][]string{d: vs})
		}
	}
	for i := 0; i < len(dimNames); i++ {
		for j := i + 1; j < len(dimNames); j++ {
			for _, v1 := range valLists {
				for _, v2 := range valLists {
					setups = append(setups, map[string][]string{dimNames[i]: v1, dimNames[j]: v2})
				}
			}
		}
	}
	vals := []string{"a", "b", "c"}
	// candidate permutations: every map over <= 2 of the names {"", os, arch, zz} with values a/b/c, plus a 3-key one
	permNames := []string{"", "os", "arch", "zz"}
	var perms []map[string]string
	perms = append(perms, map[string]string{})
	for _, d := range permNames {
		for _, v := range vals {
			perms = append(perms, map[string]string{d: v})
		}
	}
	for i := 0; i < len(permNames); i++ {
		for j := i + 1; j < len(permNames); j++ {
			for _, v1 := range vals {
				for _, v2 := range vals {
					perms = append(perms, map[string]string{permNames[i]: v1, permNames[j]: v2})
				}
			}
		}
	}
	perms = append(perms, map[string]string{"": "a", "os": "a", "arch": "b"}, map[string]string{"os": "", "arch": "a"}, map[string]string{"os": ""})
	skips := []any{nil, false, true, "yes", 0, "", "false", "f", "F", "0", "False", "FALSE", "no", "true", 1, []any{}}
	adjsFor := func(setup map[string][]string) []c11Adj {
		var out []c11Adj
		dims := sortedKeysS(setup)
		var withs []map[string]string
		switch len(dims) {
		case 0:
			withs = append(withs, map[string]string{})
		case 1:
			for _, v := range vals {
				withs = append(withs, map[string]string{dims[0]: v})
			}
		default:
			for _, v1 := range vals {
				for _, v2 := range vals {
					withs = append(withs, map[string]string{dims[0]: v1, dims[1]: v2})
				}
			}
		}
		// malformed: wrong arity, unknown dimension, missing key with "" value
		withs = append(withs, map[string]string{"zz": "a"}, map[string]string{"os": "a", "arch": "a", "": "a"})
		if len(dims) == 2 {
			withs = append(withs, map[string]string{dims[0]: "a", "zz": ""})
		}
		for _, w := range withs {
			for _, s := range skips {
				out = append(out, c11Adj{with: w, skip: s})
			}
		}
		out = append(out, c11Adj{isNil: true})
		return out
	}
	rng := c.rng.Fork()
	// nil matrix
	c11Check(c, sess, c11Matrix{isNil: true}, perms, false)
	for si, setup := range setups {
		sess = shards[si%nShard]
		c11Check(c, sess, c11Matrix{setup: setup}, perms, false)
		adjs := adjsFor(setup)
		for _, a := range adjs {
			c11Check(c, sess, c11Matrix{setup: setup, adjs: []c11Adj{a}}, perms, true)
		}
		// two adjustments: sampled in quick, denser in thorough
		n2 := 12
		if c.thorough() {
			n2 = 150
		}
		for i := 0; i < n2; i++ {
			a1, a2 := core.Pick(rng, adjs), core.Pick(rng, adjs)
			c11Check(c, sess, c11Matrix{setup: setup, adjs: []c11Adj{a1, a2}}, perms, true)
		}
	}
	c.res.Hist(fmt.Sprintf("setups=%d", len(setups)))
	c.res.Hist(fmt.Sprintf("perms-per-matrix=%d", len(perms)))
	// random: three dimensions, longer value lists, repeated conflicting adjustments
	nr := 2000
	if c.thorough() {
		nr = 30000
	}
	names3 := []string{"os", "arch", "ver", "", "zz"}
	exhaustiveVals := vals
	for i := 0; i < nr; i++ {
		// one random matrix in three draws its values from a pool with separators inside the values
		// (a tuple is a tuple of values, however they are spelled)
		vals := exhaustiveVals
		if i%3 == 0 {
			vals = []string{"x,y", "z", "x", "y,z", ",", "a", "x y", "y", "x|y"}
		}
		nd := 1 + rng.Intn(3)
		setup := map[string][]string{}
		for len(setup) < nd {
			d := core.Pick(rng, names3[:4])
			var vs []string
			switch rng.Intn(6) {
			case 0:
				vs = nil
			case 1:
				vs = []string{}
			default:
				for k := 0; k < 1+rng.Intn(3); k++ {
					if rng.Intn(4) == 0 {
						vs = append(vs, "") // the empty string is a value like any other
						continue
					}
					vs = append(vs, core.Pick(rng, vals))
				}
			}
			setup[d] = vs
		}
		dims := sortedKeysS(setup)
		mk := func() map[string]string {
			w := map[string]string{}
			for _, d := range dims {
				if rng.Intn(12) == 0 {
					continue
				}
				w[d] = core.Pick(rng, append(vals, ""))
			}
			if rng.Intn(12) == 0 {
				w[core.Pick(rng, names3)] = core.Pick(rng, vals)
			}
			return w
		}
		var adjs []c11Adj
		for k := rng.Intn(4); k > 0; k-- {
			if rng.Intn(15) == 0 {
				adjs = append(adjs, c11Adj{isNil: true})
				continue
			}
			adjs = append(adjs, c11Adj{with: mk(), skip: core.Pick(rng, skips)})
		}
		var ps []map[string]string
		for k := 0; k < 6; k++ {
			ps = append(ps, mk())
		}
		for _, a := range adjs {
			if !a.isNil {
				ps = append(ps, a.with)
			}
		}
		// a permutation of the right size for a one-dimension matrix that names some other dimension (its value is
		// whatever: the zero value a missing key reads as included)
		for _, nm := range names3 {
			if _, has := setup[nm]; !has {
				ps = append(ps, map[string]string{nm: core.Pick(rng, append(vals, ""))})
			}
		}
		if i%10 == 5 {
			// boundary shift: two tuples whose values concatenate to the same text with any one-character
			// separator; one is an adjustment (skipped or not), the other a setup combination or nothing
			// (also separators that spell the next dimension the way a printed map, a JSON object or a YAML mapping would)
			sep := core.Pick(rng, []string{",", "|", " ", "/", ":", "\x00", "\x1f", "\t", "-", "=", ";", " os:", ", os=", "\",\"os\":\"", "\nos: ", " os=", "] os:["})
			d1, d2 := "arch", "os"
			setup = map[string][]string{d1: {"x" + sep + "y", "x"}, d2: {"z", "y" + sep + "z"}}
			if rng.Bool() {
				setup[d2] = []string{"z"} // then (x, y<sep>z) is not a setup combination at all
			}
			adjs = []c11Adj{{with: map[string]string{d1: "x" + sep + "y", d2: "z"}, skip: core.Pick(rng, skips)}}
			if rng.Bool() {
				adjs = append(adjs, c11Adj{with: map[string]string{d1: "x", d2: "y" + sep + "z"}, skip: core.Pick(rng, skips)})
			}
			ps = []map[string]string{{d1: "x", d2: "y" + sep + "z"}, {d1: "x" + sep + "y", d2: "z"}, {d1: "x", d2: "z"}, {d1: "x" + sep + "y", d2: "y" + sep + "z"}}
			c.res.Hist("random-matrix.boundary-shift")
		}
		c11Check(c, shards[i%nShard], c11Matrix{setup: setup, adjs: adjs}, ps, false)
		c11TextRoute(c, c11Matrix{setup: setup, adjs: adjs}, ps)
		c.res.Hist("random-matrix")
	}
	c.res.Exhaustive = true
	c.res.Rule = "exhaustive: every setup over <=2 of the dimensions {\"\",os,arch} with value lists {nil,[],[a],[b],[a,b]}, with 0 or 1 adjustment of every shape (all value tuples, wrong arity, unknown dimension) x every skip kind, against every candidate permutation over <=2 of {\"\",os,arch,zz} with values a/b/c (plus wrong-arity ones); two adjustments sampled; random 3-dimension matrices with repeated/conflicting adjustments. Each case also checks that a rejected or empty permutation leaves a step unmodified. Non-trivial = non-nil matrix with at least one dimension; distinct by (matrix, permutation)."
	mm, total, err := core.RunSessions(c.driver, shards, 20, 0)
	c.res.ModelRequests = total
	c.res.Mismatches = mm
	return err
}
