package main

// C01 — mutation matrix on the real Verify (all key kinds) vs the Lean bookkeeping model run with the
// recording scheme ("valid iff same key and same payload"), with the expected verdict of every
// single-point mutation computed by construction.

import (
	"context"
	"encoding/json"
	"fmt"
	"sort"
	"strings"

	pipeline "github.com/buildkite/go-pipeline"

	"github.com/buildkite/go-pipeline/signature"

	"verifharness/core"
	"verifharness/dump"
	"verifharness/vl"
)

func init() { checks["C01"] = runC01 }

type c01Mutation struct {
	name   string
	wantOK bool
	step   *pipeline.CommandStep
	repo   string
	env    map[string]string
	sig    *pipeline.Signature
	key    sigKey
}

func cloneSig(s *pipeline.Signature) *pipeline.Signature {
	return &pipeline.Signature{Algorithm: s.Algorithm, SignedFields: append([]string(nil), s.SignedFields...), Value: s.Value}
}

func runC01(c *ctx) error {
	sess := core.NewSession("sig")
	rng := c.rng.Fork()
	keys := sigKeys()
	n := 600
	if c.thorough() {
		n = 4000
	}
	done := 0
	var prevSig *pipeline.Signature // another step's signature, for splicing
	var prevPayload string
	for iter := 0; done < n && iter < n*6; iter++ {
		p, src := c.corpusOrGenerated(iter, 6, rng, 2, 0)
		if p == nil {
			continue
		}
		cmds := commandStepsOf(p.Steps)
		if len(cmds) == 0 {
			continue
		}
		idx := rng.Intn(len(cmds))
		ss := stepSource{src, idx}
		st := cmds[idx]
		// sometimes the step carries extra matrix / adjustment keys spelled like the typed fields (reachable
		// through interpolated key names): the typed field is what is signed, the decoy never replaces it
		prep := func(*pipeline.CommandStep) {}
		if st.Matrix != nil && rng.Intn(5) == 0 {
			c.res.Hist("base.decoy-keys-named-like-fields")
			prep = func(cs *pipeline.CommandStep) {
				if cs.Matrix == nil {
					return
				}
				if cs.Matrix.RemainingFields == nil {
					cs.Matrix.RemainingFields = map[string]any{}
				}
				cs.Matrix.RemainingFields["setup"] = []any{"decoy"}
				cs.Matrix.RemainingFields["adjustments"] = "decoy"
				for _, a := range cs.Matrix.Adjustments {
					if a == nil {
						continue
					}
					if a.RemainingFields == nil {
						a.RemainingFields = map[string]any{}
					}
					a.RemainingFields["with"] = "decoy"
					a.RemainingFields["skip"] = "decoy"
				}
			}
		}
		prep(st)
		k := keys[rng.Intn(len(keys))]
		if k.kind == "PS512" && rng.Intn(4) != 0 {
			k = keys[0]
		}
		repo := core.Pick(rng, []string{"git@github.com:o/r.git", "https://example.com/r", ""})
		penv := randPenv(rng, st)
		sig, payload0, err := signStep(k, st, repo, penv)
		if err != nil {
			continue
		}
		done++
		desc := map[string]any{"document": string(src), "step_index": idx, "repo": repo, "pipeline_env": penv, "key": k.kind}
		if iter%4 == 1 && !hasUnknownStep(p.Steps) {
			// the way a pipeline upload signs: SignSteps over the whole step list (groups recursively) with the same
			// pipeline env. The signature it leaves on this step must cover what Sign covers for it, and it is the
			// one the tamperings below are judged against.
			if err := signature.SignSteps(context.Background(), p.Steps, k.signer, repo, signature.WithEnv(penv)); err == nil && st.Signature != nil {
				c.res.Hist("base.signed-through-SignSteps")
				c.res.OracleChecks++
				if strings.Join(st.Signature.SignedFields, ",") != strings.Join(sig.SignedFields, ",") {
					c.res.Fail(core.OracleFailure{What: "SignSteps signs a different field list for a step than Sign does with the same pipeline env", Input: desc,
						Got: strings.Join(st.Signature.SignedFields, ","), Want: strings.Join(sig.SignedFields, ",")})
				}
				sig = st.Signature
			}
		}
		signedEnvName := ""
		for _, kk := range sortedKeysS(penv) {
			if _, shadow := st.Env[kk]; !shadow {
				signedEnvName = kk
				break
			}
		}
		var muts []c01Mutation
		add := func(name string, wantOK bool, f func(m *c01Mutation)) {
			m := c01Mutation{name: name, wantOK: wantOK, step: ss.fresh(), repo: repo, env: copyEnv(penv), sig: cloneSig(sig), key: k}
			if m.step == nil {
				return
			}
			prep(m.step)
			f(&m)
			muts = append(muts, m)
		}
		add("unchanged", true, func(m *c01Mutation) {})
		add("verification env gains unrelated variables", true, func(m *c01Mutation) {
			m.env["BUILDKITE_BUILD_ID"] = "123"
			m.env["ZZ_UNRELATED"] = sigStr(rng)
		})
		add("command changed", false, func(m *c01Mutation) { m.step.Command += " && curl evil" })
		add("command emptied", st.Command == "", func(m *c01Mutation) { m.step.Command = "" })
		add("command changed and the old text offered as an env variable named command", false, func(m *c01Mutation) {
			m.env["command"] = m.step.Command
			m.step.Command += " && curl evil"
		})
		add("repository URL changed and the old URL offered as an env variable named repository_url", false, func(m *c01Mutation) {
			m.env["repository_url"] = m.repo
			m.repo += ".evil"
		})
		add("verification env gains variables named like signed fields", true, func(m *c01Mutation) {
			for _, f := range []string{"command", "env", "plugins", "matrix", "repository_url"} {
				m.env[f] = sigStr(rng)
			}
		})
		add("step env entry added", false, func(m *c01Mutation) {
			if m.step.Env == nil {
				m.step.Env = map[string]string{}
			}
			m.step.Env["ZZ_ADDED"] = "1"
		})
		if len(st.Env) > 0 {
			k0 := sortedKeysS(st.Env)[0]
			add("step env entry removed", false, func(m *c01Mutation) { delete(m.step.Env, k0) })
			add("step env value changed", false, func(m *c01Mutation) { m.step.Env[k0] += "'" })
		}
		add("plugin added", false, func(m *c01Mutation) {
			m.step.Plugins = append(m.step.Plugins, &pipeline.Plugin{Source: "evil#v1"})
		})
		if len(st.Plugins) > 0 {
			add("plugin removed", false, func(m *c01Mutation) { m.step.Plugins = m.step.Plugins[1:] })
			add("plugin source changed", false, func(m *c01Mutation) { m.step.Plugins[0].Source += "x" })
			add("plugin source gains the -buildkite-plugin suffix (another repository)", false, func(m *c01Mutation) {
				m.step.Plugins[0].Source = withPluginSuffix(m.step.Plugins[0].Source)
			})
			add("plugin config changed", false, func(m *c01Mutation) {
				m.step.Plugins[0].Config = map[string]any{"injected": true}
			})
			// a config need not be a mapping: every falsy scalar is a config of its own, different from null / {} / []
			// and from each other
			curJSON, _ := json.Marshal(st.Plugins[0].Config)
			if m, ok := st.Plugins[0].Config.(map[string]any); ok && len(m) == 0 {
				curJSON = []byte("null")
			}
			if l, ok := st.Plugins[0].Config.([]any); ok && len(l) == 0 {
				curJSON = []byte("null")
			}
			for _, cand := range []any{false, 0, "", nil} {
				cand := cand
				cj, _ := json.Marshal(cand)
				if string(cj) == string(curJSON) {
					continue
				}
				add(fmt.Sprintf("plugin config replaced by %s", cj), false, func(m *c01Mutation) { m.step.Plugins[0].Config = cand })
			}
			add("plugin source spelled canonically", true, func(m *c01Mutation) { m.step.Plugins[0].Source = m.step.Plugins[0].FullSource() })
		}
		if len(st.Plugins) >= 2 {
			reorderChanges := st.Plugins[0].FullSource() != st.Plugins[1].FullSource() || fmt.Sprint(dump.Any(st.Plugins[0].Config)) != fmt.Sprint(dump.Any(st.Plugins[1].Config))
			p0, _ := st.Plugins[0].MarshalJSON()
			p1, _ := st.Plugins[1].MarshalJSON()
			reorderChanges = string(p0) != string(p1)
			add("plugins reordered", !reorderChanges, func(m *c01Mutation) {
				m.step.Plugins[0], m.step.Plugins[1] = m.step.Plugins[1], m.step.Plugins[0]
			})
		}
		add("matrix replaced", false, func(m *c01Mutation) {
			m.step.Matrix = &pipeline.Matrix{Setup: pipeline.MatrixSetup{"": {"zz-injected"}}}
		})
		if st.Matrix != nil && len(st.Matrix.Setup) > 0 {
			for _, d := range sortedKeysS(st.Matrix.Setup) {
				d := d
				add("matrix value added", false, func(m *c01Mutation) {
					m.step.Matrix.Setup[d] = append(m.step.Matrix.Setup[d], "zz-extra")
				})
			}
			if len(st.Matrix.Setup) > 1 {
				d := sortedKeysS(st.Matrix.Setup)[len(st.Matrix.Setup)-1]
				add("matrix dimension removed", false, func(m *c01Mutation) { delete(m.step.Matrix.Setup, d) })
			}
			add("matrix adjustment added", false, func(m *c01Mutation) {
				m.step.Matrix.Adjustments = append(m.step.Matrix.Adjustments, &pipeline.MatrixAdjustment{With: pipeline.MatrixAdjustmentWith{"": "zz"}, Skip: true})
			})
		}
		add("repository URL changed", false, func(m *c01Mutation) { m.repo += ".evil" })
		add("label changed (not signed)", true, func(m *c01Mutation) { m.step.Label += " x" })
		if signedEnvName != "" {
			add("signed pipeline env value changed", false, func(m *c01Mutation) { m.env[signedEnvName] += "!" })
			add("signed pipeline env variable removed", false, func(m *c01Mutation) { delete(m.env, signedEnvName) })
			add("signed env variable dropped from the field list", false, func(m *c01Mutation) {
				var fs []string
				for _, f := range m.sig.SignedFields {
					if f != "env::"+signedEnvName {
						fs = append(fs, f)
					}
				}
				m.sig.SignedFields = fs
			})
			add("signed pipeline env variable moved into the step env", false, func(m *c01Mutation) {
				if m.step.Env == nil {
					m.step.Env = map[string]string{}
				}
				m.step.Env[signedEnvName] = m.env[signedEnvName]
			})
		}
		for _, mf := range []string{"command", "env", "plugins", "matrix", "repository_url"} {
			mf := mf
			add("mandatory field "+mf+" dropped from the field list", false, func(m *c01Mutation) {
				var fs []string
				for _, f := range m.sig.SignedFields {
					if f != mf {
						fs = append(fs, f)
					}
				}
				m.sig.SignedFields = fs
			})
		}
		add("garbage field name added", false, func(m *c01Mutation) { m.sig.SignedFields = append(m.sig.SignedFields, "not_a_field") })
		add("unsigned env:: field added", false, func(m *c01Mutation) {
			m.sig.SignedFields = append(m.sig.SignedFields, "env::ZZ_NEVER_SIGNED")
			m.env["ZZ_NEVER_SIGNED"] = "v"
		})
		add("field list reordered and duplicated (not a semantic change)", true, func(m *c01Mutation) {
			fs := m.sig.SignedFields
			for i, j := 0, len(fs)-1; i < j; i, j = i+1, j-1 {
				fs[i], fs[j] = fs[j], fs[i]
			}
			m.sig.SignedFields = append(fs, fs[0])
		})
		add("field list emptied", false, func(m *c01Mutation) { m.sig.SignedFields = nil })
		add("algorithm name in the record changed", false, func(m *c01Mutation) { m.sig.Algorithm = "HS256" })
		add("signature value corrupted", false, func(m *c01Mutation) {
			b := []byte(m.sig.Value)
			i := len(b) - 12
			if b[i] == 'A' {
				b[i] = 'B'
			} else {
				b[i] = 'A'
			}
			m.sig.Value = string(b)
		})
		if prevSig != nil && prevPayload != payload0 {
			ps := prevSig
			add("another step's signature value spliced in", false, func(m *c01Mutation) { m.sig.Value = ps.Value })
		}
		for _, ok := range keys {
			if ok.id != k.id {
				other := ok
				add("verified with another key ("+other.kind+")", false, func(m *c01Mutation) { m.key = other })
				if rng.Intn(3) != 0 {
					break
				}
			}
		}
		for _, m := range muts {
			verr, _, panicked := verifyStep(m.key, m.sig, m.step, m.repo, m.env)
			got := "ok"
			if verr != nil {
				got = "err"
			}
			if panicked {
				got = "panic"
			}
			c.res.OracleChecks++
			mdesc := map[string]any{"mutation": m.name, "base": desc}
			if (got == "ok") != m.wantOK {
				c.res.Fail(core.OracleFailure{What: "verification verdict after mutation: " + m.name, Input: mdesc, Got: got, Want: map[bool]string{true: "ok", false: "err"}[m.wantOK]})
			}
			// model: recording scheme; the signature value stands for (signing key, signed payload)
			signedPayload, signKey := payload0, k.id
			switch m.name {
			case "signature value corrupted":
				signedPayload = payload0 + "\x00corrupted"
			case "another step's signature value spliced in":
				signedPayload = prevPayload
			}
			fields := make([]any, len(m.sig.SignedFields))
			for i, f := range m.sig.SignedFields {
				fields[i] = f
			}
			envV := vl.OMap{}
			for _, kk := range sortedKeysS(m.env) {
				envV = append(envV, vl.KV{K: kk, V: m.env[kk]})
			}
			req := "verify " + vl.Enc(m.sig.Algorithm) + " " + vl.Enc(fields) + " " + vl.Enc(signedPayload) + " " + vl.Enc(signKey) + " " + vl.Enc(m.key.id) + " " +
				vl.Enc(dump.Step(m.step)) + " " + vl.Enc(m.repo) + " " + vl.Enc(envV)
			sess.Add(vl.Escape(req), got)
			c.res.Case(m.name+"|"+payload0, m.name != "unchanged")
			c.res.Hist("mutation." + m.name)
			c.res.Hist("verdict." + got)
		}
		c.res.Hist("key." + k.kind)
		if done <= 2 {
			c.res.Sample(map[string]any{"step": desc, "mutations": len(muts)})
		}
		prevSig, prevPayload = sig, payload0
	}
	// integers beyond 2^53 inside a plugin config (recorded finding F12): a change between neighbouring values
	// must invalidate the signature like any other change
	{
		k := keys[0]
		mk := func(n int) *pipeline.CommandStep {
			return &pipeline.CommandStep{Command: "x", Plugins: pipeline.Plugins{{Source: "p#v1", Config: map[string]any{"n": n}}}}
		}
		check := func(a, b int, match string) {
			sig, _, err := signStep(k, mk(a), "r", nil)
			if err != nil {
				return
			}
			c.res.OracleChecks++
			if verr, _, _ := verifyStep(k, sig, mk(b), "r", nil); verr == nil {
				f := core.OracleFailure{What: "verification verdict after mutation: an integer in a plugin config changed", Input: map[string]any{"signed": a, "verified": b}, Got: "ok", Want: "err"}
				if match != "" {
					if id, ok := c.known.has(match); ok {
						f.Known = id
					}
				}
				c.res.Fail(f)
			}
		}
		check(9007199254740993, 9007199254740992, "bigint-jcs-rounding")
		check(9007199254740991, 9007199254740990, "")
	}
	// genuine signatures over reduced field lists: a signer that does not include one of the mandatory fields
	// (its own SignedFielder, or an older producer) makes a record whose value is a valid signature of its payload;
	// verification against the presented step must still refuse it — whatever the pipeline env variables are called
	// (a variable named like the missing field is signed as env::<name>, which is a different field)
	for ki, k := range keys {
		for _, dropped := range []string{"command", "env", "plugins", "matrix", "repository_url"} {
			for _, envNamedLikeField := range []bool{false, true} {
				step := &pipeline.CommandStep{Command: "make " + dropped, Env: map[string]string{"OWN": "1"}, Plugins: pipeline.Plugins{{Source: "docker#v1", Config: map[string]any{"image": "x"}}}}
				repo := "git@host:o/r.git"
				penv := map[string]string{"DEPLOY": "1"}
				if envNamedLikeField {
					penv[dropped] = "value-of-a-variable-named-like-the-field"
				}
				rf := &reducedFielder{inner: &signature.CommandStepWithInvariants{CommandStep: *step, RepositoryURL: repo}, drop: dropped}
				var sig *pipeline.Signature
				var serr, verr error
				panicked, msg := guard(func() {
					sig, serr = signature.Sign(context.Background(), k.signer, rf, signature.WithEnv(penv))
					if serr == nil {
						verr = signature.Verify(context.Background(), sig, k.verif, &signature.CommandStepWithInvariants{CommandStep: *step, RepositoryURL: repo}, signature.WithEnv(penv))
					}
				})
				c.res.OracleChecks++
				desc := map[string]any{"key": k.kind, "field not signed": dropped, "pipeline env": fmt.Sprint(penv)}
				if panicked {
					c.res.Fail(core.OracleFailure{What: "Sign / Verify panics on a reduced field list", Input: desc, Got: msg})
					continue
				}
				if serr != nil {
					continue // the signer itself refuses: nothing to verify
				}
				desc["signed_fields"] = fmt.Sprint(sig.SignedFields)
				if verr == nil {
					c.res.Fail(core.OracleFailure{What: "a genuine signature that does not cover the mandatory field " + dropped + " verifies", Input: desc, Got: "ok", Want: "err"})
				}
				// ...also when the field list is padded: naming a field twice does not change the payload (values are keyed
				// by name) and does not make up for the one that is missing
				for _, dup := range sig.SignedFields {
					padded := cloneSig(sig)
					padded.SignedFields = append(append([]string{}, sig.SignedFields...), dup)
					sort.Strings(padded.SignedFields)
					var perr error
					pp, pmsg := guard(func() {
						perr = signature.Verify(context.Background(), padded, k.verif, &signature.CommandStepWithInvariants{CommandStep: *step, RepositoryURL: repo + "-changed"}, signature.WithEnv(penv))
					})
					c.res.OracleChecks++
					if pp {
						c.res.Fail(core.OracleFailure{What: "Verify panics on a padded field list", Input: desc, Got: pmsg})
					} else if perr == nil {
						c.res.Fail(core.OracleFailure{What: "a genuine signature that does not cover the mandatory field " + dropped + " verifies once its field list names another field twice", Input: map[string]any{"key": k.kind, "signed_fields": fmt.Sprint(padded.SignedFields), "field not signed": dropped}, Got: "ok", Want: "err"})
					}
				}
				c.res.Case(fmt.Sprintf("reduced-field-list:%d:%s:%v", ki, dropped, envNamedLikeField), true)
			}
		}
	}
	c.res.Hist("genuine-signatures-over-reduced-field-lists")
	c.res.Rule = "command steps of generated pipelines signed with every key kind; for each, every applicable single-point mutation of the step (command, env, plugins incl. reorder/canonical spelling, matrix), the verification env, the repository URL, the signature record (algorithm, field list: drop mandatory / drop signed env / garbage / unsigned env:: / reorder+duplicate / empty, value corrupted or spliced from another step) and the key; expected verdict by construction. Non-trivial = a real mutation; distinct by (mutation, signed payload)."
	mm, total, err := core.RunSessions(c.driver, []*core.Session{sess}, 20, 0)
	c.res.ModelRequests = total
	c.res.Mismatches = mm
	return err
}

// reducedFielder: a SignedFielder that signs everything its inner one does except one field (verification
// questions go to the inner one unchanged).
type reducedFielder struct {
	inner signature.SignedFielder
	drop  string
}

func (r *reducedFielder) SignedFields() (map[string]any, error) {
	m, err := r.inner.SignedFields()
	if err != nil {
		return nil, err
	}
	out := map[string]any{}
	for k, v := range m {
		if k != r.drop {
			out[k] = v
		}
	}
	return out, nil
}

func (r *reducedFielder) ValuesForFields(f []string) (map[string]any, error) {
	return r.inner.ValuesForFields(f)
}

// withPluginSuffix: the source with "-buildkite-plugin" appended to its name part (before any #ref).
func withPluginSuffix(src string) string {
	if i := strings.Index(src, "#"); i >= 0 {
		return src[:i] + "-buildkite-plugin" + src[i:]
	}
	return src + "-buildkite-plugin"
}
