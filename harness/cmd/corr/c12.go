package main

// C12 (string level) — matrixInterpolator.Transform vs the Lean token matcher, plus a
// constructive oracle: strings built from brace-free text and well-formed tokens.

import (
	"bytes"
	"fmt"
	"regexp"
	"strings"

	pipeline "github.com/buildkite/go-pipeline"
	"github.com/buildkite/go-pipeline/ordered"
	"gopkg.in/yaml.v3"

	"verifharness/dump"
	"verifharness/gen"

	"verifharness/core"
	"verifharness/vl"
)

func init() { checks["C12"] = runC12 }

func c12Impl(perm map[string]string, s string) (string, string) {
	var out string
	var err error
	if pn, msg := guard(func() { out, err = pipeline.VerifMatrixTransformer(pipeline.MatrixPermutation(perm)).Transform(s) }); pn {
		return "panic:" + msg, ""
	}
	if err != nil {
		// "unknown matrix tokens in input: matrix.a, matrix"
		msg := err.Error()
		const pfx = "unknown matrix tokens in input: "
		var unk []any
		if strings.HasPrefix(msg, pfx) {
			for _, t := range strings.Split(msg[len(pfx):], ", ") {
				unk = append(unk, strings.TrimPrefix(t, "matrix"))
			}
		} else {
			unk = append(unk, "?"+msg)
		}
		return vl.Enc([]any{"unknown", unk}), out
	}
	return vl.Enc([]any{out}), out
}

var c12Ws = []string{"", " ", "  ", "\t", "\n", " \t ", "\r", "\f"}
var c12DimAlphabet = "abXY019_-."
var c12TextAlphabet = []string{"a", "b", " ", "m", "matrix", ".", "}", "}}", "-", "_", "$", "\n", "é", "x.y", "{ ", "matrix.os"}
var c12NoBraceText = []string{"", "a", "echo ", "matrix", "matrix.os", "}}", "} }", " . ", "\n", "é", "$VAR", "${X}", "x=", "--flag ", "}}matrix"}

func randDim(r *core.Rand) string {
	n := 1 + r.Intn(4)
	var b strings.Builder
	for i := 0; i < n; i++ {
		b.WriteByte(c12DimAlphabet[r.Intn(len(c12DimAlphabet))])
	}
	return b.String()
}

func runC12(c *ctx) error {
	const nShard = 8
	var shards []*core.Session
	for i := 0; i < nShard; i++ {
		shards = append(shards, core.NewSession("c12"))
	}
	rng := c.rng.Fork()
	n := 200000
	if c.thorough() {
		n = 600000
	}
	add := func(i int, perm map[string]string, s string) (string, string) {
		ans, out := c12Impl(perm, s)
		shards[i%nShard].Add(vl.Escape("transform "+vl.Enc(ssOMap(perm))+" "+vl.Enc(s)), vl.Escape(ans))
		return ans, out
	}
	// (a) constructive oracle: alternation of brace-free text and well-formed tokens
	for i := 0; i < n/2; i++ {
		dims := []string{"", randDim(rng), randDim(rng), "os", "arch"}
		perm := map[string]string{}
		valuePool := []string{"linux", "", "{{matrix}}", "{{matrix.os}}", "{{ matrix.arch }}", "a b", "$HOME", "}}", "{{", "x{{matrix.os", "é"}
		for _, d := range dims {
			if rng.Intn(3) != 0 {
				perm[d] = core.Pick(rng, valuePool)
			}
		}
		var src, want strings.Builder
		var unknown []string
		nseg := 1 + rng.Intn(6)
		ntok := 0
		for k := 0; k < nseg; k++ {
			if rng.Intn(2) == 0 {
				t := core.Pick(rng, c12NoBraceText)
				src.WriteString(t)
				want.WriteString(t)
				continue
			}
			d := core.Pick(rng, dims)
			if rng.Intn(6) == 0 {
				d = randDim(rng)
			}
			tok := "{{" + core.Pick(rng, c12Ws) + "matrix"
			sub := ""
			if d != "" {
				sub = "." + d
			}
			tok += sub + core.Pick(rng, c12Ws) + "}}"
			src.WriteString(tok)
			ntok++
			if v, ok := perm[d]; ok {
				want.WriteString(v)
			} else {
				unknown = append(unknown, sub)
			}
		}
		ans, out := add(i, perm, src.String())
		c.res.OracleChecks++
		isErr := strings.HasPrefix(ans, "l2;s7:unknown")
		desc := map[string]any{"string": src.String(), "permutation": perm}
		switch {
		case len(unknown) > 0 && !isErr:
			c.res.Fail(core.OracleFailure{What: "token with a dimension the permutation lacks did not fail", Input: desc, Got: ans, Want: fmt.Sprint("error naming ", unknown)})
		case len(unknown) == 0 && isErr:
			c.res.Fail(core.OracleFailure{What: "all dimensions known but Transform failed", Input: desc, Got: ans})
		case out != want.String():
			c.res.Fail(core.OracleFailure{What: "tokens not replaced exactly once, verbatim", Input: desc, Got: out, Want: want.String()})
		}
		c.res.Case(src.String()+fmt.Sprint(perm), ntok > 0)
		c.res.Hist(fmt.Sprintf("constructed.tokens=%d", min(ntok, 4)))
		if isErr {
			c.res.Hist("constructed.unknown-dimension")
		}
		if ntok >= 2 && len(unknown) == 0 {
			c.res.Sample(desc)
		}
	}
	// (b) near-miss look-alikes and random text: model vs implementation only
	lookalikes := []string{"{{matrix}", "{matrix}}", "{{ matrix . os }}", "{{matrix.}}", "{{matrix..}}", "{{matrix.a b}}", "{{matrixx}}", "{{xmatrix}}",
		"{{matrix.os.}}", "{{ matrix.os}} }}", "{{{matrix}}}", "{{{{matrix}}", "{{matrix\u00a0}}", "{{matrix\v}}", "{{Matrix}}", "{{matrix.é}}",
		"{{matrix-os}}", "{{matrix_os}}", "{{matrix.-}}", "{{\nmatrix\n}}", "{{matrix.os\n}} {{matrix}}", "{{matrix}}{{matrix}}", "{{matrix.os}}}}", "{{matrix.a}}.b}}"}
	for i := 0; i < n/2; i++ {
		var b strings.Builder
		k := 1 + rng.Intn(5)
		for j := 0; j < k; j++ {
			switch rng.Intn(4) {
			case 0:
				b.WriteString(core.Pick(rng, lookalikes))
			case 1:
				b.WriteString("{{" + core.Pick(rng, c12Ws) + core.Pick(rng, []string{"matrix", "matri", "matrix.", "matrix." + randDim(rng), "matrix" + randDim(rng)}) + core.Pick(rng, c12Ws) + core.Pick(rng, []string{"}}", "}", "", "} }"}))
			default:
				b.WriteString(core.Pick(rng, c12TextAlphabet))
			}
		}
		perm := map[string]string{}
		for _, d := range []string{"", "os", "a", "a.b", ".", "-", "os."} {
			if rng.Intn(2) == 0 {
				perm[d] = core.Pick(rng, []string{"V", "{{matrix}}", ""})
			}
		}
		ans, _ := add(i, perm, b.String())
		c.res.Case(b.String()+fmt.Sprint(perm), strings.Contains(b.String(), "{{"))
		if strings.HasPrefix(ans, "l2;") {
			c.res.Hist("random.error")
		} else {
			c.res.Hist("random.ok")
		}
	}
	// strings without "{{" are unchanged
	for _, s := range []string{"", "plain", "{ {matrix} }", "}}{", "{a{b{"} {
		ans, out := add(0, map[string]string{"": "x"}, s)
		c.res.OracleChecks++
		if out != s || strings.HasPrefix(ans, "l2;") {
			c.res.Fail(core.OracleFailure{What: "string without {{ changed", Input: s, Got: out})
		}
	}
	// (c) step level: which fields of a command step the permutation reaches
	if err := c12StepLevel(c, rng, shards, n/20); err != nil {
		return err
	}
	c.res.Sample(map[string]any{"lookalike": "{{matrix.a b}}"})
	c.res.Rule = "constructed: 1-6 segments alternating brace-free text and grammatical tokens (every whitespace kind, dimension names over [A-Za-z0-9_.-], values that look like tokens), expected output computed by construction; random: concatenations of near-miss look-alikes and token fragments, compared with the Lean matcher. Non-trivial = contains at least one token / one '{{'; distinct by (string, permutation)."
	c04s := []*core.Session{c12StepSession}
	mm2, total2, err2 := core.RunSessions(c.driver, c04s, 20, 0)
	if err2 != nil {
		return err2
	}
	mm, total, err := core.RunSessions(c.driver, shards, 20, 0)
	mm = append(mm, mm2...)
	total += total2
	c.res.ModelRequests = total
	c.res.Mismatches = mm
	return err
}

var c12StepSession *core.Session

var c12Mode int // 0 anonymous dimension, 1 named os/arch, 2 no matrix

func c12TokStr(r *core.Rand) string {
	if r.Intn(40) == 0 {
		return "{{matrix.zz}}" // unknown dimension
	}
	if r.Intn(40) == 0 {
		// a dimension other steps of this run use, but not this step's permutation (state carried from one call
		// to the next would answer it)
		if c12Mode == 0 {
			return "on {{matrix.arch}}"
		}
		if c12Mode == 1 {
			return "anon {{matrix}}"
		}
	}
	switch r.Intn(6) {
	case 0:
		if c12Mode == 0 {
			return "{{matrix}}"
		}
		return "{{ matrix.os }}"
	case 1:
		if c12Mode == 0 {
			return "pre {{\tmatrix }} post {{matrix}}"
		}
		return "x-{{matrix.arch}}-{{matrix.os}}"
	case 2:
		return "{{matrix.os}"
	case 4:
		if r.Intn(3) == 0 {
			// extra braces around a token: the token is still the innermost {{…}}
			if c12Mode == 0 {
				return core.Pick(r, []string{"echo {{{matrix}}}", "{{{{{matrix}}", "{\"a\":{{{matrix}}}}"})
			}
			return core.Pick(r, []string{"echo {{{matrix.os}}}", "{{{ matrix.arch }}", "{\"a\":{{{matrix.os}}}}", "{{{matrix.zz}}}"})
		}
	case 3:
		if r.Intn(3) == 0 {
			// a backslash right before a token (Windows and UNC paths): the token is a token, the backslash stays
			if c12Mode == 0 {
				return `C:\\out\\{{matrix}}\\bin`
			}
			return core.Pick(r, []string{`C:\\out\\{{matrix.arch}}`, `\\\\srv\\{{ matrix.os }}\\x`, `\\{{matrix.zz}}`})
		}
	}
	return gen.DefaultStr(r)
}

// c12StepLevel: parsed command steps with tokens in every string position, a valid permutation,
// InterpolateMatrixPermutation vs the Lean step model (kind = matrix) and the scope oracle.
func c12StepLevel(c *ctx, rng *core.Rand, _ []*core.Session, n int) error {
	c12StepSession = core.NewSession("c04")
	for i := 0; i < n; i++ {
		o := &gen.Opts{R: rng, Str: c12TokStr, Key: func(r *core.Rand) string {
			if r.Intn(4) == 0 {
				if r.Intn(6) == 0 {
					// a token in a key that names a dimension the permutation lacks: the call must fail
					return core.Pick(r, []string{"opt-{{matrix.nope}}", "{{matrix.zz}}"})
				}
				if c12Mode == 0 {
					return core.Pick(r, []string{"{{matrix}}", "k-{{matrix}}"})
				}
				return core.Pick(r, []string{"k-{{matrix.os}}", "{{matrix.arch}}"})
			}
			return gen.DefaultKey(r)
		}, MaxMapSize: 20, MaxGroupDepth: 0}
		c12Mode = rng.Intn(4)
		stepDoc := o.CommandStep()
		// a matrix whose dimensions we know, so that a valid permutation exists
		collideCfg := false
		var perm map[string]string
		switch c12Mode {
		case 0:
			stepDoc.Set("matrix", []any{"v1", "{{matrix}}"})
			perm = map[string]string{"": core.Pick(rng, []string{"v1", "{{matrix}}"})}
		case 1:
			setup := ordered.NewMap[string, any](2)
			setup.Set("os", []any{"linux", "{{matrix.arch}}"})
			setup.Set("arch", []any{"arm", "x86"})
			stepDoc.Set("matrix", ordered.MapFromItems(ordered.TupleSA{Key: "setup", Value: setup}))
			perm = map[string]string{"os": core.Pick(rng, []string{"linux", "{{matrix.arch}}"}), "arch": core.Pick(rng, []string{"arm", "x86"})}
		case 3:
			// a matrix that is present but has no dimensions: the empty permutation is its one valid permutation
			stepDoc.Set("matrix", core.Pick(rng, []any{
				ordered.NewMap[string, any](0),
				ordered.MapFromItems(ordered.TupleSA{Key: "setup", Value: ordered.NewMap[string, any](0)}),
				ordered.MapFromItems(ordered.TupleSA{Key: "setup", Value: ordered.NewMap[string, any](0)}, ordered.TupleSA{Key: "adjustments", Value: []any{}}),
			}))
			if rng.Intn(2) == 0 {
				perm = map[string]string{}
			}
			c.res.Hist("step.dimensionless-matrix")
		default:
			stepDoc.Delete("matrix")
			perm = map[string]string{}
		}
		if c12Mode == 1 && rng.Intn(8) == 0 {
			// inside a plugin config (a plain Go map): a token key that is replaced by a text another key of the
			// same map already has, that key sorting after '{', and a permutation value that itself looks like a
			// token — one pass over the original entries, whatever the collision rule
			cfg := ordered.NewMap[string, any](3)
			cfg.Set("{{ matrix.os }}", "first")
			cfg.Set("{{matrix.arch}}", "second {{matrix.os}}")
			cfg.Set("~{{matrix.arch}}", "third")
			cfg.Set("~x86", "literal {{matrix.arch}}")
			cfg.Set("~arm", "literal {{matrix.arch}}")
			stepDoc.Set("plugins", []any{ordered.MapFromItems(ordered.TupleSA{Key: "collide#v1", Value: cfg})})
			c.res.Hist("step.token-key-collides-with-later-literal-key")
			collideCfg = true
		}
		src, err := yaml.Marshal([]any{stepDoc})
		if err != nil {
			continue
		}
		if rng.Intn(5) == 0 {
			// the same step with one collection spelled once and used again through plain aliases
			if ab := renderAliased(rng, []any{stepDoc}); ab != nil {
				src = ab
				c.res.Hist("step.aliased-yaml")
			}
		}
		p, perr := pipeline.Parse(bytes.NewReader(src))
		if p == nil || len(p.Steps) != 1 {
			continue
		}
		_ = perr
		cs, ok := p.Steps[0].(*pipeline.CommandStep)
		if !ok {
			continue
		}
		if len(perm) > 0 && (cs.Matrix == nil || cs.Matrix.VerifValidatePermutation(pipeline.MatrixPermutation(perm)) != nil) {
			// (an alias landed inside the matrix and changed its dimensions: validation is C11's subject)
			c.res.Hist("step.permutation-not-valid-for-this-matrix")
			continue
		}
		before := dump.Step(cs)
		tf := pipeline.VerifMatrixTransformer(pipeline.MatrixPermutation(perm))
		expand := func(s string) (string, bool) {
			out, err := tf.Transform(s)
			return out, err == nil
		}
		var ierr error
		if pn, msg := guard(func() { ierr = cs.InterpolateMatrixPermutation(pipeline.MatrixPermutation(perm)) }); pn {
			c.res.Fail(core.OracleFailure{What: "InterpolateMatrixPermutation panicked: " + msg, Input: string(src)})
			continue
		}
		after := dump.Step(cs)
		got := "error"
		if ierr == nil {
			got = "ok " + vl.Enc(after)
		}
		desc := map[string]any{"step": string(src), "permutation": perm}
		if collideCfg && ierr == nil {
			// the collision construction, judged directly: one pass over the ORIGINAL entries in sorted key order, each
			// key and value replaced once (token-shaped permutation values are not looked at again), later entry wins
			rep := strings.NewReplacer("{{ matrix.os }}", perm["os"], "{{matrix.os}}", perm["os"], "{{matrix.arch}}", perm["arch"])
			orig := map[string]string{"{{ matrix.os }}": "first", "{{matrix.arch}}": "second {{matrix.os}}", "~{{matrix.arch}}": "third",
				"~x86": "literal {{matrix.arch}}", "~arm": "literal {{matrix.arch}}"}
			wantCfg := map[string]any{}
			for _, k := range sortedKeysS(orig) {
				wantCfg[rep.Replace(k)] = rep.Replace(orig[k])
			}
			for _, pl := range cs.Plugins {
				if strings.Contains(pl.Source, "collide") {
					c.res.OracleChecks++
					gotCfg, ok := pl.Config.(map[string]any)
					// (the aliased rendering may have added entries of its own to the config: judge the constructed ones)
					same := ok
					for k, v := range wantCfg {
						if gv, has := gotCfg[k]; !has || gv != v {
							same = false
						}
					}
					for k := range gotCfg {
						if _, constructed := orig[k]; constructed {
							if _, has := wantCfg[k]; !has {
								same = false // an original token key survived
							}
						}
					}
					if !same {
						c.res.Fail(core.OracleFailure{What: "a plugin config whose token keys land on other keys of the same map is not the single pass over its original entries", Input: desc, Got: fmt.Sprint(pl.Config), Want: fmt.Sprint(wantCfg)})
					}
				}
			}
		}
		if len(perm) == 0 {
			c.res.OracleChecks++
			if ierr == nil && vl.Enc(after) != vl.Enc(before) {
				c.res.Fail(core.OracleFailure{What: "empty permutation changed the step", Input: desc})
			}
			// an empty permutation that the step's matrix accepts (no matrix, or a matrix without dimensions) changes
			// nothing — it does not fail either, whatever tokens the strings carry (whether the matrix accepts it is C11's subject)
			if ierr != nil && (cs.Matrix == nil || cs.Matrix.VerifValidatePermutation(pipeline.MatrixPermutation(perm)) == nil) {
				c.res.Fail(core.OracleFailure{What: "an empty permutation, valid for this step, makes InterpolateMatrixPermutation fail instead of changing nothing", Input: desc, Got: ierr.Error()})
			}
			continue
		}
		strs := map[string]bool{}
		allStrings(before, strs)
		tbl := vl.OMap{}
		for _, s := range sortedKeysS(strs) {
			if e, ok := expand(s); ok {
				tbl = append(tbl, vl.KV{K: s, V: e})
			} else {
				tbl = append(tbl, vl.KV{K: s, V: nil})
			}
		}
		c12StepSession.Add(vl.Escape("interpstep "+vl.Enc("m")+" "+vl.Enc(tbl)+" "+vl.Enc(before)), vl.Escape(got))
		visited := map[string]bool{}
		mp := &mapper{f: func(x string) (string, bool) { visited[x] = true; return expand(x) }}
		want := mp.step(before, true)
		c.res.OracleChecks++
		// independent of the library's own transformer (which the expected values above come from): a well-formed
		// token naming a dimension the permutation lacks, anywhere in scope, makes the call fail
		if ierr == nil {
			for _, str := range sortedKeysS(visited) {
				for _, mm := range c12TokenRE.FindAllStringSubmatch(str, -1) {
					dim := strings.TrimPrefix(mm[1], ".")
					if _, ok := perm[dim]; !ok {
						c.res.Fail(core.OracleFailure{What: "a token names a dimension the permutation lacks (" + mm[0] + "), but the step was interpolated without error", Input: desc, Got: firstDiff(vl.Enc(after), vl.Enc(before))})
					}
				}
			}
		}
		// ...and the converse, independent of the transformer too: when every well-formed token in scope names a
		// dimension of the permutation, the call succeeds (inserted values, token-shaped or not, are not looked at again)
		if ierr != nil {
			allKnown := true
			for str := range visited {
				for _, mm := range c12TokenRE.FindAllStringSubmatch(str, -1) {
					if _, ok := perm[strings.TrimPrefix(mm[1], ".")]; !ok {
						allKnown = false
					}
				}
			}
			if allKnown {
				c.res.Fail(core.OracleFailure{What: "the call failed although every token in scope names a dimension of the permutation", Input: desc, Got: ierr.Error()})
			}
		}
		switch {
		case mp.collision:
			c.res.Hist("step.oracle.skipped-collision")
		case mp.failed:
			c.res.Hist("step.unknown-dimension")
			if ierr == nil {
				c.res.Fail(core.OracleFailure{What: "a token names a dimension the permutation lacks, but the step was interpolated without error", Input: desc})
			}
		case ierr != nil:
			c.res.Fail(core.OracleFailure{What: "all tokens known but InterpolateMatrixPermutation failed", Input: desc, Got: ierr.Error()})
		case vl.Enc(want) != vl.Enc(after):
			c.res.Fail(core.OracleFailure{What: "matrix interpolation scope: a field that must be transformed was not, or one that must not be was", Input: desc, Got: firstDiff(vl.Enc(after), vl.Enc(want))})
		}
		c.res.Case("step:"+string(src)+fmt.Sprint(perm), true)
		c.res.Hist("step-level")
	}
	return nil
}

// c12TokenRE: the documented token grammar (the literal of interpolate_matrix.go, restated here as the
// specification; the regenerated literal is compared with the Lean matcher by C12_regexp_literal).
var c12TokenRE = regexp.MustCompile(`\{\{\s*matrix(\.[\w\-\.]+)?\s*\}\}`)
