package main

// C18 — jwkutil.Validate / LoadKey vs the Lean decision model, exhaustively over
// key type x algorithm with real keys; generated keys validate and verify only with their own public half.

import (
	"encoding/base64"
	"context"
	"crypto/ecdsa"
	"crypto/ed25519"
	"crypto/elliptic"
	"crypto/rand"
	"crypto/rsa"
	"encoding/json"
	"errors"
	"fmt"
	"os"
	"path/filepath"

	pipeline "github.com/buildkite/go-pipeline"
	"github.com/buildkite/go-pipeline/jwkutil"
	"github.com/buildkite/go-pipeline/signature"
	"github.com/lestrrat-go/jwx/v2/jwa"
	"github.com/lestrrat-go/jwx/v2/jwk"

	"verifharness/core"
	"verifharness/vl"
)

func init() { checks["C18"] = runC18 }

func ktyName(k jwa.KeyType) string {
	switch k {
	case jwa.RSA:
		return "RSA"
	case jwa.EC:
		return "EC"
	case jwa.OKP:
		return "OKP"
	case jwa.OctetSeq:
		return "OctetSeq"
	}
	return string(k)
}

func classifyValidate(err error) string {
	switch {
	case err == nil:
		return "ok"
	case errors.Is(err, jwkutil.ErrKeyMissingAlg):
		return "err:ErrKeyMissingAlg"
	case errors.Is(err, jwkutil.ErrInvalidSigningAlgorithm):
		return "err:ErrInvalidSigningAlgorithm"
	case errors.Is(err, jwkutil.ErrUnsupportedSigningAlgorithmForKeyType):
		return "err:ErrUnsupportedSigningAlgorithmForKeyType"
	case errors.Is(err, jwkutil.ErrUnsupportedSigningAlgorithm):
		return "err:ErrUnsupportedSigningAlgorithm"
	case errors.Is(err, jwkutil.ErrUnsupportedKeyType):
		return "err:ErrUnsupportedKeyType"
	}
	return "err:key.Validate"
}

// keyDesc: what the model sees of a key (the jwx observations are inputs, not modelled).
func keyDesc(k jwk.Key) []any {
	structOk := k.Validate() == nil
	var alg any
	if _, has := k.Get(jwk.AlgorithmKey); has {
		_, isSig := k.Algorithm().(jwa.SignatureAlgorithm)
		alg = []any{isSig, k.Algorithm().String()}
	}
	return []any{structOk, alg, ktyName(k.KeyType())}
}

// the property's own rule
func c18Spec(k jwk.Key) bool {
	if k.Validate() != nil {
		return false
	}
	if _, has := k.Get(jwk.AlgorithmKey); !has {
		return false
	}
	sa, isSig := k.Algorithm().(jwa.SignatureAlgorithm)
	if !isSig {
		return false
	}
	switch {
	case k.KeyType() == jwa.RSA && sa == jwa.PS512, k.KeyType() == jwa.EC && sa == jwa.ES512, k.KeyType() == jwa.OKP && sa == jwa.EdDSA:
		return true
	}
	return false
}

func runC18(c *ctx) error {
	sess := core.NewSession("c18")
	// base keys, private and public, every key type (several curves / sizes)
	var bases []jwk.Key
	addRaw := func(raw any) {
		k, err := jwk.FromRaw(raw)
		if err != nil {
			panic(err)
		}
		bases = append(bases, k)
		if pk, err := k.PublicKey(); err == nil {
			bases = append(bases, pk)
		}
	}
	rk, _ := rsa.GenerateKey(rand.Reader, 2048)
	addRaw(rk)
	for _, cv := range []elliptic.Curve{elliptic.P256(), elliptic.P384(), elliptic.P521()} {
		ek, _ := ecdsa.GenerateKey(cv, rand.Reader)
		addRaw(ek)
	}
	_, edk, _ := ed25519.GenerateKey(rand.Reader)
	addRaw(edk)
	addRaw([]byte("0123456789abcdef0123456789abcdef"))
	// structurally invalid keys
	for _, js := range []string{`{"kty":"OKP","crv":"Ed25519","x":""}`, `{"kty":"RSA","n":"","e":"AQAB"}`, `{"kty":"EC","crv":"P-521","x":"","y":""}`, `{"kty":"oct","k":""}`} {
		if k, err := jwk.ParseKey([]byte(js)); err == nil {
			bases = append(bases, k)
		}
	}
	// private key objects whose private member is gone (a parsed or generated private key after Remove("d")):
	// their public members are well formed, the key is not
	for _, base := range append([]jwk.Key(nil), bases...) {
		switch base.(type) {
		case jwk.RSAPrivateKey, jwk.ECDSAPrivateKey, jwk.OKPPrivateKey:
			if k, err := base.Clone(); err == nil && k.Remove("d") == nil {
				bases = append(bases, k)
			}
		}
	}
	var algs []any
	for _, a := range jwa.SignatureAlgorithms() {
		algs = append(algs, a)
	}
	for _, a := range jwa.KeyEncryptionAlgorithms() {
		algs = append(algs, a)
	}
	algs = append(algs, "bogus", "ps512", "EDDSA", "", nil) // unknown names, and no alg at all
	for bi, base := range bases {
		for _, a := range algs {
			k, _ := base.Clone()
			tag := "none"
			if a != nil {
				if err := k.Set(jwk.AlgorithmKey, a); err != nil {
					c.res.Hist("alg-not-settable")
					continue
				}
				tag = fmt.Sprint(a)
			}
			var got string
			if pn, msg := guard(func() { got = classifyValidate(jwkutil.Validate(k)) }); pn {
				got = "panic:" + msg
			}
			c.res.OracleChecks++
			want := c18Spec(k)
			desc := map[string]any{"kty": ktyName(k.KeyType()), "alg": tag, "base": bi}
			if (got == "ok") != want {
				c.res.Fail(core.OracleFailure{What: "Validate differs from the approved-pairs rule", Input: desc, Got: got, Want: fmt.Sprint(want)})
			}
			sess.Add(vl.Escape("validate "+vl.Enc(keyDesc(k))), got)
			c.res.Case(fmt.Sprintf("%d/%s", bi, tag), true)
			c.res.Hist("validate." + got)
			if got == "ok" {
				c.res.Sample(desc)
			}
		}
	}
	c.res.Exhaustive = true

	// generated keys validate; what one private key signs verifies with its public half and with no other generated key
	type pair struct {
		alg       jwa.SignatureAlgorithm
		priv, pub jwk.Set
	}
	var pairs []pair
	rng18 := c.rng.Fork()
	rounds := 2
	for _, alg := range []jwa.SignatureAlgorithm{jwa.EdDSA, jwa.ES512, jwa.PS512} {
		for r := 0; r < rounds; r++ {
			priv, pub, err := jwkutil.NewKeyPair(fmt.Sprintf("%s-%d", alg, r), alg)
			if err != nil {
				c.res.Fail(core.OracleFailure{What: "NewKeyPair failed", Input: alg.String(), Got: err.Error()})
				continue
			}
			pairs = append(pairs, pair{alg, priv, pub})
			for _, set := range []jwk.Set{priv, pub} {
				k, _ := set.Key(0)
				c.res.OracleChecks++
				if err := jwkutil.Validate(k); err != nil {
					c.res.Fail(core.OracleFailure{What: "generated key does not validate", Input: alg.String(), Got: err.Error()})
				}
				sess.Add(vl.Escape("validate "+vl.Enc(keyDesc(k))), "ok")
			}
		}
	}
	// key ids of every shape, repeatedly (generation goes through Go maps: iteration order varies run to run)
	reps := 24
	if c.thorough() {
		reps = 120
	}
	for _, alg := range []jwa.SignatureAlgorithm{jwa.EdDSA, jwa.ES512} {
		for r := 0; r < reps; r++ {
			kid := core.Pick(rng18, []string{"", "", "k", "a b", "é"})
			priv, pub, err := jwkutil.NewKeyPair(kid, alg)
			if err != nil {
				c.res.Fail(core.OracleFailure{What: "NewKeyPair failed", Input: map[string]any{"alg": alg.String(), "kid": kid}, Got: err.Error()})
				continue
			}
			for _, set := range []jwk.Set{priv, pub} {
				k, ok := set.Key(0)
				c.res.OracleChecks++
				if !ok {
					c.res.Fail(core.OracleFailure{What: "generated key set is empty", Input: map[string]any{"alg": alg.String(), "kid": kid}})
					continue
				}
				if err := jwkutil.Validate(k); err != nil {
					c.res.Fail(core.OracleFailure{What: "generated key does not validate", Input: map[string]any{"alg": alg.String(), "kid": kid}, Got: err.Error()})
				}
			}
			c.res.Hist("generated-keys.varied-ids")
		}
	}
	step := &signature.CommandStepWithInvariants{CommandStep: pipeline.CommandStep{Command: "echo hi"}, RepositoryURL: "git@example.com:o/r.git"}
	ctxb := context.Background()
	for i, p := range pairs {
		k, _ := p.priv.Key(0)
		sig, err := signature.Sign(ctxb, k, step)
		if err != nil {
			c.res.Fail(core.OracleFailure{What: "Sign with generated key failed", Input: p.alg.String(), Got: err.Error()})
			continue
		}
		for j, q := range pairs {
			err := signature.Verify(ctxb, sig, q.pub, step)
			c.res.OracleChecks++
			if (err == nil) != (i == j) {
				c.res.Fail(core.OracleFailure{What: "signature verifies exactly with its own public half", Input: fmt.Sprintf("signed by %d (%s), verified with %d (%s)", i, p.alg, j, q.alg), Got: fmt.Sprint(err)})
			}
			c.res.Hist("sign-verify-pairs")
		}
	}
	// symmetric pair: generated HS512 key must not validate
	if priv, _, err := jwkutil.NewKeyPair("sym", jwa.HS512); err == nil {
		k, _ := priv.Key(0)
		if jwkutil.Validate(k) == nil {
			c.res.Fail(core.OracleFailure{What: "symmetric generated key validates", Input: "HS512"})
		}
		sess.Add(vl.Escape("validate "+vl.Enc(keyDesc(k))), classifyValidate(jwkutil.Validate(k)))
	}

	// LoadKey: all key sets of <= 3 keys over a pool x requested ids, through temp files
	dir, err := os.MkdirTemp(os.Getenv("VERIF_SCRATCH_OR_VAR_TMP"), "vf-jwks-")
	if err != nil {
		dir, err = os.MkdirTemp("/var/tmp", "vf-jwks-")
		if err != nil {
			return err
		}
	}
	defer os.RemoveAll(dir)
	mk := func(base jwk.Key, kid any, alg any) jwk.Key {
		k, _ := base.Clone()
		if kid != nil {
			k.Set(jwk.KeyIDKey, kid)
		}
		if alg != nil {
			k.Set(jwk.AlgorithmKey, alg)
		}
		return k
	}
	edBase, _ := jwk.FromRaw(edk)
	octBase, _ := jwk.FromRaw([]byte("0123456789abcdef0123456789abcdef"))
	ecBase := bases[6] // P-521 private
	pool := []jwk.Key{
		mk(edBase, "a", jwa.EdDSA), mk(edBase, "b", jwa.EdDSA), mk(edBase, nil, jwa.EdDSA), mk(edBase, "a", nil),
		mk(octBase, "a", jwa.HS512), mk(octBase, "b", jwa.HS512), mk(ecBase, "b", jwa.ES512), mk(ecBase, "a", jwa.ES256), mk(edBase, "", jwa.EdDSA),
	}
	requested := []string{"", "a", "b", "c", " ", "a ", " a", "a\n", "\t", "A"}
	var sets [][]int
	sets = append(sets, []int{})
	for i := range pool {
		sets = append(sets, []int{i})
		for j := range pool {
			sets = append(sets, []int{i, j})
			if c.thorough() {
				for k := range pool {
					sets = append(sets, []int{i, j, k})
				}
			}
		}
	}
	if !c.thorough() {
		rng := c.rng.Fork()
		for n := 0; n < 150; n++ {
			sets = append(sets, []int{rng.Intn(len(pool)), rng.Intn(len(pool)), rng.Intn(len(pool))})
		}
	}
	for si, idxs := range sets {
		set := jwk.NewSet()
		var descs []any
		dup := false
		for _, i := range idxs {
			if err := set.AddKey(pool[i]); err != nil {
				dup = true // jwk.Set refuses the same key object twice
				continue
			}
		}
		if dup {
			continue
		}
		for it := 0; it < set.Len(); it++ {
			k, _ := set.Key(it)
			var kid any
			if _, has := k.Get(jwk.KeyIDKey); has {
				kid = k.KeyID()
			}
			descs = append(descs, []any{kid, keyDesc(k)})
		}
		if descs == nil {
			descs = []any{}
		}
		b, _ := json.Marshal(set)
		// half of the sets reuse one path (a key file rewritten in place, as on rotation): what is loaded follows
		// the file as it is now
		path := filepath.Join(dir, fmt.Sprintf("set%d.json", si))
		if si%2 == 1 {
			path = filepath.Join(dir, "rotating.json")
		}
		os.WriteFile(path, b, 0o600)
		for _, req := range requested {
			var got string
			var loaded jwk.Key
			if pn, msg := guard(func() {
				k, err := jwkutil.LoadKey(path, req)
				loaded = k
				switch {
				case err == nil:
					// which index? compare thumbprint-free: by position of identical JSON
					got = "ok:?"
					kb, _ := json.Marshal(k)
					for it := 0; it < set.Len(); it++ {
						sk, _ := set.Key(it)
						sb, _ := json.Marshal(sk)
						if string(sb) == string(kb) {
							got = fmt.Sprintf("ok:%d", it)
							break
						}
					}
				case errors.Is(err, jwkutil.ErrNoSigningKeyID):
					got = "err:ErrNoSigningKeyID"
				case errors.Is(err, jwkutil.ErrCouldNotFindKeyByID):
					got = "err:ErrCouldNotFindKeyByID"
				default:
					got = "err:invalid:" + classifyValidate(err)[4:]
				}
			}); pn {
				got = "panic:" + msg
			}
			c.res.OracleChecks++
			desc := map[string]any{"set": string(b), "requested": req}
			// direct rule
			if loaded != nil {
				if !c18Spec(loaded) {
					c.res.Fail(core.OracleFailure{What: "LoadKey returned a key that is not an approved pair", Input: desc})
				}
				if req != "" && loaded.KeyID() != req {
					c.res.Fail(core.OracleFailure{What: "LoadKey returned a key with another id", Input: desc, Got: loaded.KeyID()})
				}
				if req == "" && set.Len() != 1 {
					c.res.Fail(core.OracleFailure{What: "LoadKey without id succeeded on a non-singleton set", Input: desc})
				}
			}
			sess.Add(vl.Escape("load "+vl.Enc(descs)+" "+vl.Enc(req)), got)
			c.res.Case(fmt.Sprintf("load/%v/%s", idxs, req), len(idxs) > 0)
			c.res.Hist("load." + got[:min(len(got), 6)])
		}
	}
	// key files whose selected key has every required member and an approved pair but broken key material (an empty
	// or wrongly sized coordinate / modulus): jwk.Parse takes them, the structural validation does not — LoadKey fails
	{
		pubOf := func(k jwk.Key) map[string]any {
			pk, _ := k.PublicKey()
			b, _ := json.Marshal(pk)
			var m map[string]any
			json.Unmarshal(b, &m)
			return m
		}
		rsaBase := bases[0]
		var broken []map[string]any
		if m := pubOf(edBase); m != nil {
			m["alg"], m["kid"], m["x"] = "EdDSA", "bad-okp", ""
			broken = append(broken, m)
		}
		if m := pubOf(ecBase); m != nil {
			if x, _ := m["x"].(string); len(x) > 2 {
				if raw, err := base64.RawURLEncoding.DecodeString(x); err == nil && len(raw) > 1 {
					m["alg"], m["kid"], m["x"] = "ES512", "short-ec", base64.RawURLEncoding.EncodeToString(raw[1:])
					broken = append(broken, m)
				}
			}
		}
		if m := pubOf(rsaBase); m != nil && m["kty"] == "RSA" {
			m["alg"], m["kid"], m["n"] = "PS512", "empty-rsa", ""
			broken = append(broken, m)
		}
		for bi, m := range broken {
			for _, alone := range []bool{true, false} {
				keys := []any{m}
				if !alone {
					good := pubOf(edBase)
					good["alg"], good["kid"] = "EdDSA", "good"
					keys = append(keys, good)
				}
				b, _ := json.Marshal(map[string]any{"keys": keys})
				path := filepath.Join(dir, fmt.Sprintf("broken%d-%v.json", bi, alone))
				os.WriteFile(path, b, 0o600)
				kid, _ := m["kid"].(string)
				var k jwk.Key
				var lerr error
				pn, msg := guard(func() { k, lerr = jwkutil.LoadKey(path, kid) })
				c.res.OracleChecks++
				desc := map[string]any{"set": string(b), "requested": kid}
				switch {
				case pn:
					c.res.Fail(core.OracleFailure{What: "LoadKey panics on a key with broken key material", Input: desc, Got: msg})
				case lerr == nil && k != nil && k.Validate() != nil:
					c.res.Fail(core.OracleFailure{What: "LoadKey returned a structurally invalid key", Input: desc, Got: fmt.Sprint(k.Validate())})
				case lerr == nil:
					// (jwx found nothing wrong with this material: not a case of the rule)
					c.res.Hist("load.broken-material-accepted-by-jwx")
				}
				c.res.Case(fmt.Sprintf("load-broken:%d:%v", bi, alone), true)
			}
		}
		c.res.Hist("load.broken-key-material")
	}
	c.res.Rule = "exhaustive: every base key (RSA-2048, EC P-256/384/521, Ed25519, oct; private and public halves; four structurally invalid keys; private keys without their private member) x every signature and key-encryption algorithm jwa registers + unknown names + no algorithm, through jwkutil.Validate; generated key pairs for EdDSA/ES512/PS512 validate, sign a step, and verify only with their own public half (6x6 matrix); LoadKey over key sets of <=3 keys from a 9-key pool x requested ids through temp files. Distinct by (base key, algorithm) / (set, requested id)."
	mm, total, err := core.RunSessions(c.driver, []*core.Session{sess}, 20, 0)
	c.res.ModelRequests = total
	c.res.Mismatches = mm
	return err
}
