package main

// C06 — SignSteps over step trees (all kinds, groups nested to depth 4, unknown steps at every
// position and depth) vs the Lean tree model, plus direct checks: every command step at every
// depth is signed with exactly the expected field list and verifies; unknown anywhere => refusal;
// nothing but signatures changes; the caller's env map is not modified.

import (
	"bytes"
	"context"
	"fmt"
	"reflect"
	"sort"

	pipeline "github.com/buildkite/go-pipeline"
	"github.com/buildkite/go-pipeline/signature"

	"verifharness/core"
	"verifharness/dump"
	"verifharness/vl"
)

func init() { checks["C06"] = runC06 }

func hasUnknownStep(ss pipeline.Steps) bool {
	for _, s := range ss {
		switch t := s.(type) {
		case *pipeline.UnknownStep:
			return true
		case *pipeline.GroupStep:
			if hasUnknownStep(t.Steps) {
				return true
			}
		}
	}
	return false
}

func stripSigs(ss pipeline.Steps) {
	for _, s := range ss {
		switch t := s.(type) {
		case *pipeline.CommandStep:
			t.Signature = nil
		case *pipeline.GroupStep:
			stripSigs(t.Steps)
		}
	}
}

func maxDepth(ss pipeline.Steps) int {
	d := 0
	for _, s := range ss {
		if g, ok := s.(*pipeline.GroupStep); ok {
			if x := 1 + maxDepth(g.Steps); x > d {
				d = x
			}
		}
	}
	return d
}

func runC06(c *ctx) error {
	sess := core.NewSession("sig")
	rng := c.rng.Fork()
	keys := sigKeys()
	n := 1200
	if c.thorough() {
		n = 15000
	}
	for i := 0; i < n; i++ {
		p, src := c.corpusOrGenerated(i, 2, rng, 4, 30)
		if p == nil {
			continue
		}
		k := keys[rng.Intn(len(keys))]
		if k.kind == "PS512" && rng.Intn(5) != 0 {
			k = keys[2]
		}
		repo := core.Pick(rng, []string{"git@example.com:o/r.git", "git@example.com:o/r.git", "https://example.com/o/r", "", " "}) // the zero value is a legal argument
		var penv map[string]string
		cmds := commandStepsOf(p.Steps)
		if len(cmds) > 0 {
			penv = randPenv(rng, cmds[rng.Intn(len(cmds))])
		} else {
			penv = map[string]string{"FOO": "1"}
		}
		penvBefore := copyEnv(penv)
		// step lists are also built and edited through the API: one list in eight gets an unknown step put two group
		// levels below a step the parser produced (a parsed group can hold a group, but never an unknown step:
		// the parser turns the enclosing group into the unknown step) — SignSteps refuses at every depth
		apiEdited := false
		if i%8 == 5 && len(p.Steps) > 0 {
			inner := &pipeline.GroupStep{Steps: pipeline.Steps{&pipeline.CommandStep{Command: "api-built"}, &pipeline.UnknownStep{Contents: "api-built unknown step"}}}
			outer := &pipeline.GroupStep{Steps: pipeline.Steps{&pipeline.CommandStep{Command: "api-built outer"}, inner}}
			var groups []*pipeline.GroupStep
			var collectG func(ss pipeline.Steps)
			collectG = func(ss pipeline.Steps) {
				for _, st := range ss {
					if g, ok := st.(*pipeline.GroupStep); ok {
						groups = append(groups, g)
						collectG(g.Steps)
					}
				}
			}
			collectG(p.Steps)
			if len(groups) > 0 && rng.Intn(2) == 0 {
				g := groups[rng.Intn(len(groups))]
				g.Steps = append(g.Steps, outer)
			} else {
				p.Steps = append(p.Steps, outer)
			}
			apiEdited = true
			c.res.Hist("api-built.unknown-step-two-groups-down")
		}
		before := dump.Steps(p.Steps)
		// the state to compare with afterwards: the same document parsed again, signatures removed
		beforeEnc := vl.Enc(before)
		if p0, _ := pipeline.Parse(bytes.NewReader(src)); p0 != nil && !apiEdited {
			stripSigs(p0.Steps)
			beforeEnc = vl.Enc(dump.Steps(p0.Steps))
		}
		unknown := hasUnknownStep(p.Steps)
		// half of the lists are handed over the way a caller builds them with append: with spare capacity behind the
		// last step, at every level; the steps a list holds, and their order, are the caller's
		var listsBefore [][]pipeline.Step
		if i%2 == 1 {
			var respare func(ss pipeline.Steps) pipeline.Steps
			respare = func(ss pipeline.Steps) pipeline.Steps {
				out := make(pipeline.Steps, len(ss), len(ss)+8)
				copy(out, ss)
				for _, st := range out {
					if g, ok := st.(*pipeline.GroupStep); ok {
						g.Steps = respare(g.Steps)
					}
				}
				listsBefore = append(listsBefore, append([]pipeline.Step(nil), out...))
				return out
			}
			p.Steps = respare(p.Steps)
			c.res.Hist("lists-with-spare-capacity")
		}
		var err error
		if pn, msg := guard(func() {
			err = signature.SignSteps(context.Background(), p.Steps, k.signer, repo, signature.WithEnv(penv))
		}); pn {
			c.res.Fail(core.OracleFailure{What: "SignSteps panicked: " + msg, Input: string(src)})
			continue
		}
		desc := map[string]any{"document": string(src), "pipeline_env": penvBefore, "key": k.kind}
		if apiEdited {
			desc["api_edit"] = "after Parse: appended GroupStep{CommandStep, GroupStep{CommandStep, UnknownStep}} to the top-level list or to a group; step tree handed to SignSteps: " + vl.Enc(before)
		}
		c.res.OracleChecks++
		if listsBefore != nil {
			var listsAfter [][]pipeline.Step
			var collect func(ss pipeline.Steps)
			collect = func(ss pipeline.Steps) {
				for _, st := range ss {
					if g, ok := st.(*pipeline.GroupStep); ok {
						collect(g.Steps)
					}
				}
				listsAfter = append(listsAfter, append([]pipeline.Step(nil), ss...))
			}
			collect(p.Steps)
			same := len(listsAfter) == len(listsBefore)
			for li := 0; same && li < len(listsBefore); li++ {
				if len(listsAfter[li]) != len(listsBefore[li]) {
					same = false
					break
				}
				for si := range listsBefore[li] {
					if listsAfter[li][si] != listsBefore[li][si] {
						same = false
					}
				}
			}
			if !same {
				c.res.Fail(core.OracleFailure{What: "SignSteps changed which steps the caller's lists hold (lists handed over with spare capacity)", Input: desc, Got: vl.Enc(dump.Steps(p.Steps)), Want: beforeEnc})
			}
		}
		if len(penv) != len(penvBefore) || (len(penv) > 0 && !reflect.DeepEqual(penv, penvBefore)) {
			c.res.Fail(core.OracleFailure{What: "SignSteps modified the caller's env map", Input: desc})
		}
		got := "err"
		if err == nil {
			signed := commandStepsOf(p.Steps)
			var sigs []any
			for _, cs := range signed {
				if cs.Signature == nil {
					sigs = append(sigs, nil)
					c.res.Fail(core.OracleFailure{What: "a command step was left unsigned although SignSteps succeeded", Input: desc, Got: cs.Command})
					continue
				}
				fs := make([]any, len(cs.Signature.SignedFields))
				for j, f := range cs.Signature.SignedFields {
					fs[j] = f
				}
				sigs = append(sigs, fs)
				// expected field list: five mandatory fields + env::NAME for each unshadowed pipeline env var, sorted
				want := []string{"command", "env", "plugins", "matrix", "repository_url"}
				for kk := range penvBefore {
					if _, shadow := cs.Env[kk]; !shadow {
						want = append(want, "env::"+kk)
					}
				}
				sort.Strings(want)
				if !reflect.DeepEqual(want, cs.Signature.SignedFields) {
					c.res.Fail(core.OracleFailure{What: "signed-field list is not the mandatory fields plus the unshadowed pipeline env, sorted", Input: desc, Got: fmt.Sprint(cs.Signature.SignedFields), Want: fmt.Sprint(want)})
				}
				if cs.Signature.Algorithm != k.alg {
					c.res.Fail(core.OracleFailure{What: "signature does not name the key's algorithm", Input: desc, Got: cs.Signature.Algorithm, Want: k.alg})
				}
				venv := copyEnv(penvBefore)
				venv["UNRELATED"] = "x"
				if verr, _, _ := verifyStep(k, cs.Signature, cs, repo, venv); verr != nil {
					c.res.Fail(core.OracleFailure{What: "a signature attached by SignSteps does not verify", Input: desc, Got: verr.Error()})
				}
			}
			if sigs == nil {
				sigs = []any{}
			}
			stripSigs(p.Steps)
			same := vl.Enc(dump.Steps(p.Steps)) == stripSigEnc(beforeEnc, before)
			got = "ok " + vl.Enc(sigs) + " " + map[bool]string{true: "t", false: "f"}[same]
			if !same {
				c.res.Fail(core.OracleFailure{What: "SignSteps changed something other than signatures", Input: desc})
			}
			if unknown {
				c.res.Fail(core.OracleFailure{What: "SignSteps succeeded although a step of unknown kind occurs in the list", Input: desc})
			}
		} else if !unknown {
			c.res.Fail(core.OracleFailure{What: "SignSteps failed although no unknown step occurs", Input: desc, Got: err.Error()})
		}
		penvV := vl.OMap{}
		for _, kk := range sortedKeysS(penvBefore) {
			penvV = append(penvV, vl.KV{K: kk, V: penvBefore[kk]})
		}
		var stepsV any = before
		if before == nil {
			stepsV = []any{}
		}
		// the model's key/algorithm are fixed tokens: compare field lists and verdicts only
		sess.Add(vl.Escape("signsteps "+vl.Enc(stepsV)+" "+vl.Enc(repo)+" "+vl.Enc(penvV)), vl.Escape(got))
		c.res.Case(beforeEnc+fmt.Sprint(penvBefore), len(cmds) > 0)
		c.res.Hist(fmt.Sprintf("group-depth=%d", maxDepth(p.Steps)))
		if unknown {
			c.res.Hist("contains-unknown-step")
		}
		c.res.Hist("outcome." + got[:2])
		if i < 2 {
			c.res.Sample(desc)
		}
	}
	c.res.Rule = "step lists of generated pipelines (command, wait, input, trigger, group nested to depth 4, unknown steps at every position and depth; pipeline env overlapping step envs), all key kinds; compared: refusal vs success, per-command-step signed-field lists in depth-first order, nothing-but-signatures-changed. Non-trivial = at least one command step; distinct by (step tree, pipeline env)."
	mm, total, err := core.RunSessions(c.driver, []*core.Session{sess}, 20, 0)
	c.res.ModelRequests = total
	c.res.Mismatches = mm
	return err
}

// stripSigEnc: the dump of the unsigned input (it carries no signatures unless the document had some).
func stripSigEnc(enc string, _ any) string { return enc }
