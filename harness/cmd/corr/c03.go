package main

// C03 / C09 / C13 — parse and marshal: implementation vs the Lean parse/marshal model, with the
// properties' own statements as direct oracles:
//   C13: usable result => non-nil steps, one step per entry, JSON and YAML marshalling succeed;
//   C03: unknown keys of every step survive parse->marshal unchanged, exactly once;
//   C09: re-parsing the JSON / YAML output gives an equal pipeline; repeated marshalling is byte-identical.

import (
	"bytes"
	"encoding/json"
	"errors"
	"fmt"
	"reflect"
	"regexp"
	"sort"
	"strconv"
	"strings"
	"time"
	"unicode/utf8"

	pipeline "github.com/buildkite/go-pipeline"
	"github.com/buildkite/go-pipeline/ordered"
	"github.com/buildkite/go-pipeline/warning"
	"gopkg.in/yaml.v3"

	"verifharness/core"
	"verifharness/dump"
	"verifharness/gen"
	"verifharness/vl"
)

func init() {
	checks["C03"] = func(c *ctx) error { return runParse(c, "C03") }
	checks["C09"] = func(c *ctx) error { return runParse(c, "C09") }
	checks["C13"] = func(c *ctx) error { return runParse(c, "C13") }
}

// flattenWarn: the warning tree as an ordered list of kinds.
func flattenWarn(err error, out *[]any) {
	if err == nil {
		return
	}
	if w := warning.As(err); w != nil {
		kids := w.Unwrap()
		msg := w.Error()
		if strings.HasPrefix(msg, "fell back using unknown type of step") {
			*out = append(*out, "fellBack")
			return
		}
		if len(kids) == 0 {
			if strings.Contains(msg, "pipeline contains no steps") {
				*out = append(*out, "noSteps")
			} else {
				*out = append(*out, "other:"+msg)
			}
			return
		}
		for _, k := range kids {
			flattenWarn(k, out)
		}
		return
	}
	switch {
	case errors.Is(err, pipeline.ErrUnknownStepType):
		*out = append(*out, "unknownType")
	case errors.Is(err, pipeline.ErrStepTypeInference):
		*out = append(*out, "inferFail")
	default:
		*out = append(*out, "other:"+err.Error())
	}
}

// decodeTree: text (YAML or JSON) -> order-preserving tree, as the parser's own first stage does.
func decodeTree(src []byte) (any, error) {
	var n yaml.Node
	if err := yaml.Unmarshal(src, &n); err != nil {
		return nil, err
	}
	return ordered.DecodeYAML(&n)
}

// jsonView of a dump.Any tree: what re-decoding JSON output yields (Go maps sorted -> ordered, integral floats -> ints, times -> strings).
func jsonViewGo(v any) any {
	switch t := v.(type) {
	case float64:
		b, err := json.Marshal(t)
		if err == nil && !strings.ContainsAny(string(b), ".eE") {
			var i int
			if _, err := fmt.Sscan(string(b), &i); err == nil {
				return i
			}
		}
		return t
	case time.Time:
		return t.Format(time.RFC3339Nano)
	case []any:
		out := make([]any, len(t))
		for i, e := range t {
			out[i] = jsonViewGo(e)
		}
		return out
	case vl.OMap:
		out := make(vl.OMap, len(t))
		for i, kv := range t {
			out[i] = vl.KV{K: kv.K, V: jsonViewGo(kv.V)}
		}
		return out
	case map[string]any:
		out := vl.OMap{}
		for _, k := range sortedKeysS(t) {
			out = append(out, vl.KV{K: k, V: jsonViewGo(t[k])})
		}
		return out
	case map[string]string:
		out := vl.OMap{}
		for _, k := range sortedKeysS(t) {
			out = append(out, vl.KV{K: k, V: t[k]})
		}
		return out
	}
	return v
}

// ---- C09 comparator: structural equality of pipelines modulo nil/empty, JSON-leg timestamps,
// and marshal-time plugin normalisation ----

func normDump(v any, jsonLeg bool) any {
	switch t := v.(type) {
	case nil:
		return nil
	case time.Time:
		if jsonLeg {
			return t.Format(time.RFC3339Nano)
		}
		return t
	case float64:
		if jsonLeg {
			return jsonViewGo(t)
		}
		return t
	case []any:
		if len(t) == 0 {
			return nil
		}
		out := make([]any, len(t))
		for i, e := range t {
			out[i] = normDump(e, jsonLeg)
		}
		return out
	case []string:
		if len(t) == 0 {
			return nil
		}
		return t
	case vl.OMap:
		if len(t) == 0 {
			return nil
		}
		out := make(vl.OMap, len(t))
		for i, kv := range t {
			out[i] = vl.KV{K: kv.K, V: normDump(kv.V, jsonLeg)}
		}
		return out
	case map[string]any:
		if len(t) == 0 {
			return nil
		}
		out := map[string]any{}
		for k, e := range t {
			out[k] = normDump(e, jsonLeg)
		}
		return out
	case map[string]string:
		if len(t) == 0 {
			return nil
		}
		return t
	}
	return v
}

// normPlugins rewrites every plugin of a step dump to (FullSource, config with empty => null).
func normPluginsInSteps(steps any) {
	l, ok := steps.([]any)
	if !ok {
		return
	}
	for _, s := range l {
		sl, ok := s.([]any)
		if !ok || len(sl) == 0 {
			continue
		}
		switch sl[0] {
		case "command":
			o := sl[1].(vl.OMap)
			if pl, ok := fld(o, "plugins").([]any); ok {
				for i, p := range pl {
					if pp, ok := p.([]any); ok {
						src := (&pipeline.Plugin{Source: pp[0].(string)}).FullSource()
						cfg := pp[1]
						switch c := cfg.(type) {
						case map[string]any:
							if len(c) == 0 {
								cfg = nil
							}
						case []any:
							if len(c) == 0 {
								cfg = nil
							}
						}
						pl[i] = []any{src, cfg}
					}
				}
			}
		case "group":
			normPluginsInSteps(sl[3])
		}
	}
}

func comparablePipeline(p *pipeline.Pipeline, jsonLeg bool) string {
	d := dump.Pipeline(p).(vl.OMap)
	normPluginsInSteps(fld(d, "steps"))
	return vl.Enc(normDump(d, jsonLeg))
}

// ---- document rendering with style variety ----

func renderStyles(r *core.Rand, doc any) ([]byte, string) {
	switch r.Intn(5) {
	case 4:
		if b := renderAliased(r, doc); b != nil {
			return b, "yaml-aliased"
		}
	case 0:
		b, err := json.Marshal(doc)
		if err == nil {
			return b, "json"
		}
	case 1:
		// flow-style YAML: JSON text re-emitted through a yaml.Node with flow style
		var n yaml.Node
		if err := n.Encode(doc); err == nil {
			setFlow(&n)
			if b, err := yaml.Marshal(&n); err == nil {
				return b, "yaml-flow"
			}
		}
	}
	b, err := yaml.Marshal(doc)
	if err != nil {
		return nil, "unrenderable"
	}
	return unquoteLegacyBools(r, unquoteNumericKeys(r, respellInts(r, b))), "yaml-block"
}

var quotedLegacyBoolRE = regexp.MustCompile(`(?m)(: |- )"(yes|no|on|off|Yes|No|On|Off|YES|NO|ON|OFF|y|n|Y|N)"$`)

// unquoteLegacyBools: some values spelled like YAML 1.1 booleans are written plain; under the YAML 1.2 core schema
// (what yaml.v3 resolves by) they are strings all the same.
func unquoteLegacyBools(r *core.Rand, b []byte) []byte {
	return quotedLegacyBoolRE.ReplaceAllFunc(b, func(m []byte) []byte {
		if r.Intn(2) == 0 {
			return m
		}
		sub := quotedLegacyBoolRE.FindSubmatch(m)
		var chk any
		if yaml.Unmarshal(sub[2], &chk) != nil {
			return m
		}
		if _, isStr := chk.(string); !isStr {
			return m // (yaml.v3 itself reads this spelling as something else: keep it quoted)
		}
		return []byte(string(sub[1]) + string(sub[2]))
	})
}

var quotedNumericKeyRE = regexp.MustCompile(`(?m)^(\s*(?:- )?)"(0x[0-9A-Fa-f]+|0o[0-7]+|[0-9]+)":`)

// unquoteNumericKeys: some quoted keys that spell an integer are written plain, so the document has integer
// keys (decimal, hex, octal; up to and beyond the int64 / uint64 boundaries), which the decoder canonicalises.
func unquoteNumericKeys(r *core.Rand, b []byte) []byte {
	return quotedNumericKeyRE.ReplaceAllFunc(b, func(m []byte) []byte {
		if r.Intn(2) == 0 {
			return m
		}
		sub := quotedNumericKeyRE.FindSubmatch(m)
		return []byte(string(sub[1]) + string(sub[2]) + ":")
	})
}

var plainIntRE = regexp.MustCompile(`(?m)(: |- )([1-9][0-9]{0,5})$`)

// respellInts: some plain decimal integers of a block-style document in another spelling YAML gives the
// same value to (octal 0755 / 0o755, hex, explicit sign, digit separators).
func respellInts(r *core.Rand, b []byte) []byte {
	return plainIntRE.ReplaceAllFunc(b, func(m []byte) []byte {
		if r.Intn(3) != 0 {
			return m
		}
		sub := plainIntRE.FindSubmatch(m)
		n, err := strconv.Atoi(string(sub[2]))
		if err != nil {
			return m
		}
		var sp string
		switch r.Intn(5) {
		case 0:
			sp = fmt.Sprintf("0%o", n)
		case 1:
			sp = fmt.Sprintf("0o%o", n)
		case 2:
			sp = fmt.Sprintf("0x%X", n)
		case 3:
			sp = fmt.Sprintf("+%d", n)
		default:
			sp = string(sub[2])
			if len(sp) > 3 {
				sp = sp[:len(sp)-3] + "_" + sp[len(sp)-3:]
			}
		}
		var chk any
		if yaml.Unmarshal([]byte(sp), &chk) != nil || chk != n {
			return m
		}
		return append(append([]byte{}, sub[1]...), sp...)
	})
}

// renderAliased: block YAML in which one collection (or scalar) carries an anchor and is used again,
// through plain aliases, as the value of extra keys of later step mappings, ancestors or the top level:
// the decoded tree holds the expansion at every site.
func renderAliased(r *core.Rand, doc any) []byte {
	var root yaml.Node
	if err := root.Encode(doc); err != nil {
		return nil
	}
	top := &root
	if top.Kind == yaml.DocumentNode && len(top.Content) == 1 {
		top = top.Content[0]
	}
	type info struct {
		n          *yaml.Node
		pre, end   int
		stepLike   bool
		collection bool
	}
	var all []*info
	idx := 0
	var walk func(n *yaml.Node, stepLike bool) *info
	walk = func(n *yaml.Node, stepLike bool) *info {
		in := &info{n: n, pre: idx, stepLike: stepLike, collection: n.Kind == yaml.MappingNode || n.Kind == yaml.SequenceNode}
		idx++
		all = append(all, in)
		switch n.Kind {
		case yaml.MappingNode:
			for i := 0; i+1 < len(n.Content); i += 2 {
				idx++
				isSteps := n.Content[i].Value == "steps" && n.Content[i+1].Kind == yaml.SequenceNode
				if isSteps {
					sub := &info{n: n.Content[i+1], pre: idx, collection: true}
					idx++
					all = append(all, sub)
					for _, e := range n.Content[i+1].Content {
						walk(e, e.Kind == yaml.MappingNode)
					}
					sub.end = idx
				} else {
					walk(n.Content[i+1], false)
				}
			}
		case yaml.SequenceNode:
			for _, e := range n.Content {
				walk(e, false)
			}
		}
		in.end = idx
		return in
	}
	ti := walk(top, top.Kind == yaml.MappingNode)
	if top.Kind == yaml.SequenceNode { // a bare list of steps
		for _, in := range all {
			if in.n.Kind == yaml.MappingNode {
				for _, e := range top.Content {
					if e == in.n {
						in.stepLike = true
					}
				}
			}
		}
	}
	var cands []*info
	for _, in := range all {
		if in != ti && (in.collection && len(in.n.Content) > 0 || r.Intn(6) == 0) {
			cands = append(cands, in)
		}
	}
	if len(cands) == 0 {
		return nil
	}
	a := cands[r.Intn(len(cands))]
	var sites []*info
	for _, in := range all {
		if in.n.Kind != yaml.MappingNode || !(in.stepLike || r.Intn(4) == 0) {
			continue
		}
		ancestor := in.pre < a.pre && in.end >= a.end
		after := in.pre >= a.end
		if ancestor || after {
			sites = append(sites, in)
		}
	}
	if len(sites) == 0 {
		return nil
	}
	a.n.Anchor = "shared"
	for k, uses := 0, 2+r.Intn(2); k < uses; k++ {
		site := sites[r.Intn(len(sites))]
		key := core.Pick(r, []string{"zz_alias", "agents", "retry", "notify", "build", "fields"})
		dup := false
		for i := 0; i+1 < len(site.n.Content); i += 2 {
			if site.n.Content[i].Value == key {
				dup = true
			}
		}
		if dup {
			key = fmt.Sprintf("zz_alias_%d", k)
		}
		site.n.Content = append(site.n.Content,
			&yaml.Node{Kind: yaml.ScalarNode, Tag: "!!str", Value: key},
			&yaml.Node{Kind: yaml.AliasNode, Alias: a.n, Value: "shared"})
	}
	b, err := yaml.Marshal(&root)
	if err != nil {
		return nil
	}
	var check yaml.Node
	if yaml.Unmarshal(b, &check) != nil {
		return nil
	}
	return b
}

func setFlow(n *yaml.Node) {
	if n.Kind == yaml.MappingNode || n.Kind == yaml.SequenceNode {
		n.Style = yaml.FlowStyle
	}
	for _, c := range n.Content {
		setFlow(c)
	}
}

// inputStepList: the entries of the document's step sequence (nil when it has none).
func inputStepList(v any) []any {
	switch t := v.(type) {
	case []any:
		return t
	case vl.OMap:
		if sv, ok := findKV(t, "steps"); ok {
			l, _ := sv.([]any)
			return l
		}
	}
	return nil
}

func countEntries(v any) (int, bool) {
	switch t := v.(type) {
	case []any:
		return len(t), true
	case vl.OMap:
		for _, kv := range t {
			if kv.K == "steps" {
				if l, ok := kv.V.([]any); ok {
					return len(l), true
				}
				if kv.V == nil {
					return 0, true
				}
				return 0, false
			}
		}
		return 0, true
	}
	return 0, false
}

var commandModelled = map[string]bool{"command": true, "commands": true, "label": true, "name": true, "key": true, "id": true, "identifier": true,
	"plugins": true, "env": true, "matrix": true, "cache": true, "signature": true}
var groupModelled = map[string]bool{"group": true, "label": true, "name": true, "key": true, "id": true, "identifier": true, "steps": true}

// c03Oracle: unknown keys of every step entry appear in the marshalled step, same value, exactly once.
func c03Oracle(c *ctx, desc map[string]any, typed pipeline.Steps, inSteps, outSteps any) {
	il, ok1 := inSteps.([]any)
	ol, ok2 := outSteps.([]any)
	if !ok1 || !ok2 {
		return
	}
	if len(il) != len(ol) || len(il) != len(typed) {
		c.res.Fail(core.OracleFailure{What: "marshalled step list has a different length than the input", Input: desc, Got: fmt.Sprint(len(ol)), Want: fmt.Sprint(len(il))})
		return
	}
	for i := range il {
		im, ok := il[i].(vl.OMap)
		if !ok {
			continue
		}
		om, ok := ol[i].(vl.OMap)
		if !ok {
			if s, isStr := ol[i].(string); isStr && len(im) > 0 {
				c.res.Fail(core.OracleFailure{What: "a mapping step was marshalled as the scalar " + s + " (its keys are lost)", Input: desc})
			}
			continue
		}
		var modelled map[string]bool
		var group *pipeline.GroupStep
		switch t := typed[i].(type) {
		case *pipeline.CommandStep:
			modelled = commandModelled
			c03CommandRules(c, desc, i, im, om, t)
		case *pipeline.GroupStep:
			modelled = groupModelled
			group = t
		case *pipeline.UnknownStep:
			// a mapping the rule table makes a command step, with every typed field plainly well-formed, is a command
			// step (in its normal form), not a verbatim copy
			if plainlyWellFormedCommand(im) {
				c.res.Fail(core.OracleFailure{What: fmt.Sprintf("step %d is a plainly well-formed command step but was kept as an unknown step (not normalised)", i+1), Input: desc, Got: vl.Enc(om)})
			}
			// kept verbatim: everything must be there
			if vl.Enc(jsonViewGo(im)) != vl.Enc(om) {
				c.res.Fail(core.OracleFailure{What: fmt.Sprintf("unknown step %d is not kept verbatim", i+1), Input: desc, Got: vl.Enc(om), Want: vl.Enc(jsonViewGo(im))})
			}
			continue
		default:
			// wait / input / trigger: the step IS its mapping — nothing is added either (say, from another step)
			modelled = map[string]bool{}
			for _, kv := range om {
				if _, ok := findKV(im, kv.K); !ok {
					c.res.Fail(core.OracleFailure{What: fmt.Sprintf("step %d gained the key %q, which its input mapping does not have", i+1, kv.K), Input: desc, Got: vl.Enc(om), Want: vl.Enc(jsonViewGo(im))})
				}
			}
		}
		seen := map[string]int{}
		for _, kv := range om {
			seen[kv.K]++
		}
		for _, kv := range im {
			if modelled[kv.K] {
				continue
			}
			ov, ok := findKV(om, kv.K)
			want := vl.Enc(jsonViewGo(kv.V))
			if !ok {
				c.res.Fail(core.OracleFailure{What: fmt.Sprintf("key %q of step %d is dropped by parse+marshal", kv.K, i+1), Input: desc})
			} else if vl.Enc(ov) != want {
				c.res.Fail(core.OracleFailure{What: fmt.Sprintf("value of key %q of step %d is changed by parse+marshal", kv.K, i+1), Input: desc, Got: vl.Enc(ov), Want: want})
			}
			if seen[kv.K] > 1 {
				c.res.Fail(core.OracleFailure{What: fmt.Sprintf("key %q of step %d appears %d times after parse+marshal", kv.K, i+1, seen[kv.K]), Input: desc})
			}
		}
		if group != nil {
			is, _ := findKV(im, "steps")
			os, _ := findKV(om, "steps")
			c03Oracle(c, desc, group.Steps, is, os)
		}
	}
}

// plainlyWellFormedCommand: no `type`; a `command` or `commands` that is a string or a list of strings; label / key and
// their aliases strings; no other typed field (env, plugins, matrix, cache, signature) at all. Nothing in such a
// mapping can make typed decoding fail.
func plainlyWellFormedCommand(im vl.OMap) bool {
	isStr := func(v any) bool { _, ok := v.(string); return ok }
	has := false
	if _, a := findKV(im, "command"); a {
		if _, b := findKV(im, "commands"); b {
			return false // both spellings at once: `command` must then be a string (finding F7's neighbourhood)
		}
	}
	for _, kv := range im {
		switch kv.K {
		case "type", "env", "plugins", "matrix", "cache", "signature":
			return false
		case "command", "commands":
			has = true
			if l, ok := kv.V.([]any); ok {
				for _, e := range l {
					if !isStr(e) {
						return false
					}
				}
			} else if !isStr(kv.V) {
				return false
			}
		case "label", "name", "key", "id", "identifier":
			if !isStr(kv.V) {
				return false
			}
		}
	}
	return has
}

// c03MatrixLegs: walks the JSON and YAML views of a marshalled step list in parallel (groups recursively) and
// compares the `matrix` of each mapping step, every mapping level sorted.
func c03MatrixLegs(c *ctx, desc map[string]any, jSteps, ySteps any) {
	jl, ok1 := jSteps.([]any)
	yl, ok2 := ySteps.([]any)
	if !ok1 || !ok2 || len(jl) != len(yl) {
		return
	}
	for i := range jl {
		jm, ok1 := jl[i].(vl.OMap)
		ym, ok2 := yl[i].(vl.OMap)
		if !ok1 || !ok2 {
			continue
		}
		if jx, ok := findKV(jm, "matrix"); ok {
			if _, isCmd := findKV(jm, "command"); isCmd {
				yx, _ := findKV(ym, "matrix")
				c.res.OracleChecks++
				if a, b := vl.Enc(sortAllMaps(jsonViewGo(yx))), vl.Enc(sortAllMaps(jsonViewGo(jx))); a != b { // (timestamps and integral floats as JSON carries them)
					c.res.Fail(core.OracleFailure{What: fmt.Sprintf("the matrix of step %d has another shape in the YAML marshalling than in the JSON marshalling", i+1), Input: desc, Got: a, Want: b})
				}
			}
		}
		if _, isGroup := findKV(jm, "group"); isGroup {
			js, _ := findKV(jm, "steps")
			ys, _ := findKV(ym, "steps")
			c03MatrixLegs(c, desc, js, ys)
		}
	}
}

// hasLongDigitRunKey: some mapping key of the document contains a run of 19 or more digits (the input class of F22).
func hasLongDigitRunKey(v any) bool {
	switch t := v.(type) {
	case []any:
		for _, e := range t {
			if hasLongDigitRunKey(e) {
				return true
			}
		}
	case vl.OMap:
		for _, kv := range t {
			run := 0
			for _, ch := range kv.K {
				if ch >= '0' && ch <= '9' {
					run++
					if run >= 19 {
						return true
					}
				} else {
					run = 0
				}
			}
			if hasLongDigitRunKey(kv.V) {
				return true
			}
		}
	}
	return false
}

// sortedView: values of unknown keys of typed steps live in Go maps only at the first level; nested
// ordered maps keep their order, so only the top level of such a value may be re-sorted.
func sortedView(v any) any { return v }

func findKV(o vl.OMap, k string) (any, bool) {
	for _, kv := range o {
		if kv.K == k {
			return kv.V, true
		}
	}
	return nil, false
}

func parseStr(r *core.Rand) string {
	switch r.Intn(10) {
	case 0, 1, 2:
		return core.Pick(r, gen.YAMLLookalikes)
	case 3:
		if r.Intn(4) == 0 {
			// carriage returns are inside the domain: lone, before a line feed, doubled before a line feed, trailing
			return core.Pick(r, []string{"make\r\ntest", "make\r\r\ntest", "cr\rmid", "trail\r", "trail\r\r", "\r\n", "a\r\r\r\nb"})
		}
	}
	return core.Pick(r, []string{"build", "test", "echo hello", "make -j4", "a b", "x", "release", "main", "$FOO", "{{matrix}}", "wait", "command"})
}

func runParse(c *ctx, prop string) error {
	const nShard = 8
	var shards []*core.Session
	for i := 0; i < nShard; i++ {
		shards = append(shards, core.NewSession("parse"))
	}
	rng := c.rng.Fork()
	n := 4000
	if c.thorough() {
		n = 60000
	}
	typeErrors := 0
	if prop == "C13" {
		typeErrors = 60
	}
	if c.only != nil {
		n = 1
	}
	probes := c.known.probeDocuments()
	// C09: the normal form is deeper than the legacy shapes (a bare step list gains `steps`, plugins written as one
	// mapping become a list of one-entry mappings). One document per shape and per depth 20-72: whatever is accepted
	// must be accepted again in its normal form.
	var depthSweep [][]byte
	if prop == "C09" && c.only == nil {
		for d := 20; d <= 72; d++ {
			cfg, _ := json.Marshal(gen.DeepChain(d))
			depthSweep = append(depthSweep,
				[]byte(fmt.Sprintf("- command: x\n  plugins:\n    docker#v1: %s\n", cfg)),
				[]byte(fmt.Sprintf("steps:\n  - command: x\n    plugins:\n      docker#v1: %s\n", cfg)),
				[]byte(fmt.Sprintf("- wait: ~\n  zz_deep: %s\n", cfg)))
		}
	}
	for i := 0; i < n; i++ {
		keyFn := gen.DefaultKey
		if prop == "C13" {
			keyFn = gen.KeyWithControls // C13 quantifies over every byte string; C03 / C09 exclude control characters
		}
		o := &gen.Opts{R: rng, Str: parseStr, Key: keyFn, UntypedExotic: true, TypeErrors: typeErrors, MaxGroupDepth: 4, MaxMapSize: 16, Hist: c.res.Hist,
			GroupBias: 8, DeepNesting: 60}
		if prop == "C13" {
			o.ManyUnknown = 80
			// C13 quantifies over every document: also strings that are not valid UTF-8 (yaml.v3 carries them as
			// !!binary scalars), in whatever position the generator puts a string
			o.Str = func(r *core.Rand) string {
				if r.Intn(400) == 0 {
					return core.Pick(r, []string{"\xff\xfe", "ok\xc3", "\x80", "a\xf0\x28\x8c\x28b"})
				}
				return parseStr(r)
			}
		}
		var src []byte
		style := "given"
		if c.only != nil {
			src = c.only
		} else if i < len(probes) {
			src, style = probes[i], "known-finding-probe"
		} else if d := c.corpusAt(i-len(probes), 1); d != nil {
			src, style = []byte(d.Document), "regression-corpus"
		} else if k := i - len(probes) - len(c.corpus); prop == "C09" && k >= 0 && k < len(depthSweep) {
			src, style = depthSweep[k], "legacy-shape-depth-sweep"
		} else {
			doc := o.Pipeline()
			src, style = renderStyles(rng, doc)
		}
		if src == nil {
			continue
		}
		if prop == "C13" && style == "yaml-block" && c.only == nil && len(src) > 0 && src[0] != '-' && src[0] != '[' && src[0] != '{' && rng.Intn(25) == 0 {
			// written as text, not through any encoder: binary scalars (bytes that are not valid UTF-8) as direct values
			// of an order-preserving mapping under an unknown top-level key
			src = append(append([]byte(nil), src...), []byte("zz_binary_values:\n    token: !!binary //4=\n    plain: x\n    more: !!binary gICA\n")...)
			style = "yaml-block+binary-scalars"
		}
		var tree any
		var terr error
		// (a document that takes the process down — fatal stack overflow — is still reported as the failing input)
		core.Current(map[string]any{"property": c.res.Property, "what": "pipeline.Parse on this document", "input": map[string]any{"document": string(src), "style": style}})
		if pn, msg := guard(func() { tree, terr = decodeTree(src) }); pn {
			// the first stage of Parse (ordered.DecodeYAML) is called directly here; a panic in it is a panic of Parse
			terr = fmt.Errorf("DecodeYAML panicked: %s", msg)
		}
		desc := map[string]any{"document": string(src), "style": style}
		var p *pipeline.Pipeline
		var perr error
		if pn, msg := guard(func() { p, perr = pipeline.Parse(bytes.NewReader(src)) }); pn {
			c.res.Fail(core.OracleFailure{What: "Parse panicked: " + msg, Input: desc})
			continue
		}
		if terr != nil {
			// the model starts at the decoded tree; a document the first stage rejects must be a hard error
			if perr == nil || warning.Is(perr) {
				c.res.Fail(core.OracleFailure{What: "DecodeYAML rejects the document but Parse returned a usable result", Input: desc})
			}
			c.res.Hist("decode-stage-error")
			continue
		}
		// scalar values: every scalar of the document decodes to what yaml.v3 itself decodes it to
		// (octal 0755, hex, floats, booleans, timestamps, null), judged on documents without aliases / merges
		if want, ok := nodeScalarLeaves(src); ok {
			c.res.OracleChecks++
			var got []string
			treeScalarLeaves(tree, &got)
			if strings.Join(got, "\x00") != strings.Join(want, "\x00") {
				c.res.Fail(core.OracleFailure{What: "a scalar of the document is decoded differently from yaml.v3's own decoding", Input: desc, Got: firstDiff(strings.Join(got, " | "), strings.Join(want, " | "))})
			}
		}
		usable := perr == nil || warning.Is(perr)
		var warns []any
		flattenWarn(perr, &warns)
		if warns == nil {
			warns = []any{}
		}
		got := "hard"
		if usable {
			got = "ok " + vl.Enc(dump.Pipeline(p)) + " " + vl.Enc(warns)
		}
		treeV := dump.Any(tree)
		textual := utf8.ValidString(vl.Enc(treeV)) && utf8.ValidString(got)
		if textual {
			shards[i%nShard].Add(vl.Escape("parse "+vl.Enc(treeV)), vl.Escape(got))
		} else {
			// the line protocol carries text: documents with raw non-UTF-8 strings are judged by the direct oracles only
			c.res.Hist("non-utf8-not-sent-to-model")
		}
		c.res.Case(string(src), true)
		c.res.Hist("style." + style)
		if !usable {
			c.res.Hist("outcome.hard-error")
			continue
		}
		if perr != nil {
			c.res.Hist("outcome.warning")
		} else {
			c.res.Hist("outcome.ok")
		}
		if i < 2 {
			c.res.Sample(desc)
		}
		// ---------- C13 ----------
		c.res.OracleChecks++
		if prop == "C13" && perr == nil && countUnknown(p.Steps) > 0 {
			c.res.Fail(core.OracleFailure{What: "a step fell back to an unknown step but no warning was reported", Input: desc})
		}
		if nu := countUnknownDeep(p.Steps); prop == "C13" && len(warns) < nu {
			// every fallback, at any depth, is reported: fewer warnings than unknown steps means one went unreported
			c.res.Fail(core.OracleFailure{What: "fewer warnings than steps that fell back to unknown steps (counted at every depth)", Input: desc, Got: fmt.Sprint(len(warns)), Want: fmt.Sprint(nu)})
		}
		if p.Steps == nil {
			c.res.Fail(core.OracleFailure{What: "usable result with nil step list", Input: desc})
		}
		if want, ok := countEntries(treeV); ok && len(p.Steps) != want {
			c.res.Fail(core.OracleFailure{What: "step count differs from the number of entries of the input step sequence", Input: desc, Got: fmt.Sprint(len(p.Steps)), Want: fmt.Sprint(want)})
		}
		for _, s := range p.Steps {
			if s == nil || reflectNil(s) {
				c.res.Fail(core.OracleFailure{What: "nil step in a usable result", Input: desc})
			}
		}
		// an unrecognised scalar entry is kept verbatim (case and surrounding blanks included)
		if l := inputStepList(treeV); len(l) == len(p.Steps) {
			for si, e := range l {
				if es, ok := e.(string); ok {
					if u, ok := p.Steps[si].(*pipeline.UnknownStep); ok {
						if got, _ := u.Contents.(string); got != es {
							c.res.Fail(core.OracleFailure{What: fmt.Sprintf("unknown scalar step %d is not kept verbatim", si+1), Input: desc, Got: fmt.Sprint(u.Contents), Want: es})
						}
					}
				}
			}
		}
		// ...and so is an unrecognised mapping entry, at every depth: the unknown step holds the entry as it was written
		// (every key, the nested steps of a would-be group included), compared with an independent decode of the source
		if terr == nil {
			var walk func(entries []any, steps pipeline.Steps, path string)
			walk = func(entries []any, steps pipeline.Steps, path string) {
				if len(entries) != len(steps) {
					return
				}
				for si, e := range entries {
					em, isMap := e.(vl.OMap)
					if !isMap {
						continue
					}
					switch st := steps[si].(type) {
					case *pipeline.UnknownStep:
						c.res.OracleChecks++
						if got, want := vl.Enc(dump.Any(st.Contents)), vl.Enc(e); got != want {
							c.res.Fail(core.OracleFailure{What: fmt.Sprintf("unknown step %s%d is not the input entry verbatim", path, si+1), Input: desc, Got: firstDiff(got, want)})
						}
					case *pipeline.GroupStep:
						if sv, ok := findKV(em, "steps"); ok {
							if l, ok := sv.([]any); ok {
								walk(l, st.Steps, fmt.Sprintf("%s%d/", path, si+1))
							}
						}
					}
				}
			}
			walk(inputStepList(treeV), p.Steps, "")
		}
		var jb, yb []byte
		var jerr, yerr error
		if pn, msg := guard(func() {
			jb, jerr = json.Marshal(p)
			yb, yerr = yaml.Marshal(p)
		}); pn {
			c.res.Fail(core.OracleFailure{What: "marshalling a parsed pipeline panicked: " + msg, Input: desc})
			continue
		}
		nonFinite := strings.Contains(string(src), ".inf") || strings.Contains(string(src), ".nan") || strings.Contains(strings.ToLower(string(src)), "nan")
		if jerr != nil {
			f := core.OracleFailure{What: "JSON marshalling of a parsed pipeline fails", Input: desc, Got: jerr.Error()}
			if nonFinite {
				if id, ok := c.known.has("nonfinite-float-json"); ok {
					f.Known = id
				}
			}
			c.res.Fail(f)
		}
		if yerr != nil {
			f := core.OracleFailure{What: "YAML marshalling of a parsed pipeline fails", Input: desc, Got: yerr.Error()}
			if yamlLegExcluded(dump.Pipeline(p)) {
				if id, ok := c.known.has("yaml-emitter-leading-whitespace-multiline"); ok {
					f.Known = id
				}
			}
			c.res.Fail(f)
		}
		if jerr != nil || yerr != nil {
			continue
		}
		// ---------- model: marshal ----------
		jtree, jterr := decodeTree(jb)
		if jterr == nil && textual {
			shards[i%nShard].Add(vl.Escape("normalform "+vl.Enc(treeV)), vl.Escape("ok "+vl.Enc(dump.Any(jtree))))
		}
		// the YAML leg's value tree (every mapping level sorted on both sides: key order is C08's subject);
		// documents the YAML text codec cannot carry (F10 look-alikes, the property's own exclusion) are left out
		if prop == "C09" && !yamlLegExcluded(dump.Pipeline(p)) && !hasMergeLookalike(treeV) {
			if ytree, yterr := decodeTree(yb); yterr == nil {
				shards[i%nShard].Add(vl.Escape("normalformy "+vl.Enc(treeV)), vl.Escape("ok "+vl.Enc(sortAllMaps(dump.Any(ytree)))))
				c.res.Hist("c09.yaml-leg-value-tree-compared")
			}
		}
		// ---------- C03 ----------
		if jterr == nil && prop == "C03" {
			c.res.OracleChecks++
			var inSteps any = treeV
			if m, ok := treeV.(vl.OMap); ok {
				inSteps, _ = findKV(m, "steps")
			}
			outSteps, _ := findKV(dump.Any(jtree).(vl.OMap), "steps")
			c03Oracle(c, desc, p.Steps, inSteps, outSteps)
			// the canonical shapes are those of the marshalled pipeline in either output format: the matrix of every
			// command step has the same shape in the YAML marshalling as in the JSON one (an adjustment's empty-ish
			// skip is the one recorded difference between the legs, finding F11)
			if !yamlLegExcluded(dump.Pipeline(p)) && !hasMergeLookalike(treeV) && !hasEmptyishSkip(treeV) {
				if ytree, yterr := decodeTree(yb); yterr == nil {
					ySteps, _ := findKV(dump.Any(ytree).(vl.OMap), "steps")
					c03MatrixLegs(c, desc, outSteps, ySteps)
				}
			}
			// top-level keys the library does not model are kept, same value, whatever else the document holds
			// (warnings from steps included)
			if m, ok := treeV.(vl.OMap); ok {
				om := dump.Any(jtree).(vl.OMap)
				for _, kv := range m {
					if kv.K == "steps" || kv.K == "env" {
						continue
					}
					ov, ok := findKV(om, kv.K)
					if !ok {
						c.res.Fail(core.OracleFailure{What: fmt.Sprintf("top-level key %q is dropped by parse+marshal", kv.K), Input: desc})
					} else if want := vl.Enc(jsonViewGo(kv.V)); vl.Enc(ov) != want {
						c.res.Fail(core.OracleFailure{What: fmt.Sprintf("value of top-level key %q is changed by parse+marshal", kv.K), Input: desc, Got: vl.Enc(ov), Want: want})
					}
				}
			}
		}
		// ---------- C09 ----------
		if prop != "C09" {
			continue
		}
		c.res.OracleChecks++
		base := comparablePipeline(p, false)
		baseJ := comparablePipeline(p, true)
		exoticTyped := timestampInTypedPosition(treeV)
		// the stand-alone JSON decoders: one command step, and a plugin list (also written as ONE JSON object, whose
		// key order is the plugin order)
		if !exoticTyped {
			// (the JSON-leg findings apply to these decoders as they do to Parse)
			saKnown := ""
			if hasEmptyPrimaryWithAlias(treeV) {
				if id, ok := c.known.has("empty-primary-with-alias"); ok {
					saKnown = id
				}
			}
			if saKnown == "" && hasEmptyishSkip(treeV) {
				if id, ok := c.known.has("adjustment-skip-emptyish"); ok {
					saKnown = id
				}
			}
			for _, st := range commandStepsOf(p.Steps) {
				wrap := func(cs *pipeline.CommandStep) string {
					return comparablePipeline(&pipeline.Pipeline{Steps: pipeline.Steps{cs}}, true)
				}
				if sb, err := json.Marshal(st); err == nil {
					var cs pipeline.CommandStep
					if err := cs.UnmarshalJSON(sb); err != nil {
						c.res.Fail(core.OracleFailure{What: "CommandStep.UnmarshalJSON fails on the step's own JSON", Input: desc, Got: err.Error()})
					} else if got, want := wrap(&cs), wrap(st); got != want {
						c.res.Fail(core.OracleFailure{What: "CommandStep.UnmarshalJSON of the step's own JSON gives a different step", Input: desc, Got: firstDiff(got, want), Known: saKnown})
					}
				}
				if len(st.Plugins) == 0 {
					continue
				}
				want := wrap(&pipeline.CommandStep{Plugins: st.Plugins})
				if pb, err := json.Marshal(st.Plugins); err == nil {
					var pl pipeline.Plugins
					if err := json.Unmarshal(pb, &pl); err != nil {
						c.res.Fail(core.OracleFailure{What: "Plugins.UnmarshalJSON fails on the list's own JSON", Input: desc, Got: err.Error()})
					} else if got := wrap(&pipeline.CommandStep{Plugins: pl}); got != want {
						c.res.Fail(core.OracleFailure{What: "Plugins.UnmarshalJSON of the list's own JSON gives a different list", Input: desc, Got: firstDiff(got, want)})
					}
				}
				// the same plugins as one JSON object, in list order (only when the canonical sources are distinct)
				var ob strings.Builder
				seen := map[string]bool{}
				ok := true
				ob.WriteString("{")
				for pi, plg := range st.Plugins {
					kb, _ := json.Marshal(plg.FullSource())
					vb, verr := json.Marshal(plg.Config)
					if seen[plg.FullSource()] || verr != nil {
						ok = false
						break
					}
					seen[plg.FullSource()] = true
					if pi > 0 {
						ob.WriteString(",")
					}
					ob.Write(kb)
					ob.WriteString(":")
					ob.Write(vb)
				}
				ob.WriteString("}")
				if ok {
					var pl pipeline.Plugins
					if err := json.Unmarshal([]byte(ob.String()), &pl); err != nil {
						c.res.Fail(core.OracleFailure{What: "Plugins.UnmarshalJSON fails on the plugins written as one JSON object", Input: desc, Got: err.Error()})
					} else if got := wrap(&pipeline.CommandStep{Plugins: pl}); got != want {
						c.res.Fail(core.OracleFailure{What: "Plugins.UnmarshalJSON of the plugins written as one JSON object gives another list (order or content)", Input: map[string]any{"document": string(src), "plugins_json": ob.String()}, Got: firstDiff(got, want)})
					}
					c.res.Hist("c09.standalone-plugins-object-form")
				}
			}
		}
		for leg, text := range map[string][]byte{"json": jb, "yaml": yb} {
			if leg == "json" && exoticTyped {
				// scoping decision (DESIGN §7): typed-string positions take the four scalar kinds the unmarshaller
				// documents; a YAML timestamp there (only reachable here through a `<<` key the generator wrote,
				// which block YAML turns into a real merge) makes the step unknown, and the JSON text carries it as
				// a string
				c.res.Hist("c09.json-leg-skipped-timestamp-in-typed-position")
				continue
			}
			if leg == "yaml" && yamlLegExcluded(dump.Pipeline(p)) {
				c.res.Hist("c09.yaml-leg-excluded")
				continue
			}
			p2, err2 := pipeline.Parse(bytes.NewReader(text))
			known := ""
			if leg == "yaml" && hasMergeLookalike(treeV) {
				if id, ok := c.known.has("yaml-merge-lookalike-string"); ok {
					known = id
				}
			}
			if known == "" && hasEmptyPrimaryWithAlias(treeV) {
				if id, ok := c.known.has("empty-primary-with-alias"); ok {
					known = id
				}
			}
			if known == "" && leg == "json" && hasEmptyishSkip(treeV) {
				if id, ok := c.known.has("adjustment-skip-emptyish"); ok {
					known = id
				}
			}
			if p2 == nil || (err2 != nil && !warning.Is(err2)) {
				c.res.Fail(core.OracleFailure{What: "re-parsing the " + leg + " marshalling fails", Input: desc, Got: fmt.Sprint(err2), Known: known})
				continue
			}
			want := base
			if leg == "json" {
				want = baseJ
			}
			if got := comparablePipeline(p2, leg == "json"); got != want {
				c.res.Fail(core.OracleFailure{What: "re-parsing the " + leg + " marshalling gives a different pipeline", Input: desc, Got: firstDiff(got, want), Known: known})
			} else if leg == "json" {
				// the fixpoint at the byte level: what was just read back is written out as the very text it was read from
				// (nil and empty containers included, which the typed comparison above identifies)
				c.res.OracleChecks++
				if jb3, err := json.Marshal(p2); err != nil || !bytes.Equal(jb3, jb) {
					c.res.Fail(core.OracleFailure{What: "the JSON form is not a fixpoint: marshalling the re-parsed pipeline gives other bytes", Input: desc, Got: firstDiff(string(jb3), string(jb)), Known: known})
				}
			}
		}
		marshalReps := 2
		if hasLongDigitRunKey(treeV) {
			marshalReps = 40 // the order F22 depends on is random per marshalling: make the listed finding show on every run
		}
		for rep := 0; rep < marshalReps; rep++ {
			jb2, _ := json.Marshal(p)
			yb2, _ := yaml.Marshal(p)
			if !bytes.Equal(jb, jb2) || !bytes.Equal(yb, yb2) {
				f := core.OracleFailure{What: "marshalling the same pipeline twice gives different bytes", Input: desc}
				if !bytes.Equal(jb, jb2) {
					f.What += " (JSON)"
				} else {
					f.What += " (YAML only)"
					// F22: yaml.v3 sorts the keys of a Go map with a comparator that is not a strict weak order once a digit
					// run overflows int64; the order then depends on Go's map iteration order
					if id, ok := c.known.has("yaml-map-key-sort-digit-run-overflow"); ok && hasLongDigitRunKey(treeV) {
						f.Known = id
					}
				}
				c.res.Fail(f)
				break
			}
		}
	}
	if c.only != nil {
		return nil
	}
	if prop == "C13" {
		c13ByteLevel(c, rng, shards)
	}
	if prop == "C03" || prop == "C09" {
		c03MergeLiterals(c)
	}
	c.res.Rule = "documents from the grammar-directed generator (every step kind and shorthand, primary x alias key combinations, three plugin forms, matrices with adjustments, caches, unknown extras with nested values of every YAML scalar kind incl. timestamps / huge ints / integral floats, groups nested to depth 4, YAML look-alike strings) rendered as block YAML, flow YAML or JSON, through the real Parse; compared with the model: typed pipeline dump, warning kinds in order, hard-error class, JSON normal form (order-preserving). Distinct by document text."
	mm, total, err := core.RunSessions(c.driver, shards, 20, 0)
	c.res.ModelRequests = total
	c.res.Mismatches = mm
	return err
}

func reflectNil(s pipeline.Step) bool {
	switch t := s.(type) {
	case *pipeline.CommandStep:
		return t == nil
	case *pipeline.WaitStep:
		return t == nil
	case *pipeline.InputStep:
		return t == nil
	case *pipeline.TriggerStep:
		return t == nil
	case *pipeline.GroupStep:
		return t == nil
	case *pipeline.UnknownStep:
		return t == nil
	}
	return false
}

// yamlLegExcluded: the property excludes, on the YAML leg only, pipelines carrying a multi-line string
// that begins with whitespace (the YAML library's own emitter cannot round-trip them).
func yamlLegExcluded(d any) bool {
	strs := map[string]bool{}
	allStrings(d, strs)
	for s := range strs {
		if strings.Contains(s, "\n") && (strings.HasPrefix(s, " ") || strings.HasPrefix(s, "\t") || strings.HasPrefix(s, "\n") || strings.HasPrefix(s, "\r")) {
			return true
		}
	}
	return false
}

// hasMergeLookalike: the string "<<" occurs as a key or as a string value (yaml.v3 emits it unquoted
// with tag !!merge, so it is read back as a merge key: known finding F10, YAML leg only).
func hasMergeLookalike(v any) bool {
	switch t := v.(type) {
	case string:
		return t == "<<"
	case []any:
		for _, e := range t {
			if hasMergeLookalike(e) {
				return true
			}
		}
	case vl.OMap:
		for _, kv := range t {
			if kv.K == "<<" || hasMergeLookalike(kv.V) {
				return true
			}
		}
	case map[string]any:
		for k, e := range t {
			if k == "<<" || hasMergeLookalike(e) {
				return true
			}
		}
	case map[string]string:
		for k, e := range t {
			if k == "<<" || e == "<<" {
				return true
			}
		}
	case []string:
		for _, e := range t {
			if e == "<<" {
				return true
			}
		}
	}
	return false
}

// hasDegenerateMatrix: a non-empty matrix mapping without (or with a null) setup, or an adjustment
// without (or with a null) `with` (known finding F15: the YAML emitter writes the nil map as {}).
func hasDegenerateMatrix(v any) bool {
	switch t := v.(type) {
	case []any:
		for _, e := range t {
			if hasDegenerateMatrix(e) {
				return true
			}
		}
	case vl.OMap:
		if mv, ok := findKV(t, "matrix"); ok {
			if mm, ok := mv.(vl.OMap); ok && len(mm) > 0 {
				if sv, has := findKV(mm, "setup"); !has || sv == nil {
					return true
				}
				if av, ok := findKV(mm, "adjustments"); ok {
					if al, ok := av.([]any); ok {
						for _, a := range al {
							if ao, ok := a.(vl.OMap); ok {
								if wv, has := findKV(ao, "with"); !has || wv == nil {
									return true
								}
							}
						}
					}
				}
			}
		}
		for _, kv := range t {
			if hasDegenerateMatrix(kv.V) {
				return true
			}
		}
	}
	return false
}

// timestampInTypedPosition: a YAML timestamp stands where the typed model wants a string (key, label, command,
// env / matrix / cache values and their aliases), at any depth.
func timestampInTypedPosition(v any) bool {
	isT := func(x any) bool {
		switch x.(type) {
		case vl.Time, time.Time:
			return true
		}
		return false
	}
	isTime := func(x any) bool {
		switch t := x.(type) {
		case vl.Time, time.Time:
			return true
		case []any:
			for _, e := range t {
				if isT(e) {
					return true
				}
			}
		case vl.OMap:
			for _, kv := range t {
				if isT(kv.V) {
					return true
				}
				if l, ok := kv.V.([]any); ok {
					for _, e := range l {
						if isT(e) {
							return true
						}
					}
				}
			}
		}
		return false
	}
	typed := map[string]bool{"key": true, "id": true, "identifier": true, "label": true, "name": true, "command": true, "commands": true,
		"group": true, "type": true, "env": true, "size": true, "paths": true, "setup": true, "with": true, "cache": true, "matrix": true, "plugins": true}
	switch t := v.(type) {
	case []any:
		for _, e := range t {
			if timestampInTypedPosition(e) {
				return true
			}
		}
	case vl.OMap:
		for _, kv := range t {
			if typed[kv.K] && isTime(kv.V) {
				return true
			}
			if timestampInTypedPosition(kv.V) {
				return true
			}
		}
	}
	return false
}

// hasEmptyPrimaryWithAlias: some mapping has an explicitly empty primary key next to one of its aliases
// (known finding F14).
func hasEmptyPrimaryWithAlias(v any) bool {
	switch t := v.(type) {
	case []any:
		for _, e := range t {
			if hasEmptyPrimaryWithAlias(e) {
				return true
			}
		}
	case vl.OMap:
		empty := func(k string) bool {
			x, ok := findKV(t, k)
			return ok && (x == nil || x == "")
		}
		has := func(ks ...string) bool {
			for _, k := range ks {
				if _, ok := findKV(t, k); ok {
					return true
				}
			}
			return false
		}
		chain := func(ks ...string) bool {
			// the first present key of the chain is empty while a later one is present
			for i, k := range ks {
				if _, ok := findKV(t, k); ok {
					return empty(k) && has(ks[i+1:]...)
				}
			}
			return false
		}
		if chain("label", "name") || chain("key", "id", "identifier") || chain("group", "label", "name") {
			return true
		}
		for _, kv := range t {
			if hasEmptyPrimaryWithAlias(kv.V) {
				return true
			}
		}
	}
	return false
}

func scalarText(v any) (string, bool) {
	switch t := v.(type) {
	case nil:
		return "", true
	case string:
		return t, true
	case int, bool, float64:
		return fmt.Sprint(t), true
	}
	return "", false
}

func commandLines(v any) (string, bool) {
	if l, ok := v.([]any); ok {
		var parts []string
		for _, e := range l {
			s, ok := scalarText(e)
			if !ok {
				return "", false
			}
			parts = append(parts, s)
		}
		return strings.Join(parts, "\n"), true
	}
	return scalarText(v)
}

// c03CommandRules: the documented normal form of the modelled keys of a command step.
func c03CommandRules(c *ctx, desc map[string]any, i int, im, om vl.OMap, st *pipeline.CommandStep) {
	cmdV, hasCmd := findKV(im, "command")
	cmdsV, hasCmds := findKV(im, "commands")
	outCmd, _ := findKV(om, "command")
	fail := func(what, got, want, match string) {
		f := core.OracleFailure{What: fmt.Sprintf("step %d: %s", i+1, what), Input: desc, Got: got, Want: want}
		if match != "" {
			if id, ok := c.known.has(match); ok {
				f.Known = id
			}
		}
		c.res.Fail(f)
	}
	switch {
	case hasCmd && hasCmds:
		a, ok1 := commandLines(cmdV)
		b, ok2 := commandLines(cmdsV)
		if ok1 && ok2 && a != "" && !strings.Contains(fmt.Sprint(outCmd), a) {
			fail("both command and commands given: the command text is dropped", fmt.Sprint(outCmd), "a command containing "+a+" and "+b, "command-and-commands")
		}
	case hasCmd || hasCmds:
		v := cmdV
		if hasCmds {
			v = cmdsV
		}
		if want, ok := commandLines(v); ok && fmt.Sprint(outCmd) != want {
			fail("command is not the newline-joined command/commands", fmt.Sprint(outCmd), want, "")
		}
	}
	// label <- name, key <- id | identifier, only when the primary is absent
	alias := func(primary string, aliases ...string) {
		out, hasOut := findKV(om, primary)
		if pv, ok := findKV(im, primary); ok {
			if want, ok := scalarText(pv); ok && want != "" && (!hasOut || fmt.Sprint(out) != want) {
				fail(primary+" changed", fmt.Sprint(out), want, "")
			}
			return
		}
		for _, a := range aliases {
			if av, ok := findKV(im, a); ok {
				if want, ok := scalarText(av); ok && want != "" && (!hasOut || fmt.Sprint(out) != want) {
					fail(primary+" is not filled from its first present alias "+a, fmt.Sprint(out), want, "")
				}
				return
			}
		}
	}
	alias("label", "name")
	alias("key", "id", "identifier")
	// signature: every key of the input signature mapping survives
	if sv, ok := findKV(im, "signature"); ok {
		if sm, ok := sv.(vl.OMap); ok {
			ov, _ := findKV(om, "signature")
			osm, _ := ov.(vl.OMap)
			for _, kv := range sm {
				if _, ok := findKV(osm, kv.K); !ok {
					fail(fmt.Sprintf("key %q inside signature is dropped by parse+marshal", kv.K), "", "", "signature-unknown-keys")
				}
			}
		}
	}
	// matrix / cache written as mappings: every key the typed form does not model survives, value intact
	nested := func(field string, modelled map[string]bool, enabled bool) {
		mv, ok := findKV(im, field)
		mm, isMap := mv.(vl.OMap)
		if !ok || !isMap || !enabled {
			return
		}
		ov, _ := findKV(om, field)
		omm, outIsMap := ov.(vl.OMap)
		for _, kv := range mm {
			if modelled[kv.K] {
				continue
			}
			if !outIsMap {
				fail(fmt.Sprintf("%s has the unknown key %q but is marshalled as a non-mapping (the key is lost)", field, kv.K), vl.Enc(ov), "", "")
				return
			}
			got, ok := findKV(omm, kv.K)
			if !ok {
				fail(fmt.Sprintf("key %q inside %s is dropped by parse+marshal", kv.K, field), "", "", "")
			} else if want := vl.Enc(jsonViewGo(kv.V)); vl.Enc(got) != want {
				fail(fmt.Sprintf("value of key %q inside %s is changed by parse+marshal", kv.K, field), vl.Enc(got), want, "")
			}
		}
	}
	nested("matrix", map[string]bool{"setup": true, "adjustments": true}, st.Matrix != nil)
	nested("cache", map[string]bool{"name": true, "paths": true, "size": true, "disabled": true}, st.Cache != nil) // (a disabled cache is written `false` only when it holds nothing else: fix F18)
	// plugins: ordered list of single-entry objects keyed by canonical source, empty config as null
	if pl, ok := findKV(om, "plugins"); ok {
		l, _ := pl.([]any)
		if len(l) != len(st.Plugins) {
			fail("plugin count changed", fmt.Sprint(len(l)), fmt.Sprint(len(st.Plugins)), "")
		}
		// one plugin per string item, one per entry of a mapping item, one per entry of the mapping form
		if iv, ok := findKV(im, "plugins"); ok {
			want := -1
			switch t := iv.(type) {
			case vl.OMap:
				want = len(t)
			case []any:
				want = 0
				for _, e := range t {
					switch x := e.(type) {
					case string:
						want++
					case vl.OMap:
						want += len(x)
					default:
						want = -1 << 20 // ill-typed item: not judged
					}
				}
			}
			if want >= 0 && want != len(l) {
				fail("the marshalled plugin list does not have one entry per plugin of the input", fmt.Sprint(len(l)), fmt.Sprint(want), "")
			}
		}
		for j, e := range l {
			eo, ok := e.(vl.OMap)
			if !ok || len(eo) != 1 {
				fail("a plugin is not a single-entry object", vl.Enc(e), "", "")
				continue
			}
			if j < len(st.Plugins) {
				// the documented expansion of the two short forms, written out here (not taken from the library)
				if m := c14ShortSourceRE.FindStringSubmatch(st.Plugins[j].Source); m != nil {
					org, ref := "buildkite-plugins", m[3]
					if m[1] != "" {
						org = strings.TrimSuffix(m[1], "/")
					}
					if ref == "#" {
						ref = ""
					}
					if want := "github.com/" + org + "/" + m[2] + "-buildkite-plugin" + ref; eo[0].K != want {
						fail("a short-form plugin source is not keyed by its documented expansion", eo[0].K, want, "")
					}
				}
			}
			if j < len(st.Plugins) && eo[0].K != st.Plugins[j].FullSource() {
				fail("a plugin is not keyed by its canonical source, in order", eo[0].K, st.Plugins[j].FullSource(), "")
			}
		}
	}
}

func countUnknown(ss pipeline.Steps) int {
	n := 0
	for _, s := range ss {
		if _, ok := s.(*pipeline.UnknownStep); ok {
			n++
		}
	}
	return n
}

func countUnknownDeep(ss pipeline.Steps) int {
	n := 0
	for _, s := range ss {
		switch t := s.(type) {
		case *pipeline.UnknownStep:
			n++
		case *pipeline.GroupStep:
			n += countUnknownDeep(t.Steps)
		}
	}
	return n
}

// hasEmptyishSkip: an adjustment-like mapping with a `skip` that JSON's omitempty drops (known finding F11).
func hasEmptyishSkip(v any) bool {
	switch t := v.(type) {
	case []any:
		for _, e := range t {
			if hasEmptyishSkip(e) {
				return true
			}
		}
	case vl.OMap:
		adjs, _ := findKV(t, "adjustments")
		if al, ok := adjs.([]any); ok {
			for _, a := range al {
				if ao, ok := a.(vl.OMap); ok {
					if _, has := findKV(ao, "with"); !has {
						ao = append(vl.OMap{{K: "with", V: nil}}, ao...)
						if hasEmptyishSkip(ao) {
							return true
						}
					}
				}
			}
		}
		if _, isAdj := findKV(t, "with"); isAdj {
			if sv, ok := findKV(t, "skip"); ok {
				switch x := sv.(type) {
				case bool:
					if !x {
						return true
					}
				case string:
					if x == "" {
						return true
					}
				case int:
					if x == 0 {
						return true
					}
				case float64:
					if x == 0 {
						return true
					}
				case []any:
					if len(x) == 0 {
						return true
					}
				case vl.OMap:
					// an ordered map is a non-nil pointer: kept
				}
			}
		}
		for _, kv := range t {
			if hasEmptyishSkip(kv.V) {
				return true
			}
		}
	}
	return false
}

// sortAllMaps: every ordered mapping of the tree with its entries sorted by key.
func sortAllMaps(v any) any {
	switch t := v.(type) {
	case vl.OMap:
		out := make(vl.OMap, len(t))
		for i, kv := range t {
			out[i] = vl.KV{K: kv.K, V: sortAllMaps(kv.V)}
		}
		sort.SliceStable(out, func(i, j int) bool { return out[i].K < out[j].K })
		return out
	case []any:
		out := make([]any, len(t))
		for i, e := range t {
			out[i] = sortAllMaps(e)
		}
		return out
	}
	return v
}

// nodeScalarLeaves: the document's scalar values (not keys) in document order, each decoded by yaml.v3's
// own Node.Decode; ok=false when the document uses aliases or merge keys (order and multiplicity differ).
func nodeScalarLeaves(src []byte) ([]string, bool) {
	var root yaml.Node
	if yaml.Unmarshal(src, &root) != nil || len(root.Content) != 1 {
		return nil, false
	}
	ok := true
	var out []string
	var walk func(n *yaml.Node)
	walk = func(n *yaml.Node) {
		switch n.Kind {
		case yaml.AliasNode:
			ok = false
		case yaml.ScalarNode:
			var v any
			if n.Decode(&v) != nil {
				ok = false
				return
			}
			out = append(out, vl.Enc(dump.Any(v)))
		case yaml.SequenceNode:
			for _, e := range n.Content {
				walk(e)
			}
		case yaml.MappingNode:
			for i := 0; i+1 < len(n.Content); i += 2 {
				if n.Content[i].Tag == "!!merge" || n.Content[i].Kind != yaml.ScalarNode {
					ok = false
					return
				}
				walk(n.Content[i+1])
			}
		}
	}
	walk(root.Content[0])
	return out, ok
}

func treeScalarLeaves(v any, out *[]string) {
	switch t := v.(type) {
	case *ordered.MapSA:
		t.Range(func(_ string, e any) error { treeScalarLeaves(e, out); return nil })
	case []any:
		for _, e := range t {
			treeScalarLeaves(e, out)
		}
	default:
		*out = append(*out, vl.Enc(dump.Any(v)))
	}
}

// injectHostileAnchors: the document with anchors and aliases that close cycles or feed merges with
// sequences that contain themselves — texts yaml.v3 accepts and Parse must answer (result or error).
func injectHostileAnchors(r *core.Rand, src []byte) []byte {
	var root yaml.Node
	if yaml.Unmarshal(src, &root) != nil || len(root.Content) != 1 {
		return nil
	}
	var maps, seqs []*yaml.Node
	var walk func(n *yaml.Node)
	walk = func(n *yaml.Node) {
		switch n.Kind {
		case yaml.MappingNode:
			maps = append(maps, n)
		case yaml.SequenceNode:
			seqs = append(seqs, n)
		}
		for _, ch := range n.Content {
			walk(ch)
		}
	}
	walk(root.Content[0])
	if len(maps) == 0 {
		return nil
	}
	key := func(s string) *yaml.Node { return &yaml.Node{Kind: yaml.ScalarNode, Tag: "!!str", Value: s} }
	merge := func() *yaml.Node { return &yaml.Node{Kind: yaml.ScalarNode, Tag: "!!merge", Value: "<<"} }
	m := core.Pick(r, maps)
	switch r.Intn(6) {
	case 0: // <<: &x [*x]
		sq := &yaml.Node{Kind: yaml.SequenceNode, Tag: "!!seq", Anchor: "hx", Style: yaml.FlowStyle}
		sq.Content = []*yaml.Node{{Kind: yaml.AliasNode, Alias: sq, Value: "hx"}}
		m.Content = append(m.Content, merge(), sq)
	case 1: // <<: &y [[*y]]
		sq := &yaml.Node{Kind: yaml.SequenceNode, Tag: "!!seq", Anchor: "hy", Style: yaml.FlowStyle}
		sq.Content = []*yaml.Node{{Kind: yaml.SequenceNode, Tag: "!!seq", Style: yaml.FlowStyle, Content: []*yaml.Node{{Kind: yaml.AliasNode, Alias: sq, Value: "hy"}}}}
		m.Content = append(m.Content, merge(), sq)
	case 2: // a mapping that merges itself
		m.Anchor = "hm"
		m.Content = append(m.Content, merge(), &yaml.Node{Kind: yaml.AliasNode, Alias: m, Value: "hm"})
	case 3: // a mapping that holds itself as a value
		m.Anchor = "hv"
		m.Content = append(m.Content, key("zz_self"), &yaml.Node{Kind: yaml.AliasNode, Alias: m, Value: "hv"})
	case 4: // a sequence that holds itself
		if len(seqs) == 0 {
			return nil
		}
		sq := core.Pick(r, seqs)
		sq.Anchor = "hs"
		sq.Content = append(sq.Content, &yaml.Node{Kind: yaml.AliasNode, Alias: sq, Value: "hs"})
	case 5: // a nested mapping that merges an ancestor's sibling which merges back
		m.Anchor = "ha"
		inner := &yaml.Node{Kind: yaml.MappingNode, Tag: "!!map", Anchor: "hb", Style: yaml.FlowStyle}
		inner.Content = []*yaml.Node{merge(), {Kind: yaml.AliasNode, Alias: m, Value: "ha"}}
		m.Content = append(m.Content, key("zz_inner"), inner, merge(), &yaml.Node{Kind: yaml.AliasNode, Alias: inner, Value: "hb"})
	}
	b, err := yaml.Marshal(&root)
	if err != nil {
		return nil
	}
	var check yaml.Node
	if yaml.Unmarshal(b, &check) != nil {
		return nil
	}
	return b
}

// c13ByteLevel: support for the byte-level half of C13 (not a proof): renderings of generated documents
// mutated at the byte level go through Parse with recover and a timeout; every input the first stage
// accepts continues into the model correspondence and the completeness oracles.
func c13ByteLevel(c *ctx, rng *core.Rand, shards []*core.Session) {
	n := 3000
	if c.thorough() {
		n = 60000
	}
	inserts := []string{"*a", "&a ", "<<: ", "\t", "{", "}", "[", "]", "\"", "'", ": ", "- ", "\n", "|", ">", "!!binary ", "? ", "%YAML 1.1\n---\n", "\x00", "\xff", "\u2028", "#", "---\n", "...\n"}
	for i := 0; i < n; i++ {
		o := &gen.Opts{R: rng, Str: parseStr, Key: gen.DefaultKey, UntypedExotic: true, MaxGroupDepth: 2, MaxMapSize: 10}
		src, _ := renderStyles(rng, o.Pipeline())
		if len(src) == 0 {
			continue
		}
		b := append([]byte(nil), src...)
		hostile := false
		if i%300 == 11 {
			// many merge paths, small result: parsing must stay fast
			layers := 22 + rng.Intn(4)
			b = []byte(stackedDiamonds(layers) + fmt.Sprintf("steps:\n  - command: x\n    agents: {<<: [*l%da, *l%db]}\n", layers, layers))
			hostile = true
			c.res.Hist("bytes.stacked-diamonds")
		} else if rng.Intn(5) == 0 {
			if hb := injectHostileAnchors(rng, src); hb != nil {
				b, hostile = hb, true
				c.res.Hist("bytes.hostile-anchors")
			}
		}
		for k := 1 + rng.Intn(4); !hostile && k > 0 && len(b) > 0; k-- {
			pos := rng.Intn(len(b))
			switch rng.Intn(6) {
			case 0:
				b[pos] ^= byte(1 << uint(rng.Intn(8)))
			case 1:
				b = append(b[:pos], b[pos+1:]...)
			case 2:
				ins := core.Pick(rng, inserts)
				b = append(b[:pos], append([]byte(ins), b[pos:]...)...)
			case 3:
				b = b[:pos]
			case 4:
				j := rng.Intn(len(b))
				if j > pos {
					b = append(b[:pos], b[j:]...)
				}
			case 5:
				// duplicate a line
				if nl := bytes.IndexByte(b[pos:], '\n'); nl >= 0 {
					line := append([]byte(nil), b[pos:pos+nl+1]...)
					b = append(b[:pos], append(line, b[pos:]...)...)
				}
			}
		}
		type res struct {
			p   *pipeline.Pipeline
			err error
			pn  string
		}
		ch := make(chan res, 1)
		core.Current(map[string]any{"property": "C13", "what": "pipeline.Parse on this document", "input": map[string]any{"document": string(b)}})
		go func() {
			var r res
			func() {
				defer func() {
					if x := recover(); x != nil {
						r.pn = fmt.Sprint(x)
					}
				}()
				r.p, r.err = pipeline.Parse(bytes.NewReader(b))
			}()
			ch <- r
		}()
		var r res
		select {
		case r = <-ch:
		case <-time.After(20 * time.Second):
			c.res.Fail(core.OracleFailure{What: "Parse did not return within 20s on a mutated document", Input: string(b)})
			continue
		}
		desc := map[string]any{"document": string(b), "mutated": true}
		c.res.Case("bytes:"+string(b), true)
		c.res.Hist("bytes.cases")
		if r.pn != "" {
			c.res.Fail(core.OracleFailure{What: "Parse panicked on a mutated document: " + r.pn, Input: desc})
			continue
		}
		usable := r.err == nil || warning.Is(r.err)
		if !usable {
			c.res.Hist("bytes.hard-error")
			continue
		}
		c.res.Hist("bytes.usable")
		c.res.OracleChecks++
		if r.p == nil || r.p.Steps == nil {
			c.res.Fail(core.OracleFailure{What: "usable result with nil pipeline / step list (mutated document)", Input: desc})
			continue
		}
		for _, st := range r.p.Steps {
			if st == nil || reflectNil(st) {
				c.res.Fail(core.OracleFailure{What: "nil step in a usable result (mutated document)", Input: desc})
			}
		}
		if tree, err := decodeTree(b); err == nil {
			treeV := dump.Any(tree)
			if want, ok := countEntries(treeV); ok && len(r.p.Steps) != want {
				c.res.Fail(core.OracleFailure{What: "step count differs from the number of entries (mutated document)", Input: desc, Got: fmt.Sprint(len(r.p.Steps)), Want: fmt.Sprint(want)})
			}
			var warns []any
			flattenWarn(r.err, &warns)
			if warns == nil {
				warns = []any{}
			}
			if enc := vl.Enc(treeV); !utf8.ValidString(enc) {
				// the line protocol carries text: a document with raw non-UTF-8 bytes in a scalar is checked by
				// the direct oracles only
				c.res.Hist("bytes.non-utf8-not-sent-to-model")
			} else if !strings.Contains(enc, "<go:") {
				shards[i%len(shards)].Add(vl.Escape("parse "+vl.Enc(treeV)), vl.Escape("ok "+vl.Enc(dump.Pipeline(r.p))+" "+vl.Enc(warns)))
			}
		}
		_, jerr := json.Marshal(r.p)
		_, yerr := yaml.Marshal(r.p)
		if jerr != nil && !strings.Contains(jerr.Error(), "unsupported value") {
			c.res.Fail(core.OracleFailure{What: "JSON marshalling fails after a usable parse (mutated document)", Input: desc, Got: jerr.Error()})
		}
		if yerr != nil && yamlLegExcluded(dump.Pipeline(r.p)) && func() bool { _, ok := c.known.has("yaml-emitter-leading-whitespace-multiline"); return ok }() {
			id, _ := c.known.has("yaml-emitter-leading-whitespace-multiline")
			c.res.Fail(core.OracleFailure{What: "YAML marshalling fails after a usable parse (mutated document)", Input: desc, Got: yerr.Error(), Known: id})
		} else if yerr != nil {
			c.res.Fail(core.OracleFailure{What: "YAML marshalling fails after a usable parse (mutated document)", Input: desc, Got: yerr.Error()})
		}
	}
}

// c03MergeLiterals: hand-written documents whose steps get their fields through `<<` merges reached through other
// merges, with the value each field must have in the JSON normal form written out by hand (the YAML merge rules:
// a mapping's own keys beat what it merges, wherever they are written; earlier sources beat later ones). The
// expected values do not come from any decoder.
func c03MergeLiterals(c *ctx) {
	type want struct {
		path []any // keys / indices into the decoded JSON output
		val  any
	}
	cases := []struct {
		doc   string
		wants []want
	}{
		{"base: &base\n  timeout_in_minutes: 10\n  agents: {queue: default}\ndocker: &docker\n  <<: *base\n  timeout_in_minutes: 30\n  agents: {queue: docker}\nsteps:\n  - <<: *docker\n    command: make\n  - group: g\n    steps:\n      - <<: *docker\n        command: inner\n",
			[]want{{[]any{"steps", 0, "timeout_in_minutes"}, float64(30)}, {[]any{"steps", 0, "agents", "queue"}, "docker"}, {[]any{"steps", 0, "command"}, "make"},
				{[]any{"steps", 1, "steps", 0, "timeout_in_minutes"}, float64(30)}, {[]any{"steps", 1, "steps", 0, "agents", "queue"}, "docker"}}},
		{"base: &base {image: ruby, tag: one}\nmid: &mid {<<: *base, image: golang}\nother: &other {image: python, extra: yes-please}\nsteps:\n  - command: x\n    <<: [*mid, *other]\n",
			[]want{{[]any{"steps", 0, "image"}, "golang"}, {[]any{"steps", 0, "tag"}, "one"}, {[]any{"steps", 0, "extra"}, "yes-please"}}},
		{"l0: &l0 {b: 0, c: 0, a: 0}\nl1: &l1 {<<: *l0, b: 1}\nl2: &l2 {<<: *l1, c: 2}\nsteps:\n  - label: top\n    command: x\n    <<: *l2\n",
			[]want{{[]any{"steps", 0, "a"}, float64(0)}, {[]any{"steps", 0, "b"}, float64(1)}, {[]any{"steps", 0, "c"}, float64(2)}, {[]any{"steps", 0, "label"}, "top"}}},
		{"common: &common {A: \"1\", B: \"2\", C: \"3\"}\nenv:\n  <<: *common\n  B: \"9\"\nsteps:\n  - command: x\n    env:\n      <<: *common\n      C: own\n",
			[]want{{[]any{"env", "B"}, "9"}, {[]any{"env", "A"}, "1"}, {[]any{"steps", 0, "env", "C"}, "own"}, {[]any{"steps", 0, "env", "B"}, "2"}}},
	}
	for _, cs := range cases {
		desc := map[string]any{"document": cs.doc}
		var p *pipeline.Pipeline
		var err error
		if pn, msg := guard(func() { p, err = pipeline.Parse(strings.NewReader(cs.doc)) }); pn || p == nil || (err != nil && !warning.Is(err)) {
			c.res.Fail(core.OracleFailure{What: "a document with merges reached through merges does not parse", Input: desc, Got: fmt.Sprint(msg, err)})
			continue
		}
		for _, leg := range []string{"json", "yaml"} {
			var out any
			if leg == "json" {
				b, merr := json.Marshal(p)
				if merr != nil || json.Unmarshal(b, &out) != nil {
					c.res.Fail(core.OracleFailure{What: "marshalling fails on a document with merges", Input: desc, Got: fmt.Sprint(merr)})
					continue
				}
			} else {
				b, merr := yaml.Marshal(p)
				if merr != nil || yaml.Unmarshal(b, &out) != nil {
					c.res.Fail(core.OracleFailure{What: "marshalling fails on a document with merges", Input: desc, Got: fmt.Sprint(merr)})
					continue
				}
			}
			for _, w := range cs.wants {
				cur := out
				for _, step := range w.path {
					switch k := step.(type) {
					case string:
						m, _ := cur.(map[string]any)
						cur = m[k]
					case int:
						l, _ := cur.([]any)
						if k < len(l) {
							cur = l[k]
						} else {
							cur = nil
						}
					}
				}
				if iv, ok := cur.(int); ok {
					cur = float64(iv)
				}
				c.res.OracleChecks++
				if !reflect.DeepEqual(cur, w.val) {
					c.res.Fail(core.OracleFailure{What: fmt.Sprintf("a field that comes through a merge reached through a merge has the wrong value in the %s form (a mapping's own keys beat what it merges)", leg), Input: desc, Got: fmt.Sprintf("%v = %v", w.path, cur), Want: fmt.Sprint(w.val)})
				}
			}
		}
		c.res.Case("merge-literal:"+cs.doc, true)
		c.res.Hist("doc.hand-written-merge-chain")
	}
}
