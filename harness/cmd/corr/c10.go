package main

// C10 — interpolateEnvBlock vs the Lean fold (expansion evaluated on the library's own AST), plus a
// direct top-to-bottom replay with the real library as oracle.

import (
	"encoding/json"
	"fmt"
	"sort"
	"strings"
	"unicode/utf8"

	pipeline "github.com/buildkite/go-pipeline"
	"github.com/buildkite/go-pipeline/ordered"
	"github.com/buildkite/interpolate"

	"verifharness/core"
	"verifharness/vl"
)

func init() { checks["C10"] = runC10 }

func astVL(e interpolate.Expression) []any {
	out := make([]any, 0, len(e))
	for _, it := range e {
		if it.Expansion == nil {
			out = append(out, it.Text)
			continue
		}
		switch x := it.Expansion.(type) {
		case interpolate.VariableExpansion:
			out = append(out, []any{"var", x.Identifier})
		case interpolate.EmptyValueExpansion:
			out = append(out, []any{"empty", x.Identifier, astVL(x.Content)})
		case interpolate.UnsetValueExpansion:
			out = append(out, []any{"unset", x.Identifier, astVL(x.Content)})
		case interpolate.EscapedExpansion:
			out = append(out, []any{"escaped"})
		case interpolate.SubstringExpansion:
			var l any
			if x.HasLength {
				l = x.Length
			}
			out = append(out, []any{"substr", x.Identifier, x.Offset, l})
		case interpolate.RequiredExpansion:
			out = append(out, []any{"required", x.Identifier, astVL(x.Message)})
		default:
			out = append(out, fmt.Sprintf("<unknown expansion %T>", x))
		}
	}
	return out
}

func parseAST(s string) any {
	e, err := interpolate.NewParser(s).Parse()
	if err != nil {
		return nil
	}
	return astVL(e)
}

var c10NamesASCII = []string{"FOO", "BAR", "Baz", "foo", "PATH", "A", "B", "C", "HOME", "X_1", "unset"}

// names whose case folding needs more than ASCII (the same variable under a case-insensitive environment)
var c10NamesUnicode = []string{"GRöSSE", "GRÖSSE", "grösse", "Ünit", "ÜNIT", "FOO", "foo", "A", "PATH"}

var c10Names = c10NamesASCII

func c10Str(r *core.Rand) string {
	v := func() string { return core.Pick(r, c10Names) }
	switch r.Intn(14) {
	case 0:
		return "$" + v()
	case 1:
		return "${" + v() + "}"
	case 2:
		return "$$" + v()
	case 3:
		return "\\$" + v()
	case 4:
		return "${" + v() + ":-d-${" + v() + "}}"
	case 5:
		return "${" + v() + "-unset}"
	case 6:
		return "a-$" + v() + "/${" + v() + "}-z"
	case 7:
		if r.Intn(3) != 0 {
			return "${" + v() + ":-fallback}"
		}
		return "${" + v() + "?}"
	case 8:
		return "${" + v() + ":1:2}"
	case 9:
		return "${" + v() + ":-}"
	case 10:
		if r.Intn(2) == 0 {
			// escapes that are not followed by a name: the escape is still an escape (one dollar in the result)
			return core.Pick(r, []string{"$$5", "\\$ ", "^v[0-9]+$$", "\\$(date)", "costs $$5.00", "$$", "a$$-b", "$$$$", "100%$$"})
		}
		return "plain"
	case 11:
		return "$" + v() + "$" + v()
	case 12:
		if r.Intn(4) != 0 {
			return "tail $"
		}
		return "${" + v() // unparsable
	}
	return "value " + fmt.Sprint(r.Intn(9))
}

func c10Name(r *core.Rand) string {
	switch r.Intn(8) {
	case 0:
		return "$" + core.Pick(r, c10Names) // name built by expansion
	case 1:
		return "N_${" + core.Pick(r, c10Names) + "}"
	case 2:
		return "$$" + core.Pick(r, c10Names)
	}
	return core.Pick(r, c10Names)
}

// simple reference env (spec side), keyed by normalised name
type refEnv struct {
	upper bool
	m     map[string]string
}

func (e *refEnv) norm(k string) string {
	if e.upper {
		return strings.ToUpper(k)
	}
	return k
}
func (e *refEnv) Get(k string) (string, bool) { v, ok := e.m[e.norm(k)]; return v, ok }
func (e *refEnv) Set(k, v string)             { e.m[e.norm(k)] = v }

func runC10(c *ctx) error {
	sess := core.NewSession("c10")
	rng := c.rng.Fork()
	n := 20000
	if c.thorough() {
		n = 300000
	}
	for i := 0; i < n; i++ {
		upper := rng.Intn(2) == 0
		prefer := rng.Intn(2) == 0
		c10Names = c10NamesASCII
		nonASCII := i%8 == 5
		if nonASCII {
			c10Names = c10NamesUnicode
			c.res.Hist("names.non-ascii-case-folding")
		}
		// runtime env
		runtime := map[string]string{}
		for _, nm := range c10Names {
			if rng.Intn(3) == 0 {
				runtime[nm] = core.Pick(rng, []string{"rt-" + nm, "", "$$FOO", "${BAR}", "abc"})
			}
		}
		if upper {
			// a case-insensitive env built from a map with case-colliding names is order dependent (documented); avoid
			seen := map[string]bool{}
			for k := range runtime {
				u := strings.ToUpper(k)
				if seen[u] {
					delete(runtime, k)
				}
				seen[u] = true
			}
		}
		// block
		size := rng.Intn(7)
		if rng.Intn(20) == 0 {
			size = 8 + rng.Intn(23)
		}
		var block *ordered.MapSS
		isNil := rng.Intn(15) == 0
		if !isNil {
			block = ordered.NewMap[string, string](size)
			if rng.Intn(10) == 0 {
				// collision-heavy block: several entries whose names expand to the same name (each rename
				// drops the previously renamed entry), then entries whose expanded names hit later literal ones
				c.res.Hist("block.collision-heavy")
				t1, t2 := core.Pick(rng, c10Names), core.Pick(rng, c10Names)
				k := 3 + rng.Intn(4)
				for j := 0; j < k; j++ {
					block.Set(fmt.Sprintf("${ZQ%d:-%s}", j, t1), c10Str(rng))
				}
				block.Set("${ZQX-"+t2+"}", c10Str(rng))
				for j := rng.Intn(3); j > 0; j-- {
					block.Set(c10Name(rng), c10Str(rng))
				}
				block.Set(t2, c10Str(rng))
				if rng.Bool() {
					block.Set(t1, c10Str(rng))
				}
			} else {
				for j := 0; j < size; j++ {
					block.Set(c10Name(rng), c10Str(rng))
				}
			}
		}
		var entries vl.OMap
		strs := map[string]bool{}
		if block != nil {
			block.Range(func(k, v string) error {
				entries = append(entries, vl.KV{K: k, V: v})
				strs[k], strs[v] = true, true
				return nil
			})
		}
		tbl := vl.OMap{}
		for _, s := range sortedKeysS(strs) {
			tbl = append(tbl, vl.KV{K: s, V: parseAST(s)})
		}
		// implementation, through the package's own env implementation
		p := &pipeline.Pipeline{Env: block}
		envImpl := pipeline.VerifNewEnv(!upper, runtime)
		var ierr error
		if pn, msg := guard(func() { ierr = p.VerifInterpolateEnvBlock(envImpl, prefer) }); pn {
			c.res.Fail(core.OracleFailure{What: "interpolateEnvBlock panicked: " + msg, Input: fmt.Sprint(entries, runtime)})
			continue
		}
		probes := append([]string{}, c10Names...)
		var after vl.OMap
		if p.Env != nil {
			p.Env.Range(func(k, v string) error {
				after = append(after, vl.KV{K: k, V: v})
				probes = append(probes, k)
				return nil
			})
		}
		probes = append(probes, "fOO", "Path", "never-set")
		var gets []any
		for _, nm := range probes {
			if v, ok := envImpl.Get(nm); ok {
				gets = append(gets, []any{v})
			} else {
				gets = append(gets, nil)
			}
		}
		got := "error"
		if ierr == nil {
			var bl any
			if p.Env != nil {
				bl = after
				if after == nil {
					bl = vl.OMap{}
				}
			}
			got = "ok " + vl.Enc(bl) + " " + vl.Enc(gets)
		}
		// request: env entries keyed by normalised name
		envV := vl.OMap{}
		ref := &refEnv{upper: upper, m: map[string]string{}}
		rk := sortedKeysS(runtime)
		for _, k := range rk {
			ref.Set(k, runtime[k])
		}
		for _, k := range sortedKeysS(ref.m) {
			envV = append(envV, vl.KV{K: k, V: ref.m[k]})
		}
		normName := "id"
		if upper {
			normName = "upper"
		}
		var blockV any
		if !isNil {
			blockV = entries
			if entries == nil {
				blockV = vl.OMap{}
			}
		}
		req := "envblock " + vl.Enc(normName) + " " + vl.Enc(prefer) + " " + vl.Enc(envV) + " " + vl.Enc(blockV) + " " + vl.Enc(tbl) + " " + vl.Enc(strs2any(probes))
		if !nonASCII {
			// (the Lean driver folds case for ASCII letters only; blocks over names that need Unicode case folding are
			// judged by the list-of-pairs oracle below, whose environment folds with strings.ToUpper)
			sess.Add(vl.Escape(req), vl.Escape(got))
		}

		// ---- direct oracle: top to bottom with the real library ----
		c.res.OracleChecks++
		initial := map[string]string{}
		for k, v := range ref.m {
			initial[k] = v
		}
		// list-of-pairs spec: entries are visited top to bottom; a rename onto a name another live entry
		// holds removes that entry (it is not visited if its turn had not come yet), as in the ordered map
		type live struct {
			k, v string
			dead bool
		}
		var cur []*live
		for _, kv := range entries {
			cur = append(cur, &live{k: kv.K, v: kv.V.(string)})
		}
		collision, failed := false, false
		for idx, e := range cur {
			if e.dead {
				continue
			}
			nk, e1 := interpolate.Interpolate(ref, e.k)
			if e1 != nil {
				failed = true
				break
			}
			nv, e2 := interpolate.Interpolate(ref, e.v)
			if e2 != nil {
				failed = true
				break
			}
			for j, o := range cur {
				if j != idx && !o.dead && o.k == nk {
					o.dead = true
					collision = true
				}
			}
			e.k, e.v = nk, nv
			if _, exists := ref.Get(nk); !(prefer && exists) {
				ref.Set(nk, nv)
			}
		}
		var want vl.OMap
		for _, e := range cur {
			if !e.dead {
				want = append(want, vl.KV{K: e.k, V: e.v})
			}
		}
		desc := map[string]any{"block": fmt.Sprint(entries), "runtime": runtime, "prefer": prefer, "case_insensitive": upper}
		if collision {
			c.res.Hist("case.rename-collision")
		}
		switch {
		case failed:
			c.res.Hist("case.expansion-fails")
			if ierr == nil {
				c.res.Fail(core.OracleFailure{What: "an entry's expansion fails but the call succeeded", Input: desc})
			}
		case ierr != nil:
			c.res.Fail(core.OracleFailure{What: "every expansion succeeds but the call failed", Input: desc, Got: ierr.Error()})
		default:
			// both encoders write what Range shows (renames leave tombstones behind)
			if p.Env != nil {
				if jb, jerr := json.Marshal(p.Env); jerr != nil {
					c.res.Fail(core.OracleFailure{What: "the env block does not marshal after interpolation", Input: desc, Got: jerr.Error()})
				} else {
					var back ordered.MapSS
					if err := json.Unmarshal(jb, &back); err != nil {
						c.res.Fail(core.OracleFailure{What: "the env block's JSON after interpolation does not decode", Input: desc, Got: string(jb)})
					} else {
						var viaJSON vl.OMap
						back.Range(func(k, v string) error { viaJSON = append(viaJSON, vl.KV{K: k, V: v}); return nil })
						// (byte-offset substring expansions can cut a multi-byte rune in half; encoding/json writes U+FFFD for
						// the broken bytes, so the JSON view is compared on valid text only)
						validText := true
						for _, kv := range after {
							if sv, ok := kv.V.(string); !utf8.ValidString(kv.K) || (ok && !utf8.ValidString(sv)) {
								validText = false
							}
						}
						if !validText {
							c.res.Hist("json-view-skipped.invalid-utf8-after-substring-expansion")
						} else if vl.Enc(viaJSON) != vl.Enc(after) {
							c.res.Fail(core.OracleFailure{What: "the env block's JSON after interpolation differs from what Range shows", Input: desc, Got: string(jb), Want: fmt.Sprint(after)})
						}
					}
				}
			}
			if vl.Enc(after) != vl.Enc(want) {
				c.res.Fail(core.OracleFailure{What: "env block differs from the top-to-bottom expansion", Input: desc, Got: fmt.Sprint(after), Want: fmt.Sprint(want)})
			}
			for _, nm := range probes {
				gv, gok := envImpl.Get(nm)
				wv, wok := ref.Get(nm)
				if gok != wok || gv != wv {
					c.res.Fail(core.OracleFailure{What: "caller environment after the block: " + nm, Input: desc, Got: fmt.Sprint(gv, gok), Want: fmt.Sprint(wv, wok)})
					break
				}
			}
			if prefer {
				for k, v := range initial {
					if gv, _ := envImpl.Get(k); gv != v {
						c.res.Fail(core.OracleFailure{What: "runtime precedence: caller's value of " + k + " changed", Input: desc, Got: gv, Want: v})
					}
				}
			}
		}
		c.res.Case(fmt.Sprint(entries, runtime, prefer, upper), len(entries) > 1)
		c.res.Hist(fmt.Sprintf("prefer=%v", prefer))
		c.res.Hist(fmt.Sprintf("case-insensitive=%v", upper))
		if len(entries) >= 8 {
			c.res.Hist("block.large")
		}
		if ierr != nil {
			c.res.Hist("outcome.error")
		}
		if i < 3 {
			c.res.Sample(desc)
		}
	}
	c.res.Rule = "env blocks of 0-30 entries (chains, forward references, names built by expansion, escapes, defaults, ${X?}, substrings, unparsable strings) over a runtime env with overlapping names, both settings of the runtime-precedence flag, case-sensitive and upper-casing environments (the package's own internal/env through a hook); compared: block order and contents, caller env afterwards on a probe set. Non-trivial = at least two entries; distinct by (block, env, flags)."
	mm, total, err := core.RunSessions(c.driver, []*core.Session{sess}, 20, 0)
	c.res.ModelRequests = total
	c.res.Mismatches = mm
	return err
}

func strs2any(ss []string) []any {
	out := make([]any, len(ss))
	for i, s := range ss {
		out[i] = s
	}
	return out
}

var _ = sort.Strings
