package main

// C05 — ordered map vs (a) the Lean model driver (correspondence) and
// (b) a plain list-of-pairs replay in Go (direct property oracle).

import (
	"bytes"
	"encoding/json"
	"fmt"
	"reflect"
	"strings"

	"github.com/buildkite/go-pipeline/ordered"
	"gopkg.in/yaml.v3"

	"verifharness/core"
	"verifharness/vl"
)

func init() { checks["C05"] = runC05 }

type mop struct {
	kind  string // set | replace | delete
	k, k2 string
	v     any
}

func (o mop) line() string {
	switch o.kind {
	case "set":
		return "set " + vl.Enc(o.k) + " " + vl.Enc(o.v)
	case "replace":
		return "replace " + vl.Enc(o.k) + " " + vl.Enc(o.k2) + " " + vl.Enc(o.v)
	default:
		return "delete " + vl.Enc(o.k)
	}
}

func (o mop) String() string {
	switch o.kind {
	case "set":
		return fmt.Sprintf("Set(%q,%v)", o.k, o.v)
	case "replace":
		return fmt.Sprintf("Replace(%q,%q,%v)", o.k, o.k2, o.v)
	default:
		return fmt.Sprintf("Delete(%q)", o.k)
	}
}

// ----- list-of-pairs reference (the property's own model, written directly) -----

type pairs []vl.KV

func (p pairs) find(k string) int {
	for i, kv := range p {
		if kv.K == k {
			return i
		}
	}
	return -1
}

func (p pairs) clone() pairs { return append(pairs(nil), p...) }

func (p pairs) apply(o mop) pairs {
	switch o.kind {
	case "set":
		if i := p.find(o.k); i >= 0 {
			q := p.clone()
			q[i].V = o.v
			return q
		}
		return append(p.clone(), vl.KV{K: o.k, V: o.v})
	case "delete":
		q := pairs{}
		for _, kv := range p {
			if kv.K != o.k {
				q = append(q, kv)
			}
		}
		return q
	default: // replace old=k new=k2
		q := pairs{}
		placed := false
		for _, kv := range p {
			switch {
			case kv.K == o.k:
				q = append(q, vl.KV{K: o.k2, V: o.v})
				placed = true
			case kv.K == o.k2:
				// any other "new" goes away
			default:
				q = append(q, kv)
			}
		}
		if !placed {
			q = append(q, vl.KV{K: o.k2, V: o.v})
		}
		return q
	}
}

// rangeReplace on the reference: entries visited in order; renames in place; a rename onto
// another key removes that key wherever it is (so a not-yet-visited one is never visited).
func (p pairs) rangeReplace(tbl map[string]rrEntry) (pairs, bool) {
	done := pairs{}
	todo := p.clone()
	for len(todo) > 0 {
		kv := todo[0]
		todo = todo[1:]
		nk, nv := kv.K, kv.V
		if e, ok := tbl[kv.K]; ok {
			if e.err {
				return append(append(done, kv), todo...), false
			}
			nk, nv = e.k, e.v
		}
		if nk != kv.K {
			done = done.apply(mop{kind: "delete", k: nk})
			todo = todo.apply(mop{kind: "delete", k: nk})
		}
		done = append(done, vl.KV{K: nk, V: nv})
	}
	return done, true
}

type rrEntry struct {
	k   string
	v   any
	err bool
}

func pairsEqual(a, b pairs) bool {
	if len(a) != len(b) {
		return false
	}
	for i := range a {
		if a[i].K != b[i].K || !reflect.DeepEqual(a[i].V, b[i].V) {
			return false
		}
	}
	return true
}

// ----- implementation wrappers with panic capture -----

func guard(f func()) (panicked bool, msg string) {
	defer func() {
		if r := recover(); r != nil {
			panicked = true
			msg = fmt.Sprint(r)
		}
	}()
	f()
	return false, ""
}

func applyImpl(m *ordered.MapSA, o mop) (string, string) {
	p, msg := guard(func() {
		switch o.kind {
		case "set":
			m.Set(o.k, o.v)
		case "replace":
			m.Replace(o.k, o.k2, o.v)
		default:
			m.Delete(o.k)
		}
	})
	if p {
		return "panic", msg
	}
	return "ok", ""
}

type savedMap struct {
	m    *ordered.MapSA
	ref  pairs
	nil_ bool
}

type logRec struct {
	op  *mop
	tbl map[string]rrEntry
}

type c05World struct {
	log       []logRec
	startKind string
	c         *ctx
	sess      *core.Session
	cur       *ordered.MapSA
	ref       pairs
	hist      []string
	saved     map[int]savedMap
	order     []int
}

func (w *c05World) start(kind string) {
	switch kind {
	case "new":
		w.cur = ordered.NewMap[string, any](0)
	case "zero":
		w.cur = new(ordered.MapSA)
	default:
		w.cur = nil
	}
	w.ref = pairs{}
	w.hist = []string{kind}
	w.log = nil
	w.startKind = kind
	w.sess.Add(kind, "ok")
}

// c05Constructors: maps built by MapFromItems from item lists with repeated keys are the maps the same Sets
// would build (start states other than NewMap / the zero value); every observer against the list of pairs.
func c05Constructors(c *ctx, rng *core.Rand) {
	n := 400
	if c.thorough() {
		n = 6000
	}
	for i := 0; i < n; i++ {
		alphabet := 2 + rng.Intn(12)
		var items []ordered.TupleSA
		var ref pairs
		for j := rng.Intn(20); j > 0; j-- {
			k := fmt.Sprintf("k%d", rng.Intn(alphabet))
			items = append(items, ordered.TupleSA{Key: k, Value: j})
			found := false
			for x := range ref {
				if ref[x].K == k {
					ref[x].V = j
					found = true
				}
			}
			if !found {
				ref = append(ref, vl.KV{K: k, V: j})
			}
		}
		var m *ordered.MapSA
		if pn, msg := guard(func() { m = ordered.MapFromItems(items...) }); pn {
			c.res.Fail(core.OracleFailure{What: "MapFromItems panicked: " + msg, Input: fmt.Sprint(items)})
			continue
		}
		c.res.OracleChecks++
		fail := func(what, got, want string) {
			c.res.Fail(core.OracleFailure{What: "MapFromItems: " + what, Input: fmt.Sprint(items), Got: got, Want: want})
		}
		var rng2 pairs
		m.Range(func(k string, v any) error { rng2 = append(rng2, vl.KV{K: k, V: v}); return nil })
		if !pairsEqual(rng2, ref) {
			fail("Range differs from the list of pairs", fmt.Sprint(rng2), fmt.Sprint(ref))
		}
		if m.Len() != len(ref) {
			fail("Len", fmt.Sprint(m.Len()), fmt.Sprint(len(ref)))
		}
		for _, kv := range ref {
			if v, ok := m.Get(kv.K); !ok || !reflect.DeepEqual(v, kv.V) {
				fail("Get "+kv.K, fmt.Sprint(v, ok), fmt.Sprint(kv.V))
			}
		}
		built := ordered.NewMap[string, any](0)
		for _, kv := range ref {
			built.Set(kv.K, kv.V)
		}
		if !ordered.EqualSA(m, built) || !ordered.EqualSA(built, m) {
			fail("Equal against the map the same Sets build", "false", "true")
		}
		if jb, err := json.Marshal(m); err != nil {
			fail("MarshalJSON error", err.Error(), "")
		} else {
			var back ordered.MapSA
			if err := json.Unmarshal(jb, &back); err != nil || !ordered.EqualSA(&back, built) {
				fail("JSON encode then decode", string(jb), fmt.Sprint(ref))
			}
		}
		// the map owns its storage: a second map from the same slice, the slice itself and this map are three
		// independent things (the caller may keep, reuse or modify the slice; either map may be modified)
		if len(items) > 0 {
			keep := append([]ordered.TupleSA(nil), items...)
			spare := append(make([]ordered.TupleSA, 0, len(items)+4), items...) // a slice with spare capacity
			a := ordered.MapFromItems(spare...)
			b := ordered.MapFromItems(spare...)
			a.Set(ref[0].K, "changed-in-a")
			a.Set("fresh-in-a", 1)
			a.Replace(ref[len(ref)-1].K, "renamed-in-a", 2)
			a.Delete(ref[0].K)
			var rb pairs
			b.Range(func(k string, v any) error { rb = append(rb, vl.KV{K: k, V: v}); return nil })
			if !pairsEqual(rb, ref) {
				fail("a second map built from the same slice changed when the first was modified", fmt.Sprint(rb), fmt.Sprint(ref))
			}
			if !reflect.DeepEqual(spare, keep) {
				fail("the caller's slice was modified through the map", fmt.Sprint(spare), fmt.Sprint(keep))
			}
			for x := range spare {
				spare[x] = ordered.TupleSA{Key: "overwritten", Value: x}
			}
			rb = nil
			b.Range(func(k string, v any) error { rb = append(rb, vl.KV{K: k, V: v}); return nil })
			if !pairsEqual(rb, ref) {
				fail("the map changed when the caller modified the slice it was built from", fmt.Sprint(rb), fmt.Sprint(ref))
			}
			if v, ok := b.Get(ref[0].K); !ok || !reflect.DeepEqual(v, ref[0].V) {
				fail("Get after the caller modified the slice", fmt.Sprint(v, ok), fmt.Sprint(ref[0].V))
			}
			c.res.Hist("constructor.MapFromItems.independent-of-slice")
		}
		c.res.Case("items:"+fmt.Sprint(items), len(items) > 1)
		c.res.Hist("constructor.MapFromItems")
	}
}

func freshMap(kind string) *ordered.MapSA {
	switch kind {
	case "new":
		return ordered.NewMap[string, any](0)
	case "zero":
		return new(ordered.MapSA)
	}
	return nil
}

func implRR(m *ordered.MapSA, tbl map[string]rrEntry) error {
	return m.Range(func(k string, v any) error {
		if e, ok := tbl[k]; ok {
			if e.err {
				return fmt.Errorf("ERR")
			}
			m.Replace(k, e.k, e.v)
			return nil
		}
		m.Replace(k, k, v)
		return nil
	})
}

// cloneCur rebuilds an identical map (same concrete history, so same tombstones) by replaying the log.
func (w *c05World) cloneCur() *ordered.MapSA {
	m := freshMap(w.startKind)
	for _, r := range w.log {
		if r.op != nil {
			applyImpl(m, *r.op)
		} else {
			guard(func() { implRR(m, r.tbl) })
		}
	}
	return m
}

func (w *c05World) do(o mop) {
	ans, _ := applyImpl(w.cur, o)
	w.log = append(w.log, logRec{op: &o})
	w.ref = w.ref.apply(o)
	w.hist = append(w.hist, o.String())
	w.sess.Add(vl.Escape(o.line()), ans)
	if ans == "panic" {
		w.fail("mutator panicked", "", "no panic")
	}
}

func (w *c05World) fail(what, got, want string) {
	f := core.OracleFailure{What: what, Input: append([]string(nil), w.hist...), Got: got, Want: want}
	w.c.res.Fail(f)
}

func (w *c05World) save(n int) {
	w.saved[n] = savedMap{m: w.cloneCur(), ref: w.ref.clone(), nil_: w.cur == nil}
	w.order = append(w.order, n)
	w.sess.Add(fmt.Sprintf("save i%d;", n), "ok")
}

// obs: all observers on the current map. Answer = VL list
// [len, iszero, range(omap), tomap(umap), gets, contains, equals].
func (w *c05World) obs(keys []string, slots []int, deepOracle bool) {
	var ans string
	var rng pairs
	m := w.cur
	p, msg := guard(func() {
		ln := m.Len()
		zero := m.IsZero()
		m.Range(func(k string, v any) error {
			rng = append(rng, vl.KV{K: k, V: v})
			return nil
		})
		tm := m.ToMap()
		var tmv any = map[string]any{}
		if tm != nil {
			tmv = tm
		}
		gets := make([]any, len(keys))
		cons := make([]any, len(keys))
		for i, k := range keys {
			v, ok := m.Get(k)
			if ok {
				gets[i] = []any{v}
			}
			cons[i] = m.Contains(k)
			if ok != m.Contains(k) {
				w.fail("Get/Contains disagree on "+k, "", "")
			}
		}
		eqs := make([]any, len(slots))
		for i, n := range slots {
			o, ok := w.saved[n]
			if !ok {
				continue
			}
			e1 := ordered.EqualSA(m, o.m)
			e2 := ordered.EqualSA(o.m, m)
			eqs[i] = []any{e1, e2}
			want := pairsEqual(w.ref, o.ref) && (m == nil) == o.nil_
			if e1 != want || e2 != want {
				w.fail(fmt.Sprintf("Equal against saved map %d (%v)", n, o.ref), fmt.Sprint(e1, e2), fmt.Sprint(want))
			}
		}
		ans = vl.Enc([]any{ln, zero, vl.OMap(rng), tmv, gets, cons, eqs})
		// ---- direct oracle: observers vs list of pairs ----
		if ln != len(w.ref) {
			w.fail("Len", fmt.Sprint(ln), fmt.Sprint(len(w.ref)))
		}
		if zero != (len(w.ref) == 0) {
			w.fail("IsZero", fmt.Sprint(zero), fmt.Sprint(len(w.ref) == 0))
		}
		if !pairsEqual(rng, w.ref) {
			w.fail("Range", fmt.Sprint(rng), fmt.Sprint(w.ref))
		}
		if m != nil {
			if len(tm) != len(w.ref) {
				w.fail("ToMap size", fmt.Sprint(len(tm)), fmt.Sprint(len(w.ref)))
			}
			for _, kv := range w.ref {
				if v, ok := tm[kv.K]; !ok || !reflect.DeepEqual(v, kv.V) {
					w.fail("ToMap["+kv.K+"]", fmt.Sprint(v, ok), fmt.Sprint(kv.V))
				}
			}
		}
		for _, k := range keys {
			v, ok := m.Get(k)
			i := w.ref.find(k)
			if ok != (i >= 0) || (ok && !reflect.DeepEqual(v, w.ref[i].V)) {
				w.fail("Get("+k+")", fmt.Sprint(v, ok), fmt.Sprint(i))
			}
		}
		if deepOracle {
			w.deepOracle(m)
		}
	})
	if p {
		ans = "panic"
		w.fail("observer panicked: "+msg, "panic", "no panic")
	}
	req := "obs " + vl.Enc(strs(keys)) + " " + vl.Enc(ints(slots))
	w.sess.Add(vl.Escape(req), vl.Escape(ans))
	w.c.res.OracleChecks++
}

// twinValue: the same value with every nested ordered map rebuilt separately, with another storage history
// (a leading tombstone): equal contents, different representation.
func twinValue(v any) any {
	switch t := v.(type) {
	case *ordered.MapSA:
		if t == nil {
			return t
		}
		out := ordered.NewMap[string, any](0)
		out.Set("\x00junk", 0)
		t.Range(func(k string, x any) error { out.Set(k, twinValue(x)); return nil })
		out.Delete("\x00junk")
		return out
	case []any:
		o := make([]any, len(t))
		for i, x := range t {
			o[i] = twinValue(x)
		}
		return o
	}
	return v
}

// deepOracle: JSON / YAML encodings keep order; equality against an independently built map.
func (w *c05World) deepOracle(m *ordered.MapSA) {
	// independently built map
	fresh := ordered.NewMap[string, any](0)
	for _, kv := range w.ref {
		fresh.Set(kv.K, kv.V)
	}
	if m != nil {
		if !ordered.EqualSA(m, fresh) || !ordered.EqualSA(fresh, m) {
			w.fail("Equal against independently built map", "false", "true")
		}
		if !ordered.EqualSA(m, m) {
			w.fail("Equal reflexive", "false", "true")
		}
		// the same keys, values and order, every nested ordered map built separately with another storage history
		{
			cp := ordered.NewMap[string, any](0)
			nestedSeen := false
			for _, kv := range w.ref {
				tv := twinValue(kv.V)
				if _, ok := tv.(*ordered.MapSA); ok {
					nestedSeen = true
				}
				cp.Set(kv.K, tv)
			}
			if nestedSeen {
				if !ordered.EqualSA(m, cp) || !ordered.EqualSA(cp, m) {
					w.fail("Equal against a copy whose nested maps have the same contents but another storage history", "false", "true")
				}
				w.c.res.Hist("equal.nested-twin")
			}
		}
		// a twin with the same contents and (when the deletes do not compact) the same number of
		// storage slots, but its tombstones at other positions
		if slots, _, _ := m.VerifDump(); len(slots) > len(w.ref) {
			junk := len(slots) - len(w.ref)
			twin := ordered.NewMap[string, any](0)
			at := map[int]bool{}
			trng := core.NewRand(uint64(len(w.hist))*131 + uint64(len(slots)))
			for len(at) < junk {
				at[trng.Intn(len(slots))] = true
			}
			li := 0
			for pos := 0; pos < len(slots); pos++ {
				if at[pos] || li >= len(w.ref) {
					twin.Set(fmt.Sprintf("\x00junk%d", pos), pos)
				} else {
					twin.Set(w.ref[li].K, twinValue(w.ref[li].V))
					li++
				}
			}
			for pos := range slots {
				twin.Delete(fmt.Sprintf("\x00junk%d", pos))
			}
			if !ordered.EqualSA(m, twin) || !ordered.EqualSA(twin, m) {
				ts, _, _ := twin.VerifDump()
				w.fail(fmt.Sprintf("Equal against a twin with the same contents and other tombstone positions (%d vs %d slots)", len(slots), len(ts)), "false", "true")
			}
			w.c.res.Hist("equal.tombstone-twin")
		}
		if len(w.ref) > 0 {
			other := ordered.NewMap[string, any](0)
			for i := len(w.ref) - 1; i >= 0; i-- {
				other.Set(w.ref[i].K, w.ref[i].V)
			}
			if len(w.ref) > 1 && ordered.EqualSA(m, other) {
				w.fail("Equal against reversed order", "true", "false")
			}
			chg := ordered.NewMap[string, any](0)
			for i, kv := range w.ref {
				if i == len(w.ref)-1 {
					chg.Set(kv.K, "\x00different")
				} else {
					chg.Set(kv.K, kv.V)
				}
			}
			if ordered.EqualSA(m, chg) || ordered.EqualSA(chg, m) {
				w.fail("Equal against map with one value changed", "true", "false")
			}
		}
	}
	// JSON
	jb, err := json.Marshal(m)
	if err != nil {
		w.fail("MarshalJSON error", err.Error(), "")
	} else if m == nil {
		if string(jb) != "null" {
			w.fail("MarshalJSON(nil)", string(jb), "null")
		}
	} else {
		got, err := jsonPairs(jb)
		if err != nil {
			w.fail("MarshalJSON output unparsable", string(jb), err.Error())
		} else if want := jsonNorm(w.ref); !reflect.DeepEqual(got, want) {
			w.fail("MarshalJSON order/content", fmt.Sprint(got), fmt.Sprint(want))
		}
	}
	// YAML
	if m != nil {
		yb, err := yaml.Marshal(m)
		if err != nil {
			w.fail("MarshalYAML error", err.Error(), "")
		} else {
			var n yaml.Node
			if err := yaml.Unmarshal(yb, &n); err != nil {
				w.fail("MarshalYAML output unparsable", string(yb), err.Error())
			} else {
				var got []string
				if len(n.Content) == 1 && n.Content[0].Kind == yaml.MappingNode {
					for i := 0; i+1 < len(n.Content[0].Content); i += 2 {
						got = append(got, n.Content[0].Content[i].Value)
					}
				}
				var want []string
				for _, kv := range w.ref {
					want = append(want, kv.K)
				}
				if !reflect.DeepEqual(got, want) {
					w.fail("MarshalYAML key order", fmt.Sprint(got), fmt.Sprint(want))
				}
			}
		}
	}
}

func jsonPairs(b []byte) ([][2]string, error) {
	dec := json.NewDecoder(bytes.NewReader(b))
	tok, err := dec.Token()
	if err != nil {
		return nil, err
	}
	if d, ok := tok.(json.Delim); !ok || d != '{' {
		return nil, fmt.Errorf("not an object")
	}
	var out [][2]string
	for dec.More() {
		kt, err := dec.Token()
		if err != nil {
			return nil, err
		}
		var raw json.RawMessage
		if err := dec.Decode(&raw); err != nil {
			return nil, err
		}
		out = append(out, [2]string{kt.(string), string(raw)})
	}
	return out, nil
}

func jsonNorm(p pairs) [][2]string {
	var out [][2]string
	for _, kv := range p {
		b, _ := json.Marshal(kv.V)
		out = append(out, [2]string{kv.K, string(b)})
	}
	return out
}

func strs(ss []string) []any {
	out := make([]any, len(ss))
	for i, s := range ss {
		out[i] = s
	}
	return out
}
func ints(ns []int) []any {
	out := make([]any, len(ns))
	for i, n := range ns {
		out[i] = n
	}
	return out
}

func (w *c05World) rr(tbl map[string]rrEntry, order []string) {
	// request: omap key -> l2;newkey newval | "ERR"
	var om vl.OMap
	for _, k := range order {
		e := tbl[k]
		if e.err {
			om = append(om, vl.KV{K: k, V: "ERR"})
		} else {
			om = append(om, vl.KV{K: k, V: []any{e.k, e.v}})
		}
	}
	m := w.cur
	ans := "ok"
	before := w.ref.clone()
	p, msg := guard(func() {
		if err := implRR(m, tbl); err != nil {
			ans = "err"
		}
	})
	w.log = append(w.log, logRec{tbl: tbl})
	w.hist = append(w.hist, fmt.Sprintf("RangeReplace(%v)", om))
	if p {
		ans = "panic"
		w.fail("rangeReplace panicked: "+msg, "panic", "")
	}
	nref, ok := before.rangeReplace(tbl)
	if ok {
		w.ref = nref
	} else {
		// the driver keeps the pre-call map on error; re-sync both sides
		w.ref = before
	}
	w.sess.Add(vl.Escape("rr "+vl.Enc(om)), ans)
	if !ok {
		// implementation has applied a prefix of renames; rebuild it from the reference so both sides agree again
		nm := ordered.NewMap[string, any](0)
		for _, kv := range before {
			nm.Set(kv.K, kv.V)
		}
		w.cur = nm
		w.startKind = "new"
		w.log = nil
		for _, kv := range before {
			w.log = append(w.log, logRec{op: &mop{kind: "set", k: kv.K, v: kv.V}})
		}
		w.sess.Add("new", "ok")
		for _, kv := range before {
			w.sess.Add(vl.Escape(mop{kind: "set", k: kv.K, v: kv.V}.line()), "ok")
		}
		if ans != "err" && ans != "panic" {
			w.fail("rangeReplace error not propagated", ans, "err")
		}
	}
}

// ----- drivers -----

var c05Library = [][]mop{
	{},
	{{kind: "set", k: "a", v: 1}},
	{{kind: "set", k: "a", v: 1}, {kind: "set", k: "b", v: 2}, {kind: "set", k: "c", v: 3}, {kind: "delete", k: "c"}},
	{{kind: "set", k: "a", v: 1}, {kind: "set", k: "b", v: 2}, {kind: "set", k: "c", v: 3}, {kind: "delete", k: "a"}},
	{{kind: "set", k: "a", v: 1}, {kind: "set", k: "b", v: 2}},
	{{kind: "set", k: "b", v: 2}, {kind: "set", k: "a", v: 1}},
	{{kind: "set", k: "a", v: 1}, {kind: "set", k: "b", v: 2}, {kind: "set", k: "c", v: 3}},
	{{kind: "set", k: "a", v: 1}, {kind: "set", k: "b", v: 2}, {kind: "set", k: "c", v: 3}, {kind: "replace", k: "a", k2: "c", v: 4}},
	{{kind: "set", k: "c", v: 4}, {kind: "set", k: "b", v: 2}},
}

func exhaustiveOps(depth int) []mop {
	keys := []string{"a", "b", "c"}
	var ops []mop
	for _, k := range keys {
		ops = append(ops, mop{kind: "set", k: k, v: depth})
	}
	for _, k := range keys {
		for _, k2 := range keys {
			ops = append(ops, mop{kind: "replace", k: k, k2: k2, v: depth})
		}
	}
	for _, k := range keys {
		ops = append(ops, mop{kind: "delete", k: k})
	}
	return ops
}

func (w *c05World) buildLibrary() {
	for i, h := range c05Library {
		w.start("new")
		for _, o := range h {
			w.do(o)
		}
		w.save(i)
	}
	// slot 100: the nil map
	w.start("nil")
	w.save(100)
}

func (w *c05World) replay(startKind string, hist []mop) {
	// rebuild implementation + reference from scratch (the driver uses mark/reset instead)
	switch startKind {
	case "new":
		w.cur = ordered.NewMap[string, any](0)
	case "zero":
		w.cur = new(ordered.MapSA)
	}
	w.ref = pairs{}
	w.hist = []string{startKind}
	w.log = nil
	w.startKind = startKind
	for _, o := range hist {
		o := o
		w.log = append(w.log, logRec{op: &o})
		applyImpl(w.cur, o)
		w.ref = w.ref.apply(o)
		w.hist = append(w.hist, o.String())
	}
}

func c05Exhaustive(c *ctx, startKind string, maxDepth int, first mop) *core.Session {
	w := &c05World{c: c, sess: core.NewSession("c05"), saved: map[int]savedMap{}}
	w.buildLibrary()
	slots := append([]int(nil), w.order...)
	probe := []string{"a", "b", "c", "z"}
	w.start(startKind)
	var rec func(hist []mop)
	rec = func(hist []mop) {
		d := len(hist)
		ops := exhaustiveOps(d + 1)
		if d == 0 {
			ops = []mop{first}
		}
		for _, o := range ops {
			w.sess.Add("mark", "ok")
			w.replay(startKind, hist)
			w.do(o)
			w.obs(probe, slots, d+1 <= 3)
			key := startKind + ":" + strings.Join(w.hist[1:], ";")
			c.res.Case(key, len(w.hist) > 2)
			if d+1 < maxDepth {
				rec(append(hist, o))
			}
			w.sess.Add("reset", "ok")
		}
	}
	rec(nil)
	return w.sess
}

func c05Random(c *ctx, rng *core.Rand, nOps, alphabet int) *core.Session {
	w := &c05World{c: c, sess: core.NewSession("c05"), saved: map[int]savedMap{}}
	w.buildLibrary()
	keys := make([]string, alphabet)
	pool := []string{"", "<<", "1", "true", "~", "a b", "é", "k\n", "bel\a", "nul\x00", "del\x7f", "tag\U000e0001", "vt\v", "q\"uote", "back\\slash"}
	for i := range keys {
		if i < len(pool) && alphabet > 8 {
			keys[i] = pool[i]
		} else {
			keys[i] = fmt.Sprintf("k%d", i)
		}
	}
	startKind := core.Pick(rng, []string{"new", "zero"})
	w.start(startKind)
	c.res.Hist("random.start." + startKind)
	val := func(i int) any {
		switch rng.Intn(10) {
		case 0:
			return fmt.Sprintf("v%d", i)
		case 1:
			return nil
		case 2:
			return true
		case 3:
			return []any{i, "x"}
		case 4:
			return ordered.MapFromItems(ordered.TupleSA{Key: "n", Value: i}, ordered.TupleSA{Key: "m", Value: "x"}, ordered.TupleSA{Key: "l", Value: []any{ordered.MapFromItems(ordered.TupleSA{Key: "p", Value: 1}, ordered.TupleSA{Key: "q", Value: 2})}})
		default:
			return i
		}
	}
	nextSlot := 200
	compactions := 0
	for i := 0; i < nOps; i++ {
		phase := (i / (nOps/6 + 1)) % 3 // grow, churn, shrink
		r := rng.Intn(100)
		var o mop
		k := core.Pick(rng, keys)
		switch {
		case phase == 0 && r < 70, phase == 1 && r < 35, phase == 2 && r < 10:
			o = mop{kind: "set", k: k, v: val(i)}
		case phase == 0 && r < 85, phase == 1 && r < 65, phase == 2 && r < 25:
			k2 := core.Pick(rng, keys)
			if rng.Intn(6) == 0 {
				k2 = k
			}
			o = mop{kind: "replace", k: k, k2: k2, v: val(i)}
		default:
			// delete: prefer present keys in the shrink phase
			if len(w.ref) > 0 && rng.Intn(4) != 0 {
				k = w.ref[rng.Intn(len(w.ref))].K
			}
			o = mop{kind: "delete", k: k}
		}
		c.res.Hist("random.op." + o.kind)
		var before int
		if w.cur != nil {
			s, _, _ := w.cur.VerifDump()
			before = len(s)
		}
		w.do(o)
		if w.cur != nil {
			s, _, _ := w.cur.VerifDump()
			if len(s) < before {
				compactions++
			}
		}
		probes := []string{k, core.Pick(rng, keys), "absent-key"}
		var slots []int
		if rng.Intn(4) == 0 && len(w.order) > 0 {
			slots = []int{core.Pick(rng, w.order), core.Pick(rng, w.order)}
		}
		w.obs(probes, slots, alphabet <= 16 || i%17 == 0)
		if rng.Intn(40) == 0 && nextSlot < 260 {
			w.save(nextSlot)
			nextSlot++
		}
		if rng.Intn(30) == 0 && len(w.ref) > 0 {
			// renames from inside an iteration callback
			tbl := map[string]rrEntry{}
			var order []string
			for _, kv := range w.ref {
				if rng.Intn(3) == 0 {
					continue
				}
				e := rrEntry{k: kv.K, v: val(i)}
				switch rng.Intn(6) {
				case 0:
					e.k = core.Pick(rng, keys) // maybe onto an existing key
				case 1:
					e.k = w.ref[rng.Intn(len(w.ref))].K // onto an existing key
				case 2:
					e.k = kv.K + "'"
				}
				if rng.Intn(60) == 0 {
					e.err = true
				}
				tbl[kv.K] = e
				order = append(order, kv.K)
			}
			c.res.Hist("random.op.rangeReplace")
			w.rr(tbl, order)
			w.obs(probes, nil, true)
		}
		c.res.Case(fmt.Sprintf("rand:%d:%d:%d", alphabet, nOps, i), true)
	}
	c.res.HistN("random.compactions", compactions)
	c.res.Sample(map[string]any{"kind": "random history (tail)", "alphabet": alphabet, "ops": nOps, "tail": tail(w.hist, 12)})
	return w.sess
}

func tail(s []string, n int) []string {
	if len(s) > n {
		return s[len(s)-n:]
	}
	return s
}

func c05Nil(c *ctx) *core.Session {
	w := &c05World{c: c, sess: core.NewSession("c05"), saved: map[int]savedMap{}}
	w.buildLibrary()
	w.start("nil")
	w.obs([]string{"a", ""}, w.order, true)
	w.do(mop{kind: "delete", k: "a"})
	w.obs([]string{"a", ""}, w.order, true)
	c.res.Case("nil:delete", true)
	return w.sess
}

func runC05(c *ctx) error {
	var sessions []*core.Session
	depthNew, depthZero := 4, 3
	nRandom, randLen := 24, 1500
	if c.thorough() {
		depthNew, depthZero = 5, 4
		nRandom, randLen = 64, 10000
	}
	sessions = append(sessions, c05Nil(c))
	c05Constructors(c, c.rng.Fork())
	for _, first := range exhaustiveOps(1) {
		sessions = append(sessions, c05Exhaustive(c, "new", depthNew, first))
		sessions = append(sessions, c05Exhaustive(c, "zero", depthZero, first))
	}
	c.res.Exhaustive = true
	c.res.Hist(fmt.Sprintf("exhaustive.depth.new=%d", depthNew))
	c.res.Hist(fmt.Sprintf("exhaustive.depth.zero=%d", depthZero))
	alph := []int{4, 4, 16, 64, 400}
	for i := 0; i < nRandom; i++ {
		r := c.rng.Fork()
		a := alph[i%len(alph)]
		n := randLen
		if i%3 == 0 {
			n = randLen / 10
		}
		sessions = append(sessions, c05Random(c, r, n, a))
	}
	c.res.Rule = "exhaustive: every Set/Replace/Delete history over keys {a,b,c} up to the stated depth from NewMap and the zero value (prefix-shared), all observers after every operation, Equal against a library of saved maps; random: long histories over alphabets of 4..400 keys with grow/churn/shrink phases and renames from inside Range callbacks. A case is one history prefix; non-trivial = at least two operations; distinct by the operation sequence."
	c.res.Sample(map[string]any{"kind": "exhaustive history", "ops": []string{"new", "Set(a,1)", "Replace(a,c,2)", "Delete(c)"}})
	mm, total, err := core.RunSessions(c.driver, sessions, 20, 12)
	c.res.ModelRequests = total
	c.res.Mismatches = mm
	return err
}
