package main

// C19 (partial) — no hidden shared state: 16 goroutines work on distinct objects and must reproduce
// the sequential results; read-only use of shared objects runs under the race detector (this binary
// is built with -race for this check); observers must leave the observed object's concrete state
// untouched (ordered.VerifDump before/after, marshalled form before/after).

import (
	"bytes"
	"context"
	"encoding/json"
	"fmt"
	"os"
	"os/exec"
	"path/filepath"
	"reflect"
	"strings"
	"sync"

	pipeline "github.com/buildkite/go-pipeline"
	"github.com/buildkite/go-pipeline/jwkutil"
	"github.com/buildkite/go-pipeline/ordered"
	"github.com/buildkite/go-pipeline/signature"
	"github.com/buildkite/go-pipeline/warning"
	"github.com/lestrrat-go/jwx/v2/jwa"
	"gopkg.in/yaml.v3"

	"verifharness/core"
	"verifharness/dump"
	"verifharness/gen"
	"verifharness/vl"
)

func init() { checks["C19"] = runC19 }

// observerMarker: marks, inside a digest, that an observer changed (or could not bear) the object it observed.
const observerMarker = "OBSERVER-VIOLATION:"

// pipelineWork: the whole life of one document; returns a digest of every observable result.
func pipelineWork(src []byte, k sigKey) string {
	var b strings.Builder
	p, err := pipeline.Parse(bytes.NewReader(src))
	if p == nil || (err != nil && !warning.Is(err)) {
		return "parse-error"
	}
	b.WriteString(vl.Enc(dump.Pipeline(p)))
	if err := p.Interpolate(mapEnv{"FOO": "foo", "BAR": "bar"}, false); err != nil {
		return b.String() + "|interpolate-error"
	}
	afterInterp := vl.Enc(dump.Pipeline(p))
	b.WriteString("|" + afterInterp)
	var jb, yb []byte
	var jerr, yerr error
	if pn, msg := guard(func() {
		jb, jerr = json.Marshal(p)
		yb, yerr = yaml.Marshal(p)
	}); pn {
		fmt.Fprintf(&b, "|%s marshalling panicked: %s", observerMarker, msg)
	}
	fmt.Fprintf(&b, "|%s|%v|%s|%v", jb, jerr, yb, yerr)
	// marshalling is an observer: the typed pipeline is what it was
	if after := vl.Enc(dump.Pipeline(p)); after != afterInterp {
		fmt.Fprintf(&b, "|%s marshalling changed the pipeline: %s", observerMarker, firstDiff(after, afterInterp))
	}
	penv := map[string]string{"DEPLOY": "1"}
	serr := signature.SignSteps(context.Background(), p.Steps, k.signer, "repo", signature.WithEnv(penv), signature.WithLogger(&captureLogger{}), signature.WithDebugSigning(true))
	fmt.Fprintf(&b, "|sign:%v", serr != nil)
	if serr == nil {
		for _, cs := range commandStepsOf(p.Steps) {
			verr, payload, _ := verifyStep(k, cs.Signature, cs, "repo", penv)
			fmt.Fprintf(&b, "|verify:%v:%s:%v", verr == nil, payload, cs.Signature.SignedFields)
		}
	}
	return b.String()
}

// parseDigest: parse (result and the full warning text), interpolate, marshal — no key material, so two processes agree.
func parseDigest(src []byte) string {
	var b strings.Builder
	p, err := pipeline.Parse(bytes.NewReader(src))
	fmt.Fprintf(&b, "err:%v", err)
	if p == nil || (err != nil && !warning.Is(err)) {
		return b.String()
	}
	b.WriteString("|" + vl.Enc(dump.Pipeline(p)))
	if err := p.Interpolate(mapEnv{"FOO": "foo", "BAR": "bar"}, false); err != nil {
		return b.String() + "|interpolate-error:" + err.Error()
	}
	jb, jerr := json.Marshal(p)
	fmt.Fprintf(&b, "|%s|%v", jb, jerr)
	return b.String()
}

func dumpMap(m *ordered.MapSA) string {
	slots, index, has := m.VerifDump()
	var b strings.Builder
	for _, s := range slots {
		fmt.Fprintf(&b, "[%q %v %v]", s.Key, s.Value, s.Deleted)
	}
	keys := make([]string, 0, len(index))
	for k := range index {
		keys = append(keys, k)
	}
	for _, k := range sortedKeysS(index) {
		fmt.Fprintf(&b, "{%q:%d}", k, index[k])
	}
	_ = keys
	fmt.Fprintf(&b, "%v", has)
	return b.String()
}

func runC19(c *ctx) error {
	rng := c.rng.Fork()
	keys := sigKeys()
	rounds, docsPerRound := 6, 16
	if c.thorough() {
		rounds = 60
	}
	// ---------- (a) distinct objects: concurrent == sequential ----------
	for round := 0; round < rounds; round++ {
		var srcs [][]byte
		for len(srcs) < docsPerRound {
			o := &gen.Opts{R: rng, Str: c04Str, Key: gen.KeyNoLongDigitRuns, MaxGroupDepth: 2, MaxMapSize: 12}
			if b, err := yaml.Marshal(o.Pipeline()); err == nil {
				srcs = append(srcs, b)
			}
		}
		// a key pair nobody has used yet (EdDSA: deterministic signatures, so digests are comparable), and
		// the concurrent pass first: whatever the library does on first use of a key happens under contention
		k := keys[0]
		if priv, pub, err := jwkutil.NewKeyPair(fmt.Sprintf("fresh-%d", round), jwa.EdDSA); err == nil {
			if pk, ok := priv.Key(0); ok {
				k = sigKey{id: 1000 + round, kind: "EdDSA", signer: pk, verif: pub, alg: "EdDSA"}
			}
		}
		seq := make([]string, len(srcs))
		conc := make([]string, len(srcs))
		var wg sync.WaitGroup
		for i := range srcs {
			wg.Add(1)
			go func(i int) {
				defer wg.Done()
				defer func() {
					if r := recover(); r != nil {
						conc[i] = fmt.Sprint("panic: ", r)
					}
				}()
				conc[i] = pipelineWork(srcs[i], k)
			}(i)
		}
		wg.Wait()
		for i, s := range srcs {
			seq[i] = pipelineWork(s, k)
			if at := strings.Index(seq[i], observerMarker); at >= 0 {
				end := at + 400
				if end > len(seq[i]) {
					end = len(seq[i])
				}
				c.res.Fail(core.OracleFailure{What: "an observer (json.Marshal / yaml.Marshal of a pipeline) changed the pipeline it observed, or panicked on it", Input: map[string]any{"document": string(s)}, Got: seq[i][at:end]})
			}
		}
		for i := range srcs {
			c.res.OracleChecks++
			c.res.Case(string(srcs[i]), true)
			if seq[i] != conc[i] {
				c.res.Fail(core.OracleFailure{What: "concurrent run on a distinct object differs from the sequential run", Input: string(srcs[i]), Got: firstDiff(conc[i], seq[i])})
			}
		}
		c.res.Hist("rounds.distinct-objects")
	}
	// ---------- (b) shared read-only objects under the race detector ----------
	shared := ordered.NewMap[string, any](8)
	for i := 0; i < 40; i++ {
		shared.Set(fmt.Sprintf("k%d", i), i)
	}
	for i := 0; i < 40; i += 3 {
		shared.Delete(fmt.Sprintf("k%d", i)) // tombstones, below the compaction threshold
	}
	shared.Replace("k1", "k1-renamed", ordered.MapFromItems(ordered.TupleSA{Key: "n", Value: 1}))
	other := ordered.NewMap[string, any](8)
	shared.Range(func(k string, v any) error { other.Set(k, v); return nil })
	var sharedPipe *pipeline.Pipeline
	var sharedSrc []byte
	for sharedPipe == nil {
		p, src := genParsedPipeline(rng, nil, 2)
		if p != nil && len(commandStepsOf(p.Steps)) > 0 && !hasUnknownStep(p.Steps) {
			// (readers compare YAML bytes: keep the documents whose YAML form is deterministic, see finding F22)
			if t, err := decodeTree(src); err == nil && !hasLongDigitRunKey(dump.Any(t)) {
				sharedPipe, sharedSrc = p, src
			}
		}
	}
	k := keys[0]
	penv := map[string]string{"DEPLOY": "1"}
	if err := signature.SignSteps(context.Background(), sharedPipe.Steps, k.signer, "repo", signature.WithEnv(penv)); err != nil {
		return err
	}
	// the field list as another implementation might have written it: same set, another order (verification
	// must not care, and must not rewrite it)
	for _, cs := range commandStepsOf(sharedPipe.Steps) {
		if cs.Signature != nil {
			fs := cs.Signature.SignedFields
			for i, j := 0, len(fs)-1; i < j; i, j = i+1, j-1 {
				fs[i], fs[j] = fs[j], fs[i]
			}
		}
	}
	// a second shared pipeline with the shapes observers are tempted to tidy up: a step env that shadows a pipeline
	// variable, plugins whose configs are present but empty, an empty non-nil matrix
	litPipe, _ := pipeline.Parse(strings.NewReader("steps:\n  - command: a\n    env: {DEPLOY: shadow, OWN: x}\n    plugins:\n      - ecr#v2.7.0: {}\n      - docker#v5.0.0: []\n      - cache#v1: ~\n  - command: b\n    matrix: {}\n  - command: d\n    matrix:\n      setup: {os: [linux, linux, windows], arch: [arm]}\n  - group: g\n    steps:\n      - command: c\n        plugins: [{x#v1: {}}]\n  - command: e\n    agents: {queue: q}\n    retry: {automatic: true}\n    soft_fail: true\n    timeout_in_minutes: 5\n    priority: 1\n"))
	if litPipe == nil {
		return fmt.Errorf("literal shared pipeline does not parse")
	}
	// what signing, verifying and marshalling only look at: plugin configs as Go values, matrix pointers, step env
	litFrame := func() string {
		var b strings.Builder
		for _, cs := range commandStepsOf(litPipe.Steps) {
			for _, pl := range cs.Plugins {
				fmt.Fprintf(&b, "[%s=%#v]", pl.Source, pl.Config)
			}
			fmt.Fprintf(&b, "matrix:%v env:%v|", cs.Matrix != nil, cs.Env)
			if cs.Matrix != nil {
				fmt.Fprintf(&b, "setup:%q|", cs.Matrix.Setup)
			}
		}
		return b.String()
	}
	penvBefore := fmt.Sprint(penv)
	litFrameBefore := litFrame()
	if err := signature.SignSteps(context.Background(), litPipe.Steps, k.signer, "repo", signature.WithEnv(penv)); err != nil {
		return err
	}
	if got := litFrame(); got != litFrameBefore {
		c.res.Fail(core.OracleFailure{What: "SignSteps changed signed content of the steps it signed (it only adds signatures)", Input: "literal shared pipeline", Got: got, Want: litFrameBefore})
	}
	if fmt.Sprint(penv) != penvBefore {
		c.res.Fail(core.OracleFailure{What: "SignSteps changed the env map the caller passed with WithEnv", Input: penvBefore, Got: fmt.Sprint(penv), Want: penvBefore})
	}
	_, pubSet, _ := jwkutil.NewKeyPair("shared", "EdDSA")
	readers := func() string {
		var b strings.Builder
		v, ok := shared.Get("k2")
		fmt.Fprint(&b, shared.Len(), shared.IsZero(), v, ok, shared.Contains("k0"), ordered.EqualSA(shared, other), ordered.EqualSA(shared, shared))
		shared.Range(func(k string, v any) error { b.WriteString(k); return nil })
		fmt.Fprint(&b, len(shared.ToMap()))
		jb, _ := json.Marshal(shared)
		yb, _ := yaml.Marshal(shared)
		b.Write(jb)
		b.Write(yb)
		pj, _ := json.Marshal(sharedPipe)
		py, _ := yaml.Marshal(sharedPipe)
		b.Write(pj)
		b.Write(py)
		for _, cs := range commandStepsOf(sharedPipe.Steps) {
			verr, _, _ := verifyStep(k, cs.Signature, cs, "repo", penv)
			fmt.Fprint(&b, verr == nil)
			// Sign is an observer of the step as well
			if _, _, err := signStep(k, cs, "repo", penv); err != nil {
				b.WriteString("sign-error")
			}
		}
		lj, _ := json.Marshal(litPipe)
		ly, _ := yaml.Marshal(litPipe)
		b.Write(lj)
		b.Write(ly)
		for _, cs := range commandStepsOf(litPipe.Steps) {
			verr, _, _ := verifyStep(k, cs.Signature, cs, "repo", penv)
			_, payload, err := signStep(k, cs, "repo", penv)
			fmt.Fprint(&b, verr == nil, payload, err == nil)
		}
		kk, _ := pubSet.Key(0)
		fmt.Fprint(&b, jwkutil.Validate(kk) == nil)
		fmt.Fprint(&b, (&pipeline.Plugin{Source: "docker#v1"}).FullSource())
		return b.String()
	}
	beforeMap := dumpMap(shared)
	beforePipe := vl.Enc(dump.Pipeline(sharedPipe))
	beforeLit := vl.Enc(dump.Pipeline(litPipe))
	var want string
	if pn, msg := guard(func() { want = readers() }); pn {
		// (a second use of an object an observer has written into: yaml.v3 panics on a struct whose inline map has
		// gained a declared key)
		c.res.Fail(core.OracleFailure{What: "read-only use (marshal, sign, verify, compare) of the shared objects panics", Input: "literal shared pipeline / shared signed pipeline", Got: msg + " | pipeline now: " + firstDiff(vl.Enc(dump.Pipeline(litPipe)), beforeLit)})
		return nil
	}
	if vl.Enc(dump.Pipeline(litPipe)) != beforeLit {
		c.res.Fail(core.OracleFailure{What: "marshalling / signing / verifying changed the observed pipeline (empty plugin configs, empty matrix, shadowing step env)", Input: "literal shared pipeline", Got: vl.Enc(dump.Pipeline(litPipe)), Want: beforeLit})
	}
	if fmt.Sprint(penv) != penvBefore {
		c.res.Fail(core.OracleFailure{What: "Sign / Verify changed the env map the caller passed with WithEnv", Input: penvBefore, Got: fmt.Sprint(penv), Want: penvBefore})
	}
	if dumpMap(shared) != beforeMap {
		c.res.Fail(core.OracleFailure{What: "an observer (Len/Get/Range/Equal/ToMap/MarshalJSON/MarshalYAML) changed the concrete state of the ordered map", Input: "shared map with tombstones", Got: dumpMap(shared), Want: beforeMap})
	}
	if vl.Enc(dump.Pipeline(sharedPipe)) != beforePipe {
		c.res.Fail(core.OracleFailure{What: "marshalling / signing / verifying changed the observed pipeline", Input: string(sharedSrc)})
	}
	sharedRounds := rounds * 4
	for round := 0; round < sharedRounds; round++ {
		got := make([]string, 16)
		var wg sync.WaitGroup
		for g := 0; g < 16; g++ {
			wg.Add(1)
			go func(g int) {
				defer wg.Done()
				defer func() {
					if r := recover(); r != nil {
						got[g] = fmt.Sprint("panic: ", r)
					}
				}()
				got[g] = readers()
			}(g)
		}
		wg.Wait()
		for g := range got {
			c.res.OracleChecks++
			if got[g] != want {
				c.res.Fail(core.OracleFailure{What: "concurrent read-only use of shared objects gives a different answer than sequential use", Input: "shared map / pipeline / key set", Got: firstDiff(got[g], want)})
			}
		}
		c.res.Case(fmt.Sprintf("shared-round-%d", round), true)
		c.res.Hist("rounds.shared-read-only")
	}
	if dumpMap(shared) != beforeMap || vl.Enc(dump.Pipeline(sharedPipe)) != beforePipe || vl.Enc(dump.Pipeline(litPipe)) != beforeLit || fmt.Sprint(penv) != penvBefore {
		c.res.Fail(core.OracleFailure{What: "shared objects changed during read-only use", Input: "shared map / pipeline"})
	}
	// ---------- (c) observers leave every reached map untouched (tombstones, compaction boundary) ----------
	for i := 0; i < 200*rounds/6; i++ {
		m := ordered.NewMap[string, any](0)
		n := 2 + rng.Intn(12)
		for j := 0; j < n; j++ {
			m.Set(fmt.Sprintf("k%d", j), j)
		}
		// nested values reached only through a sequence: ordered maps whose keys are not in alphabetical order
		m.Set("k1", []any{ordered.MapFromItems(ordered.TupleSA{Key: "zeta", Value: "/z"}, ordered.TupleSA{Key: "alpha", Value: []any{ordered.MapFromItems(ordered.TupleSA{Key: "y", Value: 1}, ordered.TupleSA{Key: "x", Value: 2})}}), "plain"})
		nestedBefore, _ := json.Marshal(m)
		for j := 0; j < n/2-1; j++ { // one short of the compaction threshold
			m.Delete(fmt.Sprintf("k%d", rng.Intn(n)))
		}
		before := dumpMap(m)
		m.Len()
		m.IsZero()
		m.Get("k0")
		m.Contains("k1")
		m.Range(func(string, any) error { return nil })
		m.ToMap()
		json.Marshal(m)
		yaml.Marshal(m)
		ordered.EqualSA(m, m)
		ordered.EqualSA(m, other)
		ordered.ToMapRecursive(m)
		c.res.OracleChecks++
		if after := dumpMap(m); after != before {
			c.res.Fail(core.OracleFailure{What: "an observer changed the concrete state of the ordered map (e.g. lazy compaction)", Input: before, Got: after, Want: before})
		}
		if v, ok := m.Get("k1"); ok {
			// (k1 may have been deleted above; when it is still there its nested maps are still ordered maps)
			if l, ok := v.([]any); !ok || len(l) != 2 {
				c.res.Fail(core.OracleFailure{What: "an observer replaced a nested sequence of the ordered map", Input: string(nestedBefore)})
			} else if _, ok := l[0].(*ordered.MapSA); !ok {
				c.res.Fail(core.OracleFailure{What: "an observer converted a nested ordered map of its argument in place", Input: string(nestedBefore), Got: fmt.Sprintf("%T", l[0]), Want: "*ordered.Map"})
			}
		}
		c.res.Case("observer-frame:"+before, true)
	}
	c.res.Hist("observer-frame-maps")
	// ---------- (c3) constructors copy: maps built from one slice of items (the spread form) share nothing with each
	// other or with the slice ----------
	for i := 0; i < 40; i++ {
		n := 2 + rng.Intn(6)
		items := make([]ordered.TupleSA, n)
		for j := range items {
			items[j] = ordered.TupleSA{Key: fmt.Sprintf("K%d", j), Value: fmt.Sprintf("v%d", j)}
		}
		itemsBefore := fmt.Sprint(items)
		a := ordered.MapFromItems(items...)
		b := ordered.MapFromItems(items...)
		bBefore := dumpMap(b)
		a.Set(fmt.Sprintf("K%d", rng.Intn(n)), "changed-in-a")
		a.Delete(fmt.Sprintf("K%d", rng.Intn(n)))
		a.Replace(fmt.Sprintf("K%d", rng.Intn(n)), "renamed-in-a", "x")
		c.res.OracleChecks++
		if got := dumpMap(b); got != bBefore {
			c.res.Fail(core.OracleFailure{What: "two maps built with MapFromItems from one slice of items share storage: changing one changed the other", Input: itemsBefore, Got: got, Want: bBefore})
		}
		if got := fmt.Sprint(items); got != itemsBefore {
			c.res.Fail(core.OracleFailure{What: "a map built with MapFromItems writes into the caller's slice of items", Input: itemsBefore, Got: got, Want: itemsBefore})
		}
		c.res.Case(fmt.Sprintf("constructor-copies:%d:%d", i, n), true)
	}
	c.res.Hist("constructors-copy")
	// ---------- (c2) option plumbing: every map handed over with WithEnv stays as the caller left it, also when
	// several env options are given to one call (Sign, Verify, SignSteps) ----------
	{
		keys := sigKeys()
		for i := 0; i < 4*len(keys); i++ {
			k := keys[i%len(keys)]
			a := map[string]string{"DEPLOY": "1", fmt.Sprintf("A_%d", i): "a", "SHARED": "from-a"}
			b := map[string]string{"DEPLOY": "2", fmt.Sprintf("B_%d", i): "b"}
			third := map[string]string{fmt.Sprintf("C_%d", i): "c"}
			aBefore, bBefore, cBefore := fmt.Sprint(a), fmt.Sprint(b), fmt.Sprint(third)
			step := &pipeline.CommandStep{Command: "make", Env: map[string]string{"STEP": "own"}}
			sf := &signature.CommandStepWithInvariants{CommandStep: *step, RepositoryURL: "git@host:o/r.git"}
			var sig *pipeline.Signature
			var serr, verr, sserr error
			panicked, _ := guard(func() {
				sig, serr = signature.Sign(context.Background(), k.signer, sf, signature.WithEnv(a), signature.WithEnv(b), signature.WithEnv(third))
				if serr == nil {
					verr = signature.Verify(context.Background(), sig, k.verif, sf, signature.WithEnv(a), signature.WithEnv(b), signature.WithEnv(third))
				}
				sserr = signature.SignSteps(context.Background(), pipeline.Steps{&pipeline.CommandStep{Command: "make"}}, k.signer, "git@host:o/r.git", signature.WithEnv(a), signature.WithEnv(b))
			})
			c.res.OracleChecks++
			desc := map[string]any{"key": k.id, "options": "WithEnv(a), WithEnv(b), WithEnv(c)", "a": aBefore, "b": bBefore, "c": cBefore}
			if panicked || serr != nil || verr != nil || sserr != nil {
				c.res.Fail(core.OracleFailure{What: "signing / verifying with several env options fails", Input: desc, Got: fmt.Sprint(panicked, serr, verr, sserr)})
			}
			if fmt.Sprint(a) != aBefore || fmt.Sprint(b) != bBefore || fmt.Sprint(third) != cBefore {
				c.res.Fail(core.OracleFailure{What: "a map handed over with WithEnv was modified by Sign / Verify / SignSteps", Input: desc, Got: fmt.Sprint(a, b, third), Want: fmt.Sprint(aBefore, bBefore, cBefore)})
			}
			c.res.Case(fmt.Sprintf("several-env-options:%d", i), true)
		}
		c.res.Hist("several-env-options")
	}
	// ---------- (d) steps of one parsed document are distinct objects, also when the document spells them
	// through one anchor: concurrent in-place work on different steps == the same work done one by one ----------
	{
		var doc strings.Builder
		doc.WriteString("common:\n  agents: &agents\n    queue: \"build-{{matrix}}\"\n    tags: [\"t-{{matrix}}\", x]\nsteps:\n")
		nSteps := 16
		for i := 0; i < nSteps; i++ {
			fmt.Fprintf(&doc, "  - command: \"echo {{matrix}}\"\n    matrix: [v%d]\n    agents: *agents\n    notify: [*agents]\n", i)
		}
		work := func(st pipeline.Step, i int) string {
			cs, ok := st.(*pipeline.CommandStep)
			if !ok {
				return "not-a-command-step"
			}
			if err := cs.InterpolateMatrixPermutation(pipeline.MatrixPermutation{"": fmt.Sprintf("v%d", i)}); err != nil {
				return "error: " + err.Error()
			}
			b, _ := json.Marshal(cs)
			return string(b)
		}
		for round := 0; round < rounds; round++ {
			pSeq, _ := pipeline.Parse(strings.NewReader(doc.String()))
			pCon, _ := pipeline.Parse(strings.NewReader(doc.String()))
			if pSeq == nil || pCon == nil || len(pSeq.Steps) != nSteps || len(pCon.Steps) != nSteps {
				break
			}
			got := make([]string, nSteps)
			// a fatal "concurrent map read and map write" cannot be recovered: leave the input where bin/check finds it
			core.Current(map[string]any{"property": "C19", "what": "16 goroutines, each interpolating its own step of this parsed document",
				"input": map[string]any{"document": doc.String()}})
			var wg sync.WaitGroup
			for i := range pCon.Steps {
				wg.Add(1)
				go func(i int) {
					defer wg.Done()
					defer func() {
						if r := recover(); r != nil {
							got[i] = fmt.Sprint("panic: ", r)
						}
					}()
					got[i] = work(pCon.Steps[i], i)
				}(i)
			}
			wg.Wait()
			for i := range pSeq.Steps {
				// the sequential reference works on a fresh parse per step, so nothing another step did can show
				pRef, _ := pipeline.Parse(strings.NewReader(doc.String()))
				want := work(pRef.Steps[i], i)
				c.res.OracleChecks++
				if got[i] != want {
					c.res.Fail(core.OracleFailure{What: "concurrent in-place work on distinct steps of one parsed document differs from doing it step by step", Input: doc.String(), Got: firstDiff(got[i], want)})
					break
				}
			}
			c.res.Case(fmt.Sprintf("aliased-steps-round-%d", round), true)
			c.res.Hist("rounds.distinct-steps-of-one-document")
		}
	}
	// ---------- (e) no history: what this process answers for a document after everything above equals what a
	// fresh process answers when the document is the first thing it ever sees (warnings text included) ----------
	if exe, err := os.Executable(); err == nil {
		docs := []string{
			"steps:\n  - llama: Kuzco\n  - wait\n  - alpaca: x\n",
			"steps:\n  - command: a\n  - {type: deploy}\n  - group: g\n    steps: [{mystery: 1}]\n",
			"steps:\n  - wait\n  - {zz: 1}\n",
		}
		for i := 0; i < 5; i++ {
			o := &gen.Opts{R: rng, Str: c04Str, Key: gen.KeyNoLongDigitRuns, MaxGroupDepth: 2, MaxMapSize: 8, TypeErrors: 30}
			if b, err := yaml.Marshal(o.Pipeline()); err == nil {
				docs = append(docs, string(b))
			}
		}
		for _, d := range docs {
			f, err := os.CreateTemp("", "vf-c19-doc-*")
			if err != nil {
				break
			}
			f.WriteString(d)
			f.Close()
			cmd := exec.Command(exe)
			cmd.Env = append(os.Environ(), "VERIF_C19_DIGEST_FILE="+f.Name(), "GORACE=")
			out, err := cmd.Output()
			os.Remove(f.Name())
			if err != nil {
				c.res.Notes = append(c.res.Notes, "fresh-process digest could not be computed: "+err.Error())
				continue
			}
			c.res.OracleChecks++
			if here := parseDigest([]byte(d)); here != string(out) {
				c.res.Fail(core.OracleFailure{What: "the answer for a document depends on what the process did before (fresh process vs this process)", Input: d, Got: firstDiff(here, string(out))})
			}
			c.res.Case("fresh-process:"+d, true)
			c.res.Hist("fresh-process-comparisons")
		}
	}
	// ---------- race detector reports ----------
	raceBuilt := raceEnabled
	if logs, _ := filepath.Glob(os.Getenv("VERIF_RACE_LOG") + "*"); os.Getenv("VERIF_RACE_LOG") != "" {
		for _, l := range logs {
			b, _ := os.ReadFile(l)
			if len(b) > 0 {
				c.res.Fail(core.OracleFailure{What: "the race detector reported a data race", Input: "16 goroutines, distinct and shared read-only objects", Got: string(b[:min(len(b), 4000)])})
			}
		}
	}
	c.res.Notes = append(c.res.Notes, fmt.Sprintf("race detector compiled in: %v", raceBuilt))
	c.res.Sample(map[string]any{"shared_map": beforeMap[:min(len(beforeMap), 300)], "goroutines": 16})
	c.res.Rule = "rounds of 16 goroutines: (a) parse, interpolate, marshal, sign and verify distinct generated pipelines concurrently, digests compared with the sequential run; (b) read-only use (lookups, iteration, equality, marshalling, verification, signing as observer, key validation, FullSource) of one shared ordered map with tombstones, one shared signed pipeline and one key set, answers compared with sequential use, under the race detector; (c) every observer on maps with tombstones one short of the compaction threshold (and nested ordered maps inside sequences) must leave the concrete slot/index state and the nested values unchanged; (d) concurrent in-place work on distinct steps of one aliased document; (e) parse / warnings / interpolate / marshal digests of documents with unknown steps agree with a fresh process that sees the document first. Distinct by document / round."
	c.res.ModelRequests = 0
	_ = reflect.DeepEqual
	return nil
}
