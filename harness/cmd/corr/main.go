// corr: correspondence checks (implementation vs Lean model driver) and direct
// property oracles on the implementation. One sub-check per property.
package main

import (
	"flag"
	"fmt"
	"os"
	"strconv"

	"verifharness/core"
)

type ctx struct {
	tier   string
	seed   uint64
	driver string
	res    *core.Result
	rng    *core.Rand
	known  *knownFindings
	// only: single-document mode (used by the shrinker): checks that support it judge just this document
	// with their direct oracles and skip generation and the model transcript
	only    []byte
	corpus  []corpusDoc
	onlyEnv map[string]string
}

func (c *ctx) thorough() bool { return c.tier == "thorough" }

var checks = map[string]func(*ctx) error{}

func main() {
	if f := os.Getenv("VERIF_C19_DIGEST_FILE"); f != "" {
		// helper mode of C19 stage (e): this process has done nothing yet; answer for one document and exit
		b, err := os.ReadFile(f)
		if err != nil {
			os.Exit(4)
		}
		fmt.Print(parseDigest(b))
		return
	}
	prop := flag.String("prop", "", "property id (C01..C19)")
	tier := flag.String("tier", "quick", "quick|thorough")
	seedS := flag.String("seed", "1", "PRNG seed")
	driver := flag.String("driver", "/verif/lean/.lake/build/bin/driver", "Lean driver executable")
	out := flag.String("out", "", "result file")
	knownPath := flag.String("known", "/verif/known_findings.json", "known findings file")
	corpusDir := flag.String("corpus", "/verif/corpus", "regression corpus directory")
	flag.Parse()
	seed, err := strconv.ParseUint(*seedS, 10, 64)
	if err != nil {
		seed = 1
	}
	f, ok := checks[*prop]
	if !ok {
		fmt.Fprintf(os.Stderr, "corr: no check for %q\n", *prop)
		os.Exit(2)
	}
	c := &ctx{tier: *tier, seed: seed, driver: *driver, res: core.NewResult(*prop, *tier, seed), rng: core.NewRand(seed)}
	c.known = loadKnown(*knownPath, *prop)
	c.corpus = loadCorpus(*corpusDir, *prop)
	err = f(c)
	core.CleanupSessions()
	if err != nil {
		c.res.Notes = append(c.res.Notes, "harness error: "+err.Error())
		c.res.Write(*out)
		fmt.Fprintf(os.Stderr, "corr: %v\n", err)
		os.Exit(3)
	}
	if supportsOnly[*prop] {
		shrinkFirstFailure(c, f)
		core.CleanupSessions()
	}
	if err := c.res.Write(*out); err != nil {
		fmt.Fprintln(os.Stderr, err)
		os.Exit(3)
	}
}
