package main

// C08 — order-significant mappings keep document order through decode and encode.
// Direct oracles on the implementation (token order of the real JSON / YAML output), the decode
// side also against the Lean graph model (driver mode c07).

import (
	"bytes"
	"encoding/json"
	"fmt"
	"reflect"
	"strings"

	pipeline "github.com/buildkite/go-pipeline"
	"github.com/buildkite/go-pipeline/ordered"
	"github.com/buildkite/go-pipeline/warning"
	"gopkg.in/yaml.v3"

	"verifharness/core"
	"verifharness/dump"
	"verifharness/gen"
	"verifharness/vl"
)

func init() { checks["C08"] = runC08 }

var c08Keys = []string{"a", "b", "z", "k", "", " ", "1", "2", "10", "01", "0x1f", "1e3", "true", "false", "yes", "no", "null", "~", "3.5", "a b", "a: b", "- x", "#c", "é", "日本",
	"key", "Key", "KEY", "C:\\new\\bin", "a\\\\b", "\\tmp", "trail\\", "{x}", "[y]", "*s", "&t", "!u", "%v", "@w", "`q", "it's", "q\"q", "tab\tk", "nl\nk", "?", "|", ">", "=", "---", "...", "2002-08-15", "1:30", "+1", ".inf",
	// every spelling yaml.v3 resolves to something other than a string when written plain (a key is a string here)
	"True", "TRUE", "False", "FALSE", "Null", "NULL", "Yes", "NO", "On", "off", "Y", "n", "0o17", "0b101", "1_000", "+.5", ".5", "-0", "0.0", "1.0", ".NaN", ".Inf", "-.inf", "0X1F", "1e+3", "0x_1f"}

func c08Map(r *core.Rand, size, depth int) *ordered.MapSA {
	m := ordered.NewMap[string, any](size)
	for m.Len() < size {
		k := core.Pick(r, c08Keys)
		if r.Intn(400) == 0 {
			k = "<<" // recorded finding F10 (YAML leg)
		}
		if m.Len() >= len(c08Keys)-2 || r.Intn(3) == 0 {
			k = fmt.Sprintf("%s%d", k, r.Intn(100))
		}
		var v any
		switch {
		case depth > 0 && r.Intn(4) == 0:
			v = c08Map(r, r.Intn(6), depth-1)
		case depth > 0 && r.Intn(6) == 0:
			v = []any{c08Map(r, r.Intn(4), depth-1), "x", 1}
		default:
			v = core.Pick(r, []any{"v", 1, true, nil, "yes", "0x1f", 2.5, "multi\nline"})
		}
		m.Set(k, v)
	}
	if depth >= 0 && r.Intn(4) == 0 && m.Len() > 0 {
		// the same map through the other constructor, from an item list that repeats its first keys
		var items, prefix []ordered.TupleSA
		m.Range(func(k string, v any) error { items = append(items, ordered.TupleSA{Key: k, Value: v}); return nil })
		for i := 0; i < 1+r.Intn(len(items)); i++ {
			prefix = append(prefix, ordered.TupleSA{Key: items[i].Key, Value: "overwritten"})
		}
		return ordered.MapFromItems(append(prefix, items...)...)
	}
	return m
}

func mapKeys(m *ordered.MapSA) []string {
	var ks []string
	m.Range(func(k string, _ any) error { ks = append(ks, k); return nil })
	return ks
}

func hasKeyDeep(v any, key string) bool {
	switch t := v.(type) {
	case *ordered.MapSA:
		found := false
		t.Range(func(k string, x any) error {
			if k == key || hasKeyDeep(x, key) {
				found = true
			}
			return nil
		})
		return found
	case []any:
		for _, e := range t {
			if hasKeyDeep(e, key) {
				return true
			}
		}
	}
	return false
}

func runC08(c *ctx) error {
	sess := core.NewSession("c07")
	rng := c.rng.Fork()
	n := 1500
	if c.thorough() {
		n = 25000
	}
	// ---------- (1) programmatic maps survive encode then decode ----------
	for i := 0; i < n; i++ {
		size := rng.Intn(12)
		if i%5 == 0 {
			size = 9 + rng.Intn(32) // beyond Go's small-map threshold
		}
		m := c08Map(rng, size, 1+rng.Intn(4))
		// one map in three has a history behind it: deletions and renames (onto fresh names and onto names another
		// entry has) through the API; what it holds afterwards is tracked in a plain list of pairs, and the encoders
		// must write exactly that list
		var history []string
		var modelKeys []string
		initial := vl.Enc(dump.Any(m))
		if i%3 == 1 && m.Len() >= 3 {
			modelKeys = mapKeys(m)
			idxOf := func(k string) int {
				for j, x := range modelKeys {
					if x == k {
						return j
					}
				}
				return -1
			}
			panicked, msg := guard(func() {
				for j, nOps := 0, 2+rng.Intn(len(modelKeys)); j < nOps && len(modelKeys) >= 2; j++ {
					old := modelKeys[rng.Intn(len(modelKeys))]
					switch rng.Intn(3) {
					case 0:
						m.Delete(old)
						modelKeys = append(modelKeys[:idxOf(old):idxOf(old)], modelKeys[idxOf(old)+1:]...)
						history = append(history, "Delete("+old+")")
					default:
						nw := fmt.Sprintf("renamed-%d", j)
						if rng.Intn(2) == 0 {
							nw = modelKeys[rng.Intn(len(modelKeys))] // a name another entry (or this one) has
						}
						v, _ := m.Get(old)
						m.Replace(old, nw, v)
						if nw != old {
							if at := idxOf(nw); at >= 0 {
								modelKeys = append(modelKeys[:at:at], modelKeys[at+1:]...)
							}
							modelKeys[idxOf(old)] = nw
						}
						history = append(history, "Replace("+old+", "+nw+")")
					}
				}
			})
			c.res.Hist("programmatic.history-with-deletes-and-renames")
			c.res.OracleChecks++
			if panicked {
				c.res.Fail(core.OracleFailure{What: "a history of Delete / Replace on a programmatic map panics", Input: map[string]any{"map before": initial, "history": history}, Got: msg})
				continue
			}
			if got := mapKeys(m); !reflect.DeepEqual(got, modelKeys) && !(len(got) == 0 && len(modelKeys) == 0) {
				c.res.Fail(core.OracleFailure{What: "after a history of Delete / Replace the map does not list the entries a plain list of pairs holds", Input: map[string]any{"map before": initial, "history": history}, Got: fmt.Sprint(got), Want: fmt.Sprint(modelKeys)})
				continue
			}
		}
		desc := map[string]any{"map": vl.Enc(dump.Any(m)), "history": history}
		c.res.Case(vl.Enc(dump.Any(m)), m.Len() > 1)
		c.res.Hist(fmt.Sprintf("size>=9:%v", size >= 9))
		if i < 2 {
			c.res.Sample(desc)
		}
		jb, err := json.Marshal(m)
		if err != nil {
			c.res.Fail(core.OracleFailure{What: "MarshalJSON of a programmatic map fails", Input: desc, Got: err.Error()})
			continue
		}
		// token order of the real output
		c.res.OracleChecks++
		if got, err := jsonPairs(jb); err != nil || !reflect.DeepEqual(keysOfPairs(got), mapKeys(m)) {
			c.res.Fail(core.OracleFailure{What: "JSON output does not list the keys in map order", Input: desc, Got: fmt.Sprint(keysOfPairs(got)), Want: fmt.Sprint(mapKeys(m))})
		}
		back := ordered.NewMap[string, any](0)
		if err := back.UnmarshalJSON(jb); err != nil {
			c.res.Fail(core.OracleFailure{What: "UnmarshalJSON of MarshalJSON output fails", Input: desc, Got: err.Error()})
		} else if !ordered.EqualSA(m, back) {
			c.res.Fail(core.OracleFailure{What: "JSON encode then decode changes keys, values or order", Input: desc, Got: vl.Enc(dump.Any(back))})
		}
		yb, err := yaml.Marshal(m)
		if err != nil {
			c.res.Fail(core.OracleFailure{What: "MarshalYAML of a programmatic map fails", Input: desc, Got: err.Error()})
			continue
		}
		known := ""
		if hasKeyDeep(m, "<<") {
			if id, ok := c.known.has("yaml-merge-lookalike-string"); ok {
				known = id
			}
		}
		yback := ordered.NewMap[string, any](0)
		if err := yaml.Unmarshal(yb, yback); err != nil {
			c.res.Fail(core.OracleFailure{What: "decoding MarshalYAML output fails", Input: desc, Got: err.Error(), Known: known})
		} else if !ordered.EqualSA(m, yback) {
			c.res.Fail(core.OracleFailure{What: "YAML encode then decode changes keys, values or order", Input: desc, Got: vl.Enc(dump.Any(yback)), Known: known})
		}
		// the decode side against the graph model
		var node yaml.Node
		if err := yaml.Unmarshal(yb, &node); err == nil {
			store, rootID := storeVL(&node)
			if v, err := ordered.DecodeYAML(&node); err == nil {
				sess.Add(vl.Escape("decode "+vl.Enc(store)+" "+vl.Enc(rootID)), vl.Escape("ok "+vl.Enc(dump.Any(v))))
			}
		}
	}
	// ---------- (2) documents: env block, plugins as one mapping, mappings inside unknown fields / steps, merges ----------
	nd := n / 3
	for i := 0; i < nd; i++ {
		envSize := 1 + rng.Intn(12)
		if i%4 == 0 {
			envSize = 9 + rng.Intn(20)
		}
		var envKeys []string
		seen := map[string]bool{}
		for len(envKeys) < envSize {
			k := fmt.Sprintf("%s_%d", core.Pick(rng, []string{"A", "b", "PATH", "Zed", "m"}), rng.Intn(200))
			if !seen[k] {
				seen[k] = true
				envKeys = append(envKeys, k)
			}
		}
		// env with a merge in the middle; some explicit keys override merged ones, spelled canonically or not
		// (0x10 is the key "16", True the key "true"): an explicit key stands where it is written, and the merge
		// contributes only the keys no explicit key of the mapping defines
		type envEntry struct{ written, canon string }
		var entries []envEntry
		for _, k := range envKeys {
			entries = append(entries, envEntry{k, k})
		}
		overridden := map[string]bool{}
		for _, ov := range []envEntry{{"0x10", "16"}, {"True", "true"}, {"M1", "M1"}, {"16", "16"}, {"*akey ", "M2"}} {
			if rng.Intn(3) == 0 && !overridden[ov.canon] {
				pos := rng.Intn(len(entries) + 1)
				entries = append(entries[:pos], append([]envEntry{ov}, entries[pos:]...)...)
				overridden[ov.canon] = true
				c.res.Hist("documents.explicit-overrides-merged")
			}
		}
		mergePos := rng.Intn(len(entries) + 1)
		var b strings.Builder
		b.WriteString("akeys: [&akey M2]\nbase: &base\n  M1: m1\n  \"16\": m16\n  M2: m2\n  \"true\": mt\n")
		b.WriteString("env:\n")
		var wantEnv []string
		merged := func() {
			b.WriteString("  <<: *base\n")
			for _, k := range []string{"M1", "16", "M2", "true"} {
				if !overridden[k] {
					wantEnv = append(wantEnv, k)
				}
			}
		}
		for j, e := range entries {
			if j == mergePos {
				merged()
			}
			switch {
			case j%7 == 3:
				// a variable written without a value (null): legal, the empty string; it keeps its place
				fmt.Fprintf(&b, "  %s:\n", e.written)
			case j%7 == 5:
				fmt.Fprintf(&b, "  %s: ~\n", e.written)
			default:
				fmt.Fprintf(&b, "  %s: v%d\n", e.written, j)
			}
			wantEnv = append(wantEnv, e.canon)
		}
		if mergePos == len(entries) {
			merged()
		}
		nested := c08Map(rng, 2+rng.Intn(10), 2)
		if i%10 == 7 {
			// nested to any depth: a chain of 28-80 levels whose keys are not in sorted order at any level
			depth := 28 + rng.Intn(53)
			for (depth-1)%3 == 2 {
				depth++
			}
			nested = gen.DeepChain(depth).(*ordered.MapSA)
			c.res.Hist("documents.deeply-nested-mapping")
		}
		nested.Delete("<<")
		knownDoc := ""
		if hasKeyDeep(nested, "<<") {
			if id, ok := c.known.has("yaml-merge-lookalike-string"); ok {
				knownDoc = id
			}
		}
		nb, _ := json.Marshal(nested) // flow form inside the YAML document
		plugins := []string{"zeta#v1", "alpha#v2", "./local", "mid/dle#v3", "beta#v0"}
		for j := len(plugins) - 1; j > 0; j-- {
			k := rng.Intn(j + 1)
			plugins[j], plugins[k] = plugins[k], plugins[j]
		}
		b.WriteString("steps:\n  - command: x\n    plugins:\n")
		if rng.Intn(3) == 0 {
			// the list form with items that name several plugins each (the forgotten-dash spelling): the
			// plugins of one item come out in the order written, items in list order
			c.res.Hist("documents.plugins-list-with-multi-entry-items")
			for pi := 0; pi < len(plugins); {
				n := 1 + rng.Intn(3)
				for j := 0; j < n && pi < len(plugins); j++ {
					lead := "        "
					if j == 0 {
						lead = "      - "
					}
					fmt.Fprintf(&b, "%s%s: {opt: 1}\n", lead, plugins[pi])
					pi++
				}
			}
		} else {
			for _, p := range plugins {
				fmt.Fprintf(&b, "      %s: {opt: 1}\n", p)
			}
		}
		fmt.Fprintf(&b, "    custom_field: %s\n", nb)
		fmt.Fprintf(&b, "  - unknown_kind_of_step: %s\n", nb)
		src := b.String()
		desc := map[string]any{"document": src}
		// the same plugins as one JSON object through the stand-alone decoder: object key order is plugin order
		{
			var ob strings.Builder
			ob.WriteString("{")
			for pi, ps := range plugins {
				if pi > 0 {
					ob.WriteString(",")
				}
				kb, _ := json.Marshal(ps)
				ob.Write(kb)
				ob.WriteString(`:{"opt":1}`)
			}
			ob.WriteString("}")
			var pl pipeline.Plugins
			c.res.OracleChecks++
			if err := json.Unmarshal([]byte(ob.String()), &pl); err != nil {
				c.res.Fail(core.OracleFailure{What: "Plugins.UnmarshalJSON fails on plugins written as one JSON object", Input: ob.String(), Got: err.Error()})
			} else {
				var got []string
				for _, x := range pl {
					got = append(got, x.Source)
				}
				if !reflect.DeepEqual(got, plugins) {
					c.res.Fail(core.OracleFailure{What: "plugins written as one JSON object do not come out of Plugins.UnmarshalJSON in document order", Input: ob.String(), Got: fmt.Sprint(got), Want: fmt.Sprint(plugins)})
				}
			}
		}
		p, err := pipeline.Parse(strings.NewReader(src))
		if p == nil || (err != nil && !warning.Is(err)) {
			c.res.Fail(core.OracleFailure{What: "order document does not parse", Input: desc, Got: fmt.Sprint(err)})
			continue
		}
		c.res.Case(src, true)
		c.res.Hist("documents")
		c.res.OracleChecks++
		// pipeline env in document order, merged keys where the merge key stood
		var gotEnv []string
		p.Env.Range(func(k, _ string) error { gotEnv = append(gotEnv, k); return nil })
		if !reflect.DeepEqual(gotEnv, wantEnv) {
			c.res.Fail(core.OracleFailure{What: "pipeline env block is not in document order (merged keys where the merge key stood)", Input: desc, Got: fmt.Sprint(gotEnv), Want: fmt.Sprint(wantEnv)})
		}
		for _, leg := range []string{"json", "yaml"} {
			var out []byte
			if leg == "json" {
				out, err = json.Marshal(p)
			} else {
				out, err = yaml.Marshal(p)
			}
			if err != nil {
				c.res.Fail(core.OracleFailure{What: leg + " marshalling fails", Input: desc, Got: err.Error()})
				continue
			}
			tree, err := decodeTree(out)
			legKnown := ""
			if leg == "yaml" {
				legKnown = knownDoc
			}
			if err != nil {
				c.res.Fail(core.OracleFailure{What: leg + " output cannot be decoded", Input: desc, Got: err.Error(), Known: legKnown})
				continue
			}
			top, _ := tree.(*ordered.MapSA)
			if top == nil {
				continue
			}
			if ev, ok := top.Get("env"); ok {
				if em, ok := ev.(*ordered.MapSA); ok && !reflect.DeepEqual(mapKeys(em), wantEnv) {
					c.res.Fail(core.OracleFailure{What: "env keys in the " + leg + " output are not in document order", Input: desc, Got: fmt.Sprint(mapKeys(em)), Want: fmt.Sprint(wantEnv)})
				}
			}
			stepsV, _ := top.Get("steps")
			steps, _ := stepsV.([]any)
			if len(steps) == 2 {
				s0, _ := steps[0].(*ordered.MapSA)
				if s0 != nil {
					if pv, ok := s0.Get("plugins"); ok {
						var got []string
						if pl, ok := pv.([]any); ok {
							for _, e := range pl {
								if em, ok := e.(*ordered.MapSA); ok {
									got = append(got, mapKeys(em)...)
								}
							}
						}
						var want []string
						for _, s := range plugins {
							want = append(want, (&pipeline.Plugin{Source: s}).FullSource())
						}
						if !reflect.DeepEqual(got, want) {
							c.res.Fail(core.OracleFailure{What: "plugins written as one mapping / as list items naming several plugins do not come out in document order (" + leg + ")", Input: desc, Got: fmt.Sprint(got), Want: fmt.Sprint(want)})
						}
					}
					if cv, ok := s0.Get("custom_field"); ok {
						if cm, ok := cv.(*ordered.MapSA); ok && !sameOrderedTree(cm, jsonRetyped(nested)) {
							c.res.Fail(core.OracleFailure{What: "a mapping nested in an unknown field changed order or content (" + leg + ")", Input: desc, Got: vl.Enc(dump.Any(cm)), Want: vl.Enc(dump.Any(nested)), Known: legKnown})
						}
					}
				}
				if s1, _ := steps[1].(*ordered.MapSA); s1 != nil {
					if uv, ok := s1.Get("unknown_kind_of_step"); ok {
						if um, ok := uv.(*ordered.MapSA); ok && !sameOrderedTree(um, jsonRetyped(nested)) {
							c.res.Fail(core.OracleFailure{What: "a mapping inside an unknown step changed order or content (" + leg + ")", Input: desc, Got: vl.Enc(dump.Any(um)), Want: vl.Enc(dump.Any(nested)), Known: legKnown})
						}
					}
				}
			}
		}
		// decode side vs graph model
		var node yaml.Node
		if err := yaml.Unmarshal([]byte(src), &node); err == nil {
			store, rootID := storeVL(&node)
			if v, err := ordered.DecodeYAML(&node); err == nil {
				sess.Add(vl.Escape("decode "+vl.Enc(store)+" "+vl.Enc(rootID)), vl.Escape("ok "+vl.Enc(dump.Any(v))))
			}
		}
	}
	c.res.Rule = "(1) programmatic ordered maps of 0-40 keys (keys needing quoting, numeric-/boolean-/null-looking keys, the empty key, look-alikes, nested to depth 5): JSON and YAML encode then decode must be Equal, JSON token order must be map order; (2) documents with an env block of 1-28 names with a merge at a random position, plugins written as one mapping in random order, and a random nested mapping inside an unknown field and an unknown step: env order after parse and in both outputs, plugin order, nested mappings unchanged. The decode of every document/output is also compared with the Lean graph model. Non-trivial = at least two keys; distinct by map / document."
	mm, total, err := core.RunSessions(c.driver, []*core.Session{sess}, 20, 0)
	c.res.ModelRequests = total
	c.res.Mismatches = mm
	return err
}

// sameOrderedTree: same keys, same values, same order at every depth. (ordered.Equal says the same, but takes time
// exponential in the nesting depth — go-cmp calls each nested comparer twice to check its symmetry — so the deep
// chains are compared on their encodings.)
func sameOrderedTree(a, b *ordered.MapSA) bool {
	return vl.Enc(dump.Any(a)) == vl.Enc(dump.Any(b))
}

func keysOfPairs(p [][2]string) []string {
	var out []string
	for _, kv := range p {
		out = append(out, kv[0])
	}
	return out
}

// jsonRetyped: the nested mapping was written into the document as JSON text; reading it back is the identity
// for the value kinds used here (strings, ints, bools, null, 2.5).
func jsonRetyped(m *ordered.MapSA) *ordered.MapSA { return m }

var _ = bytes.NewReader
