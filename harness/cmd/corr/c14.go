package main

// C14 — canonical payload: real payload bytes (captured from Sign/Verify through WithDebugSigning)
// vs the Lean model (marshal + JCS), plus collision search on re-spellings (must collide) and
// boundary-shifting / single-point variants (must not collide).

import (
	"bytes"
	"context"
	"encoding/json"
	"fmt"
	"regexp"
	"strings"

	pipeline "github.com/buildkite/go-pipeline"
	"github.com/buildkite/go-pipeline/ordered"

	"github.com/buildkite/go-pipeline/signature"

	"verifharness/core"
	"verifharness/dump"
	"verifharness/vl"
)

func init() { checks["C14"] = runC14 }

// c14ShortSourceRE: name or org/name, then an optional #ref over the git-legal alphabet of the documented forms
// (percent signs and other characters are outside them: net/url may reject such a source, which is then left as written).
var c14ShortSourceRE = regexp.MustCompile(`^([A-Za-z0-9_-]+/)?([A-Za-z0-9_-]+)((?:#[A-Za-z0-9._/-]*)?)$`)

type stepSource struct {
	src []byte
	idx int
}

func (s stepSource) fresh() *pipeline.CommandStep {
	p, _ := pipeline.Parse(bytes.NewReader(s.src))
	if p == nil {
		return nil
	}
	cs := commandStepsOf(p.Steps)
	if s.idx >= len(cs) {
		return nil
	}
	return cs[s.idx]
}

func hasBigInt(v any) bool {
	switch t := v.(type) {
	case int:
		return t > 1<<53 || t < -(1<<53)
	case []any:
		for _, e := range t {
			if hasBigInt(e) {
				return true
			}
		}
	case map[string]any:
		for _, e := range t {
			if hasBigInt(e) {
				return true
			}
		}
	}
	return false
}

func runC14(c *ctx) error {
	sess := core.NewSession("sig")
	rng := c.rng.Fork()
	keys := sigKeys()
	n := 600
	if c.thorough() {
		n = 20000
	}
	done := 0
	for iter := 0; done < n && iter < n*4; iter++ {
		p, src := c.corpusOrGenerated(iter, 3, rng, 2, 0)
		if p == nil {
			continue
		}
		cmds := commandStepsOf(p.Steps)
		if len(cmds) == 0 {
			continue
		}
		idx := rng.Intn(len(cmds))
		ss := stepSource{src, idx}
		st := cmds[idx]
		k := core.Pick(rng, keys)
		repo := core.Pick(rng, []string{"git@github.com:o/r.git", "https://example.com/r", "", "repo\"quoted", "https://example.com/acme/toolkit", "ssh://host/acme/agent/"})
		penv := randPenv(rng, st)
		sig, payload0, err := signStep(k, st, repo, penv)
		if err != nil {
			c.res.Hist("sign.error")
			continue
		}
		done++
		fields := make([]any, len(sig.SignedFields))
		for i, f := range sig.SignedFields {
			fields[i] = f
		}
		penvV := vl.OMap{}
		for _, kk := range sortedKeysS(penv) {
			penvV = append(penvV, vl.KV{K: kk, V: penv[kk]})
		}
		sess.Add(vl.Escape("payload "+vl.Enc(k.alg)+" "+vl.Enc(dump.Step(st))+" "+vl.Enc(repo)+" "+vl.Enc(penvV)),
			vl.Escape(vl.Enc([]any{payload0, fields})))
		c.res.Case(payload0, len(st.Plugins) > 0 || len(st.Env) > 0 || st.Matrix != nil)
		c.res.Hist("key." + k.kind)
		if done <= 2 {
			c.res.Sample(map[string]any{"payload": payload0, "fields": fields})
		}
		desc := map[string]any{"document": string(src), "step_index": idx, "repo": repo, "pipeline_env": penv}
		// Verify recomputes the same bytes
		if verr, vp, _ := verifyStep(k, sig, st, repo, copyEnv(penv)); verr != nil || vp != payload0 {
			c.res.Fail(core.OracleFailure{What: "Verify recomputes a different payload than Sign signed (or fails) on the unchanged step", Input: desc, Got: vp, Want: payload0})
		}
		// ---- must collide ----
		sign := func(st2 *pipeline.CommandStep, repo2 string, penv2 map[string]string) string {
			_, pl, err := signStep(k, st2, repo2, penv2)
			if err != nil {
				return "<error " + err.Error() + ">"
			}
			return pl
		}
		collide := func(what string, st2 *pipeline.CommandStep, penv2 map[string]string) {
			c.res.OracleChecks++
			if pl := sign(st2, repo, penv2); pl != payload0 {
				c.res.Fail(core.OracleFailure{What: "payload changed under " + what, Input: desc, Got: firstDiff(pl, payload0)})
			}
			c.res.Hist("collide." + what)
		}
		if iter%3 == 0 && !hasUnknownStep(p.Steps) {
			// the same step signed where it stands — through SignSteps over the whole list, inside whatever groups
			// it is nested in — has the same payload as signed on its own
			if fp, _ := pipeline.Parse(bytes.NewReader(src)); fp != nil && len(commandStepsOf(fp.Steps)) == len(cmds) {
				lg := &captureLogger{}
				err := signature.SignSteps(context.Background(), fp.Steps, k.signer, repo, signature.WithEnv(copyEnv(penv)), signature.WithLogger(lg), signature.WithDebugSigning(true))
				if inPlace := commandStepsOf(fp.Steps)[idx].Signature; err == nil && inPlace != nil {
					c.res.OracleChecks++
					if got, want := strings.Join(inPlace.SignedFields, ","), strings.Join(sig.SignedFields, ","); got != want {
						c.res.Fail(core.OracleFailure{What: "the step signed in place through SignSteps covers a different field list than signed on its own (same env, repository, key)", Input: desc, Got: got, Want: want})
					}
				}
				if err == nil && len(lg.all) == len(cmds) {
					c.res.OracleChecks++
					c.res.Hist("collide.signed in place through SignSteps")
					// (the pipeline env was drawn for this step; other steps may shadow other names, this one's payload must agree)
					if lg.all[idx] != payload0 {
						c.res.Fail(core.OracleFailure{What: "payload changed under signing the step in place through SignSteps", Input: desc, Got: firstDiff(lg.all[idx], payload0)})
					}
				}
			}
		}
		if s2 := ss.fresh(); s2 != nil {
			// repeated run, fresh parse (different map insertion/iteration history)
			collide("a fresh parse (run-to-run determinism)", s2, copyEnv(penv))
		}
		if s2 := ss.fresh(); s2 != nil {
			if len(s2.Env) == 0 {
				if s2.Env == nil {
					s2.Env = map[string]string{}
				} else {
					s2.Env = nil
				}
			}
			if len(s2.Plugins) == 0 {
				if s2.Plugins == nil {
					s2.Plugins = pipeline.Plugins{}
				} else {
					s2.Plugins = nil
				}
			}
			// (emptiness judged here, not by the library's IsEmpty: no setup dimension, no adjustment, nothing else)
			if m := s2.Matrix; m == nil || (len(m.Setup) == 0 && len(m.Adjustments) == 0 && len(m.RemainingFields) == 0) {
				// every spelling of `no matrix`: nil, the zero struct, empty non-nil containers
				spellings := []*pipeline.Matrix{
					nil,
					{},
					{Setup: pipeline.MatrixSetup{}},
					{Adjustments: pipeline.MatrixAdjustments{}},
					{Setup: pipeline.MatrixSetup{}, Adjustments: pipeline.MatrixAdjustments{}, RemainingFields: map[string]any{}},
				}
				pick := spellings[rng.Intn(len(spellings))]
				if (pick == nil) == (m == nil) && rng.Intn(2) == 0 {
					pick = spellings[(rng.Intn(len(spellings)-1)+1)%len(spellings)]
				}
				if pick == nil && m == nil {
					pick = spellings[1+rng.Intn(len(spellings)-1)]
				}
				s2.Matrix = pick
			} else if len(m.Adjustments) == 0 {
				// a matrix with dimensions: no adjustments is no adjustments, nil or empty
				if m.Adjustments == nil {
					m.Adjustments = pipeline.MatrixAdjustments{}
				} else {
					m.Adjustments = nil
				}
			}
			var pe map[string]string
			if len(penv) == 0 {
				if penv == nil {
					pe = map[string]string{}
				}
			} else {
				pe = copyEnv(penv)
			}
			collide("nil versus empty env/plugins/matrix", s2, pe)
		}
		if s2 := ss.fresh(); s2 != nil && len(s2.Plugins) > 0 {
			for _, pl := range s2.Plugins {
				pl.Source = pl.FullSource()
				if m, ok := pl.Config.(map[string]any); ok && len(m) == 0 {
					pl.Config = nil
				}
			}
			collide("canonical plugin source spelling / empty config as null", s2, copyEnv(penv))
		}
		if s2 := ss.fresh(); s2 != nil {
			// the documented expansion of the two short forms, written out here (not taken from the library):
			// name#ref -> github.com/buildkite-plugins/name-buildkite-plugin#ref, org/name#ref -> github.com/org/name-buildkite-plugin#ref
			changed := false
			for _, pl := range s2.Plugins {
				if m := c14ShortSourceRE.FindStringSubmatch(pl.Source); m != nil {
					org := "buildkite-plugins"
					if m[1] != "" {
						org = strings.TrimSuffix(m[1], "/")
					}
					ref := m[3]
					if ref == "#" {
						ref = "" // an empty ref is no ref
					}
					pl.Source = "github.com/" + org + "/" + m[2] + "-buildkite-plugin" + ref
					changed = true
				}
			}
			if changed {
				collide("the documented expansion of a short plugin source (whatever its ref looks like)", s2, copyEnv(penv))
			}
		}
		// ---- must not collide ----
		differ := func(what string, st2 *pipeline.CommandStep, repo2 string, penv2 map[string]string) {
			c.res.OracleChecks++
			if pl := sign(st2, repo2, penv2); pl == payload0 {
				c.res.Fail(core.OracleFailure{What: "payload unchanged under " + what, Input: desc, Got: pl})
			}
			c.res.Hist("differ." + what)
		}
		if s2 := ss.fresh(); s2 != nil {
			s2.Command += "x"
			differ("command +1 char", s2, repo, copyEnv(penv))
		}
		differ("repository URL +1 char", st, repo+"/", copyEnv(penv))
		if s2 := ss.fresh(); s2 != nil {
			// boundary shift between command and an env value
			if s2.Env == nil {
				s2.Env = map[string]string{}
			}
			s2.Env["ZSHIFT"] = "bc"
			base := sign(s2, repo, copyEnv(penv))
			s3 := ss.fresh()
			if s3.Env == nil {
				s3.Env = map[string]string{}
			}
			s3.Command += "b"
			s3.Env["ZSHIFT"] = "c"
			s2.Command += "" // s2: command C, ZSHIFT=bc ; s3: command C+"b", ZSHIFT="c"
			c.res.OracleChecks++
			if sign(s3, repo, copyEnv(penv)) == base {
				c.res.Fail(core.OracleFailure{What: "characters moved between command and an env value give the same payload", Input: desc})
			}
			// key/value shift
			s4, s5 := ss.fresh(), ss.fresh()
			if s4.Env == nil {
				s4.Env, s5.Env = map[string]string{}, map[string]string{}
			}
			s4.Env["ab"] = "c"
			s5.Env["a"] = "bc"
			c.res.OracleChecks++
			if sign(s4, repo, copyEnv(penv)) == sign(s5, repo, copyEnv(penv)) {
				c.res.Fail(core.OracleFailure{What: "characters moved between an env name and its value give the same payload", Input: desc})
			}
			c.res.Hist("differ.boundary-shifts")
		}
		{
			// step env entry versus pipeline env entry
			s6, s7 := ss.fresh(), ss.fresh()
			if s6 != nil {
				if s6.Env == nil {
					s6.Env = map[string]string{}
				}
				name := "ZNS"
				s6.Env[name] = "v"
				pe7 := copyEnv(penv)
				pe7[name] = "v"
				pe6 := copyEnv(penv)
				delete(pe6, name)
				c.res.OracleChecks++
				if sign(s6, repo, pe6) == sign(s7, repo, pe7) {
					c.res.Fail(core.OracleFailure{What: "a step env entry and a pipeline env entry with the same name and value give the same payload", Input: desc})
				}
				c.res.Hist("differ.env-namespace")
			}
		}
		if st.Matrix != nil {
			// every part of the matrix is signed content: an extra key, another dimension value, an adjustment
			if s2 := ss.fresh(); s2 != nil && s2.Matrix != nil {
				if s2.Matrix.RemainingFields == nil {
					s2.Matrix.RemainingFields = map[string]any{}
				}
				s2.Matrix.RemainingFields["zz_extra_matrix_key"] = 1
				differ("matrix gains an unknown key", s2, repo, copyEnv(penv))
			}
			// member boundaries inside nested (order-preserving) mappings: a key carrying quote, colon and comma
			// must not read as two members
			{
				sa, sb := ss.fresh(), ss.fresh()
				if sa != nil && sb != nil && sa.Matrix != nil && sb.Matrix != nil {
					for _, x := range []*pipeline.CommandStep{sa, sb} {
						if x.Matrix.RemainingFields == nil {
							x.Matrix.RemainingFields = map[string]any{}
						}
					}
					sa.Matrix.RemainingFields["zz_nested"] = ordered.MapFromItems(ordered.TupleSA{Key: "x\":1,\"y", Value: 2})
					sb.Matrix.RemainingFields["zz_nested"] = ordered.MapFromItems(ordered.TupleSA{Key: "x", Value: 1}, ordered.TupleSA{Key: "y", Value: 2})
					c.res.OracleChecks++
					if pa, pb := sign(sa, repo, copyEnv(penv)), sign(sb, repo, copyEnv(penv)); pa == pb && pa != "" {
						c.res.Fail(core.OracleFailure{What: "a nested key containing a quote gives the same payload as two separate members", Input: desc, Got: pa})
					}
					c.res.Hist("differ.nested-key-injection")
				}
			}
			if s2 := ss.fresh(); s2 != nil && s2.Matrix != nil && len(s2.Matrix.Setup) > 0 {
				for _, d := range sortedKeysS(s2.Matrix.Setup) {
					s2.Matrix.Setup[d] = append(s2.Matrix.Setup[d], "zz-extra-value")
					break
				}
				differ("matrix dimension gains a value", s2, repo, copyEnv(penv))
			}
			if s2 := ss.fresh(); s2 != nil && s2.Matrix != nil {
				s2.Matrix.Adjustments = append(s2.Matrix.Adjustments, &pipeline.MatrixAdjustment{With: pipeline.MatrixAdjustmentWith{"": "zz"}, Skip: true})
				differ("matrix gains an adjustment", s2, repo, copyEnv(penv))
			}
			// unknown keys spelled like the typed fields (API-built, or a key interpolated onto the name) never stand in
			// for the typed field: two steps that differ in the real setup / skip still differ with the decoys present
			{
				sa, sb := ss.fresh(), ss.fresh()
				if sa != nil && sb != nil && sa.Matrix != nil && sb.Matrix != nil && len(sa.Matrix.Setup) > 0 {
					for _, x := range []*pipeline.CommandStep{sa, sb} {
						if x.Matrix.RemainingFields == nil {
							x.Matrix.RemainingFields = map[string]any{}
						}
						x.Matrix.RemainingFields["setup"] = []any{"decoy"}
						x.Matrix.RemainingFields["adjustments"] = "decoy"
						for _, a := range x.Matrix.Adjustments {
							if a != nil {
								if a.RemainingFields == nil {
									a.RemainingFields = map[string]any{}
								}
								a.RemainingFields["skip"] = "decoy"
								a.RemainingFields["with"] = "decoy"
							}
						}
					}
					for _, d := range sortedKeysS(sb.Matrix.Setup) {
						sb.Matrix.Setup[d] = append(sb.Matrix.Setup[d], "zz-extra-value")
						break
					}
					c.res.OracleChecks++
					if pa, pb := sign(sa, repo, copyEnv(penv)), sign(sb, repo, copyEnv(penv)); pa == pb && !strings.HasPrefix(pa, "<error") {
						c.res.Fail(core.OracleFailure{What: "two steps that differ in a matrix dimension's values have the same payload when both carry unknown keys named like the typed fields", Input: desc, Got: pa})
					}
					c.res.Hist("differ.typed-field-behind-decoy-keys")
				}
			}
		}
		if len(st.Plugins) >= 1 {
			if s2 := ss.fresh(); s2 != nil && len(s2.Plugins) >= 1 {
				s2.Plugins[0].Source = withPluginSuffix(s2.Plugins[0].Source)
				differ("plugin source gains the -buildkite-plugin suffix", s2, repo, copyEnv(penv))
			}
		}
		differ("repository URL loses its last character", st, trimLast(repo), copyEnv(penv))
		if len(st.Plugins) >= 1 {
			// a falsy scalar is a config of its own: not null, not {} and not another falsy scalar
			cur, _ := json.Marshal(st.Plugins[0].Config)
			if m, ok := st.Plugins[0].Config.(map[string]any); ok && len(m) == 0 {
				cur = []byte("null")
			}
			if l, ok := st.Plugins[0].Config.([]any); ok && len(l) == 0 {
				cur = []byte("null")
			}
			for _, cand := range []any{false, 0, "", nil} {
				cj, _ := json.Marshal(cand)
				if string(cj) == string(cur) {
					continue
				}
				if s2 := ss.fresh(); s2 != nil {
					s2.Plugins[0].Config = cand
					differ(fmt.Sprintf("plugin config replaced by %s", cj), s2, repo, copyEnv(penv))
				}
			}
		}
		if st.Matrix != nil {
			// key order inside order-preserving mappings nested in the signed matrix is not part of the payload
			if s2 := ss.fresh(); s2 != nil && s2.Matrix != nil {
				changed := false
				var rev func(v any) any
				rev = func(v any) any {
					switch t := v.(type) {
					case *ordered.MapSA:
						var ks []string
						var vs []any
						t.Range(func(k string, x any) error { ks = append(ks, k); vs = append(vs, rev(x)); return nil })
						out := ordered.NewMap[string, any](len(ks))
						for i := len(ks) - 1; i >= 0; i-- {
							out.Set(ks[i], vs[i])
						}
						if len(ks) > 1 {
							changed = true
						}
						return out
					case []any:
						out := make([]any, len(t))
						for i, e := range t {
							out[i] = rev(e)
						}
						return out
					case map[string]any:
						out := map[string]any{}
						for k, x := range t {
							out[k] = rev(x)
						}
						return out
					}
					return v
				}
				for k, v := range s2.Matrix.RemainingFields {
					s2.Matrix.RemainingFields[k] = rev(v)
				}
				for _, a := range s2.Matrix.Adjustments {
					if a != nil {
						for k, v := range a.RemainingFields {
							a.RemainingFields[k] = rev(v)
						}
					}
				}
				if changed {
					collide("keys of nested order-preserving mappings inside the matrix reordered", s2, copyEnv(penv))
				}
			}
		}
		if len(st.Plugins) >= 2 && st.Plugins[0].FullSource() != st.Plugins[1].FullSource() {
			s2 := ss.fresh()
			s2.Plugins[0], s2.Plugins[1] = s2.Plugins[1], s2.Plugins[0]
			differ("plugins reordered", s2, repo, copyEnv(penv))
		}
		if len(penv) > 0 {
			for kk := range penv {
				if _, shadow := st.Env[kk]; !shadow {
					pe := copyEnv(penv)
					pe[kk] += "!"
					differ("a signed pipeline env value +1 char", st, repo, pe)
					// the name is signed as spelled: the same value under the name in another case is another variable
					for _, alt := range []string{strings.ToUpper(kk), strings.ToLower(kk)} {
						if _, taken := penv[alt]; alt != kk && !taken {
							if _, shadow := st.Env[alt]; !shadow {
								pe2 := copyEnv(penv)
								pe2[alt] = pe2[kk]
								delete(pe2, kk)
								differ("a signed pipeline env variable renamed to another case", st, repo, pe2)
								break
							}
						}
					}
					break
				}
			}
		}
		otherAlg := core.Pick(rng, keys)
		if otherAlg.alg != k.alg {
			c.res.OracleChecks++
			if _, pl, err := signStep(otherAlg, st, repo, copyEnv(penv)); err == nil && pl == payload0 {
				c.res.Fail(core.OracleFailure{What: "payload does not depend on the algorithm name", Input: desc})
			}
		}
	}
	// integers beyond 2^53 inside plugin configs (recorded finding F12: JCS rounds them to doubles)
	{
		k := keys[0]
		mk := func(n int) *pipeline.CommandStep {
			return &pipeline.CommandStep{Command: "x", Plugins: pipeline.Plugins{{Source: "p#v1", Config: map[string]any{"n": n}}}}
		}
		_, pa, ea := signStep(k, mk(9007199254740993), "r", nil)
		_, pb, eb := signStep(k, mk(9007199254740992), "r", nil)
		c.res.OracleChecks++
		if ea == nil && eb == nil && pa == pb {
			f := core.OracleFailure{What: "two different integers in a plugin config give the same payload", Input: map[string]any{"a": 9007199254740993, "b": 9007199254740992}, Got: pa}
			if id, ok := c.known.has("bigint-jcs-rounding"); ok {
				f.Known = id
			}
			c.res.Fail(f)
		}
		_, pc, _ := signStep(k, mk(9007199254740990), "r", nil)
		_, pd, _ := signStep(k, mk(9007199254740991), "r", nil)
		if pc == pd {
			c.res.Fail(core.OracleFailure{What: "two different integers below 2^53 give the same payload", Input: "9007199254740990 / 9007199254740991"})
		}
	}
	c.res.Rule = "command steps (all depths) of generated pipelines, signed with every key kind (EdDSA, ES512, PS512 JWKs, ES256 crypto.Signer) with random repository URLs and pipeline envs overlapping the step env; payload bytes captured from Sign and Verify and compared with the model; for each step: re-spellings that must collide (fresh parse, nil vs empty env/plugins/matrix, canonical source spelling) and boundary-shifting / single-point variants that must not. Non-trivial = the step has plugins, env or matrix; distinct by payload."
	mm, total, err := core.RunSessions(c.driver, []*core.Session{sess}, 20, 0)
	c.res.ModelRequests = total
	c.res.Mismatches = mm
	return err
}

var _ = fmt.Sprint

func trimLast(s string) string {
	if s == "" {
		return "x"
	}
	return s[:len(s)-1]
}
