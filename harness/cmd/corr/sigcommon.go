package main

// Shared helpers for the signing checks (C14, C01, C06, C02): keys of every supported kind,
// payload capture through WithDebugSigning, step sources.

import (
	"bytes"
	"context"
	"crypto"
	"crypto/ecdsa"
	"crypto/elliptic"
	"crypto/rand"
	"fmt"
	"io"
	"regexp"
	"strings"
	"sync"

	pipeline "github.com/buildkite/go-pipeline"
	"github.com/buildkite/go-pipeline/jwkutil"
	"github.com/buildkite/go-pipeline/signature"
	"github.com/lestrrat-go/jwx/v2/jwa"
	"gopkg.in/yaml.v3"

	"verifharness/core"
	"verifharness/gen"
)

type es256Signer struct {
	priv *ecdsa.PrivateKey
}

func (s es256Signer) Public() crypto.PublicKey { return &s.priv.PublicKey }
func (s es256Signer) Sign(r io.Reader, digest []byte, _ crypto.SignerOpts) ([]byte, error) {
	return ecdsa.SignASN1(r, s.priv, digest)
}
func (s es256Signer) Algorithm() jwa.KeyAlgorithm { return jwa.ES256 }

// sigKey: a signing key with its verification key set (any), its kind and a numeric identity.
type sigKey struct {
	id     int
	kind   string
	signer signature.Key
	verif  any // jwk.Set or crypto.Signer
	alg    string
}

var (
	sigKeysOnce sync.Once
	sigKeysAll  []sigKey
)

func sigKeys() []sigKey {
	sigKeysOnce.Do(func() {
		id := 0
		for _, alg := range []jwa.SignatureAlgorithm{jwa.EdDSA, jwa.ES512, jwa.PS512} {
			for r := 0; r < 2; r++ {
				priv, pub, err := jwkutil.NewKeyPair(fmt.Sprintf("k%d", id), alg)
				if err != nil {
					panic(err)
				}
				k, _ := priv.Key(0)
				sigKeysAll = append(sigKeysAll, sigKey{id: id, kind: alg.String(), signer: k, verif: pub, alg: alg.String()})
				id++
			}
		}
		for r := 0; r < 2; r++ {
			pk, err := ecdsa.GenerateKey(elliptic.P256(), rand.Reader)
			if err != nil {
				panic(err)
			}
			s := es256Signer{pk}
			sigKeysAll = append(sigKeysAll, sigKey{id: id, kind: "ES256-signer", signer: s, verif: s, alg: "ES256"})
			id++
		}
	})
	return sigKeysAll
}

type captureLogger struct {
	payload string
	all     []string // every payload seen, in signing order
}

var signedStepRE = regexp.MustCompile(`(?s)^Signed Step: (.*) checksum: [0-9a-f]+$`)

func (l *captureLogger) Debug(f string, v ...any) {
	s := fmt.Sprintf(f, v...)
	if m := signedStepRE.FindStringSubmatch(s); m != nil {
		l.payload = m[1]
		l.all = append(l.all, m[1])
	}
}

// signStep signs one command step and captures the payload that was signed.
func signStep(k sigKey, c *pipeline.CommandStep, repo string, penv map[string]string) (*pipeline.Signature, string, error) {
	lg := &captureLogger{}
	sf := &signature.CommandStepWithInvariants{CommandStep: *c, RepositoryURL: repo}
	sig, err := signature.Sign(context.Background(), k.signer, sf, signature.WithEnv(penv), signature.WithLogger(lg), signature.WithDebugSigning(true))
	return sig, lg.payload, err
}

func verifyStep(k sigKey, sig *pipeline.Signature, c *pipeline.CommandStep, repo string, env map[string]string) (err error, payload string, panicked bool) {
	lg := &captureLogger{}
	sf := &signature.CommandStepWithInvariants{CommandStep: *c, RepositoryURL: repo}
	p, _ := guard(func() {
		err = signature.Verify(context.Background(), sig, k.verif, sf, signature.WithEnv(env), signature.WithLogger(lg), signature.WithDebugSigning(true))
	})
	return err, lg.payload, p
}

// sigStrPool: strings for signed content (JSON-safe: no control characters the codecs would reject).
func sigStr(r *core.Rand) string {
	return core.Pick(r, []string{"build", "make test", "echo \"hi\"", "a\\b", "multi\nline", "é😀", "", "x", "k=v", "$HOME", "{{matrix}}", "tab\there", "<&>", " ", "a,b", "a\":\"b", "true", "1", "null"})
}

// commandStepsFromDoc parses a generated document and returns its command steps (all depths).
// corpusOrGenerated: the regression corpus first (each document `times` times), then generated pipelines.
func (c *ctx) corpusOrGenerated(i, times int, r *core.Rand, groupDepth, groupBias int) (*pipeline.Pipeline, []byte) {
	if d := c.corpusAt(i, times); d != nil {
		src := []byte(d.Document)
		p, perr := pipeline.Parse(bytes.NewReader(src))
		if p == nil || (perr != nil && !isWarning(perr)) {
			return nil, src
		}
		return p, src
	}
	return genParsedPipelineBias(r, c.res.Hist, groupDepth, groupBias)
}

func commandStepsOf(ss pipeline.Steps) []*pipeline.CommandStep {
	var out []*pipeline.CommandStep
	for _, s := range ss {
		switch t := s.(type) {
		case *pipeline.CommandStep:
			out = append(out, t)
		case *pipeline.GroupStep:
			out = append(out, commandStepsOf(t.Steps)...)
		}
	}
	return out
}

func genParsedPipeline(r *core.Rand, hist func(string), groupDepth int) (*pipeline.Pipeline, []byte) {
	return genParsedPipelineBias(r, hist, groupDepth, 0)
}

func genParsedPipelineBias(r *core.Rand, hist func(string), groupDepth, groupBias int) (*pipeline.Pipeline, []byte) {
	o := &gen.Opts{R: r, Str: sigStr, Key: gen.DefaultKey, UntypedExotic: false, MaxGroupDepth: groupDepth, MaxMapSize: 12, Hist: hist, GroupBias: groupBias}
	doc := o.Pipeline()
	src, err := yaml.Marshal(doc)
	if err != nil {
		return nil, nil
	}
	p, perr := pipeline.Parse(bytes.NewReader(src))
	if p == nil || (perr != nil && !isWarning(perr)) {
		return nil, src
	}
	return p, src
}

func randPenv(r *core.Rand, c *pipeline.CommandStep) map[string]string {
	penv := map[string]string{}
	names := []string{"FOO", "BAR", "DEPLOY", "A", "é", "", "x y"}
	for k := range c.Env {
		if r.Intn(2) == 0 {
			names = append(names, k) // overlap with the step's own env (shadowed)
		}
		if r.Intn(3) == 0 {
			// the same name in another case: another variable (env names are case-sensitive here), not shadowed
			if v := strings.ToLower(k); v != k {
				names = append(names, v)
			} else if v := strings.ToUpper(k); v != k {
				names = append(names, v)
			}
		}
	}
	for i := r.Intn(5); i > 0; i-- {
		penv[core.Pick(r, names)] = sigStr(r)
	}
	if r.Intn(6) == 0 {
		return nil
	}
	return penv
}

func copyEnv(m map[string]string) map[string]string {
	out := make(map[string]string, len(m))
	for k, v := range m {
		out[k] = v
	}
	return out
}
