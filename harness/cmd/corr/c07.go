package main

// C07 / C08 — DecodeYAML on anchor/alias/merge graphs (from real yaml.v3 parses, plus graph surgery
// for back-edges that text cannot express) vs the Lean graph model; yaml.v3's own merge handling as an
// independent oracle on acyclic documents with string keys and at most one `<<` per mapping.

import (
	"fmt"
	"reflect"
	"runtime/debug"
	"strings"
	"time"

	"github.com/buildkite/go-pipeline/ordered"
	"gopkg.in/yaml.v3"

	"verifharness/core"
	"verifharness/dump"
	"verifharness/vl"
)

func init() { checks["C07"] = runC07 }

// ----- node graph -> store -----

type storeBuilder struct {
	ids   map[*yaml.Node]int
	nodes []*yaml.Node
}

func (b *storeBuilder) id(n *yaml.Node) int {
	if i, ok := b.ids[n]; ok {
		return i
	}
	i := len(b.nodes)
	b.ids[n] = i
	b.nodes = append(b.nodes, n)
	for _, c := range n.Content {
		b.id(c)
	}
	if n.Alias != nil {
		b.id(n.Alias)
	}
	return i
}

func canonicalKeyOracle(n *yaml.Node) any {
	// the documented rule, written independently of ordered/yaml.go
	var x any
	if err := n.Decode(&x); err != nil {
		return nil
	}
	if x == nil || n.Tag == "!!null" {
		return nil
	}
	switch n.Tag {
	case "!!bool":
		return fmt.Sprintf("%t", x)
	case "!!int":
		return fmt.Sprintf("%d", x)
	case "!!float":
		return fmt.Sprintf("%e", x)
	}
	return n.Value
}

func storeVL(root *yaml.Node) ([]any, int) {
	b := &storeBuilder{ids: map[*yaml.Node]int{}}
	r := b.id(root)
	out := make([]any, len(b.nodes))
	for i, n := range b.nodes {
		kind := "other"
		switch n.Kind {
		case yaml.ScalarNode:
			kind = "scalar"
		case yaml.SequenceNode:
			kind = "sequence"
		case yaml.MappingNode:
			kind = "mapping"
		case yaml.AliasNode:
			kind = "alias"
		case yaml.DocumentNode:
			kind = "document"
		}
		var dec, key any
		if n.Kind == yaml.ScalarNode {
			var v any
			if err := n.Decode(&v); err == nil {
				dec = []any{dump.Any(v)}
			}
			key = canonicalKeyOracle(n)
		}
		content := make([]any, len(n.Content))
		for j, c := range n.Content {
			content[j] = b.ids[c]
		}
		var al any
		if n.Alias != nil {
			al = b.ids[n.Alias]
		}
		out[i] = []any{kind, n.Tag == "!!merge", dec, key, content, al}
	}
	return out, r
}

// ----- document generator (flow style) -----

type c07Gen struct {
	r                                  *core.Rand
	anchors                            []string // anchors of mappings defined so far
	seqs                               []string // anchors of sequences
	scalars                            []string // anchors of scalars
	multiMerge, aliasKey, nonStringKey bool
	stringKeysOnly                     bool // half of the documents: string keys only, so yaml.v3's own merge resolution can judge them
}

var c07Keys = []string{"a", "b", "c", "k1", "k2", "x", "y", "name", "1", "true", "16", "1000", "8", "7", "0x10"}

func (g *c07Gen) scalar() string {
	return core.Pick(g.r, []string{"v", "w", "1", "0x1f", "010", "true", "1.5", "~", "null", "\"q\"", "two words", "2002-08-15", "-3", "1e3", "''"})
}

func (g *c07Gen) value(depth int) string {
	r := g.r
	switch r.Intn(9) {
	case 0:
		if len(g.anchors) > 0 {
			return "*" + core.Pick(r, g.anchors)
		}
	case 1:
		if len(g.seqs) > 0 {
			return "*" + core.Pick(r, g.seqs)
		}
	case 2:
		if len(g.scalars) > 0 {
			return "*" + core.Pick(r, g.scalars)
		}
	case 3:
		if depth > 0 {
			return g.mapping(depth-1, "")
		}
	case 4:
		if depth > 0 {
			n := r.Intn(3)
			parts := make([]string, n)
			for i := range parts {
				parts[i] = g.value(depth - 1)
			}
			return "[" + strings.Join(parts, ", ") + "]"
		}
	}
	return g.scalar()
}

func (g *c07Gen) mapping(depth int, anchor string) string {
	r := g.r
	var parts []string
	n := r.Intn(4)
	merges := 0
	for i := 0; i <= n; i++ {
		if len(g.anchors) > 0 && r.Intn(3) == 0 {
			// a merge key, anywhere among the pairs
			switch r.Intn(3) {
			case 0:
				parts = append(parts, "<<: *"+core.Pick(r, g.anchors))
			case 1:
				k := 1 + r.Intn(3)
				as := make([]string, k)
				for j := range as {
					as[j] = "*" + core.Pick(r, g.anchors)
				}
				parts = append(parts, "<<: ["+strings.Join(as, ", ")+"]")
			default:
				parts = append(parts, "<<: "+g.mappingNoAnchor())
			}
			merges++
			continue
		}
		key := core.Pick(r, g.keyPool())
		if len(g.scalars) > 0 && r.Intn(8) == 0 && !g.stringKeysOnly {
			key = "*" + core.Pick(r, g.scalars) + " "
			g.aliasKey = true
		}
		if nonStringKeys[key] {
			g.nonStringKey = true
		}
		parts = append(parts, key+": "+g.value(depth))
	}
	if merges > 1 {
		g.multiMerge = true
	}
	a := ""
	if anchor != "" {
		a = "&" + anchor + " "
	}
	return a + "{" + strings.Join(parts, ", ") + "}"
}

func (g *c07Gen) keyPool() []string {
	if g.stringKeysOnly {
		return c07Keys[:8]
	}
	return c07Keys
}

func (g *c07Gen) mappingNoAnchor() string {
	key := core.Pick(g.r, g.keyPool())
	if nonStringKeys[key] {
		g.nonStringKey = true
	}
	return "{" + key + ": " + g.scalar() + "}"
}

// keys that are not strings (yaml.v3's own decoding keeps them typed; the comparison with it is left out)
var nonStringKeys = map[string]bool{"1": true, "true": true, "16": true, "1000": true, "8": true, "7": true, "0x10": true}

func (g *c07Gen) document() string {
	r := g.r
	var lines []string
	nd := r.Intn(6)
	for i := 0; i < nd; i++ {
		switch r.Intn(5) {
		case 0:
			a := fmt.Sprintf("s%d", i)
			lines = append(lines, fmt.Sprintf("d%d: &%s %s", i, a, core.Pick(r, []string{"sv", "k1", "7", "true", "x y", "0x10", "TRUE", "1_000", "010", "1.50", "16", "+7"})))
			g.scalars = append(g.scalars, a)
		case 1:
			a := fmt.Sprintf("q%d", i)
			lines = append(lines, fmt.Sprintf("d%d: &%s [%s, %s]", i, a, g.value(1), g.value(1)))
			g.seqs = append(g.seqs, a)
		default:
			a := fmt.Sprintf("m%d", i)
			lines = append(lines, fmt.Sprintf("d%d: %s", i, g.mapping(1, a)))
			g.anchors = append(g.anchors, a)
		}
	}
	nb := 1 + r.Intn(4)
	for i := 0; i < nb; i++ {
		lines = append(lines, fmt.Sprintf("b%d: %s", i, g.value(2)))
	}
	if len(g.anchors) > 0 && r.Intn(2) == 0 {
		a := core.Pick(r, g.anchors)
		lines = append(lines, "copy1: *"+a, "copy2: *"+a)
	}
	if len(g.anchors) > 0 && r.Intn(3) == 0 {
		lines = append(lines, "<<: *"+core.Pick(r, g.anchors))
	}
	return strings.Join(lines, "\n") + "\n"
}

func stackedDiamonds(layers int) string {
	var b strings.Builder
	b.WriteString("l0a: &l0a {k0a: 0}\nl0b: &l0b {k0b: 0}\n")
	for i := 1; i <= layers; i++ {
		fmt.Fprintf(&b, "l%da: &l%da {<<: [*l%da, *l%db], k%da: %d}\n", i, i, i-1, i-1, i, i)
		fmt.Fprintf(&b, "l%db: &l%db {<<: [*l%da, *l%db], k%db: %d}\n", i, i, i-1, i-1, i, i)
	}
	fmt.Fprintf(&b, "top: {<<: [*l%da, *l%db]}\n", layers, layers)
	return b.String()
}

func classifyDecodeErr(err error) string {
	if err == nil {
		return "ok"
	}
	if strings.Contains(err.Error(), "infinite recursion") {
		return "err:recursion"
	}
	return "err:other"
}

type decodeResult struct {
	v   any
	err error
	pn  string
}

func decodeWithTimeout(n *yaml.Node, d time.Duration) (decodeResult, bool) {
	ch := make(chan decodeResult, 1)
	go func() {
		var res decodeResult
		func() {
			defer func() {
				if r := recover(); r != nil {
					res.pn = fmt.Sprint(r)
				}
			}()
			res.v, res.err = ordered.DecodeYAML(n)
		}()
		ch <- res
	}()
	select {
	case res := <-ch:
		return res, true
	case <-time.After(d):
		return decodeResult{}, false
	}
}

func collectNodes(n *yaml.Node, seen map[*yaml.Node]bool, out *[]*yaml.Node) {
	if n == nil || seen[n] {
		return
	}
	seen[n] = true
	*out = append(*out, n)
	for _, c := range n.Content {
		collectNodes(c, seen, out)
	}
	collectNodes(n.Alias, seen, out)
}

func runC07(c *ctx) error {
	debug.SetMaxStack(256 << 20) // a runaway recursion dies quickly instead of after 1 GB of stack
	const nShard = 8
	var shards []*core.Session
	for i := 0; i < nShard; i++ {
		shards = append(shards, core.NewSession("c07"))
	}
	rng := c.rng.Fork()
	n := 6000
	if c.thorough() {
		n = 100000
	}
	for i := 0; i < n; i++ {
		g := &c07Gen{r: rng, stringKeysOnly: rng.Bool()}
		src := g.document()
		if i%250 == 3 {
			// a document rejected while its keys are being collected (ordinary keys, then a null / non-scalar key),
			// decoded and discarded; whatever that left behind must not leak into the next document
			var rej yaml.Node
			bad := core.Pick(rng, []string{"timeout: 5\nretries: 2\nqueue: q\n~: oops\n", "a: 1\nb: 2\nk1: 3\n? [x, y]\n: v\n", "name: n\nx: 1\ny: 2\nc: 3\n? {m: 1}\n: v\n"})
			if yaml.Unmarshal([]byte(bad), &rej) == nil {
				decodeWithTimeout(&rej, 20*time.Second)
			}
			src = "defaults: &d {timeout: 10, retries: 3, a: A, b: B, name: N, x: X}\n<<: *d\nqueue: q\n"
			g = &c07Gen{r: rng}
			c.res.Hist("doc.after-a-rejected-document")
		}
		if i%500 == 7 {
			// stacked diamonds: every layer merges both mappings of the layer below, so the number of merge paths
			// doubles per layer while the result stays linear in size; decoding must stay fast
			src = stackedDiamonds(22 + rng.Intn(6))
			g.multiMerge = true
			c.res.Hist("doc.stacked-diamonds")
		}
		noSurgery := false
		if i%40 == 11 {
			// merge levels: a sequence of sources in which an earlier source gets a key only through its OWN merge
			// (one or two levels down) and a later source defines the same key — depth first, the earlier source wins
			k := core.Pick(rng, []string{"region", "k1", "x", "name"})
			chain := "base: &base {" + k + ": from-base, only_base: 1}\n"
			first := "*base"
			for lv := 1 + rng.Intn(2); lv > 0; lv-- {
				chain += fmt.Sprintf("mid%d: &mid%d {<<: %s, own%d: %d}\n", lv, lv, first, lv, lv)
				first = fmt.Sprintf("*mid%d", lv)
			}
			other := "other: &other {" + k + ": from-other, only_other: 2}\n"
			srcs := "[" + first + ", *other]"
			want := "from-base"
			if rng.Intn(3) == 0 {
				srcs, want = "[*other, "+first+"]", "from-other"
			}
			src = chain + other + "out: {<<: " + srcs + ", tail: t}\n"
			g = &c07Gen{r: rng, stringKeysOnly: true}
			noSurgery = true
			c.res.Hist("doc.merge-sequence-over-merge-levels")
			_ = want
		}
		var root yaml.Node
		if err := yaml.Unmarshal([]byte(src), &root); err != nil {
			c.res.Hist("yaml.rejects")
			continue
		}
		surgery := ""
		if !noSurgery && rng.Intn(4) == 0 {
			// back-edges that text cannot express
			var all []*yaml.Node
			collectNodes(&root, map[*yaml.Node]bool{}, &all)
			var maps, aliases, seqs []*yaml.Node
			for _, x := range all {
				switch x.Kind {
				case yaml.MappingNode:
					maps = append(maps, x)
				case yaml.AliasNode:
					aliases = append(aliases, x)
				case yaml.SequenceNode:
					seqs = append(seqs, x)
				}
			}
			switch rng.Intn(6) {
			case 0: // an alias pointing at an ancestor-or-other mapping (value cycle or not)
				if len(aliases) > 0 && len(maps) > 0 {
					core.Pick(rng, aliases).Alias = core.Pick(rng, maps)
					surgery = "alias-retarget"
				}
			case 1: // a mapping merging itself / another mapping directly (no alias node)
				if len(maps) > 0 {
					m := core.Pick(rng, maps)
					m.Content = append(m.Content, &yaml.Node{Kind: yaml.ScalarNode, Tag: "!!merge", Value: "<<"}, core.Pick(rng, maps))
					surgery = "direct-merge-edge"
				}
			case 2: // a sequence containing an ancestor
				if len(seqs) > 0 && len(maps) > 0 {
					s := core.Pick(rng, seqs)
					s.Content = append(s.Content, core.Pick(rng, maps))
					surgery = "sequence-back-edge"
				}
			case 3: // a mapping value that is the mapping itself
				if len(maps) > 0 {
					m := core.Pick(rng, maps)
					m.Content = append(m.Content, &yaml.Node{Kind: yaml.ScalarNode, Tag: "!!str", Value: "self"}, m)
					surgery = "self-value"
				}
			case 4: // a merge key whose value is a sequence that (directly or one level down) contains itself,
				// as `<<: &x [*x]` / `<<: &y [[*y]]` / `<<: &z [*m, *z]` give (yaml.v3 accepts these texts)
				if len(maps) > 0 {
					m := core.Pick(rng, maps)
					sq := &yaml.Node{Kind: yaml.SequenceNode, Tag: "!!seq", Anchor: "zs", Style: yaml.FlowStyle}
					self := &yaml.Node{Kind: yaml.AliasNode, Alias: sq, Value: "zs"}
					switch rng.Intn(3) {
					case 0:
						sq.Content = []*yaml.Node{self}
					case 1:
						sq.Content = []*yaml.Node{{Kind: yaml.SequenceNode, Tag: "!!seq", Style: yaml.FlowStyle, Content: []*yaml.Node{self}}}
					default:
						sq.Content = []*yaml.Node{core.Pick(rng, maps), self}
					}
					m.Content = append(m.Content, &yaml.Node{Kind: yaml.ScalarNode, Tag: "!!merge", Value: "<<"}, sq)
					surgery = "merge-sequence-self"
				}
			case 5: // a sequence that contains itself as a value (not under a merge key)
				if len(seqs) > 0 {
					sq := core.Pick(rng, seqs)
					sq.Content = append(sq.Content, &yaml.Node{Kind: yaml.AliasNode, Alias: sq, Value: "zq"})
					surgery = "sequence-self-value"
				}
			}
		}
		store, rootID := storeVL(&root)
		desc := map[string]any{"document": src, "surgery": surgery}
		if surgery != "" {
			core.Current(map[string]any{"property": "C07", "what": "ordered.DecodeYAML on this node graph", "input": desc})
		}
		res, finished := decodeWithTimeout(&root, 20*time.Second)
		if !finished {
			c.res.Fail(core.OracleFailure{What: "DecodeYAML did not return within 20s", Input: desc})
			continue
		}
		if res.pn != "" {
			c.res.Fail(core.OracleFailure{What: "DecodeYAML panicked: " + res.pn, Input: desc})
			continue
		}
		got := classifyDecodeErr(res.err)
		if res.err == nil {
			got = "ok " + vl.Enc(dump.Any(res.v))
		}
		shards[i%nShard].Add(vl.Escape("decode "+vl.Enc(store)+" "+vl.Enc(rootID)), vl.Escape(got))
		c.res.Case(src+surgery, strings.Contains(src, "*"))
		c.res.Hist("outcome." + strings.SplitN(got, " ", 2)[0])
		if surgery != "" {
			c.res.Hist("surgery." + surgery)
		}
		if g.multiMerge {
			c.res.Hist("doc.repeated-merge-keys")
		}
		if g.aliasKey {
			c.res.Hist("doc.alias-as-key")
		}
		if strings.Contains(src, "<<: [") {
			c.res.Hist("doc.merge-sequence")
		}
		if i < 3 {
			c.res.Sample(desc)
		}
		// ---- oracle 1: yaml.v3's own merge semantics (acyclic text documents, string keys, single << per mapping) ----
		if surgery == "" && res.err == nil && !g.multiMerge && !g.nonStringKey && !g.aliasKey {
			var ref any
			if err := yaml.Unmarshal([]byte(src), &ref); err == nil {
				c.res.OracleChecks++
				mine := ordered.ToMapRecursive(res.v)
				if !reflect.DeepEqual(normNums(mine), normNums(ref)) {
					c.res.Fail(core.OracleFailure{What: "key->value content differs from yaml.v3's own merge resolution", Input: desc, Got: fmt.Sprint(mine), Want: fmt.Sprint(ref)})
				}
			}
		}
		// ---- oracle 1c: recursion is reported only for graphs that have a cycle (DFS over content and alias edges) ----
		if strings.HasPrefix(got, "err:recursion") {
			c.res.OracleChecks++
			if nodeGraphAcyclic(&root) {
				c.res.Fail(core.OracleFailure{What: "an acyclic document is rejected as infinitely recursive", Input: desc, Got: fmt.Sprint(res.err)})
			}
		}
		// ---- oracle 1b: an alias in key position gives the key the aliased scalar gives when written in place ----
		if surgery == "" && g.aliasKey {
			var inl yaml.Node
			if yaml.Unmarshal([]byte(src), &inl) == nil {
				var walk func(n *yaml.Node, seen map[*yaml.Node]bool)
				walk = func(n *yaml.Node, seen map[*yaml.Node]bool) {
					if n == nil || seen[n] {
						return
					}
					seen[n] = true
					if n.Kind == yaml.MappingNode {
						for j := 0; j+1 < len(n.Content); j += 2 {
							if k := n.Content[j]; k.Kind == yaml.AliasNode && k.Alias != nil && k.Alias.Kind == yaml.ScalarNode {
								cp := *k.Alias
								cp.Anchor = ""
								n.Content[j] = &cp
							}
						}
					}
					for _, ch := range n.Content {
						walk(ch, seen)
					}
					walk(n.Alias, seen)
				}
				walk(&inl, map[*yaml.Node]bool{})
				if r2, fin := decodeWithTimeout(&inl, 20*time.Second); fin && r2.pn == "" {
					c.res.OracleChecks++
					a, b := classifyDecodeErr(res.err), classifyDecodeErr(r2.err)
					if res.err == nil {
						a = vl.Enc(dump.Any(res.v))
					}
					if r2.err == nil {
						b = vl.Enc(dump.Any(r2.v))
					}
					if a != b {
						c.res.Fail(core.OracleFailure{What: "an alias used as a mapping key gives a different result than the aliased scalar written in place", Input: desc, Got: a, Want: b})
					}
				}
			}
		}
		// ---- oracle 2: each alias expands to an independent copy ----
		if surgery == "" && res.err == nil {
			if top, ok := res.v.(*ordered.MapSA); ok {
				c1, ok1 := top.Get("copy1")
				c2, ok2 := top.Get("copy2")
				if ok1 && ok2 {
					m1, isM1 := c1.(*ordered.MapSA)
					m2, isM2 := c2.(*ordered.MapSA)
					if isM1 && isM2 {
						c.res.OracleChecks++
						if m1 == m2 {
							c.res.Fail(core.OracleFailure{What: "two aliases of one anchor share one object", Input: desc})
						} else {
							m1.Set("\x00mutated", 1)
							if m2.Contains("\x00mutated") || !ordered.EqualSA(func() *ordered.MapSA { m1.Delete("\x00mutated"); return m1 }(), m2) {
								c.res.Fail(core.OracleFailure{What: "two aliases of one anchor are not equal independent copies", Input: desc})
							}
						}
					}
				}
			}
		}
	}
	// ---- oracle 3: precedence by construction, with repeated `<<` keys and sequences of sources. Flat sources with
	// overlapping keys whose values name their source; the body interleaves explicit keys, `<<: *s` and `<<: [*s, *t]`.
	// Expected content: an explicit key has its explicit value wherever it stands; every other key has the value of
	// the first source, in the order the sources are written (across all the `<<` keys), that has it.
	for i := 0; i < n/4; i++ {
		names := []string{"sa", "sb", "sc", "sd"}
		pool := []string{"k1", "k2", "k3", "k4", "k5", "k6"}
		srcKeys := map[string][]string{}
		var b strings.Builder
		b.WriteString("defs:\n")
		for _, sn := range names {
			fmt.Fprintf(&b, "  - &%s {", sn)
			first := true
			for _, k := range pool {
				if rng.Intn(2) == 0 {
					if !first {
						b.WriteString(", ")
					}
					first = false
					fmt.Fprintf(&b, "%s: %s-%s", k, sn, k)
					srcKeys[sn] = append(srcKeys[sn], k)
				}
			}
			b.WriteString("}\n")
		}
		b.WriteString("m:\n")
		want := map[string]string{}
		explicit := map[string]bool{}
		var order []string // sources in written order
		nItems := 2 + rng.Intn(5)
		merges := 0
		for j := 0; j < nItems; j++ {
			switch rng.Intn(3) {
			case 0:
				k := core.Pick(rng, pool)
				if explicit[k] {
					continue
				}
				explicit[k] = true
				want[k] = "explicit-" + k
				fmt.Fprintf(&b, "  %s: explicit-%s\n", k, k)
			case 1:
				sn := core.Pick(rng, names)
				order = append(order, sn)
				merges++
				fmt.Fprintf(&b, "  <<: *%s\n", sn)
			default:
				s1, s2 := core.Pick(rng, names), core.Pick(rng, names)
				order = append(order, s1, s2)
				merges++
				fmt.Fprintf(&b, "  <<: [*%s, *%s]\n", s1, s2)
			}
		}
		for _, sn := range order {
			for _, k := range srcKeys[sn] {
				if _, have := want[k]; !have {
					want[k] = sn + "-" + k
				}
			}
		}
		src := b.String()
		var root yaml.Node
		if err := yaml.Unmarshal([]byte(src), &root); err != nil {
			continue // yaml.v3's parser refuses the text: not an input of DecodeYAML
		}
		c.res.OracleChecks++
		res, finished := decodeWithTimeout(&root, 20*time.Second)
		desc := map[string]any{"document": src}
		if !finished || res.pn != "" || res.err != nil {
			c.res.Fail(core.OracleFailure{What: "DecodeYAML fails on an acyclic document with repeated merge keys", Input: desc, Got: fmt.Sprint(finished, res.pn, res.err)})
			continue
		}
		got := map[string]string{}
		if top, ok := res.v.(*ordered.MapSA); ok {
			if mv, ok := top.Get("m"); ok {
				if mm, ok := mv.(*ordered.MapSA); ok {
					mm.Range(func(k string, v any) error { got[k] = fmt.Sprint(v); return nil })
				}
			}
		}
		if !reflect.DeepEqual(got, want) {
			c.res.Fail(core.OracleFailure{What: "merge precedence: explicit keys beat merged ones, earlier sources beat later ones (across repeated << keys and sequences of sources)", Input: desc, Got: fmt.Sprint(got), Want: fmt.Sprint(want)})
		}
		c.res.Case("precedence:"+src, merges > 0)
		if merges > 1 {
			c.res.Hist("precedence.repeated-merge-keys")
		}
	}
	c.res.Rule = "flow-style YAML documents with 0-5 anchored definitions (mappings, sequences, scalars; later ones referring to earlier ones) and a body using aliases as values and keys, single / repeated / sequence / inline merges at any position; parsed by the real yaml.v3; one case in four additionally gets a back-edge by graph surgery (alias retarget, direct merge edge, sequence back-edge, self value). Compared: decoded value (order-preserving) or error class (recursion / other). Non-trivial = the document uses at least one alias; distinct by (document, surgery)."
	mm, total, err := core.RunSessions(c.driver, shards, 20, 0)
	c.res.ModelRequests = total
	c.res.Mismatches = mm
	return err
}

// nodeGraphAcyclic: no node is reachable from itself through content and alias edges.
func nodeGraphAcyclic(root *yaml.Node) bool {
	const (
		grey  = 1
		black = 2
	)
	state := map[*yaml.Node]int{}
	var visit func(n *yaml.Node) bool
	visit = func(n *yaml.Node) bool {
		if n == nil {
			return true
		}
		switch state[n] {
		case grey:
			return false
		case black:
			return true
		}
		state[n] = grey
		if n.Kind == yaml.AliasNode && !visit(n.Alias) {
			return false
		}
		for _, ch := range n.Content {
			if !visit(ch) {
				return false
			}
		}
		state[n] = black
		return true
	}
	return visit(root)
}

// normNums: yaml.v3 and DecodeYAML agree on scalar typing; normalise container types only.
func normNums(v any) any {
	switch t := v.(type) {
	case map[string]any:
		out := map[string]any{}
		for k, x := range t {
			out[k] = normNums(x)
		}
		return out
	case map[any]any:
		out := map[string]any{}
		for k, x := range t {
			out[fmt.Sprint(k)] = normNums(x)
		}
		return out
	case []any:
		out := make([]any, len(t))
		for i, x := range t {
			out[i] = normNums(x)
		}
		return out
	}
	return v
}
