package main

import (
	"encoding/json"
	"os"
)

// knownFindings: entries of /verif/known_findings.json for one property.
// The file is only ever read here.
type knownEntry struct {
	ID       string   `json:"id"`
	Property string   `json:"property"`
	Status   string   `json:"status"` // "finding" | "fixed"
	What     string   `json:"what"`
	Match    string   `json:"match"` // name of a match predicate implemented in the harness
	Probe    any      `json:"probe"`
	Also     []string `json:"also"`
}

type knownFindings struct {
	entries []knownEntry
}

func loadKnown(path, prop string) *knownFindings {
	k := &knownFindings{}
	b, err := os.ReadFile(path)
	if err != nil {
		return k
	}
	var doc struct {
		Findings []knownEntry `json:"findings"`
	}
	if json.Unmarshal(b, &doc) != nil {
		return k
	}
	for _, e := range doc.Findings {
		applies := e.Property == prop
		for _, a := range e.Also {
			if a == prop {
				applies = true
			}
		}
		if applies && e.Status == "finding" {
			k.entries = append(k.entries, e)
		}
	}
	return k
}

// has reports whether a finding with this match predicate is listed (so failures it explains are known).
func (k *knownFindings) has(match string) (string, bool) {
	for _, e := range k.entries {
		if e.Match == match {
			return e.ID, true
		}
	}
	return "", false
}

// probeDocuments: the minimal failing documents recorded with the findings that apply to this property;
// document-driven checks run them first, so every listed finding is exercised (and reported) on every run.
func (k *knownFindings) probeDocuments() [][]byte {
	var out [][]byte
	for _, e := range k.entries {
		if m, ok := e.Probe.(map[string]any); ok {
			if d, ok := m["document"].(string); ok && d != "" {
				out = append(out, []byte(d))
			}
		}
	}
	return out
}
